(define-library (scheme base)
    (import (ruschm base))
    (export apply car cdr eqv? eq? cons boolean? char? number? string? symbol? pair? procedure? vector? boolean=? not
        + - * / = < <= > >=
        abs min max sqrt exp ln log sin cos tan asin acos atan atan2 floor ceiling exact floor-quotient floor-remainder newline vector make-vector
        vector-length vector-ref vector-set!
        caar cadr cdar cddr caaar caadr cadar caddr cdaar cdadr cddar cdddr
        list make-list null? append
        memq memv
        map for-each fold-left fold-right
        list-tail list-ref last-pair head atom? equal? list?
    )
    (begin
        ;These functions come mostly from [minischeme](https://github.com/catseye/minischeme)

        (define (caar x) (car (car x)))
        (define (cadr x) (car (cdr x)))
        (define (cdar x) (cdr (car x)))
        (define (cddr x) (cdr (cdr x)))
        (define (caaar x) (car (car (car x))))
        (define (caadr x) (car (car (cdr x))))
        (define (cadar x) (car (cdr (car x))))
        (define (caddr x) (car (cdr (cdr x))))
        (define (cdaar x) (cdr (car (car x))))
        (define (cdadr x) (cdr (car (cdr x))))
        (define (cddar x) (cdr (cdr (car x))))
        (define (cdddr x) (cdr (cdr (cdr x))))

        (define (list . x) x)

        (define (make-list k fill) (if (> k 0) (cons fill (make-list (- k 1) fill)) '()))

        (define (null? x) (eqv? x '()))


        (define (append . lsts)
        (cond
            ((null? lsts) '())
            ((null? (cdr lsts)) (car lsts))
            ((null? (car lsts)) (apply append (cdr lsts)))
            (else (cons (caar lsts) (apply append (cdar lsts) (cdr lsts))))))


        (define (map proc list)
            (if (pair? list)
                (cons (proc (car list)) (map proc (cdr list)))
                list
            )
        )

        (define filter
            (lambda (pred lst)
              (cond ((null? lst) '())
                    ((pred (car lst)) (cons (car lst) (filter pred (cdr lst))))
                    (else (filterb pred (cdr lst))))))


        (define (for-each proc list)
            (if (pair? list)
                ((lambda () (proc (car list)) (for-each proc (cdr list))))))

        (define (fold-left f init seq)
            (if (null? seq)
                init
                (fold-left f
                           (f (car seq) init)
                           (cdr seq))))

        (define (fold-right f init seq)
            (if (null? seq)
                init
                (f (car seq)
                    (fold-right f init (cdr seq)))))

        (define (list-tail x k)
            (if (= k 0)
                x
                (list-tail (cdr x) (- k 1))))

        (define (list-ref x k)
            (car (list-tail x k)))

        (define (last-pair x)
            (if (pair? (cdr x))
                (last-pair (cdr x))
                x))

        (define (head stream) (car stream))

        ;;;;	atom?
        (define atom?
            (lambda (x)
              (and (not (pair? x)) (not (null? x)))))

        ;;;;	memq
        (define (memq obj lst)
          (cond
            ((null? lst) #f)
            ((eq? obj (car lst)) lst)
            (else (memq obj (cdr lst)))))

        (define (memv obj lst)
          (cond
            ((null? lst) #f)
            ((eqv? obj (car lst)) lst)
            (else (memv obj (cdr lst)))))

        ;;;;    equal?
        (define (equal? x y)
        (if (pair? x)
            (and (pair? y)
                (equal? (car x) (car y))
                (equal? (cdr x) (cdr y)))
            (and (not (pair? y))
                (eqv? x y))))

        (define (list? x)
        (if (eq? x '())
            #t
            (if (pair? x)
                (if (list? (cdr x)) #t #f)
                #f)))

    )
)
