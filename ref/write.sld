(define-library (scheme write)
    (import (ruschm write))
    (export display)
)
