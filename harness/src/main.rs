// Correspondence harness: executes the same line protocol as the OCaml model driver
// against the real ruschm library and prints one canonical line per operation.
use ruschm::error::{ErrorData, SchemeError};
use ruschm::interpreter::error::LogicError;
use ruschm::parser::error::SyntaxError;
use ruschm::values::Number;
use std::io::{self, BufRead, Write};
use std::panic::{catch_unwind, AssertUnwindSafe};

type Num = Number<f32>;

fn parse_number(s: &str) -> Num {
    let (k, body) = s.split_at(1);
    match k {
        "i" => Number::Integer(body.parse().unwrap()),
        "q" => {
            let mut it = body.split('/');
            Number::Rational(it.next().unwrap().parse().unwrap(), it.next().unwrap().parse().unwrap())
        }
        "r" => Number::Real(f32::from_bits(u32::from_str_radix(body, 16).unwrap())),
        _ => panic!("bad number {}", s),
    }
}

fn show_real(r: f32) -> String {
    if r.is_nan() { "rnan".to_string() } else { format!("r{:08x}", r.to_bits()) }
}

fn show_number(n: &Num) -> String {
    match n {
        Number::Integer(i) => format!("i{}", i),
        Number::Rational(a, b) => format!("q{}/{}", a, b),
        Number::Real(r) => show_real(*r),
    }
}

pub fn syntax_kind(e: &SyntaxError) -> &'static str {
    use SyntaxError::*;
    match e {
        TokenMisMatch(..) => "TokenMisMatch",
        UnexpectedCharacter(..) => "UnexpectedCharacter",
        UnexpectedToken(..) => "UnexpectedToken",
        UnexpectedDatum(..) => "UnexpectedDatum",
        UnexpectedPattern(..) => "UnexpectedPattern",
        UnexpectedTemplate(..) => "UnexpectedTemplate",
        UnexpectedEnd => "UnexpectedEnd",
        UnrecognizedToken => "UnrecognizedToken",
        UnknownEscape(..) => "UnknownEscape",
        UnmatchedParentheses => "UnmatchedParentheses",
        DefineNonSymbol(..) => "DefineNonSymbol",
        IllegalParameter(..) => "IllegalParameter",
        InvalidDefinition(..) => "InvalidDefinition",
        LambdaBodyNoExpression => "LambdaBodyNoExpression",
        ExpectSomething(..) => "ExpectSomething",
        IllegalSubImport => "IllegalSubImport",
        InvalidIdentifier(..) => "InvalidIdentifier",
        ImcompleteQuotedIdent(..) => "ImcompleteQuotedIdent",
        RationalDivideByZero => "RationalDivideByZero",
        EmptyCall => "EmptyCall",
        IllegalPattern => "IllegalPattern",
        IllegalDefinition => "IllegalDefinition",
        InvalidDefinitionContext(..) => "InvalidDefinitionContext",
        MacroMissMatch(..) => "MacroMissMatch",
        MacroKeywordMissMatch(..) => "MacroKeywordMissMatch",
        TransformOutMultipleDatum => "TransformOutMultipleDatum",
        Extension(..) => "SyntaxExtension",
    }
}

pub fn logic_kind(e: &LogicError) -> &'static str {
    use LogicError::*;
    match e {
        UnboundedSymbol(..) => "UnboundedSymbol",
        TypeMisMatch(..) => "TypeMisMatch",
        UnexpectedExpression(..) => "UnexpectedExpression",
        DivisionByZero => "DivisionByZero",
        InExactConversion(..) => "InExactConversion",
        InproperList(..) => "InproperList",
        NegativeLength => "NegativeLength",
        VectorIndexOutOfBounds => "VectorIndexOutOfBounds",
        ArgumentMissMatch(..) => "ArgumentMissMatch",
        RequiresMutable(..) => "RequiresMutable",
        MetaCircularSyntax(..) => "MetaCircularSyntax",
        Extension(..) => "LogicExtension",
        LibraryNotFound(..) => "LibraryNotFound",
        LibraryImportCyclic(..) => "LibraryImportCyclic",
    }
}

pub fn show_err(e: &SchemeError) -> String {
    let kind = match &e.data {
        ErrorData::Syntax(s) => syntax_kind(s),
        ErrorData::Logic(l) => logic_kind(l),
        ErrorData::IO(_) => "IOError",
    };
    let loc = match e.location {
        Some([l, c]) => format!("{}:{}", l, c),
        None => "-".to_string(),
    };
    format!("(err {} {})", kind, loc)
}

fn show_bool(b: bool) -> String { if b { "#t".into() } else { "#f".into() } }

fn num_op(op: &str, a: &[Num]) -> String {
    match (op, a) {
        ("add", [x, y]) => show_number(&(*x + *y)),
        ("sub", [x, y]) => show_number(&(*x - *y)),
        ("mul", [x, y]) => show_number(&(*x * *y)),
        ("div", [x, y]) => match *x / *y { Ok(n) => show_number(&n), Err(e) => show_err(&e) },
        ("abs", [x]) => show_number(&x.abs()),
        ("sqrt", [x]) => show_number(&x.sqrt()),
        ("floor", [x]) => show_number(&x.floor()),
        ("ceiling", [x]) => show_number(&x.ceiling()),
        ("floor_quotient", [x, y]) => match x.floor_quotient(*y) { Ok(n) => show_number(&n), Err(e) => show_err(&e) },
        ("floor_remainder", [x, y]) => match x.floor_remainder(*y) { Ok(n) => show_number(&n), Err(e) => show_err(&e) },
        ("exact", [x]) => match x.exact() { Ok(n) => show_number(&n), Err(e) => show_err(&e) },
        ("eq", [x, y]) => show_bool(x == y),
        ("cmp", [x, y]) => match x.partial_cmp(y) {
            None => "none".into(),
            Some(std::cmp::Ordering::Less) => "lt".into(),
            Some(std::cmp::Ordering::Equal) => "eq".into(),
            Some(std::cmp::Ordering::Greater) => "gt".into(),
        },
        ("lt", [x, y]) => show_bool(x < y),
        ("le", [x, y]) => show_bool(x <= y),
        ("gt", [x, y]) => show_bool(x > y),
        ("ge", [x, y]) => show_bool(x >= y),
        _ => panic!("bad NUM op {}", op),
    }
}

fn handle(line: &str) -> String {
    let mut words = line.split(' ');
    match words.next().unwrap() {
        "NUM" => {
            let op = words.next().unwrap();
            let args: Vec<Num> = words.map(parse_number).collect();
            num_op(op, &args)
        }
        "LIT" => {
            let parts: Vec<&str> = words.next().unwrap().split(',').collect();
            let text = format!("{}{}e{}", if parts[0] == "1" { "-" } else { "" }, parts[1], parts[2]);
            show_real(text.parse::<f64>().unwrap() as f32)
        }
        other => panic!("bad line {}", other),
    }
}

fn main() {
    std::panic::set_hook(Box::new(|_| {}));
    let stdin = io::stdin();
    let stdout = io::stdout();
    let mut out = stdout.lock();
    for line in stdin.lock().lines() {
        let line = line.unwrap();
        if line.is_empty() { continue; }
        let r = catch_unwind(AssertUnwindSafe(|| handle(&line)));
        match r {
            Ok(s) => writeln!(out, "{}", s).unwrap(),
            Err(_) => writeln!(out, "(panic)").unwrap(),
        }
    }
}
