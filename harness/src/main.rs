// Correspondence harness: executes the same line protocol as the OCaml model driver
// (ocaml/driver.ml) against the real ruschm library and prints one canonical line per
// operation. Lines between two RESETs form a case; every case runs on a fresh thread with a
// large stack (the syntax table of ruschm is thread-local, so a fresh thread is a fresh
// world). What the interpreter writes to the process's standard output (display, newline) is
// captured by redirecting fd 1 into a scratch file; protocol output goes to the original fd 1.
// Every match on an enum of the repository ends in a wildcard arm: a new variant (a new error kind, a new
// kind of value) must not stop this harness from compiling.
#![allow(unreachable_patterns)]
use ruschm::environment::Environment;
use ruschm::error::{ErrorData, SchemeError, ToLocated};
use ruschm::interpreter::error::LogicError;
use ruschm::interpreter::{Interpreter, LibraryFactory};
use ruschm::parser::error::SyntaxError;
use ruschm::parser::pair::GenericPair;
use ruschm::parser::{
    Datum, DatumBody, Lexer, LibraryName, LibraryNameElement, ParameterFormals, Parser, Primitive, TokenData,
    Transformer,
};
use ruschm::values::{Number, Procedure, Value, ValueReference};
use ruschm::{list, param_fixed};
use std::cell::RefCell;
use std::collections::HashMap;
use std::fs::File;
use std::io::{self, BufRead, Read, Seek, SeekFrom, Write};
use std::os::unix::io::{AsRawFd, FromRawFd};
use std::panic::{catch_unwind, AssertUnwindSafe};
use std::path::PathBuf;
use std::rc::Rc;

type Num = Number<f32>;
type Val = Value<f32>;

fn parse_number(s: &str) -> Num {
    let (k, body) = s.split_at(1);
    match k {
        "i" => Number::Integer(body.parse().unwrap()),
        "q" => {
            let mut it = body.split('/');
            Number::Rational(it.next().unwrap().parse().unwrap(), it.next().unwrap().parse().unwrap())
        }
        "r" => Number::Real(f32::from_bits(u32::from_str_radix(body, 16).unwrap())),
        _ => panic!("bad number {}", s),
    }
}

fn show_real(r: f32) -> String {
    if r.is_nan() { "rnan".to_string() } else { format!("r{:08x}", r.to_bits()) }
}

fn show_number(n: &Num) -> String {
    match n {
        Number::Integer(i) => format!("i{}", i),
        Number::Rational(a, b) => format!("q{}/{}", a, b),
        Number::Real(r) => show_real(*r),
        _ => "(number-of-unknown-kind)".to_string(),
    }
}

pub fn syntax_kind(e: &SyntaxError) -> &'static str {
    use SyntaxError::*;
    match e {
        TokenMisMatch(..) => "TokenMisMatch",
        UnexpectedCharacter(..) => "UnexpectedCharacter",
        UnexpectedToken(..) => "UnexpectedToken",
        UnexpectedDatum(..) => "UnexpectedDatum",
        UnexpectedPattern(..) => "UnexpectedPattern",
        UnexpectedTemplate(..) => "UnexpectedTemplate",
        UnexpectedEnd => "UnexpectedEnd",
        UnrecognizedToken => "UnrecognizedToken",
        UnknownEscape(..) => "UnknownEscape",
        UnmatchedParentheses => "UnmatchedParentheses",
        DefineNonSymbol(..) => "DefineNonSymbol",
        IllegalParameter(..) => "IllegalParameter",
        InvalidDefinition(..) => "InvalidDefinition",
        LambdaBodyNoExpression => "LambdaBodyNoExpression",
        ExpectSomething(..) => "ExpectSomething",
        IllegalSubImport => "IllegalSubImport",
        InvalidIdentifier(..) => "InvalidIdentifier",
        ImcompleteQuotedIdent(..) => "ImcompleteQuotedIdent",
        RationalDivideByZero => "RationalDivideByZero",
        EmptyCall => "EmptyCall",
        IllegalPattern => "IllegalPattern",
        IllegalDefinition => "IllegalDefinition",
        InvalidDefinitionContext(..) => "InvalidDefinitionContext",
        MacroMissMatch(..) => "MacroMissMatch",
        MacroKeywordMissMatch(..) => "MacroKeywordMissMatch",
        TransformOutMultipleDatum => "TransformOutMultipleDatum",
        Extension(..) => "SyntaxExtension",
        _ => "SyntaxErrorOfUnknownKind",
    }
}

pub fn logic_kind(e: &LogicError) -> &'static str {
    use LogicError::*;
    match e {
        UnboundedSymbol(..) => "UnboundedSymbol",
        TypeMisMatch(..) => "TypeMisMatch",
        UnexpectedExpression(..) => "UnexpectedExpression",
        DivisionByZero => "DivisionByZero",
        InExactConversion(..) => "InExactConversion",
        InproperList(..) => "InproperList",
        NegativeLength => "NegativeLength",
        VectorIndexOutOfBounds => "VectorIndexOutOfBounds",
        ArgumentMissMatch(..) => "ArgumentMissMatch",
        RequiresMutable(..) => "RequiresMutable",
        MetaCircularSyntax(..) => "MetaCircularSyntax",
        Extension(..) => "LogicExtension",
        LibraryNotFound(..) => "LibraryNotFound",
        LibraryImportCyclic(..) => "LibraryImportCyclic",
        _ => "LogicErrorOfUnknownKind",
    }
}

pub fn show_err(e: &SchemeError) -> String {
    let kind = match &e.data {
        ErrorData::Syntax(s) => syntax_kind(s),
        ErrorData::Logic(l) => logic_kind(l),
        ErrorData::IO(_) => "IOError",
        _ => "ErrorOfUnknownKind",
    };
    let loc = match e.location {
        Some([l, c]) => format!("{}:{}", l, c),
        None => "-".to_string(),
    };
    format!("(err {} {})", kind, loc)
}

fn show_bool(b: bool) -> String { if b { "#t".into() } else { "#f".into() } }

fn num_op(op: &str, a: &[Num]) -> String {
    match (op, a) {
        ("add", [x, y]) => show_number(&(*x + *y)),
        ("sub", [x, y]) => show_number(&(*x - *y)),
        ("mul", [x, y]) => show_number(&(*x * *y)),
        ("div", [x, y]) => match *x / *y { Ok(n) => show_number(&n), Err(e) => show_err(&e) },
        ("abs", [x]) => show_number(&x.abs()),
        ("sqrt", [x]) => show_number(&x.sqrt()),
        ("floor", [x]) => show_number(&x.floor()),
        ("ceiling", [x]) => show_number(&x.ceiling()),
        ("floor_quotient", [x, y]) => match x.floor_quotient(*y) { Ok(n) => show_number(&n), Err(e) => show_err(&e) },
        ("floor_remainder", [x, y]) => match x.floor_remainder(*y) { Ok(n) => show_number(&n), Err(e) => show_err(&e) },
        ("exact", [x]) => match x.exact() { Ok(n) => show_number(&n), Err(e) => show_err(&e) },
        ("eq", [x, y]) => show_bool(x == y),
        ("cmp", [x, y]) => match x.partial_cmp(y) {
            None => "none".into(),
            Some(std::cmp::Ordering::Less) => "lt".into(),
            Some(std::cmp::Ordering::Equal) => "eq".into(),
            Some(std::cmp::Ordering::Greater) => "gt".into(),
        },
        ("lt", [x, y]) => show_bool(x < y),
        ("le", [x, y]) => show_bool(x <= y),
        ("gt", [x, y]) => show_bool(x > y),
        ("ge", [x, y]) => show_bool(x >= y),
        _ => panic!("bad NUM op {}", op),
    }
}

fn hex_decode(s: &str) -> Vec<u8> {
    (0..s.len() / 2).map(|i| u8::from_str_radix(&s[2 * i..2 * i + 2], 16).unwrap()).collect()
}
fn hex_str(s: &str) -> String { String::from_utf8(hex_decode(s)).unwrap() }
fn hex_encode(b: &[u8]) -> String { b.iter().map(|x| format!("{:02x}", x)).collect() }
fn hexs(s: &str) -> String { hex_encode(s.as_bytes()) }

thread_local! {
    static TICKS: RefCell<Vec<i32>> = RefCell::new(Vec::new());
}

// ---------------------------------------------------------------------------------------
// stdout capture
// ---------------------------------------------------------------------------------------
struct Capture {
    file: File,
    offset: u64,
}
impl Capture {
    fn take(&mut self) -> Vec<u8> {
        io::stdout().flush().ok();
        let mut buf = Vec::new();
        self.file.seek(SeekFrom::Start(self.offset)).unwrap();
        self.file.read_to_end(&mut buf).unwrap();
        self.offset += buf.len() as u64;
        buf
    }
}

// ---------------------------------------------------------------------------------------
// the world of one case
// ---------------------------------------------------------------------------------------
struct World<'a> {
    insts: HashMap<i64, Interpreter<'a, f32>>,
    vecs: Vec<ValueReference<Vec<Val>>>,
    root: PathBuf,
}

fn show_formals(p: &ParameterFormals) -> String {
    match p.clone().split() {
        Ok((fixed, rest)) => match rest {
            None => format!("({})", fixed.join(" ")),
            Some(r) => if fixed.is_empty() { r } else { format!("({} . {})", fixed.join(" "), r) },
        },
        Err(_) => "(illegal)".to_string(),
    }
}

fn show_value(w: &mut World, v: &Val, depth: usize) -> String {
    if depth > 200 { return "(deep)".to_string(); }
    match v {
        Value::Number(n) => show_number(n),
        Value::Boolean(b) => show_bool(*b),
        Value::Character(c) => format!("(char {})", *c as u32),
        Value::String(s) => format!("(str {})", hexs(s)),
        Value::Symbol(s) => format!("(sym {})", hexs(s)),
        Value::Procedure(Procedure::User(sp, _)) => format!("(proc user {})", hexs(&show_formals(&sp.0))),
        Value::Procedure(Procedure::Builtin(b)) => format!("(proc builtin {})", hexs(&b.name)),
        Value::Vector(r) => {
            let m = match r { ValueReference::Mutable(_) => "m", ValueReference::Immutable(_) => "l" };
            if let Some(id) = w.vecs.iter().position(|x| x.ptr_eq(r)) {
                format!("(vec {} #{})", m, id)
            } else {
                let id = w.vecs.len();
                w.vecs.push(r.clone());
                let cells: Vec<Val> = r.as_ref().iter().cloned().collect();
                let shown: Vec<String> = cells.iter().map(|c| show_value(w, c, depth + 1)).collect();
                format!("(vec {} #{} [{}])", m, id, shown.join(" "))
            }
        }
        Value::Pair(p) => match p.as_ref() {
            GenericPair::Empty => "()".to_string(),
            GenericPair::Some(a, b) => {
                let sa = show_value(w, a, depth + 1);
                let sb = show_value(w, b, depth + 1);
                format!("(pair {} {})", sa, sb)
            }
        },
        Value::Transformer(_) => "(transformer)".to_string(),
        Value::Void => "(void)".to_string(),
        _ => "(value-of-unknown-kind)".to_string(),
    }
}

fn show_outcome(w: &mut World, r: &Result<Option<Val>, SchemeError>) -> String {
    match r {
        Ok(None) => "(ok none)".to_string(),
        Ok(Some(v)) => format!("(ok {})", show_value(w, v, 0)),
        Err(e) => show_err(e),
    }
}

fn take_side(cap: &mut Capture) -> String {
    let t = TICKS.with(|t| {
        let v: Vec<String> = t.borrow().iter().map(|x| x.to_string()).collect();
        t.borrow_mut().clear();
        v.join(",")
    });
    let o = cap.take();
    format!(" t=[{}] o={}", t, hex_encode(&o))
}

fn lname(parts: &[String]) -> LibraryName {
    LibraryName(parts.iter().map(|p| LibraryNameElement::Identifier(p.clone())).collect())
}

fn tick_factory<'a>() -> LibraryFactory<'a, f32> {
    LibraryFactory::Native(
        lname(&["verif".to_string(), "tick".to_string()]),
        Box::new(|| {
            vec![(
                "tick".to_string(),
                Value::Procedure(Procedure::new_builtin_pure(
                    "tick".to_string(),
                    param_fixed!["id", "value"],
                    |args| {
                        let mut it = args.into_iter();
                        let id = it.next().unwrap();
                        let v = it.next().unwrap();
                        match id {
                            Value::Number(Number::Integer(i)) => {
                                TICKS.with(|t| t.borrow_mut().push(i));
                                Ok(v)
                            }
                            other => Err(ErrorData::Logic(LogicError::TypeMisMatch(
                                other.to_string(),
                                ruschm::values::Type::Integer,
                            ))
                            .no_locate()),
                        }
                    },
                )),
            )]
        }),
    )
}

fn lib4_factory<'a>() -> LibraryFactory<'a, f32> {
    LibraryFactory::Native(
        lname(&["verif".to_string(), "lib4".to_string()]),
        Box::new(|| {
            vec![
                ("a".to_string(), Value::Number(Number::Integer(1))),
                ("b".to_string(), Value::Number(Number::Integer(2))),
                ("c".to_string(), Value::Number(Number::Integer(3))),
                ("d".to_string(), Value::Number(Number::Integer(4))),
            ]
        }),
    )
}

fn show_prim(p: &Primitive) -> String {
    match p {
        Primitive::String(s) => format!("(str {})", hexs(s)),
        Primitive::Character(c) => format!("(char {})", *c as u32),
        Primitive::Boolean(b) => show_bool(*b),
        Primitive::Integer(i) => format!("i{}", i),
        Primitive::Rational(a, b) => format!("q{}/{}", a, b),
        Primitive::Real(s) => format!("(real {})", hexs(s)),
    }
}

fn show_token(t: &TokenData) -> String {
    match t {
        TokenData::Identifier(s) => format!("(id {})", hexs(s)),
        TokenData::Primitive(p) => show_prim(p),
        TokenData::LeftParen => "LP".into(),
        TokenData::RightParen => "RP".into(),
        TokenData::VecConsIntro => "VEC".into(),
        TokenData::ByteVecConsIntro => "BVEC".into(),
        TokenData::Quote => "QUOTE".into(),
        TokenData::Quasiquote => "QUASI".into(),
        TokenData::Unquote => "UNQ".into(),
        TokenData::UnquoteSplicing => "UNQS".into(),
        TokenData::Period => "DOT".into(),
    }
}

fn show_loc_suffix(l: Option<[u32; 2]>) -> String {
    match l { Some([a, b]) => format!("@{}:{}", a, b), None => String::new() }
}

fn show_datum(d: &Datum) -> String {
    let body = match &d.data {
        DatumBody::Primitive(p) => show_prim(p),
        DatumBody::Symbol(s) => format!("(sym {})", hexs(s)),
        DatumBody::Pair(p) => match p.as_ref() {
            GenericPair::Empty => "()".to_string(),
            GenericPair::Some(a, b) => format!("(pair {} {})", show_datum(a), show_datum(b)),
        },
        DatumBody::Vector(v) => format!("(vec [{}])", v.iter().map(show_datum).collect::<Vec<_>>().join(" ")),
    };
    format!("{}{}", body, show_loc_suffix(d.location))
}

fn lex_text(text: &str) -> String {
    let mut out = Vec::new();
    for t in Lexer::from_char_stream(text.chars()) {
        match t {
            Ok(tok) => out.push(format!("{}{}", show_token(&tok.data), show_loc_suffix(tok.location))),
            Err(e) => return show_err(&e),
        }
    }
    out.join(" ")
}

fn read_text(text: &str) -> String {
    let mut parser = Parser::from_lexer(Lexer::from_char_stream(text.chars()));
    let mut out = Vec::new();
    loop {
        match parser.verif_next_datum() {
            Ok(Some(d)) => out.push(show_datum(&d)),
            Ok(None) => break,
            Err(e) => return show_err(&e),
        }
    }
    out.join(" ")
}

fn file_path(w: &World, dir: &str, parts: &[String]) -> PathBuf {
    // a program file is addressed by one component that ends in ".scm"; anything else is the
    // name of a library, stored at <dir>/<components...>.sld
    let mut p = w.root.join(dir);
    if parts.len() == 1 && parts[0].ends_with(".scm") {
        p.push(&parts[0]);
        p
    } else {
        for c in parts { p.push(c); }
        let mut s = p.into_os_string();
        s.push(".sld");
        PathBuf::from(s)
    }
}

fn handle(w: &mut World, cap: &mut Capture, line: &str) -> String {
    let words: Vec<&str> = line.split(' ').collect();
    match words[0] {
        "NUM" => {
            let args: Vec<Num> = words[2..].iter().map(|s| parse_number(s)).collect();
            num_op(words[1], &args)
        }
        "LIT" => {
            let parts: Vec<&str> = words[1].split(',').collect();
            let text = format!("{}{}e{}", if parts[0] == "1" { "-" } else { "" }, parts[1], parts[2]);
            show_real(text.parse::<f64>().unwrap() as f32)
        }
        "FUEL" => "ok".to_string(),
        "NEW" => {
            let i: i64 = words[1].parse().unwrap();
            // the public constructors: new_with_stdlib() for a standard instance, default() for a bare one
            let mut it = if words[2] == "std" { Interpreter::<f32>::new_with_stdlib() } else { Interpreter::<f32>::default() };
            it.register_library_factory(tick_factory());
            it.register_library_factory(lib4_factory());
            w.insts.insert(i, it);
            "ok".to_string()
        }
        "EVAL" => {
            let i: i64 = words[1].parse().unwrap();
            let text = hex_str(words[2]);
            let r = w.insts.get_mut(&i).unwrap().eval(text.chars());
            let o = show_outcome(w, &r);
            format!("{}{}", o, take_side(cap))
        }
        "DEVAL" => {
            let i: i64 = words[1].parse().unwrap();
            let text = hex_str(words[2]);
            let mut parser = Parser::from_lexer(Lexer::from_char_stream(text.chars()));
            match parser.next() {
                Some(Ok(stmt @ ruschm::parser::Statement::Expression(_))) => {
                    ruschm::verif::reset();
                    let r = w.insts.get_mut(&i).unwrap().eval_root_ast(&stmt);
                    let d = ruschm::verif::max_depth();
                    ruschm::verif::reset();
                    let o = show_outcome(w, &r);
                    format!("{}{} d={}", o, take_side(cap), d)
                }
                _ => "(not-an-expression)".to_string(),
            }
        }
        "PROG" => {
            let i: i64 = words[1].parse().unwrap();
            let text = hex_str(words[2]);
            let mut outs = Vec::new();
            let parser = Parser::from_lexer(Lexer::from_char_stream(text.chars()));
            for stmt in parser {
                let r = match stmt {
                    Ok(s) => w.insts.get_mut(&i).unwrap().eval_root_ast(&s),
                    Err(e) => Err(e),
                };
                let stop = r.is_err();
                outs.push(show_outcome(w, &r));
                if stop { break; }
            }
            format!("{}{}", outs.join(";"), take_side(cap))
        }
        "EVALD" => {
            let i: i64 = words[1].parse().unwrap();
            let text = hex_str(words[2]);
            let r = w.insts.get_mut(&i).unwrap().eval(text.chars());
            let o = match &r {
                Ok(Some(v)) => format!("(disp {})", hexs(&format!("{}", v))),
                Ok(None) => "(disp-none)".to_string(),
                Err(e) => show_err(e),
            };
            format!("{}{}", o, take_side(cap))
        }
        "DEFNUM" => {
            let i: i64 = words[1].parse().unwrap();
            let name = hex_str(words[2]);
            w.insts.get(&i).unwrap().env.define(name, Value::Number(parse_number(words[3])));
            "ok".to_string()
        }
        "ENV" => {
            let i: i64 = words[1].parse().unwrap();
            let env: Rc<Environment<f32>> = w.insts.get(&i).unwrap().env.clone();
            let mut items: Vec<(String, Val)> = Vec::new();
            {
                let mut defs = env.iter_local_definitions();
                while let Some((k, v)) = defs.next() {
                    items.push((k.clone(), v.clone()));
                }
            }
            items.sort_by(|a, b| a.0.as_bytes().cmp(b.0.as_bytes()));
            items
                .iter()
                .map(|(k, v)| {
                    let sv = match v {
                        Value::Procedure(_) => "(proc)".to_string(),
                        other => show_value(w, other, 0),
                    };
                    format!("{}={}", hexs(k), sv)
                })
                .collect::<Vec<_>>()
                .join(" ")
        }
        "LEX" => lex_text(&hex_str(words[1])),
        "READ" => read_text(&hex_str(words[1])),
        "FILE" => {
            let dir = hex_str(words[1]);
            let parts: Vec<String> = words[2].split(',').map(hex_str).collect();
            let path = file_path(w, &dir, &parts);
            std::fs::create_dir_all(path.parent().unwrap()).unwrap();
            match words[3] {
                "BAD" => std::fs::write(&path, [0x28u8, 0xff, 0xfe, 0x29, 0x0a]).unwrap(),
                "DIR" => std::fs::create_dir_all(&path).unwrap(),
                h => std::fs::write(&path, hex_decode(h)).unwrap(),
            }
            "ok".to_string()
        }
        "RUNFILE" => {
            let i: i64 = words[1].parse().unwrap();
            let dir = hex_str(words[2]);
            let file = hex_str(words[3]);
            let path = file_path(w, &dir, &[file]);
            let it = w.insts.get_mut(&i).unwrap();
            it.program_directory = path.parent().map(|p| p.to_owned());
            let mut outs = Vec::new();
            let fin: Result<Option<Val>, SchemeError>;
            match ruschm::io::file_char_stream(&path) {
                Err(e) => {
                    let e: SchemeError = e.into();
                    outs.push(show_err(&e));
                    fin = Err(e);
                }
                Ok(chars) => {
                    let parser = Parser::from_lexer(Lexer::from_char_stream(chars));
                    let mut last: Result<Option<Val>, SchemeError> = Ok(None);
                    for stmt in parser {
                        let r = match stmt {
                            Ok(s) => w.insts.get_mut(&i).unwrap().eval_root_ast(&s),
                            Err(e) => Err(e),
                        };
                        let stop = r.is_err();
                        outs.push(show_outcome(w, &r));
                        last = r;
                        if stop { break; }
                    }
                    fin = last;
                }
            }
            let f = show_outcome(w, &fin);
            format!("{}|{}{}", outs.join(";"), f, take_side(cap))
        }
        "REGSRC" => {
            let i: i64 = words[1].parse().unwrap();
            let parts: Vec<String> = words[2].split(',').map(hex_str).collect();
            let name = lname(&parts);
            let text = hex_str(words[3]);
            match LibraryFactory::from_char_stream(&name, text.chars()) {
                Ok(f) => {
                    w.insts.get_mut(&i).unwrap().register_library_factory(f);
                    "ok".to_string()
                }
                Err(e) => show_err(&e),
            }
        }
        "EXPAND" => {
            // EXPAND i keyword use-text: the transformer bound to keyword in instance i's root
            // frame applied to the use with its first element removed
            let i: i64 = words[1].parse().unwrap();
            let kw = hex_str(words[2]);
            let text = hex_str(words[3]);
            let tr: Option<Transformer> = match w.insts.get(&i).unwrap().env.get(&kw) {
                Some(v) => match &*v { Value::Transformer(t) => Some(t.clone()), _ => None },
                None => None,
            };
            match tr {
                None => "(no-transformer)".to_string(),
                Some(t) => {
                    let mut parser = Parser::from_lexer(Lexer::from_char_stream(text.chars()));
                    match parser.verif_next_datum() {
                        Ok(Some(d)) => {
                            let loc = d.location;
                            match d.data {
                                DatumBody::Pair(mut p) => match p.pop_proper() {
                                    Ok(Some(_)) => match t.transform(&kw, DatumBody::Pair(p).locate(loc)) {
                                        Ok(out) => show_datum(&out),
                                        Err(e) => show_err(&e),
                                    },
                                    _ => "(bad-use)".to_string(),
                                },
                                _ => "(bad-use)".to_string(),
                            }
                        }
                        Ok(None) => "(bad-use)".to_string(),
                        Err(e) => show_err(&e),
                    }
                }
            }
        }
        "PRINTF" => {
            let x = f32::from_bits(u32::from_str_radix(words[1], 16).unwrap());
            format!("(disp {})", hexs(&format!("{}", Number::<f32>::Real(x))))
        }
        "REPL" => {
            // the built ruschm binary driven over a pipe, in a scratch working directory
            let bin = std::env::var("RUSCHM_BIN").unwrap_or_else(|_| "/verif/.cache/ruschm-target/debug/ruschm".to_string());
            let mut input = Vec::new();
            for hword in &words[1..] {
                if *hword != "-" { input.extend(hex_decode(hword)); }
                input.push(b'\n');
            }
            let cwd = w.root.join("cwd");
            let mut child = std::process::Command::new(bin)
                .current_dir(&cwd)
                .stdin(std::process::Stdio::piped())
                .stdout(std::process::Stdio::piped())
                .stderr(std::process::Stdio::piped())
                .spawn()
                .unwrap();
            child.stdin.take().unwrap().write_all(&input).unwrap();
            let outp = child.wait_with_output().unwrap();
            if !outp.status.success() {
                return format!("(repl-exit {:?})", outp.status.code());
            }
            let so = outp.stdout;
            let banner_end = so.iter().position(|b| *b == b'\n').map(|p| p + 1).unwrap_or(0);
            let farewell = b"exited. have a nice day.\n";
            let end = if so.ends_with(farewell) { so.len() - farewell.len() } else { so.len() };
            let body = if banner_end <= end { &so[banner_end..end] } else { &so[0..0] };
            let errs = outp.stderr.iter().filter(|b| **b == b'\n').count();
            format!("(repl out={} errs={})", hex_encode(body), errs)
        }
        "RUNBIN" => {
            // the built binary on a program file of the scratch tree, from another working directory
            let bin = std::env::var("RUSCHM_BIN").unwrap_or_else(|_| "/verif/.cache/ruschm-target/debug/ruschm".to_string());
            let dir = hex_str(words[1]);
            let file = hex_str(words[2]);
            let path = file_path(w, &dir, &[file]);
            let elsewhere = w.root.join("elsewhere");
            std::fs::create_dir_all(&elsewhere).unwrap();
            // optional 4th word "rel": name the program by a relative path with a directory part
            let rel = words.len() > 3 && words[3] == "rel";
            let path = if rel {
                std::path::PathBuf::from("..").join(path.strip_prefix(&w.root).unwrap())
            } else { path };
            let outp = std::process::Command::new(bin)
                .arg(&path)
                .current_dir(&elsewhere)
                .stdin(std::process::Stdio::null())
                .output()
                .unwrap();
            let status = outp.status.code().unwrap_or(-99);
            // strip ANSI colour sequences
            let raw = String::from_utf8_lossy(&outp.stderr).to_string();
            let mut err = String::new();
            let mut it = raw.chars().peekable();
            while let Some(ch) = it.next() {
                if ch == '\u{1b}' {
                    while let Some(x) = it.next() { if x == 'm' { break; } }
                } else { err.push(ch); }
            }
            let p = path.to_string_lossy().to_string();
            let diag = if err.trim().is_empty() { "none".to_string() }
                else if let Some(rest) = err.strip_prefix(&p) {
                    // FILE:LINE:COL  MESSAGE   or   FILE  MESSAGE
                    if rest.starts_with(':') {
                        let mut parts = rest[1..].splitn(3, |c: char| c == ':' || c == ' ');
                        let l = parts.next().unwrap_or("?");
                        let c = parts.next().unwrap_or("?");
                        format!("{}:{}", l, c)
                    } else { "-".to_string() }
                } else { format!("(unexpected {})", hexs(&err)) };
            let nl = err.matches('\n').count();
            let diag = if nl > 1 && status != 101 { format!("{}+{}lines", diag, nl) } else { diag };
            format!("(run out={} status={} diag={})", hex_encode(&outp.stdout), status, diag)
        }
        "ROUNDTRIP" => {
            let i: i64 = words[1].parse().unwrap();
            let text = hex_str(words[2]);
            let r = w.insts.get_mut(&i).unwrap().eval(text.chars());
            let out = match r {
                Ok(Some(v)) => {
                    let t = format!("{}", v);
                    let quoted = format!("(quote {})", t);
                    let r2 = w.insts.get_mut(&i).unwrap().eval(quoted.chars());
                    let saved = std::mem::take(&mut w.vecs);
                    let a = show_value(w, &v, 0);
                    w.vecs.clear();
                    let b = match &r2 { Ok(Some(v2)) => show_value(w, v2, 0), other => show_outcome(w, other) };
                    w.vecs = saved;
                    format!("(rt {} | {} | {})", hexs(&t), a, b)
                }
                other => show_outcome(w, &other),
            };
            take_side(cap);
            out
        }
        "BRACKET" => show_bool(ruschm::repl::verif_check_bracket_closed(&hex_str(words[1]))),
        other => panic!("bad line {}", other),
    }
}

fn run_case(lines: Vec<String>, cap_path: PathBuf, scratch: PathBuf, case_no: usize) -> (Vec<String>, bool) {
    // a line that does not answer within the limit (an evaluation that does not terminate) is reported as
    // (timeout), and so is the rest of its case; the caller then hands the remaining cases to a fresh process
    let limit = std::env::var("VHARNESS_LINE_TIMEOUT").ok().and_then(|v| v.parse::<u64>().ok()).unwrap_or(30);
    let n = lines.len();
    let (tx, rx) = std::sync::mpsc::channel::<String>();
    let handle_thread = std::thread::Builder::new()
        .stack_size(1 << 30)
        .spawn(move || {
            let root = scratch.join(format!("case{}", case_no));
            let cwd = root.join("cwd");
            std::fs::create_dir_all(&cwd).unwrap();
            std::env::set_current_dir(&cwd).unwrap();
            let file = File::open(&cap_path).unwrap();
            let offset = file.metadata().unwrap().len();
            let mut cap = Capture { file, offset };
            io::stdout().flush().ok();
            cap.take();
            ruschm::verif::reset();
            TICKS.with(|t| t.borrow_mut().clear());
            let mut w = World { insts: HashMap::new(), vecs: Vec::new(), root: root.clone() };
            for line in &lines {
                let r = catch_unwind(AssertUnwindSafe(|| handle(&mut w, &mut cap, line)));
                let s = match r {
                    Ok(s) => s,
                    Err(_) => {
                        ruschm::verif::reset();
                        TICKS.with(|t| t.borrow_mut().clear());
                        cap.take();
                        "(panic)".to_string()
                    }
                };
                if tx.send(s).is_err() { return; }
            }
            drop(w);
            std::env::set_current_dir("/").ok();
            std::fs::remove_dir_all(&root).ok();
        })
        .unwrap();
    let mut out = Vec::new();
    let mut timed_out = false;
    for _ in 0..n {
        match rx.recv_timeout(std::time::Duration::from_secs(limit)) {
            Ok(s) => out.push(s),
            Err(std::sync::mpsc::RecvTimeoutError::Timeout) => { timed_out = true; break; }
            Err(std::sync::mpsc::RecvTimeoutError::Disconnected) => break,
        }
    }
    if timed_out {
        while out.len() < n { out.push("(timeout)".to_string()); }
        return (out, true);
    }
    handle_thread.join().unwrap();
    (out, false)
}

fn main() {
    std::panic::set_hook(Box::new(|_| {}));
    // redirect fd 1 into a capture file; protocol output goes to the saved descriptor
    let scratch_base = std::env::var("VHARNESS_SCRATCH").unwrap_or_else(|_| "/verif/.cache/scratch".to_string());
    let scratch = PathBuf::from(scratch_base).join(format!("h{}", std::process::id()));
    std::fs::create_dir_all(&scratch).unwrap();
    let cap_path = scratch.join("stdout.capture");
    let cap_file = File::create(&cap_path).unwrap();
    let saved = unsafe { libc::dup(1) };
    unsafe { libc::dup2(cap_file.as_raw_fd(), 1) };
    let mut out = unsafe { File::from_raw_fd(saved) };

    let stdin = io::stdin();
    let all: Vec<String> = stdin.lock().lines().map(|l| l.unwrap()).collect();
    let mut case: Vec<String> = Vec::new();
    let mut case_no = 0usize;
    let mut pending_reset = false;
    // returns true when the case ran into the time limit
    let mut flush_case = |case: &mut Vec<String>, pending_reset: bool, out: &mut File, case_no: &mut usize| -> bool {
        let mut timed_out = false;
        if pending_reset { writeln!(out, "ok").unwrap(); }
        if !case.is_empty() {
            let lines = std::mem::take(case);
            *case_no += 1;
            let (res, t) = run_case(lines, cap_path.clone(), scratch.clone(), *case_no);
            timed_out = t;
            for l in res {
                writeln!(out, "{}", l).unwrap();
            }
        }
        out.flush().unwrap();
        timed_out
    };
    // the evaluation that ran into the limit still occupies its thread: the remaining input goes to a fresh process
    let hand_over = |rest: &[String], out: &File, scratch: &PathBuf| -> ! {
        if !rest.is_empty() {
            let exe = std::env::current_exe().unwrap();
            let mut child = std::process::Command::new(exe)
                .stdin(std::process::Stdio::piped())
                .stdout(std::process::Stdio::from(out.try_clone().unwrap()))
                .spawn()
                .unwrap();
            {
                let mut cin = child.stdin.take().unwrap();
                for l in rest { writeln!(cin, "{}", l).unwrap(); }
            }
            child.wait().ok();
        }
        std::fs::remove_dir_all(scratch).ok();
        std::process::exit(0);
    };
    for (idx, line) in all.iter().enumerate() {
        if line.is_empty() { continue; }
        if line == "RESET" {
            if flush_case(&mut case, pending_reset, &mut out, &mut case_no) {
                hand_over(&all[idx..], &out, &scratch);
            }
            pending_reset = true;
        } else {
            if case.is_empty() && pending_reset {
                // the "ok" of RESET is printed before the case's own lines
                writeln!(out, "ok").unwrap();
                pending_reset = false;
            }
            case.push(line.clone());
        }
    }
    if flush_case(&mut case, pending_reset, &mut out, &mut case_no) {
        hand_over(&[], &out, &scratch);
    }
    drop(out);
    std::fs::remove_dir_all(&scratch).ok();
}
