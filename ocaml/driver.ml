(* Driver around the extracted model: reads one operation per line on stdin and prints one
   canonical result line per operation. Hand-written, trusted (line protocol, number
   conversion, canonical printing). *)
open Model

(* ---------- conversions between OCaml ints/strings and the extracted numbers ---------- *)
let rec pos_of_int (i : int) : positive =
  if i = 1 then XH else if i land 1 = 1 then XI (pos_of_int (i lsr 1)) else XO (pos_of_int (i lsr 1))
let z_of_int (i : int) : z = if i = 0 then Z0 else if i > 0 then Zpos (pos_of_int i) else Zneg (pos_of_int (-i))
let n_of_int (i : int) : n = if i = 0 then N0 else Npos (pos_of_int i)
let rec int_of_pos (p : positive) : int =
  match p with XH -> 1 | XO q -> 2 * int_of_pos q | XI q -> 2 * int_of_pos q + 1
let int_of_z (x : z) : int = match x with Z0 -> 0 | Zpos p -> int_of_pos p | Zneg p -> - (int_of_pos p)
let int_of_n (x : n) : int = match x with N0 -> 0 | Npos p -> int_of_pos p
let nat_of_int (i : int) : nat = let rec go i acc = if i <= 0 then acc else go (i - 1) (S acc) in go i O

(* arbitrary-size decimal printing of Z (results normally fit an int; this is for safety) *)
let rec pos_bits (p : positive) : int = match p with XH -> 1 | XO q | XI q -> 1 + pos_bits q
let string_of_z (x : z) : string =
  match x with
  | Z0 -> "0"
  | Zpos p | Zneg p when pos_bits p <= 62 -> string_of_int (int_of_z x)
  | _ -> "BIG"

(* ---------- hex text ---------- *)
let hex_decode (s : string) : string =
  let n = String.length s / 2 in
  String.init n (fun i -> Char.chr (int_of_string ("0x" ^ String.sub s (2 * i) 2)))
let hex_encode (s : string) : string =
  String.concat "" (List.map (fun c -> Printf.sprintf "%02x" (Char.code c)) (List.of_seq (String.to_seq s)))

(* UTF-8 <-> code points *)
let utf8_decode (s : string) : int list =
  let n = String.length s in
  let rec go i acc =
    if i >= n then List.rev acc
    else
      let c = Char.code s.[i] in
      if c < 0x80 then go (i + 1) (c :: acc)
      else if c < 0xe0 then go (i + 2) ((((c land 0x1f) lsl 6) lor (Char.code s.[i+1] land 0x3f)) :: acc)
      else if c < 0xf0 then
        go (i + 3) ((((c land 0x0f) lsl 12) lor ((Char.code s.[i+1] land 0x3f) lsl 6) lor (Char.code s.[i+2] land 0x3f)) :: acc)
      else
        go (i + 4) ((((c land 0x07) lsl 18) lor ((Char.code s.[i+1] land 0x3f) lsl 12)
                     lor ((Char.code s.[i+2] land 0x3f) lsl 6) lor (Char.code s.[i+3] land 0x3f)) :: acc)
  in go 0 []
let utf8_encode (cps : int list) : string =
  let b = Buffer.create 16 in
  List.iter (fun c ->
    if c < 0x80 then Buffer.add_char b (Char.chr c)
    else if c < 0x800 then (Buffer.add_char b (Char.chr (0xc0 lor (c lsr 6))); Buffer.add_char b (Char.chr (0x80 lor (c land 0x3f))))
    else if c < 0x10000 then (Buffer.add_char b (Char.chr (0xe0 lor (c lsr 12)));
                              Buffer.add_char b (Char.chr (0x80 lor ((c lsr 6) land 0x3f)));
                              Buffer.add_char b (Char.chr (0x80 lor (c land 0x3f))))
    else (Buffer.add_char b (Char.chr (0xf0 lor (c lsr 18)));
          Buffer.add_char b (Char.chr (0x80 lor ((c lsr 12) land 0x3f)));
          Buffer.add_char b (Char.chr (0x80 lor ((c lsr 6) land 0x3f)));
          Buffer.add_char b (Char.chr (0x80 lor (c land 0x3f))))) cps;
  Buffer.contents b
let str_of_string (s : string) : str = List.map n_of_int (utf8_decode s)
let string_of_str (s : str) : string = utf8_encode (List.map int_of_n s)
let hex_of_str (s : str) : string = hex_encode (string_of_str s)

(* ---------- numbers ---------- *)
let parse_number (s : string) : number =
  match s.[0] with
  | 'i' -> NInt (z_of_int (int_of_string (String.sub s 1 (String.length s - 1))))
  | 'q' ->
      let body = String.sub s 1 (String.length s - 1) in
      let k = String.index body '/' in
      NRat (z_of_int (int_of_string (String.sub body 0 k)),
            z_of_int (int_of_string (String.sub body (k + 1) (String.length body - k - 1))))
  | 'r' -> NReal (f32_of_bits (z_of_int (int_of_string ("0x" ^ String.sub s 1 (String.length s - 1)))))
  | _ -> failwith ("bad number " ^ s)

let show_real (r : f32) : string =
  (match r with B754_nan -> "rnan" | _ -> Printf.sprintf "r%08x" (int_of_z (bits_of_f32 r)))
let show_number (x : number) : string =
  match x with
  | NInt z -> "i" ^ string_of_z z
  | NRat (a, b) -> "q" ^ string_of_z a ^ "/" ^ string_of_z b
  | NReal r -> show_real r

let errkind_name (k : errkind) : string =
  match k with
  | TokenMisMatch -> "TokenMisMatch" | UnexpectedCharacter -> "UnexpectedCharacter"
  | UnexpectedToken -> "UnexpectedToken" | UnexpectedDatum -> "UnexpectedDatum"
  | UnexpectedPattern -> "UnexpectedPattern" | UnexpectedTemplate -> "UnexpectedTemplate"
  | UnexpectedEnd -> "UnexpectedEnd" | UnrecognizedToken -> "UnrecognizedToken"
  | UnknownEscape -> "UnknownEscape" | UnmatchedParentheses -> "UnmatchedParentheses"
  | DefineNonSymbol -> "DefineNonSymbol" | IllegalParameter -> "IllegalParameter"
  | InvalidDefinition -> "InvalidDefinition" | LambdaBodyNoExpression -> "LambdaBodyNoExpression"
  | ExpectSomething -> "ExpectSomething" | IllegalSubImport -> "IllegalSubImport"
  | InvalidIdentifier -> "InvalidIdentifier" | ImcompleteQuotedIdent -> "ImcompleteQuotedIdent"
  | RationalDivideByZero -> "RationalDivideByZero" | EmptyCall -> "EmptyCall"
  | IllegalPattern -> "IllegalPattern" | IllegalDefinition -> "IllegalDefinition"
  | InvalidDefinitionContext -> "InvalidDefinitionContext" | MacroMissMatch -> "MacroMissMatch"
  | MacroKeywordMissMatch -> "MacroKeywordMissMatch"
  | TransformOutMultipleDatum -> "TransformOutMultipleDatum" | SyntaxExtension -> "SyntaxExtension"
  | UnboundedSymbol -> "UnboundedSymbol" | TypeMisMatch -> "TypeMisMatch"
  | UnexpectedExpression -> "UnexpectedExpression" | DivisionByZero -> "DivisionByZero"
  | InExactConversion -> "InExactConversion" | InproperList -> "InproperList"
  | NegativeLength -> "NegativeLength" | VectorIndexOutOfBounds -> "VectorIndexOutOfBounds"
  | ArgumentMissMatch -> "ArgumentMissMatch" | RequiresMutable -> "RequiresMutable"
  | MetaCircularSyntax -> "MetaCircularSyntax" | LogicExtension -> "LogicExtension"
  | LibraryNotFound -> "LibraryNotFound" | LibraryImportCyclic -> "LibraryImportCyclic"
  | IOError -> "IOError"

let show_loc (l : loc) : string =
  match l with None -> "-" | Some (a, b) -> Printf.sprintf "%d:%d" (int_of_n a) (int_of_n b)

let show_res (show : 'a -> string) (r : 'a res) : string =
  match r with
  | Ok a -> show a
  | Err (k, l) -> "(err " ^ errkind_name k ^ " " ^ show_loc l ^ ")"
  | Panic _ -> "(panic)"
  | OutOfFuel -> "(outoffuel)"

let show_bool b = if b then "#t" else "#f"
let show_cmp (c : comparison option) =
  match c with None -> "none" | Some Lt -> "lt" | Some Eq -> "eq" | Some Gt -> "gt"

(* ---------- NUM operations (values.rs API level) ---------- *)
let num_op (op : string) (args : number list) : string =
  match op, args with
  | "add", [a; b] -> show_number (num_add a b)
  | "sub", [a; b] -> show_number (num_sub a b)
  | "mul", [a; b] -> show_number (num_mul a b)
  | "div", [a; b] -> show_res show_number (num_div a b)
  | "abs", [a] -> show_number (num_abs a)
  | "sqrt", [a] -> show_number (num_sqrt a)
  | "floor", [a] -> show_number (num_floor a)
  | "ceiling", [a] -> show_number (num_ceiling a)
  | "floor_quotient", [a; b] -> show_res show_number (num_floor_quotient a b)
  | "floor_remainder", [a; b] -> show_res show_number (num_floor_remainder a b)
  | "exact", [a] -> show_res show_number (num_exact a)
  | "eq", [a; b] -> show_bool (num_eqb a b)
  | "cmp", [a; b] -> show_cmp (num_cmp a b)
  | "lt", [a; b] -> show_bool (num_ltb a b)
  | "le", [a; b] -> show_bool (num_leb a b)
  | "gt", [a; b] -> show_bool (num_gtb a b)
  | "ge", [a; b] -> show_bool (num_geb a b)
  | _ -> failwith ("bad NUM op " ^ op)


(* ---------- world state of the current case ---------- *)
let repo = try Sys.getenv "RUSCHM_SLD_DIR" with Not_found -> (try Sys.getenv "RUSCHM_REPO" with Not_found -> "/repo")
let read_file_str path =
  let ic = open_in_bin path in
  let n = in_channel_length ic in
  let b = really_input_string ic n in close_in ic; b
let sld_path name =
  if Sys.file_exists (Filename.concat repo name) then Filename.concat repo name
  else match name with
    | "grammar.sld" -> Filename.concat repo "src/parser/grammar.sld"
    | "base.sld" -> Filename.concat repo "src/interpreter/library/include/scheme/base.sld"
    | _ -> Filename.concat repo "src/interpreter/library/include/scheme/write.sld"
let grammar_text = lazy (str_of_string (read_file_str (sld_path "grammar.sld")))
(* names of the native procedures the Rust source registers: the first string literal after every
   `function_mapping!(` of base.rs / write.rs (always read from the repository, also in reference mode) *)
let native_names (file : string) : string list =
  let root = try Sys.getenv "RUSCHM_REPO" with Not_found -> "/repo" in
  let text = read_file_str (Filename.concat root ("src/interpreter/library/native/" ^ file)) in
  let key = "function_mapping!(" in
  let n = String.length text and k = String.length key in
  let rec go i acc =
    if i + k > n then List.rev acc
    else if String.sub text i k = key then begin
      let j = ref (i + k) in
      while !j < n && (text.[!j] = ' ' || text.[!j] = '\n' || text.[!j] = '\t' || text.[!j] = '\r') do incr j done;
      if !j < n && text.[!j] = '"' then begin
        let e = String.index_from text (!j + 1) '"' in
        go e (String.sub text (!j + 1) (e - !j - 1) :: acc)
      end else go (i + k) acc
    end else go (i + 1) acc in
  go 0 []
let base_names = lazy (List.map str_of_string (native_names "base.rs"))
let write_names = lazy (List.map str_of_string (native_names "write.rs"))
let base_text = lazy (str_of_string (read_file_str (sld_path "base.sld")))
let write_text = lazy (str_of_string (read_file_str (sld_path "write.sld")))
let syn0 = lazy (initial_syntax (Lazy.force grammar_text))

let w_syn : sframe ref = ref []
let w_st : state ref = ref empty_state
let w_fs : filesys ref = ref []
let w_fresh : bool ref = ref true      (* nothing has happened in this world yet *)
let insts : (int, instance) Hashtbl.t = Hashtbl.create 8
let vec_ids : (int, int) Hashtbl.t = Hashtbl.create 16
let cwd : str = str_of_string "cwd"

let reset () =
  w_syn := Lazy.force syn0; w_st := empty_state; w_fs := []; w_fresh := true;
  Hashtbl.reset insts; Hashtbl.reset vec_ids

let int_of_nat (x : nat) : int = let rec go x acc = match x with O -> acc | S y -> go y (acc + 1) in go x 0

(* ---------- canonical value printing ---------- *)
let rec show_formals (fm : formals) : string =
  let fx = String.concat " " (List.map string_of_str fm.f_fixed) in
  match fm.f_rest with
  | None -> "(" ^ fx ^ ")"
  | Some r -> if fm.f_fixed = [] then string_of_str r else "(" ^ fx ^ " . " ^ string_of_str r ^ ")"

let rec show_value (depth : int) (v : value) : string =
  if depth > 200 then "(deep)" else
  match v with
  | VNum n -> show_number n
  | VBool true -> "#t" | VBool false -> "#f"
  | VChar c -> Printf.sprintf "(char %d)" (int_of_n c)
  | VStr x -> "(str " ^ hex_of_str x ^ ")"
  | VSym x -> "(sym " ^ hex_of_str x ^ ")"
  | VProcU (fm, _, _, _) -> "(proc user " ^ hex_encode (show_formals fm) ^ ")"
  | VProcB name -> "(proc builtin " ^ hex_of_str name ^ ")"
  | VVec (m, a) ->
      let a = int_of_nat a in
      (match Hashtbl.find_opt vec_ids a with
       | Some id -> Printf.sprintf "(vec %s #%d)" (if m then "m" else "l") id
       | None ->
           let id = Hashtbl.length vec_ids in
           Hashtbl.add vec_ids a id;
           let cells = (match List.nth_opt !w_st.vectors a with Some c -> c | None -> []) in
           Printf.sprintf "(vec %s #%d [%s])" (if m then "m" else "l") id
             (String.concat " " (List.map (show_value (depth + 1)) cells)))
  | VNil -> "()"
  | VPair (a, b) -> let sa = show_value (depth + 1) a in let sb = show_value (depth + 1) b in "(pair " ^ sa ^ " " ^ sb ^ ")"
  | VTransformer _ -> "(transformer)"
  | VVoid -> "(void)"

let show_opt_value (o : value option) : string =
  match o with None -> "none" | Some v -> show_value 0 v

let show_outcome (r : value option res) : string =
  match r with
  | Ok o -> "(ok " ^ show_opt_value o ^ ")"
  | other -> show_res (fun _ -> "") other

(* ticks and stdout side channels *)
let take_side () : string =
  let st = !w_st in
  let t = String.concat "," (List.map string_of_z st.ticks) in
  let o = hex_of_str st.out in
  w_st := { st with ticks = []; out = [] };
  Printf.sprintf " t=[%s] o=%s" t o

let get_inst (i : int) : instance =
  match Hashtbl.find_opt insts i with Some x -> x | None -> failwith "no such instance"

let ctx_of (i : int) : ictx = { c_inst = get_inst i; c_st = !w_st; c_syn = !w_syn }
let commit (i : int) (c : ictx) : unit =
  Hashtbl.replace insts i c.c_inst; w_st := c.c_st; w_syn := c.c_syn; w_fresh := false

let lname (parts : string list) : libname = List.map (fun p -> LIdent (str_of_string p)) parts
let tick_lib : library = native_defs tick_table
let lib4 : library =
  List.map (fun (n, v) -> (str_of_string n, VNum (NInt (z_of_int v)))) [("a", 1); ("b", 2); ("c", 3); ("d", 4)]

let fresh_cache : (bool, (instance * state * sframe)) Hashtbl.t = Hashtbl.create 2

let new_inst (i : int) (std : bool) : string =
  let build () =
    let ((ri, st1), syn1) = new_instance (Lazy.force base_text) (Lazy.force write_text) (Lazy.force base_names) (Lazy.force write_names) !w_st !w_syn in
    match ri with
    | Ok inst ->
        let inst = register_factory inst (lname ["verif"; "tick"]) (FNative tick_lib) in
        let inst = register_factory inst (lname ["verif"; "lib4"]) (FNative lib4) in
        if std then begin
          let (r, c) = import_stdlib !w_fs cwd { c_inst = inst; c_st = st1; c_syn = syn1 } in
          match r with
          | Ok _ -> Some (c.c_inst, c.c_st, c.c_syn)
          | _ -> (w_st := c.c_st; w_syn := c.c_syn; None)
        end else Some (inst, st1, syn1)
    | _ -> (w_st := st1; w_syn := syn1; None)
  in
  let r =
    if !w_fresh then begin
      match Hashtbl.find_opt fresh_cache std with
      | Some x -> Some x
      | None -> (match build () with Some x -> Hashtbl.add fresh_cache std x; Some x | None -> None)
    end else build () in
  w_fresh := false;
  match r with
  | Some (inst, st, syn) -> Hashtbl.replace insts i inst; w_st := st; w_syn := syn; "ok"
  | None -> "(panic)"

let efuel_ref = ref default_efuel

let show_tokens (r : (token * pos) list res) : string =
  let show_prim p = match p with
    | PStr x -> "(str " ^ hex_of_str x ^ ")" | PChar c -> Printf.sprintf "(char %d)" (int_of_n c)
    | PBool b -> if b then "#t" else "#f" | PInt z -> "i" ^ string_of_z z
    | PRat (a, b) -> "q" ^ string_of_z a ^ "/" ^ string_of_z b | PReal x -> "(real " ^ hex_of_str x ^ ")" in
  let show_tok t = match t with
    | TIdent x -> "(id " ^ hex_of_str x ^ ")" | TPrim p -> show_prim p
    | TLParen -> "LP" | TRParen -> "RP" | TVecOpen -> "VEC" | TByteVecOpen -> "BVEC" | TQuote -> "QUOTE"
    | TQuasi -> "QUASI" | TUnquote -> "UNQ" | TUnquoteSplicing -> "UNQS" | TPeriod -> "DOT" in
  show_res (fun l -> String.concat " " (List.map (fun (t, (a, b)) ->
      Printf.sprintf "%s@%d:%d" (show_tok t) (int_of_n a) (int_of_n b)) l)) r

let rec show_datum (d : datum) : string =
  let lo l = match l with None -> "" | Some (a, b) -> Printf.sprintf "@%d:%d" (int_of_n a) (int_of_n b) in
  match d with
  | DPrim (p, l) -> (match p with
      | PStr x -> "(str " ^ hex_of_str x ^ ")" | PChar c -> Printf.sprintf "(char %d)" (int_of_n c)
      | PBool b -> if b then "#t" else "#f" | PInt z -> "i" ^ string_of_z z
      | PRat (a, b) -> "q" ^ string_of_z a ^ "/" ^ string_of_z b | PReal x -> "(real " ^ hex_of_str x ^ ")") ^ lo l
  | DSym (x, l) -> "(sym " ^ hex_of_str x ^ ")" ^ lo l
  | DNil l -> "()" ^ lo l
  | DCons (a, b, l) -> "(pair " ^ show_datum a ^ " " ^ show_datum b ^ ")" ^ lo l
  | DVec (v, l) -> "(vec [" ^ String.concat " " (List.map show_datum v) ^ "])" ^ lo l

let handle (line : string) : string =
  match String.split_on_char ' ' line with
  | "NUM" :: op :: args -> num_op op (List.map parse_number args)
  | "LIT" :: [h] ->
      (match String.split_on_char ',' h with
       | [s; m; e] -> show_real (f32_of_decimal (s = "1") (z_of_int (int_of_string m)) (z_of_int (int_of_string e)))
       | _ -> failwith "bad LIT")
  | ["RESET"] -> reset (); efuel_ref := default_efuel; "ok"
  | ["FUEL"; n] -> efuel_ref := nat_of_int (int_of_string n); "ok"
  | ["NEW"; i; kind] -> new_inst (int_of_string i) (kind = "std")
  | ["EVAL"; i; h] ->
      let i = int_of_string i in
      let ((r, c), _) = eval_text !w_fs cwd !efuel_ref (str_of_string (hex_decode h)) (ctx_of i) in
      commit i c; let o = show_outcome r in o ^ take_side ()
  | ["DEVAL"; i; h] ->
      (* one expression through the depth-instrumented evaluator *)
      let i = int_of_string i in
      let c = ctx_of i in
      let text = str_of_string (hex_decode h) in
      (match parse_next c { lrest = text; lpos = (Npos XH, Npos XH); pcur = None; ploc = None } with
       | (Ok (Some (SExpr e), _), c1) ->
           let ((r, st), d) = deval_expr !efuel_ref e c1.c_inst.i_env c1.c_st (O, O) in
           commit i { c1 with c_st = st };
           let r' = (match r with Ok v -> Ok (Some v) | Err (k, l) -> Err (k, loc_or l (eloc e)) | Panic x -> Panic x | OutOfFuel -> OutOfFuel) in
           let o = show_outcome r' in
           o ^ take_side () ^ Printf.sprintf " d=%d" (int_of_nat (snd d))
       | (other, c1) -> commit i c1; "(not-an-expression)")
  | ["PROG"; i; h] ->
      let i = int_of_string i in
      let ((_, c), trace) = eval_text !w_fs cwd !efuel_ref (str_of_string (hex_decode h)) (ctx_of i) in
      commit i c;
      let o = String.concat ";" (List.map show_outcome trace) in o ^ take_side ()
  | ["EVALD"; i; h] ->
      let i = int_of_string i in
      let ((r, c), _) = eval_text !w_fs cwd !efuel_ref (str_of_string (hex_decode h)) (ctx_of i) in
      commit i c;
      (match r with
       | Ok (Some v) -> (match display (nat_of_int 10000) !w_st v with
                         | Some t -> "(disp " ^ hex_of_str t ^ ")" | None -> "(disp-fail)")
       | Ok None -> "(disp-none)"
       | other -> show_outcome other) ^ take_side ()
  | ["DEFNUM"; i; name; num] ->
      let i = int_of_string i in
      let inst = get_inst i in
      w_st := env_define !w_st inst.i_env (str_of_string (hex_decode name)) (VNum (parse_number num));
      w_fresh := false; "ok"
  | ["ENV"; i] ->
      let inst = get_inst (int_of_string i) in
      (match List.nth_opt !w_st.frames (int_of_nat inst.i_env) with
       | None -> "(noenv)"
       | Some fr ->
           let items = List.map (fun (k, v) -> (string_of_str k, v)) fr.f_defs in
           let items = List.sort (fun (a, _) (b, _) -> compare a b) items in
           String.concat " " (List.map (fun (k, v) ->
               hex_encode k ^ "=" ^ (match v with VProcB _ | VProcU _ -> "(proc)" | _ -> show_value 0 v)) items))
  | ["LEX"; h] -> show_tokens (lex_text (str_of_string (hex_decode h)))
  | ["READ"; h] -> show_res (fun l -> String.concat " " (List.map show_datum l)) (read_text (str_of_string (hex_decode h)))
  | ["FILE"; dir; parts; content] ->
      let key = (str_of_string (hex_decode dir), List.map (fun p -> str_of_string (hex_decode p)) (String.split_on_char ',' parts)) in
      let entry = (match content with
        | "BAD" -> FBadUtf8 | "DIR" -> FDir | h -> FFile (str_of_string (hex_decode h))) in
      w_fs := (key, entry) :: !w_fs; "ok"
  | ["RUNFILE"; i; dir; file] ->
      let i = int_of_string i in
      let ((r, c), trace) = eval_file !w_fs cwd !efuel_ref (str_of_string (hex_decode dir))
          [str_of_string (hex_decode file)] (ctx_of i) in
      commit i c;
      String.concat ";" (List.map show_outcome trace) ^ "|" ^ show_outcome r ^ take_side ()
  | ["REGSRC"; i; parts; h] ->
      let i = int_of_string i in
      let name = lname (List.map hex_decode (String.split_on_char ',' parts)) in
      let (r, c) = factory_from_text name (str_of_string (hex_decode h)) (ctx_of i) in
      commit i c;
      (match r with
       | Ok fa -> Hashtbl.replace insts i (register_factory (get_inst i) name fa); "ok"
       | other -> show_res (fun _ -> "") other)
  | ["EXPAND"; i; kw; h] ->
      let inst = get_inst (int_of_string i) in
      let kw = str_of_string (hex_decode kw) in
      (match env_get !w_st inst.i_env kw with
       | Some (VTransformer t) ->
           (match read_text (str_of_string (hex_decode h)) with
            | Ok (DCons (_, rest, l) :: _) ->
                (match rest with
                 | DNil _ | DCons _ -> show_res show_datum (transform_use t (set_dloc rest l))
                 | _ -> "(bad-use)")
            | Ok _ -> "(bad-use)"
            | other -> show_res (fun _ -> "") other)
       | _ -> "(no-transformer)")
  | ["RUNBIN"; dir; file] | ["RUNBIN"; dir; file; _] ->
      (* `ruschm FILE`: a fresh interpreter without the standard library *)
      let fs = !w_fs in
      reset (); w_fs := fs;
      ignore (new_inst 0 false);
      let (rr, _) = run_program !w_fs cwd !efuel_ref (str_of_string (hex_decode dir))
          [str_of_string (hex_decode file)] (ctx_of 0) in
      let diag = (match rr.rr_diag with
        | None -> "none"
        | Some (k, l) -> show_loc l) in
      Printf.sprintf "(run out=%s status=%d diag=%s)" (hex_of_str rr.rr_stdout) (int_of_z rr.rr_status) diag
  | ["ROUNDTRIP"; i; h] ->
      (* evaluate an expression, display the value, read the text back as a quoted datum *)
      let i = int_of_string i in
      let fresh_show v = let saved = Hashtbl.copy vec_ids in Hashtbl.reset vec_ids;
        let s = show_value 0 v in Hashtbl.reset vec_ids; Hashtbl.iter (Hashtbl.replace vec_ids) saved; s in
      let ((r, c), _) = eval_text !w_fs cwd !efuel_ref (str_of_string (hex_decode h)) (ctx_of i) in
      commit i c;
      (match r with
       | Ok (Some v) ->
           (match display (nat_of_int 10000) !w_st v with
            | None -> "(rt-unprintable)"
            | Some t ->
                let quoted = str_of_string "(quote " @ t @ str_of_string ")" in
                let ((r2, c2), _) = eval_text !w_fs cwd !efuel_ref quoted (ctx_of i) in
                commit i c2;
                let back = (match r2 with Ok (Some v2) -> fresh_show v2 | other -> show_outcome other) in
                ignore (take_side ());
                Printf.sprintf "(rt %s | %s | %s)" (hex_of_str t) (fresh_show v) back)
       | other -> ignore (take_side ()); show_outcome other)
  | ["BRACKET"; h] -> show_bool (check_bracket_closed (str_of_string (hex_decode h)))
  | "REPL" :: hs ->
      (* a REPL session on a fresh standard interpreter: input lines (hex, "-" for an empty line) *)
      reset ();
      ignore (new_inst 0 true);
      (* over a pipe rustyline hands each line over with its newline *)
      let lines = List.map (fun h -> (if h = "-" then [] else str_of_string (hex_decode h)) @ [n_of_int 10]) hs in
      let rs = repl_run !w_fs cwd !efuel_ref (ctx_of 0) lines in
      Printf.sprintf "(repl out=%s errs=%d)" (hex_of_str rs.r_out) (List.length rs.r_errors)
  | ["PRINTF"; b] ->
      "(disp " ^ hex_of_str (print_f32 (f32_of_bits (z_of_int (int_of_string ("0x" ^ b))))) ^ ")"
  | _ -> failwith ("bad line " ^ line)

let () =
  reset ();
  try
    while true do
      let line = input_line stdin in
      if line <> "" then begin
        let out = (try handle line with Stack_overflow -> "(model-stack-overflow)") in
        print_string out; print_newline ()
      end
    done
  with End_of_file -> ()
