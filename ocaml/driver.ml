(* Driver around the extracted model: reads one operation per line on stdin and prints one
   canonical result line per operation. Hand-written, trusted (line protocol, number
   conversion, canonical printing). *)
open Model

(* ---------- conversions between OCaml ints/strings and the extracted numbers ---------- *)
let rec pos_of_int (i : int) : positive =
  if i = 1 then XH else if i land 1 = 1 then XI (pos_of_int (i lsr 1)) else XO (pos_of_int (i lsr 1))
let z_of_int (i : int) : z = if i = 0 then Z0 else if i > 0 then Zpos (pos_of_int i) else Zneg (pos_of_int (-i))
let n_of_int (i : int) : n = if i = 0 then N0 else Npos (pos_of_int i)
let rec int_of_pos (p : positive) : int =
  match p with XH -> 1 | XO q -> 2 * int_of_pos q | XI q -> 2 * int_of_pos q + 1
let int_of_z (x : z) : int = match x with Z0 -> 0 | Zpos p -> int_of_pos p | Zneg p -> - (int_of_pos p)
let int_of_n (x : n) : int = match x with N0 -> 0 | Npos p -> int_of_pos p
let rec nat_of_int (i : int) : nat = if i <= 0 then O else S (nat_of_int (i - 1))

(* arbitrary-size decimal printing of Z (results normally fit an int; this is for safety) *)
let rec pos_bits (p : positive) : int = match p with XH -> 1 | XO q | XI q -> 1 + pos_bits q
let string_of_z (x : z) : string =
  match x with
  | Z0 -> "0"
  | Zpos p | Zneg p when pos_bits p <= 62 -> string_of_int (int_of_z x)
  | _ -> "BIG"

(* ---------- hex text ---------- *)
let hex_decode (s : string) : string =
  let n = String.length s / 2 in
  String.init n (fun i -> Char.chr (int_of_string ("0x" ^ String.sub s (2 * i) 2)))
let hex_encode (s : string) : string =
  String.concat "" (List.map (fun c -> Printf.sprintf "%02x" (Char.code c)) (List.of_seq (String.to_seq s)))

(* UTF-8 <-> code points *)
let utf8_decode (s : string) : int list =
  let n = String.length s in
  let rec go i acc =
    if i >= n then List.rev acc
    else
      let c = Char.code s.[i] in
      if c < 0x80 then go (i + 1) (c :: acc)
      else if c < 0xe0 then go (i + 2) ((((c land 0x1f) lsl 6) lor (Char.code s.[i+1] land 0x3f)) :: acc)
      else if c < 0xf0 then
        go (i + 3) ((((c land 0x0f) lsl 12) lor ((Char.code s.[i+1] land 0x3f) lsl 6) lor (Char.code s.[i+2] land 0x3f)) :: acc)
      else
        go (i + 4) ((((c land 0x07) lsl 18) lor ((Char.code s.[i+1] land 0x3f) lsl 12)
                     lor ((Char.code s.[i+2] land 0x3f) lsl 6) lor (Char.code s.[i+3] land 0x3f)) :: acc)
  in go 0 []
let utf8_encode (cps : int list) : string =
  let b = Buffer.create 16 in
  List.iter (fun c ->
    if c < 0x80 then Buffer.add_char b (Char.chr c)
    else if c < 0x800 then (Buffer.add_char b (Char.chr (0xc0 lor (c lsr 6))); Buffer.add_char b (Char.chr (0x80 lor (c land 0x3f))))
    else if c < 0x10000 then (Buffer.add_char b (Char.chr (0xe0 lor (c lsr 12)));
                              Buffer.add_char b (Char.chr (0x80 lor ((c lsr 6) land 0x3f)));
                              Buffer.add_char b (Char.chr (0x80 lor (c land 0x3f))))
    else (Buffer.add_char b (Char.chr (0xf0 lor (c lsr 18)));
          Buffer.add_char b (Char.chr (0x80 lor ((c lsr 12) land 0x3f)));
          Buffer.add_char b (Char.chr (0x80 lor ((c lsr 6) land 0x3f)));
          Buffer.add_char b (Char.chr (0x80 lor (c land 0x3f))))) cps;
  Buffer.contents b
let str_of_string (s : string) : str = List.map n_of_int (utf8_decode s)
let string_of_str (s : str) : string = utf8_encode (List.map int_of_n s)
let hex_of_str (s : str) : string = hex_encode (string_of_str s)

(* ---------- numbers ---------- *)
let parse_number (s : string) : number =
  match s.[0] with
  | 'i' -> NInt (z_of_int (int_of_string (String.sub s 1 (String.length s - 1))))
  | 'q' ->
      let body = String.sub s 1 (String.length s - 1) in
      let k = String.index body '/' in
      NRat (z_of_int (int_of_string (String.sub body 0 k)),
            z_of_int (int_of_string (String.sub body (k + 1) (String.length body - k - 1))))
  | 'r' -> NReal (f32_of_bits (z_of_int (int_of_string ("0x" ^ String.sub s 1 (String.length s - 1)))))
  | _ -> failwith ("bad number " ^ s)

let show_real (r : f32) : string =
  (match r with B754_nan -> "rnan" | _ -> Printf.sprintf "r%08x" (int_of_z (bits_of_f32 r)))
let show_number (x : number) : string =
  match x with
  | NInt z -> "i" ^ string_of_z z
  | NRat (a, b) -> "q" ^ string_of_z a ^ "/" ^ string_of_z b
  | NReal r -> show_real r

let errkind_name (k : errkind) : string =
  match k with
  | TokenMisMatch -> "TokenMisMatch" | UnexpectedCharacter -> "UnexpectedCharacter"
  | UnexpectedToken -> "UnexpectedToken" | UnexpectedDatum -> "UnexpectedDatum"
  | UnexpectedPattern -> "UnexpectedPattern" | UnexpectedTemplate -> "UnexpectedTemplate"
  | UnexpectedEnd -> "UnexpectedEnd" | UnrecognizedToken -> "UnrecognizedToken"
  | UnknownEscape -> "UnknownEscape" | UnmatchedParentheses -> "UnmatchedParentheses"
  | DefineNonSymbol -> "DefineNonSymbol" | IllegalParameter -> "IllegalParameter"
  | InvalidDefinition -> "InvalidDefinition" | LambdaBodyNoExpression -> "LambdaBodyNoExpression"
  | ExpectSomething -> "ExpectSomething" | IllegalSubImport -> "IllegalSubImport"
  | InvalidIdentifier -> "InvalidIdentifier" | ImcompleteQuotedIdent -> "ImcompleteQuotedIdent"
  | RationalDivideByZero -> "RationalDivideByZero" | EmptyCall -> "EmptyCall"
  | IllegalPattern -> "IllegalPattern" | IllegalDefinition -> "IllegalDefinition"
  | InvalidDefinitionContext -> "InvalidDefinitionContext" | MacroMissMatch -> "MacroMissMatch"
  | MacroKeywordMissMatch -> "MacroKeywordMissMatch"
  | TransformOutMultipleDatum -> "TransformOutMultipleDatum" | SyntaxExtension -> "SyntaxExtension"
  | UnboundedSymbol -> "UnboundedSymbol" | TypeMisMatch -> "TypeMisMatch"
  | UnexpectedExpression -> "UnexpectedExpression" | DivisionByZero -> "DivisionByZero"
  | InExactConversion -> "InExactConversion" | InproperList -> "InproperList"
  | NegativeLength -> "NegativeLength" | VectorIndexOutOfBounds -> "VectorIndexOutOfBounds"
  | ArgumentMissMatch -> "ArgumentMissMatch" | RequiresMutable -> "RequiresMutable"
  | MetaCircularSyntax -> "MetaCircularSyntax" | LogicExtension -> "LogicExtension"
  | LibraryNotFound -> "LibraryNotFound" | LibraryImportCyclic -> "LibraryImportCyclic"
  | IOError -> "IOError"

let show_loc (l : loc) : string =
  match l with None -> "-" | Some (a, b) -> Printf.sprintf "%d:%d" (int_of_n a) (int_of_n b)

let show_res (show : 'a -> string) (r : 'a res) : string =
  match r with
  | Ok a -> show a
  | Err (k, l) -> "(err " ^ errkind_name k ^ " " ^ show_loc l ^ ")"
  | Panic _ -> "(panic)"
  | OutOfFuel -> "(outoffuel)"

let show_bool b = if b then "#t" else "#f"
let show_cmp (c : comparison option) =
  match c with None -> "none" | Some Lt -> "lt" | Some Eq -> "eq" | Some Gt -> "gt"

(* ---------- NUM operations (values.rs API level) ---------- *)
let num_op (op : string) (args : number list) : string =
  match op, args with
  | "add", [a; b] -> show_number (num_add a b)
  | "sub", [a; b] -> show_number (num_sub a b)
  | "mul", [a; b] -> show_number (num_mul a b)
  | "div", [a; b] -> show_res show_number (num_div a b)
  | "abs", [a] -> show_number (num_abs a)
  | "sqrt", [a] -> show_number (num_sqrt a)
  | "floor", [a] -> show_number (num_floor a)
  | "ceiling", [a] -> show_number (num_ceiling a)
  | "floor_quotient", [a; b] -> show_res show_number (num_floor_quotient a b)
  | "floor_remainder", [a; b] -> show_res show_number (num_floor_remainder a b)
  | "exact", [a] -> show_res show_number (num_exact a)
  | "eq", [a; b] -> show_bool (num_eqb a b)
  | "cmp", [a; b] -> show_cmp (num_cmp a b)
  | "lt", [a; b] -> show_bool (num_ltb a b)
  | "le", [a; b] -> show_bool (num_leb a b)
  | "gt", [a; b] -> show_bool (num_gtb a b)
  | "ge", [a; b] -> show_bool (num_geb a b)
  | _ -> failwith ("bad NUM op " ^ op)

let handle (line : string) : string =
  match String.split_on_char ' ' line with
  | "NUM" :: op :: args -> num_op op (List.map parse_number args)
  | "LIT" :: [h] ->
      (* decimal literal: sign mant e10 given as  s<0|1>,<mant>,<e10> *)
      (match String.split_on_char ',' h with
       | [s; m; e] -> show_real (f32_of_decimal (s = "1") (z_of_int (int_of_string m)) (z_of_int (int_of_string e)))
       | _ -> failwith "bad LIT")
  | _ -> failwith ("bad line " ^ line)

let () =
  try
    while true do
      let line = input_line stdin in
      if line <> "" then begin
        let out = (try handle line with Stack_overflow -> "(model-stack-overflow)") in
        print_string out; print_newline ()
      end
    done
  with End_of_file -> ()
