#!/bin/bash
# usage: coqshow.sh FILE LINE  -- print the goals after line LINE of FILE (proof debugging aid)
f=$1; n=$2
tmp=$(mktemp -d)
head -n "$n" "$f" > "$tmp/Scratch.v"
echo 'Show. ' >> "$tmp/Scratch.v"
cd /verif/coq && coqc -Q . RV "$tmp/Scratch.v" 2>&1 | tail -${3:-40}
rm -rf "$tmp"
