"""Seeded random program generators shared by the evaluator properties (C01 C02 C03 C05 C08 C15 C17 C18 C19).

Programs are type-directed so that most of them are valid; every random choice comes from the
rng handed in. A program is a list of top-level forms (strings)."""


class Env:
    def __init__(self, parent=None):
        self.vars = {}      # name -> type
        self.parent = parent

    def all(self, ty):
        out = []
        e = self
        seen = set()
        while e:
            for n, t in e.vars.items():
                if n not in seen and t == ty:
                    out.append(n)
                seen.add(n)
            e = e.parent
        return out

    def allprocs(self):
        out = []
        e = self
        seen = set()
        while e:
            for n, t in e.vars.items():
                if n not in seen and isinstance(t, tuple) and t[0] == "proc":
                    out.append((n, t))
                seen.add(n)
            e = e.parent
        return out

    def child(self):
        return Env(self)


class Gen:
    """types: 'int', 'bool', 'list', ('proc', nfixed, has_rest)  (procedures return int)"""

    def __init__(self, rng, ticks=True, derived=False, tick_rate=0.15, reuse=0.4):
        self.reuse = reuse
        self.rng = rng
        self.counter = 0
        self.tick_id = 0
        self.ticks = ticks
        self.derived = derived      # allow let/let*/cond/case/and/or/when/unless/begin
        self.tick_rate = tick_rate
        self.weights = {}       # procedure name -> bound on the number of calls one call of it makes
        self.acc = 0            # weight accumulated by the form being generated
        self.mult = 1           # 7 inside the body of a recursive procedure
        self.LIMIT = 3000

    INT_POOL = ["a", "b", "c", "n", "m", "x", "y", "z"]
    LIST_POOL = ["l", "lst", "rest"]
    PROC_POOL = ["f", "g", "h", "k"]

    def fresh(self, p="v", avoid=(), inner=True, env=None):
        """a binder name: often taken from a small pool so that inner binders shadow outer ones and
        definitions collide; otherwise unique. Procedure names are reused only in inner scopes."""
        r = self.rng
        if self.derived:
            # x, temp, atom-key are introduced by the (non-hygienic) or / cond / case templates
            avoid = tuple(avoid) + ("x", "temp", "atom-key")
        if self.reuse and env is not None and p in ("x", "p", "b") and r.random() < 0.3:
            # deliberately shadow / redefine a visible variable of the same type
            cands = [n for n in env.all("int") if n not in avoid]
            if cands:
                return r.choice(cands)
        if self.reuse and r.random() < self.reuse:
            pool = None
            if p in ("x", "p", "b", "c"):
                pool = self.INT_POOL
            elif p in ("l", "r"):
                pool = self.LIST_POOL
            elif p in ("f",) and inner:
                pool = self.PROC_POOL
            if pool:
                cands = [n for n in pool if n not in avoid]
                if cands:
                    return r.choice(cands)
        self.counter += 1
        return "%s%d" % (p, self.counter)

    def tick(self, s):
        if self.ticks and self.rng.random() < self.tick_rate:
            self.tick_id += 1
            return "(tick %d %s)" % (self.tick_id, s)
        return s

    # ---------------------------------------------------------------- expressions
    def int_expr(self, env, d):
        r = self.rng
        if d <= 0 or r.random() < 0.25:
            vs = env.all("int")
            if vs and r.random() < 0.6:
                return r.choice(vs)
            return str(r.choice([0, 1, 2, 3, 5, 7, 10, -1, -4]))
        k = r.random()
        if k < 0.22:
            op = r.choice(["+", "-", "*", "+", "-"])
            n = r.choice([2, 2, 2, 3, 1])
            return self.tick("(%s %s)" % (op, " ".join(self.int_expr(env, d - 1) for _ in range(n))))
        if k < 0.34:
            return "(if %s %s %s)" % (self.bool_expr(env, d - 1), self.int_expr(env, d - 1), self.int_expr(env, d - 1))
        if k < 0.56:
            procs = [(n, t) for n, t in env.allprocs()
                     if self.acc + self.weights.get(n, 1) * self.mult <= self.LIMIT]
            if procs:
                name, t = r.choice(procs)
                self.acc += self.weights.get(name, 1) * self.mult
                return self.tick(self.call(name, t, env, d - 1))
        if k < 0.70:
            # immediate lambda application
            t = self.proc_type(d)
            lam = self.lambda_expr(env, d - 1, t)
            return self.call(lam, t, env, d - 1)
        if k < 0.78:
            return "(car %s)" % self.nonempty_list(env, d - 1)
        if k < 0.84 and self.derived:
            return self.derived_int(env, d)
        if k < 0.90:
            # higher order: pass a procedure to a procedure expecting one
            t = ("proc", 1, False)
            f = self.lambda_expr(env, d - 1, t)
            self.counter += 1
            h = "h%d" % self.counter
            x = self.fresh("x")
            return "((lambda (%s %s) (%s %s)) %s %s)" % (h, x, h, x, f, self.int_expr(env, d - 1))
        return self.tick(self.int_expr(env, d - 1))

    def bool_expr(self, env, d):
        r = self.rng
        if d <= 0 or r.random() < 0.2:
            vs = env.all("bool")
            if vs and r.random() < 0.5:
                return r.choice(vs)
            return r.choice(["#t", "#f"])
        k = r.random()
        if k < 0.5:
            return "(%s %s %s)" % (r.choice(["<", "=", ">", "<=", ">="]), self.int_expr(env, d - 1), self.int_expr(env, d - 1))
        if k < 0.65:
            return "(not %s)" % self.bool_expr(env, d - 1)
        if k < 0.8:
            return "(null? %s)" % self.list_expr(env, d - 1)
        if k < 0.9 and self.derived:
            return "(%s %s %s)" % (r.choice(["and", "or"]), self.bool_expr(env, d - 1), self.bool_expr(env, d - 1))
        return self.tick(self.bool_expr(env, d - 1))

    def list_expr(self, env, d):
        r = self.rng
        if d <= 0 or r.random() < 0.3:
            vs = env.all("list")
            if vs and r.random() < 0.5:
                return r.choice(vs)
            return r.choice(["'()", "'(1 2 3)", "'(4)", "(list)"])
        k = r.random()
        if k < 0.5:
            return "(list %s)" % " ".join(self.int_expr(env, d - 1) for _ in range(r.randint(0, 3)))
        if k < 0.8:
            return "(cons %s %s)" % (self.int_expr(env, d - 1), self.list_expr(env, d - 1))
        return "(cdr %s)" % self.nonempty_list(env, d - 1)

    def nonempty_list(self, env, d):
        return "(cons %s %s)" % (self.int_expr(env, d), self.list_expr(env, d))

    def proc_type(self, d):
        r = self.rng
        return ("proc", r.choice([0, 0, 1, 1, 2, 2, 3, 4, 5]), r.random() < 0.25)

    def call(self, fexpr, t, env, d):
        r = self.rng
        _, nfixed, rest = t
        n = nfixed + (r.randint(0, 2) if rest else 0)
        args = [self.int_expr(env, d) for _ in range(n)]
        if fexpr in getattr(self, "rec_names", ()) and args:
            args[0] = str(r.randint(0, 6))      # recursion runs on a small decreasing counter
        if r.random() < 0.2:
            # spelling through apply
            k = r.randint(0, len(args))
            return "(apply %s %s (list %s))" % (fexpr, " ".join(args[:k]), " ".join(args[k:]))
        return "(%s %s)" % (fexpr, " ".join(args)) if args else "(%s)" % fexpr

    def formals(self, t, env=None):
        _, nfixed, rest = t
        names = []
        for _ in range(nfixed):
            names.append(self.fresh("p", avoid=names, env=env))
        rn = self.fresh("r") if rest else None
        if rest and not names:
            return names, rn, rn
        if rest:
            return names, rn, "(%s . %s)" % (" ".join(names), rn)
        return names, rn, "(%s)" % " ".join(names)

    def body(self, env, d, names, rn):
        """internal definitions then expressions, in a child environment"""
        r = self.rng
        e = env.child()
        for n in names:
            e.vars[n] = "int"
        if rn:
            e.vars[rn] = "list"
        parts = []
        for _ in range(r.choice([0, 0, 1, 1, 2])):
            parts.append(self.definition(e, d - 1, toplevel=False))
        for _ in range(r.choice([0, 0, 1])):
            parts.append(self.tick(self.int_expr(e, d - 1)))
        last = self.int_expr(e, d - 1)
        if rn and r.random() < 0.5:
            last = "(if (null? %s) %s (+ (car %s) %s))" % (rn, last, rn, self.int_expr(e, d - 1))
        parts.append(last)
        return " ".join(parts)

    def lambda_expr(self, env, d, t):
        names, rn, fs = self.formals(t, env)
        return "(lambda %s %s)" % (fs, self.body(env, d, names, rn))

    def definition(self, env, d, toplevel=True):
        r = self.rng
        k = r.random()
        if k < 0.35:
            n = self.fresh("x", env=env)
            s = "(define %s %s)" % (n, self.int_expr(env, d))
            env.vars[n] = "int"
            return s
        if k < 0.42:
            n = self.fresh("l")
            s = "(define %s %s)" % (n, self.list_expr(env, d))
            env.vars[n] = "list"
            return s
        t = self.proc_type(d)
        n = self.fresh("f", inner=not toplevel)
        names, rn, fs = self.formals(t, env)
        saved_acc, saved_mult = self.acc, self.mult
        self.acc = 0
        if r.random() < 0.25 and t[1] >= 1 and toplevel:
            self.mult = saved_mult * 7
            # recursion on a decreasing counter (first parameter)
            e2 = env.child()      # the procedure itself is not visible to its own argument expressions
            c = names[0]
            others = names[1:]
            args = ["(- %s 1)" % c] + [self.int_expr(self._with(e2, names, rn), 1) for _ in others]
            rec = "(%s %s)" % (n, " ".join(args))
            if r.random() < 0.5:
                rec = "(+ %s %s)" % (self.int_expr(self._with(e2, names, rn), 1), rec)
            bodytxt = "(if (< %s 1) %s %s)" % (c, self.int_expr(self._with(e2, names, rn), 1), rec)
            env.vars[n] = ("proc",) + t[1:] + ("rec",) if False else t
            self_rec = True
        else:
            bodytxt = self.body(env, d, names, rn)
            self_rec = False
        if r.random() < 0.5:
            if rn and not names:
                s = "(define (%s . %s) %s)" % (n, rn, bodytxt)
            elif rn:
                s = "(define (%s %s . %s) %s)" % (n, " ".join(names), rn, bodytxt)
            else:
                s = "(define (%s%s) %s)" % (n, "".join(" " + x for x in names), bodytxt)
        else:
            s = "(define %s (lambda %s %s))" % (n, fs, bodytxt)
        self.weights[n] = 1 + self.acc
        self.acc, self.mult = saved_acc, saved_mult
        # recursive procedures are called with a small first argument only
        env.vars[n] = t if not self_rec else ("proc", t[1], t[2])
        if self_rec:
            self.rec_names = getattr(self, "rec_names", set()) | {n}
        return s

    def _with(self, env, names, rn):
        e = env.child()
        for n in names:
            e.vars[n] = "int"
        if rn:
            e.vars[rn] = "list"
        return e

    # ---------------------------------------------------------------- derived forms (C05)
    def derived_int(self, env, d):
        r = self.rng
        k = r.choice(["let", "let*", "cond", "case", "and", "or", "when", "unless", "begin"])
        if k in ("let", "let*"):
            n = r.randint(1, 3)
            names = []
            for _ in range(n):
                names.append(self.fresh("b", avoid=names))
            e = env.child()
            inits = []
            for nm in names:
                inits.append("(%s %s)" % (nm, self.tick(self.int_expr(e if k == "let*" else env, d - 1))))
                if k == "let*":
                    e.vars[nm] = "int"
            for nm in names:
                e.vars[nm] = "int"
            body = [self.tick(self.int_expr(e, d - 1)) for _ in range(r.randint(2, 3))]
            return "(%s (%s) %s)" % (k, " ".join(inits), " ".join(body))
        if k == "cond":
            n = r.randint(1, 3)
            cl = []
            for _ in range(n):
                if r.random() < 0.2:
                    cl.append("(%s => (lambda (%s) %s))" % (self.tick(self.int_expr(env, d - 1)), self.fresh("c"),
                                                           self.int_expr(env, d - 1)))
                else:
                    cl.append("(%s %s %s)" % (self.tick(self.bool_expr(env, d - 1)), self.tick(self.int_expr(env, d - 1)),
                                              self.int_expr(env, d - 1)))
            cl.append("(else %s %s)" % (self.tick(self.int_expr(env, d - 1)), self.int_expr(env, d - 1)))
            return "(cond %s)" % " ".join(cl)
        if k == "case":
            key = self.tick("(+ 0 %s)" % r.choice(["1", "2", "3", "9"]))
            cl = []
            for vals in r.sample([[1], [2, 3], [4, 1], [9, 10]], r.randint(1, 3)):
                cl.append("((%s) %s %s)" % (" ".join(map(str, vals)), self.tick(self.int_expr(env, d - 1)),
                                            self.int_expr(env, d - 1)))
            cl.append("(else %s %s)" % (self.tick(self.int_expr(env, d - 1)), self.int_expr(env, d - 1)))
            return "(case %s %s)" % (key, " ".join(cl))
        if k in ("and", "or"):
            n = r.randint(2, 4)
            parts = []
            for j in range(n):
                if r.random() < 0.4:
                    parts.append(self.tick(self.bool_expr(env, d - 1)))
                else:
                    parts.append(self.tick(self.int_expr(env, d - 1)))
            return "(if (%s %s %s) %s %s)" % (k, " ".join(parts), self.int_expr(env, 0), self.int_expr(env, d - 1),
                                             self.int_expr(env, d - 1))
        if k in ("when", "unless"):
            return "(if (%s %s %s %s) 1 2)" % (k, self.tick(self.bool_expr(env, d - 1)), self.tick(self.int_expr(env, d - 1)),
                                              self.tick(self.int_expr(env, d - 1)))
        return "(begin %s %s)" % (self.tick(self.int_expr(env, d - 1)), self.tick(self.int_expr(env, d - 1)))

    # ---------------------------------------------------------------- programs
    def program(self, nforms=8, depth=3):
        env = Env()
        forms = []
        for _ in range(nforms):
            if self.rng.random() < 0.55:
                forms.append(self.definition(env, depth))
            else:
                k = self.rng.random()
                if k < 0.25 and env.all("int"):
                    # read every visible variable back (after whatever the earlier forms did)
                    forms.append("(list %s)" % " ".join(sorted(env.all("int") + env.all("list"))))
                elif k < 0.7:
                    forms.append(self.tick(self.int_expr(env, depth)))
                elif k < 0.85:
                    forms.append(self.list_expr(env, depth))
                else:
                    forms.append(self.bool_expr(env, depth))
        return forms, env


# ------------------------------------------------------------------------------------------
# faults (C08, C15): one faulting operation, in a calling context, at a position
# ------------------------------------------------------------------------------------------
FAULT_KINDS = ["non-procedure", "arity", "unbound-ref", "unbound-set", "type", "vector-index", "literal-vector",
               "division-by-zero"]
FAULT_CONTEXTS = ["direct", "tail", "apply", "library", "derived", "self-tail"]
EXPECTED_KIND = {
    "non-procedure": "TypeMisMatch", "arity": "ArgumentMissMatch", "unbound-ref": "UnboundedSymbol",
    "unbound-set": "UnboundedSymbol", "type": "TypeMisMatch", "vector-index": "VectorIndexOutOfBounds",
    "literal-vector": "RequiresMutable", "division-by-zero": "DivisionByZero",
}


def long_value_text(rng):
    """the text of a literal whose printed form is long (60-300 bytes) and contains multi-byte characters at random
    offsets: error reporting must cope with any offending value"""
    n = rng.choice([70, 78, 79, 80, 81, 82, 90, 120, 200, 300])
    chars = []
    size = 0
    while size < n:
        c = rng.choice(["a", "b", " ", "x", "\u00e9", "\u2192", "\u3053", "\U0001F600"]) if rng.random() < 0.5 else rng.choice("abcdefg ")
        chars.append(c)
        size += len(c.encode("utf-8"))
    text = "".join(chars)
    k = rng.random()
    if k < 0.5:
        return '"%s"' % text
    if k < 0.75:
        return "'(%s)" % " ".join('"%s"' % text[i:i + 7] for i in range(0, len(text), 7))
    return "(vector %s)" % " ".join('"%s"' % text[i:i + 5] for i in range(0, len(text), 5))


def fault_expr(rng, kind):
    """an expression whose evaluation performs exactly one faulting operation"""
    if kind in ("non-procedure", "type") and rng.random() < 0.2:
        v = long_value_text(rng)
        if kind == "non-procedure":
            return rng.choice(["(%s 1)", "((car (list %s)))", "(%s)"]) % v
        ops = ["(+ 1 %s)", "(vector-ref %s 'x)", "(- %s)", "(< 1 %s)", "(abs %s)"]
        if v.startswith('"'):
            ops += ["(car %s)", "(cdr %s)", "(vector-ref %s 0)"]
        if v.startswith("'("):
            ops += ["(apply + 1 %s)"]
        return rng.choice(ops) % v
    if kind == "non-procedure":
        return rng.choice(["(5 1)", "((+ 1 2) 3)", "(\"s\")", "('a 1 2)", "((car (list 1 2)))"])
    if kind == "arity":
        return rng.choice(["((lambda (a b) a) 1)", "((lambda (a) a) 1 2)", "((lambda (a . r) a))", "(car 1 2)",
                           "(cons 1)", "(fa2 1)", "(fa2 1 2 3)", "(vector-ref (vector 1))", "(not)",
                           # the count is checked for every callee that apply reaches, natives included
                           "(apply car '((1 2) 3))", "(apply vector-ref (list (vector 1 2) 0 'extra))",
                           "(apply vector-length (vector 1 2) '(0))", "(apply fa2 '(1))", "(apply fa2 1 '(2 3))",
                           "(apply (lambda (p) (car p)) '((1 2) 3))", "(apply not '(#t #f))"])
    if kind == "unbound-ref":
        return rng.choice(["undefined-variable", "(+ 1 undefined-variable)", "(undefined-procedure 1 2)"])
    if kind == "unbound-set":
        return "(set! undefined-variable 1)"
    if kind == "type":
        return rng.choice(["(+ 1 'a)", "(car 5)", "(cdr '())", "(- \"s\")", "(< 1 #t)", "(vector-ref 5 0)",
                           "(vector-ref (vector 1) 'x)", "(abs 'a)", "(apply + 1 2)", "(car (vector 1))",
                           # a single operand is type-checked too
                           "(< 'a)", "(= \"x\")", "(boolean=? 5)", "(<= 'b)", "(> #t)", "(>= '(1))", "(+ 'a)", "(* \"s\")",
                           "(- 'a)", "(/ 'a)", "(max 'a)", "(min \"q\")", "(apply < '(a))", "(apply = (list \"x\"))"])
    if kind == "vector-index":
        return rng.choice(["(vector-ref (vector 1 2) 2)", "(vector-ref (vector 1 2) -1)", "(vector-set! (vector 1 2) 5 0)",
                           "(vector-ref (vector) 0)", "(vector-ref '#(1 2 3) 3)", "(vector-set! (vector 1 2) -1 0)",
                           "(vector-set! (make-vector 3 0) 3 1)", "(vector-ref (make-vector 2 0) 2)"])
    if kind == "literal-vector":
        return rng.choice(["(vector-set! '#(1 2) 0 9)", "(vector-set! #(1 2) 1 9)", "(vector-set! (car (list '#(1))) 0 2)"])
    if kind == "division-by-zero":
        return rng.choice(["(/ 1 0)", "(/ 5 (- 2 2))", "(/ 0)", "(floor-quotient 7 0)", "(floor-remainder 7 0)", "(/ 1/2 0)"])
    raise ValueError(kind)


def in_context(rng, context, fault, k, kind=None):
    """wrap the faulting expression; returns (definitions needed before, the faulting form)"""
    pre = []
    if context == "self-tail":
        # the fault happens after the procedure has re-entered itself by tail calls; for a wrong number of
        # arguments the faulty call IS the self tail call
        g = "selfg%d" % k
        if kind == "arity" and rng.random() < 0.75:
            shape, call = rng.choice([
                ("(define (%s n) (if (= n 0) 'done (%s (- n 1) 'extra)))", "(%s 2)"),
                ("(define (%s n m) (if (= n 0) 'done (%s (- n 1))))", "(%s 2 0)"),
                ("(define (%s n) (if (< n 2) (%s n n) (%s (- n 1))))", "(%s 3)"),
                ("(define (%s n . r) (if (= n 0) (%s) (%s (- n 1) 1 2)))", "(%s 2)"),
                ("(define %s (lambda (n) (cond ((= n 0) 'done) (else (%s)))))", "(%s 1)"),
            ])
            pre.append(shape % ((g,) * shape.count("%s")))
            return pre, call % g
        pre.append("(define (%s n) (if (= n 0) %s (%s (- n 1))))" % (g, fault, g))
        return pre, "(%s %d)" % (g, rng.randint(1, 4))
    wrapped = rng.choice([fault, "(+ 1 %s)" % fault, "(list 1 %s 3)" % fault, "(if #t %s 0)" % fault])
    if context == "direct":
        return pre, wrapped
    if context == "tail":
        g = "tailg%d" % k
        shape = rng.choice(["(define (%s) %s)", "(define (%s) (if #t %s 0))", "(define (%s) 1 2 %s)"])
        pre.append(shape % (g, fault))
        return pre, "(%s)" % g
    if context == "apply":
        return pre, rng.choice(["(apply (lambda () %s) '())" % wrapped, "(apply (lambda (z) %s) '(1))" % wrapped,
                                "(apply (lambda z %s) 1 2 '(3))" % fault])
    if context == "library":
        return pre, rng.choice(["(map (lambda (z) %s) '(1 2))" % wrapped, "(for-each (lambda (z) %s) '(1))" % wrapped,
                                "(fold-left (lambda (z acc) %s) 0 '(1 2))" % wrapped,
                                "(fold-right (lambda (z acc) %s) 0 '(1 2))" % fault])
    if context == "derived":
        return pre, rng.choice(["(let ((z 1)) %s)" % wrapped, "(let* ((z 1) (w z)) (+ w %s))" % fault,
                                "(cond (#f 1) (else 2 %s))" % fault, "(and 1 %s 3)" % fault, "(or #f %s)" % fault,
                                "(begin 1 %s)" % wrapped, "(case 2 ((1) 0) ((2) 5 %s) (else 1))" % fault,
                                "(when #t 1 %s)" % fault, "(unless #f 1 %s)" % fault])
    raise ValueError(context)


def fault_program(rng, kind, context, k=0, nbefore=3, nafter=2):
    """valid forms, one faulting form (with completed effects before the fault), then forms that
    observe the state. returns (forms, index of the faulting form)"""
    g = Gen(rng, ticks=True, derived=False)
    forms, env = g.program(nbefore, 2)
    forms.append("(define fa2 (lambda (a b) (+ a b)))")
    forms.append("(define counter 0)")
    forms.append("(define cell (vector 0 0))")
    fault = fault_expr(rng, kind)
    pre, form = in_context(rng, context, fault, k, kind)
    forms.extend(pre)
    g.tick_id += 1
    effect = rng.choice(["(set! counter (+ counter 1))", "(vector-set! cell 0 (+ 1 (vector-ref cell 0)))",
                         "(tick %d 0)" % g.tick_id, "(define late%d 5)" % k])
    if effect.startswith("(define"):
        forms.append(effect)
        faulty = form
    else:
        faulty = "((lambda () %s %s))" % (effect, form)
    idx = len(forms)
    forms.append(faulty)
    forms.append("counter")
    forms.append("cell")
    for _ in range(nafter):
        forms.append(g.tick(g.int_expr(env, 2)))
    forms.append("(fa2 counter (vector-ref cell 0))")
    return forms, idx


# ------------------------------------------------------------------------------------------
# C03: histories over shared bindings and vectors
# ------------------------------------------------------------------------------------------
def history_program(rng, steps=40):
    """a history of top-level forms over up to 5 counters/accumulators made by up to 3 generator
    procedures, global variables, and up to 4 vectors aliased through variables, arguments, lists,
    other vectors and captured references. returns (forms, stats)"""
    forms = []
    stats = {"set!": 0, "closure-call": 0, "vector-set!": 0, "alias": 0, "probe": 0, "literal-mutation": 0,
             "container": 0}
    gens = []
    shapes = [
        ("(define (%s init) (define n init) (lambda (d) (set! n (+ n d)) n))", "acc"),
        ("(define %s (lambda (init) ((lambda (n) (lambda (d) (set! n (+ n d)) n)) init)))", "acc"),
        ("(define (%s init) (define n init) (cons (lambda (d) (set! n (+ n d)) n) (lambda () n)))", "pair"),
        ("(define (%s init . more) (define n init) (define (bump d) (set! n (+ n d)) n) bump)", "acc"),
        ("(define (%s init) (define cell (vector init)) (lambda (d) (vector-set! cell 0 (+ d (vector-ref cell 0))) (vector-ref cell 0)))", "acc"),
        ("(define (%s . args) (lambda (d) (set! args (cons d args)) args))", "acc"),
        ("(define %s (lambda args (lambda (d) (set! args (cons d args)) args)))", "acc"),
        # the closure is made in a round of a self-tail-recursive loop: each round has bindings of its own
        ("(define (%s init) (define (spin k n acc) (if (= k 0) acc (spin (- k 1) (* n 10) (lambda (d) (set! n (+ n d)) (+ n (acc 0)))))) (spin 2 init (lambda (d) 0)))", "acc"),
        ("(define (%s init . rest) (lambda (d) (set! rest (cons (+ d init) rest)) rest))", "acc"),
    ]
    outer = rng.random() < 0.5
    if outer:
        # the names the generator procedures define internally are bound at top level as well: a call must still
        # create fresh bindings and leave these alone
        forms += ["(define n 1000)", "(define cell 'outer-cell)", "(define args 'outer-args)", "(define rest 'outer-rest)",
                  "(define (bump d) 'outer-bump)"]
    for g in range(rng.randint(1, 3)):
        shape, kind = rng.choice(shapes)
        name = "mk%d" % g
        forms.append(shape % name)
        gens.append((name, kind))
    forms.append("(define total 0)")
    forms.append("(define (add-total! d) (set! total (+ total d)) total)")
    counters = []       # (name, kind)
    vecs = []           # variable names bound to vectors
    lits = []
    lists = []          # variables bound to lists that contain vectors
    globs = ["total"]

    def some_vec():
        return rng.choice(vecs)

    made_by = {}
    for step in range(steps):
        k = rng.random()
        k2 = rng.random()
        if k2 < 0.06 and counters:
            # a variable is assigned a NEW object that looks like the one it holds: a fresh counter from the same
            # generator, a distinct vector with the same contents
            c, kind = rng.choice(counters)
            forms.append("(set! %s (%s %d))" % (c, made_by[c], rng.randint(0, 9)))
            forms.append("((cdr %s))" % c if kind == "pair" else "(%s 0)" % c)
            stats["set!"] += 1
            continue
        if k2 < 0.12 and len(vecs) >= 2:
            a, b = some_vec(), some_vec()
            forms.append("(set! %s %s)" % (a, b))
            forms.append("(eq? %s %s)" % (a, b))
            forms.append("(if (< 0 (vector-length %s)) (vector-set! %s 0 %d) 'short)" % (b, b, rng.randint(400, 499)))
            forms.append("(list %s %s)" % (a, b))
            stats["set!"] += 1
            stats["alias"] += 1
            continue
        if (k < 0.12 and len(counters) < 5) or not counters:
            g, kind = rng.choice(gens)
            c = "c%d" % len(counters)
            forms.append("(define %s (%s %d))" % (c, g, rng.randint(0, 9)))
            counters.append((c, kind))
            made_by[c] = g
        elif k < 0.30:
            c, kind = rng.choice(counters)
            d = rng.randint(1, 5)
            forms.append("((car %s) %d)" % (c, d) if kind == "pair" else "(%s %d)" % (c, d))
            stats["closure-call"] += 1
            stats["set!"] += 1
        elif k < 0.36:
            c, kind = rng.choice(counters)
            forms.append("((cdr %s))" % c if kind == "pair" else "(%s 0)" % c)
            stats["probe"] += 1
        elif k < 0.42:
            if rng.random() < 0.5:
                forms.append("(add-total! %d)" % rng.randint(1, 9))
            else:
                forms.append("(set! total (* total 2))")
            stats["set!"] += 1
        elif k < 0.46:
            g = "g%d" % len(globs)
            forms.append("(define %s %d)" % (g, rng.randint(0, 9)))
            globs.append(g)
        elif k < 0.50:
            forms.append("(list %s)" % " ".join(globs))
            stats["probe"] += 1
        elif (k < 0.58 and len(vecs) < 8) or not vecs:
            v = "v%d" % len(vecs)
            how = rng.random()
            if how < 0.4 or not vecs:
                if rng.random() < 0.5:
                    # distinct vectors with equal contents
                    forms.append("(define %s %s)" % (v, rng.choice(["(vector 0 0)", "(make-vector 2 0)", "(vector 7)"])))
                else:
                    forms.append("(define %s (vector %s))" % (v, " ".join(str(rng.randint(0, 9)) for _ in range(rng.randint(1, 4)))))
            elif how < 0.6:
                forms.append("(define %s %s)" % (v, some_vec()))          # alias through a variable
                stats["alias"] += 1
            elif how < 0.75:
                forms.append("(define %s (make-vector 2 %s))" % (v, some_vec()))   # both cells alias the fill
                stats["container"] += 1
            elif how < 0.9:
                forms.append("(define %s (vector %s %s))" % (v, some_vec(), some_vec()))
                stats["container"] += 1
            else:
                forms.append("(define %s ((lambda args (car args)) %s 1 2))" % (v, some_vec()))   # through a rest parameter
                stats["alias"] += 1
            vecs.append(v)
        elif k < 0.70:
            v = some_vec()
            i = rng.randint(0, 1)
            val = rng.choice([str(rng.randint(10, 99)), some_vec(), "total"])
            forms.append("(if (< %d (vector-length %s)) (vector-set! %s %d %s) 'short)" % (i, v, v, i, val))
            stats["vector-set!"] += 1
        elif k < 0.76:
            # mutate through a cell of a container, if it holds a vector
            v = some_vec()
            forms.append("(if (vector? (vector-ref %s 0)) (vector-set! (vector-ref %s 0) 0 %d) 'plain)" % (v, v, rng.randint(100, 199)))
            stats["vector-set!"] += 1
        elif k < 0.82:
            a, b = some_vec(), some_vec()
            forms.append("((lambda (p q) (vector-set! p 0 %d) (vector-ref q 0)) %s %s)" % (rng.randint(200, 299), a, b))
            stats["vector-set!"] += 1
            stats["alias"] += 1
        elif k < 0.86:
            l = "l%d" % len(lists)
            forms.append("(define %s (list %s %s))" % (l, some_vec(), some_vec()))
            lists.append(l)
            stats["container"] += 1
        elif k < 0.90 and lists:
            l = rng.choice(lists)
            forms.append("(vector-set! (car (cdr %s)) 0 %d)" % (l, rng.randint(300, 399)))
            stats["vector-set!"] += 1
        elif k < 0.93:
            if not lits or rng.random() < 0.5:
                lv = "lit%d" % len(lits)
                forms.append("(define %s '#(1 2 3))" % lv)
                lits.append(lv)
            lv = rng.choice(lits)
            forms.append("(vector-set! %s 0 9)" % lv)
            stats["literal-mutation"] += 1
        elif k < 0.96:
            a, b = some_vec(), some_vec()
            forms.append("(eq? %s %s)" % (a, b))
            stats["probe"] += 1
        else:
            forms.append("(list %s)" % " ".join(vecs + lits))
            stats["probe"] += 1
    forms.append("(list %s)" % " ".join(globs))
    forms.append("(list %s)" % " ".join(vecs + lits + lists))
    if outer:
        forms.append("(list n cell args rest (bump 1))")
    for c, kind in counters:
        forms.append("((cdr %s))" % c if kind == "pair" else "(%s 0)" % c)
    return forms, stats


# ------------------------------------------------------------------------------------------
# C01/C03: every call binds fresh locations - closures created in different rounds of a loop
# ------------------------------------------------------------------------------------------
def loop_closure_program(rng):
    """a self- or mutually tail-recursive loop that creates a closure in every round (capturing a parameter or an
    internal definition) and lets it escape (collected in a list, or handed on as an argument); the closures are
    called after the loop. Each must still see the values of ITS round."""
    n = rng.randint(2, 6)
    cap = rng.choice(["param", "internal", "both"])
    body_val = {"param": "n", "internal": "m", "both": "(+ n m)"}[cap]
    defs = "" if cap == "param" else "(define m (* n %d)) " % rng.randint(2, 5)
    esc = rng.choice(["list", "arg", "vector"])
    ctx = rng.choice(["(if (= n 0) %s %s)", "(cond ((= n 0) %s) (else %s))", "(if (< 0 n) ((lambda () %s)) %s)"])
    forms = []
    if esc == "list":
        rec = "(collect (- n 1) (cons (lambda () %s) acc))" % body_val
        fin = "acc"
        br = ctx % ((fin, rec) if "(< 0 n)" not in ctx else (rec, fin))
        forms.append("(define (collect n acc) %s%s)" % (defs, br))
        forms.append("(map (lambda (f) (f)) (collect %d '()))" % n)
    elif esc == "arg":
        rec = "(count (- n 1) (lambda () (cons %s (get))))" % body_val
        fin = "(get)"
        br = ctx % ((fin, rec) if "(< 0 n)" not in ctx else (rec, fin))
        forms.append("(define (count n get) %s%s)" % (defs, br))
        forms.append("(count %d (lambda () '()))" % n)
    else:
        rec = "(begin (vector-set! store n (lambda () %s)) (fill (- n 1)))" % body_val
        fin = "'done"
        br = ctx % ((fin, rec) if "(< 0 n)" not in ctx else (rec, fin))
        forms.append("(define store (make-vector %d 0))" % (n + 1))
        forms.append("(define (fill n) %s%s)" % (defs, br))
        forms.append("(fill %d)" % n)
        forms.append("(list %s)" % " ".join("((vector-ref store %d))" % k for k in range(1, n + 1)))
    if rng.random() < 0.4:
        # two procedures calling each other in tail position
        forms.append("(define (ping n acc) (if (= n 0) acc (pong (- n 1) (cons (lambda () (* n 10)) acc))))")
        forms.append("(define (pong n acc) (if (= n 0) acc (ping (- n 1) (cons (lambda () (+ n 100)) acc))))")
        forms.append("(map (lambda (f) (f)) (ping %d '()))" % n)
    return forms


def evaluation_position_program(rng):
    """procedures whose body is a (nested) conditional in tail position with a ticking test, every kind of branch
    (constant, variable, quoted datum, call, nested conditional, one-armed), optional ticking expressions before it;
    called directly, as an operand, through apply, from another procedure's tail call and from a thunk. Every operand
    and every test must be evaluated exactly once, in order (tick trace), whatever position it is in."""
    tid = [0]

    def t(s):
        tid[0] += 1
        return "(tick %d %s)" % (tid[0], s)

    def test():
        return rng.choice([t("#t"), t("#f"), "(< %s %s)" % (t("a"), t("b")), "(not %s)" % t("(= a b)"), t("(< a b)"),
                           "(bump)", "(< (bump) 3)"])

    def leaf():
        return rng.choice(["a", "b", "7", "'sym", "'(1 2)", "\"s\"", "#t", "count", "#\\x"])

    def branch(d):
        k = rng.random()
        if d > 0 and k < 0.3:
            return "(if %s %s %s)" % (test(), branch(d - 1), branch(d - 1))
        if d > 0 and k < 0.36:
            return "(if %s %s)" % (test(), branch(d - 1))
        if k < 0.48:
            return "(+ %s %s)" % (t("a"), t("b"))
        if k < 0.56:
            return "(g %s)" % t("b")
        return leaf()

    forms = ["(define count 0)", "(define (bump) (set! count (+ count 1)) count)",
             "(define (g x) (if %s x 'neg))" % rng.choice([t("(< 0 x)"), "(< 0 %s)" % t("x")])]
    pre = rng.choice(["", "", t("a") + " ", "(define c %s) " % t("(+ a 1)"), "(bump) "])
    rest = rng.random() < 0.25
    body = "(if %s %s %s)" % (test(), branch(2), branch(2)) if rng.random() < 0.85 else "(if %s %s)" % (test(), branch(2))
    if rest:
        forms.append("(define (f a . r) (define b (if (null? r) 0 (car r))) %s%s)" % (pre, body))
    elif rng.random() < 0.5:
        forms.append("(define (f a b) %s%s)" % (pre, body))
    else:
        forms.append("(define f (lambda (a b) %s%s))" % (pre, body))
    forms.append("(define (h a b) (f b a))")
    calls = ["(f 1 2)", "(f 2 1)", "(f 3 3)", "(apply f '(1 2))", "(apply f 2 '(1))", "(list (f 1 2) (f 2 1))",
             "((lambda () (f 2 2)))", "(h 1 2)", "(h 5 0)", "(if (f 0 1) 'yes 'no)", "(g (f 4 2))"]
    for c in rng.sample(calls, rng.randint(3, 6)):
        forms.append(c)
        if rng.random() < 0.4:
            forms.append("count")
    forms.append("count")
    return forms


def closure_chain_program(rng):
    """a loop in which every round tail-calls a NEW closure made from the same lambda expression; what the closures
    capture changes from round to round and decides the result"""
    n = rng.randint(2, 9)
    ctx = rng.choice(["(if (= n 0) acc %s)", "(if (< 0 n) %s acc)", "(cond ((= n 0) acc) (else %s))", "(if (= n 0) acc (and #t %s))"])
    k = rng.randint(1, 4)
    forms = ["(define (make-loop step) (lambda (n acc) %s))" % (ctx % "((make-loop (+ step %d)) (- n 1) (+ acc step))" % k),
             "((make-loop 1) %d 0)" % n, "((make-loop %d) %d 100)" % (rng.randint(2, 5), n)]
    if rng.random() < 0.5:
        forms.append("(define (walk tag) (lambda (l) (if (null? l) '() (cons (list tag (car l)) ((walk (car l)) (cdr l))))))")
        forms.append("((walk 'start) '(a b c d))")
    if rng.random() < 0.5:
        forms.append("(define (pick sel) (lambda (x y . r) (if (null? r) (sel x y) (apply (pick (if (eqv? sel min) max min)) (sel x y) r))))")
        forms.append("((pick min) 5 3 9 1 7)")
    return forms


def forward_reference_program(rng):
    """a procedure body whose FIRST internal definition is initialised by calling a lambda created on the spot; the
    closure it returns refers to internal definitions made later in the same body (legal: it is called only after
    they exist). Internal definitions belong to the frame of the call, whatever was in it at the time."""
    params = rng.choice(["", "", "p", "p q", ". r"])
    args = {"": "", "p": "5", "p q": "5 6", ". r": rng.choice(["", "1 2"])}[params]
    maker = rng.choice(["((lambda () (lambda () (+ later %d))))", "(apply (lambda () (lambda () (+ later %d))) '())",
                        "((lambda (f) (f)) (lambda () (lambda () (+ later %d))))",
                        "((lambda (k) (lambda () (+ later k))) %d)"]) % rng.randint(1, 9)
    outer = rng.random() < 0.5
    forms = []
    if outer:
        forms.append("(define later 7)")          # an outer binding of the same name must not be picked up
    header = "(define (mk%s%s)" % (" " if params else "", params) if rng.random() < 0.7 else "(define mk (lambda (%s)" % params
    close = ")" if header.startswith("(define (mk") else "))"
    body = "(define get %s) (define later %d) (define (helper) (get)) (list (get) (helper))" % (maker, rng.randint(100, 200))
    forms.append("%s %s%s" % (header, body, close))
    forms.append("(mk %s)" % args if args else "(mk)")
    forms.append("(list (mk %s))" % args if args else "(list (mk))")
    if outer:
        forms.append("later")
    return forms


# ------------------------------------------------------------------------------------------
# C02: loops whose recursive call sits in a composition of tail contexts
# ------------------------------------------------------------------------------------------
TAIL_CONTEXTS = {
    "body": "%s",
    "if-then": "(if #t %s 0)",
    "if-else": "(if #f 0 %s)",
    "begin": "(begin 1 %s)",
    "let": "(let ((z 1)) z %s)",
    "let*": "(let* ((z 1) (w z)) w %s)",
    "cond-clause": "(cond (#f 0) (#t 1 %s))",
    "cond-else": "(cond (#f 0) (else 1 %s))",
    "case-clause": "(case 2 ((1) 0) ((2 3) 1 %s) (else 0))",
    "case-else": "(case 9 ((1) 0) (else 1 %s))",
    "and": "(and 1 2 %s)",
    "or": "(or #f #f %s)",
    "when": "(when #t 1 %s)",
    "unless": "(unless #f 1 %s)",
    "lambda-body": "((lambda (q) q %s) 1)",
    "apply": "(apply (lambda () %s) '())",
}
LOOP_SHAPES = ["self", "mutual2", "mutual-own-names", "mutual3", "higher-order", "variadic", "closure-returned",
               "operator-call", "operator-if", "operator-car", "internal-define", "internal-helper", "body-effect",
               "closure-chain", "closure-chain-internal", "closure-chain-acc"]


def loop_program(shape, contexts):
    """returns (definitions, call template with %d for N). The loop counts i up to n and returns i."""
    def wrap(t):
        for c in reversed(contexts):
            t = TAIL_CONTEXTS[c] % t
        return t
    if shape == "self":
        return ["(define (loop i n) (if (< i n) %s i))" % wrap("(loop (+ i 1) n)")], "(loop 0 %d)"
    if shape == "internal-define":
        return ["(define (loop i n) (define next (+ i 1)) (if (< i n) %s i))" % wrap("(loop next n)")], "(loop 0 %d)"
    if shape == "internal-helper":
        return ["(define (loop i n) (define (step k) (+ k 1)) (define unused 0) (if (< i n) %s i))" % wrap("(loop (step i) n)")], "(loop 0 %d)"
    if shape == "body-effect":
        return ["(define seen 0)", "(define (loop i n) (set! seen i) (if (< i n) %s i))" % wrap("(loop (+ i 1) n)")], "(loop 0 %d)"
    if shape == "mutual2":
        return ["(define (la i n) (if (< i n) %s i))" % wrap("(lb (+ i 1) n)"),
                "(define (lb i n) (if (< i n) %s i))" % wrap("(la (+ i 1) n)")], "(la 0 %d)"
    if shape == "mutual-own-names":
        # the procedures of the loop bind DIFFERENT names (parameters, a rest parameter, an internal definition); each refers
        # to global variables named like what the other one binds: the frame left by a tail call is gone
        return ["(define step 1)", "(define extra 0)",
                "(define (la step i n) (define extra 1) (if (< i n) %s i))" % wrap("(lb (+ i extra) n)"),
                "(define (lb i n . r) (if (< i n) %s i))" % wrap("(la 0 (+ i 1 extra) (+ n (- step 1)))")], "(la 0 0 %d)"
    if shape == "mutual3":
        return ["(define (la i n) (if (< i n) %s i))" % wrap("(lb (+ i 1) n)"),
                "(define (lb i n) (if (< i n) %s i))" % wrap("(lc (+ i 1) n)"),
                "(define (lc i n) (if (< i n) (la (+ i 1) n) i))"], "(la 0 %d)"
    if shape == "higher-order":
        return ["(define (loop f i n) (if (< i n) %s i))" % wrap("(f f (+ i 1) n)")], "(loop loop 0 %d)"
    if shape == "variadic":
        return ["(define (loop i . r) (if (< i (car r)) %s i))" % wrap("(loop (+ i 1) (car r) 7)")], "(loop 0 %d)"
    if shape == "closure-returned":
        return ["(define (mk) (define (l i n) (if (< i n) %s i)) l)" % wrap("(l (+ i 1) n)"),
                "(define loop (mk))"], "(loop 0 %d)"
    # the operator of the tail call is itself computed
    if shape == "operator-call":
        return ["(define (step) (lambda (i n) (if (< i n) %s i)))" % wrap("((step) (+ i 1) n)")], "((step) 0 %d)"
    if shape == "operator-if":
        return ["(define (la i n) (if (< i n) %s i))" % wrap("((if (< i 5) lb la) (+ i 1) n)"),
                "(define (lb i n) (if (< i n) %s i))" % wrap("((if #t la lb) (+ i 1) n)")], "(la 0 %d)"
    if shape == "operator-car":
        return ["(define (loop fs i n) (if (< i n) %s i))" % wrap("((car fs) fs (+ i 1) n)")], "(loop (list loop) 0 %d)"
    # every round runs a NEW closure of the same lambda expression; the loop variable lives in the closure
    if shape == "closure-chain":
        return ["(define (mk k) (lambda (n) (if (< k n) %s k)))" % wrap("((mk (+ k 1)) n)")], "((mk 0) %d)"
    if shape == "closure-chain-internal":
        return ["(define (mk k) (define (l n) (if (< k n) %s k)) l)" % wrap("((mk (+ k 1)) n)")], "((mk 0) %d)"
    if shape == "closure-chain-acc":
        return ["(define (mk step) (lambda (i n) (if (< i n) %s i)))" % wrap("((mk (- 3 step)) (+ i (- step (- step 1))) n)")], "((mk 1) 0 %d)"
    raise ValueError(shape)


# ------------------------------------------------------------------------------------------
# C04: syntax-rules rule sets and uses inside the expander's supported class
# ------------------------------------------------------------------------------------------
MACRO_LITERALS = ["else", "=>", "to", "y"]
MACRO_VARS = ["a", "b", "c", "d", "e", "f"]
MACRO_DATA = ["1", "2", "#t", "\"s\"", "#\\x", "1.0", "1/2", "0.5", "-3", "2.5"]


class MacroGen:
    def __init__(self, rng):
        self.rng = rng

    # a pattern is a python tree: ("var", n) ("any",) ("lit", n) ("datum", text) ("list", [items], ell)
    # ("vec", [items], ell); ell = the last item is followed by an ellipsis
    def pattern_items(self, depth, vars_left, under_ellipsis=False):
        r = self.rng
        n = r.randint(0 if depth else 1, 3)
        items = []
        for _ in range(n):
            items.append(self.pattern(depth, vars_left, under_ellipsis))
        ell = False
        if not under_ellipsis and items and r.random() < 0.45 and vars_left:
            # the element under the ellipsis: a variable or a list of variables
            if r.random() < 0.6:
                items.append(("var", vars_left.pop()))
            else:
                k = r.randint(1, 2)
                sub = [("var", vars_left.pop()) for _ in range(min(k, len(vars_left)))]
                if not sub:
                    return items, False
                items.append(("list", sub, False))
            ell = True
        return items, ell

    def pattern(self, depth, vars_left, under_ellipsis=False):
        r = self.rng
        k = r.random()
        if k < 0.4 and vars_left:
            return ("var", vars_left.pop())
        if k < 0.5:
            return ("any",)
        if k < 0.62:
            return ("lit", r.choice(MACRO_LITERALS))
        if k < 0.74:
            return ("datum", r.choice(MACRO_DATA))
        if depth > 0 and k < 0.92:
            items, ell = self.pattern_items(depth - 1, vars_left, under_ellipsis)
            return ("list", items, ell)
        if depth > 0:
            items, ell = self.pattern_items(depth - 1, vars_left, under_ellipsis)
            return ("vec", items, ell)
        return ("datum", r.choice(MACRO_DATA))

    def render_pattern(self, p):
        t = p[0]
        if t == "var":
            return p[1]
        if t == "any":
            return "_"
        if t == "lit":
            return p[1]
        if t == "datum":
            return p[1]
        inner = " ".join(self.render_pattern(x) for x in p[1]) + (" ..." if p[2] else "")
        return ("(%s)" if t == "list" else "#(%s)") % inner

    def pattern_vars(self, p, under=False, out=None):
        """variable -> True if under an ellipsis"""
        if out is None:
            out = {}
        t = p[0]
        if t == "var":
            out[p[1]] = under
        elif t in ("list", "vec"):
            for i, x in enumerate(p[1]):
                self.pattern_vars(x, under or (p[2] and i == len(p[1]) - 1), out)
        return out

    def ellipsis_groups(self, p, out=None):
        """lists of variables that sit under the same ellipsis"""
        if out is None:
            out = []
        if p[0] in ("list", "vec"):
            for i, x in enumerate(p[1]):
                if p[2] and i == len(p[1]) - 1:
                    out.append(sorted(self.pattern_vars(x, True)))
                else:
                    self.ellipsis_groups(x, out)
        return out

    def template(self, pvars, groups, depth):
        r = self.rng
        plain = [v for v, u in pvars.items() if not u]
        k = r.random()
        if k < 0.3 and plain:
            return r.choice(plain)
        if k < 0.4:
            return r.choice(MACRO_DATA + ["k", "q"])
        if k < 0.5:
            # a free symbol that other rules may use as a pattern variable
            return r.choice(MACRO_VARS)
        if k < 0.58:
            # symbols that mean something in PATTERNS (wildcard, literals) are plain symbols in a template
            return r.choice(["_", "_", "else", "=>", "to"])
        if depth <= 0:
            return r.choice(plain) if plain else r.choice(MACRO_DATA)
        items = []
        for _ in range(r.randint(0, 3)):
            items.append(self.template(pvars, groups, depth - 1))
        for g in groups:
            if r.random() < 0.7:
                kk = r.random()
                if kk < 0.2:
                    # the variables of the repeated sub-template only inside a vector, or a list inside it
                    vs = " ".join(r.sample(g, len(g)))
                    items.append(r.choice(["#(%s) ...", "(k #(%s)) ...", "#(q %s) ...", "((%s)) ...", "(#(%s) k) ..."]) % vs)
                elif len(g) == 1 or kk < 0.6:
                    items.append("%s ..." % r.choice(g))
                else:
                    items.append("(%s) ..." % " ".join(r.sample(g, len(g)) + (["k"] if r.random() < 0.3 else [])))
        r.shuffle(items)
        return ("(%s)" if r.random() < 0.85 else "#(%s)") % " ".join(items)

    def rule(self, kw):
        r = self.rng
        vars_left = list(MACRO_VARS)
        r.shuffle(vars_left)
        items, ell = self.pattern_items(2, vars_left)
        pat = ("list", items, ell)
        pvars = self.pattern_vars(pat)
        groups = self.ellipsis_groups(pat)
        tmpl = self.template(pvars, groups, 2)
        text = "((%s %s) '%s)" % (kw, self.render_pattern(pat)[1:-1], tmpl)
        return pat, text

    # uses
    def datum(self, depth):
        r = self.rng
        k = r.random()
        if k < 0.3:
            return str(r.randint(0, 9))
        if k < 0.5:
            return r.choice(["x", "y", "z", "else", "=>", "to"])
        if k < 0.6:
            return r.choice(MACRO_DATA + ['"else"', '"=>"', '"to"', '"y"', "#\\y"])
        if depth <= 0:
            return "w"
        inner = " ".join(self.datum(depth - 1) for _ in range(r.randint(0, 3)))
        if inner and r.random() < 0.15:
            return "(%s . %s)" % (inner, r.choice(["1", "y", "(z)"]))
        return ("(%s)" if r.random() < 0.8 else "#(%s)") % inner

    def instance(self, p, mutate):
        r = self.rng
        t = p[0]
        if mutate and r.random() < 0.12:
            return self.datum(1)
        if t in ("var", "any"):
            return self.datum(2)
        if t == "lit":
            if mutate and r.random() < 0.3:
                # near misses: data that print like the literal but are not the identifier
                near = ['"%s"' % p[1], "other", "(%s)" % p[1]] + (["#\\" + p[1]] if len(p[1]) == 1 else [])
                return r.choice(near)
            return p[1]
        if t == "datum":
            if mutate and r.random() < 0.3:
                near = {'"s"': ["s", "#\\s", '"t"'], "#\\x": ["x", '"x"', "#\\y"], "1": ['"1"', "2", "#\\1"], "2": ['"2"', "1"],
                        "#t": ["#f", '"#t"', "t"],
                        # numbers of the same value and another kind, other spellings of the same number
                        "1.0": ["1", "1.00", "1e0", "2/2", "1.5"], "1/2": ["0.5", "2/4", "1/3", ".5"], "0.5": ["1/2", ".5", "0.50", "5e-1"],
                        "-3": ["-3.0", "-6/2", "3", "-3."], "2.5": ["5/2", "2.50", "25e-1", "2"]}
                if p[1] in ("1", "2"):
                    near[p[1]] = near[p[1]] + [p[1] + ".0", p[1] + ".", "%d/2" % (2 * int(p[1])), p[1] + "e0"]
                return r.choice(near.get(p[1], [p[1]]))
            return p[1]
        items = []
        for i, x in enumerate(p[1]):
            if p[2] and i == len(p[1]) - 1:
                n = r.choice([1, 1, 2, 3, 4]) if not mutate else r.choice([0, 1, 2, 3])
                for _ in range(n):
                    items.append(self.instance(x, mutate))
            else:
                items.append(self.instance(x, mutate))
        if mutate and items and r.random() < 0.15:
            items.pop(r.randrange(len(items)))
        if mutate and r.random() < 0.1:
            items.insert(r.randint(0, len(items)), self.datum(1))
        if mutate and t == "list" and len(items) >= 1 and r.random() < 0.2:
            # a dotted list where the pattern has a proper one: the tail must not be dropped silently
            return "(%s . %s)" % (" ".join(items), r.choice(["3", "x", "()", "(4)"]))
        return ("(%s)" if t == "list" else "#(%s)") % " ".join(items)

    def macro_case(self, nrules, nuses):
        kw = "m"
        rules = [self.rule(kw) for _ in range(nrules)]
        lits = " ".join(MACRO_LITERALS)
        definition = "(define-syntax %s (syntax-rules (%s) %s))" % (kw, lits, " ".join(t for _, t in rules))
        uses = []
        for _ in range(nuses):
            pat, _ = self.rng.choice(rules)
            inner = self.instance(pat, self.rng.random() < 0.35)
            uses.append("(%s %s)" % (kw, inner[1:-1]) if inner.startswith("(") else "(%s %s)" % (kw, inner))
        return definition, uses


# ------------------------------------------------------------------------------------------
# C05: every pair of derived forms nested in every sub-form position, with ticking sub-forms
# ------------------------------------------------------------------------------------------
def derived_templates():
    """(name, template with numbered holes {0} {1} ..), holes are expression positions"""
    return [
        ("begin", "(begin {0} {1})"),
        ("let", "(let ((u {0}) (v {1})) {2} (+ u v))"),
        ("let*", "(let* ((u {0}) (v (+ u {1}))) {2} (+ u v))"),
        ("cond", "(cond ((< {0} 0) {1} 1) ((= {2} 3) {3} 2) (else {4} 3))"),
        ("cond=>", "(cond ({0} => (lambda (r) (+ r {1}))) (else {2} 0))"),
        ("cond-test-only", "(cond ((if (< {0} 5) #f 7)) (else {1} 9))"),
        ("case", "(case (+ 0 {0}) ((1 2) {1} 10) ((3) {2} 30) (else {3} 40))"),
        ("case=>", "(case {0} ((1 3) => (lambda (r) (+ r {1}))) (else => (lambda (r) (- r {2}))))"),
        ("case-else-only", "(case (+ 0 {0}) (else {1} 5))"),
        ("case-else=>-only", "(case (+ 0 {0}) (else => (lambda (r) (+ r {1}))))"),
        ("case=>-not-last", "(case (+ 0 {0}) ((1 2 3) => (lambda (r) (list r {1}))) ((7) 0) (else 9))"),
        ("and", "(if (and (< {0} 9) (< {1} 9) {2}) 1 0)"),
        ("or", "(if (or (< 9 {0}) (< 9 {1}) #f) 1 0)"),
        ("when", "(if (when (< {0} 9) {1} {2}) 1 0)"),
        ("unless", "(if (unless (< 9 {0}) {1} {2}) 1 0)"),
    ]


LOOKALIKES = ['"=>"', '"else"', "'else", "'=>", '"..."', '"_"', "#\\=", "'(else)", "(quote =>)"]


def lookalike_forms(rng, quick):
    """every derived form with one sub-form position holding a datum that is SPELLED like a keyword of the templates
    (a string "=>" or "else", a quoted symbol); it is data, the clause keeps its ordinary meaning"""
    out = []
    tid = [0]

    def tick(v):
        tid[0] += 1
        return "(tick %d %d)" % (tid[0], v)

    for name, t in derived_templates():
        nh = t.count("{")
        for pos in range(nh):
            for la in LOOKALIKES:
                tid[0] = 0
                holes = [tick(rng.choice([1, 2, 3])) for _ in range(nh)]
                holes[pos] = la
                out.append(("%s/%d/%s" % (name, pos, la), t.format(*holes)))
    extra = ['(cond (#t "=>" %s))', '(cond (#f 1) ((+ 1 1) "=>" %s) (else 0))', '(cond (#f 1) (else "=>" %s))',
             '(case (+ 1 1) ((1 2) "=>" %s) (else 0))', '(case 7 ((1 2) 0) (else "=>" %s))', '(case 7 ((1 2) 0) (else "else" %s))',
             "(cond ((quote else) %s 1) (else 2))", "(case (quote else) ((else) %s 1) (else 2))", "(case (quote =>) ((=> x) %s 1) (else 2))"]
    for e in extra:
        for body in ["(lambda (v) (list v 'called))", "car", "(tick 1 5)", "'sym"]:
            out.append(("extra", e % body))
    if quick:
        out = rng.sample(out, 200)
    return out


def nested_pairs(rng, quick):
    """outer form with one hole filled by an inner form, the other holes and all holes of the inner
    form filled by ticking literals"""
    forms = derived_templates()
    out = []
    tid = [0]

    def tick(v):
        tid[0] += 1
        return "(tick %d %d)" % (tid[0], v)

    for on, ot in forms:
        nh = ot.count("{")
        for pos in range(nh):
            for inn, it in forms:
                tid[0] = 0
                inner = it.format(*[tick(rng.choice([1, 2, 3])) for _ in range(it.count("{"))])
                holes = [tick(rng.choice([1, 2, 3])) for _ in range(nh)]
                holes[pos] = inner
                out.append(("%s/%d/%s" % (on, pos, inn), ot.format(*holes)))
    if quick:
        out = rng.sample(out, 250)
    return out


def scope_probes(rng):
    """closures created in binding / clause positions of the derived forms, called after later bindings
    exist: which binding they captured shows the scope each form gives its sub-forms"""
    a, b, c = rng.randint(1, 9), rng.randint(10, 19), rng.randint(20, 29)
    d = {"a": a, "b": b, "c": c}
    T = [
        ("let*-init-sees-outer", ["(define v {a})", "(let* ((f (lambda () v)) (v {b})) (list (f) v))"]),
        ("let*-left-to-right", ["(let* ((v {a}) (f (lambda () v)) (v {b}) (g (lambda () v))) (list (f) (g) v))"]),
        ("let*-three", ["(define w {c})", "(let* ((f (lambda () w)) (g (lambda () (f))) (w {a})) (list (f) (g) w))"]),
        ("let-init-outside", ["(define v {a})", "(let ((f (lambda () v)) (v {b})) (list (f) v))"]),
        ("let-nested", ["(let ((v {a})) (let ((f (lambda () v)) (v {b})) (let ((v {c})) (list (f) v))))"]),
        ("let*-self", ["(define (f) {a})", "(let* ((f (lambda () (if #f (f) {b}))) (g f)) (list (f) (g)))"]),
        ("let*-set", ["(define v {a})", "(let* ((f (lambda () (set! v (+ v 1)) v)) (v {b})) (list (f) v (f)))", "v"]),
        ("cond=>-receives-test", ["(define n 0)", "(cond ((begin (set! n (+ n 1)) {a}) => (lambda (r) (list r n))) (else 'no))"]),
        ("case-key-once", ["(define n 0)", "(case (begin (set! n (+ n 1)) {a}) (({b}) 'b) (({c}) 'c) (else (list 'else n)))"]),
        ("or-once", ["(define n 0)", "(list (or (begin (set! n (+ n 1)) #f) (begin (set! n (+ n 10)) {a}) (begin (set! n (+ n 100)) {b})) n)"]),
        ("and-once", ["(define n 0)", "(list (and (begin (set! n (+ n 1)) {a}) (begin (set! n (+ n 10)) #f) (begin (set! n (+ n 100)) {b})) n)"]),
        ("begin-order", ["(define n 0)", "(begin (set! n (+ (* n 10) 1)) (set! n (+ (* n 10) 2)) (set! n (+ (* n 10) 3)) n)"]),
        ("when-unless", ["(define n 0)", "(list (when (< {a} {b}) (set! n (+ n 1)) n) (unless (< {a} {b}) (set! n (+ n 10)) n) n)"]),
    ]
    return [(name, [f.format(**d) for f in forms]) for name, forms in T]


# ------------------------------------------------------------------------------------------
# C06: datum trees and their layouts
# ------------------------------------------------------------------------------------------
class DatumGen:
    """a datum is a python tree: ("int", z) ("rat", n, d) ("real", text) ("bool", b) ("char", c) ("str", s)
    ("sym", name) ("qsym", name) ("list", [items], tail or None) ("vec", [items]) ("quote", d)"""
    IDENTS = ["a", "b", "foo", "list->vector", "x1", "!", "$", "%", "&", "*", "/", ":", "<", "=", ">", "?", "^", "_", "~",
              "<=?", "a.b", "a+b", "a-b", "a@b", "+", "-", "...", "+soup+", "->x", "-a", "..", "+@"]

    def __init__(self, rng):
        self.rng = rng

    def atom(self):
        r = self.rng
        k = r.random()
        if k < 0.25:
            return ("int", r.choice([0, 1, -1, 7, 42, -42, 2147483647, -2147483648, r.randint(-10 ** 6, 10 ** 6)]))
        if k < 0.33:
            d = r.choice([2, 3, 7, 10, 4])
            return ("rat", r.choice([1, -1, 3, -7, 22, 6]), d)
        if k < 0.42:
            return ("real", r.choice(["1.5", "-0.25", "3.", "1e3", "1.5e-3", "-2.5e+2", "0.1", "12.75", "+1.0", "1e0", "100.0"]))
        if k < 0.50:
            return ("bool", r.random() < 0.5)
        if k < 0.58:
            return ("char", r.choice(list("aZ09(); \"'#.|\\") + ["é", "中"]))
        if k < 0.68:
            n = r.randint(0, 5)
            s = "".join(r.choice(list("ab ()\";|\\\n\t") + ["é"]) for _ in range(n))
            return ("str", s)
        if k < 0.93:
            return ("sym", r.choice(self.IDENTS))
        return ("qsym", r.choice(["hello world", "a(b", "", "semi;colon", "x\"y"]))

    def datum(self, depth):
        r = self.rng
        if depth <= 0 or r.random() < 0.35:
            return self.atom()
        k = r.random()
        if k < 0.6:
            items = [self.datum(depth - 1) for _ in range(r.randint(0, 5))]
            tail = None
            if items and r.random() < 0.25:
                tail = self.datum(depth - 1)
                if tail[0] == "list" and tail[2] is None:
                    tail = None    # (a . (b c)) reads as (a b c): keep the tree canonical
            return ("list", items, tail)
        if k < 0.85:
            return ("vec", [self.datum(depth - 1) for _ in range(r.randint(0, 4))])
        return ("quote", self.datum(depth - 1))

    # tokens of a datum: list of (text, self_delimiting_left, self_delimiting_right)
    def tokens(self, d):
        t = d[0]
        if t == "int":
            return [str(d[1])]
        if t == "rat":
            return ["%d/%d" % (d[1], d[2])]
        if t == "real":
            return [d[1]]
        if t == "bool":
            return ["#t" if d[1] else "#f"]
        if t == "char":
            return ["#\\" + d[1]]
        if t == "str":
            esc = {"\"": "\\\"", "\\": "\\\\", "\n": "\\n", "\t": "\\t"}
            return ["\"" + "".join(esc.get(c, c) for c in d[1]) + "\""]
        if t == "sym":
            return [d[1]]
        if t == "qsym":
            return ["|" + d[1] + "|"]
        if t == "list":
            out = ["("]
            for x in d[1]:
                out += self.tokens(x)
            if d[2] is not None:
                out += ["."] + self.tokens(d[2])
            return out + [")"]
        if t == "vec":
            out = ["#("]
            for x in d[1]:
                out += self.tokens(x)
            return out + [")"]
        if t == "quote":
            return ["'"] + self.tokens(d[1])
        raise ValueError(d)

    def separator(self, mandatory):
        r = self.rng
        k = r.random()
        if not mandatory and k < 0.4:
            return ""
        parts = []
        for _ in range(r.randint(1, 3)):
            parts.append(r.choice([" ", " ", "  ", "\t", "\n", "\r\n", " ; c (omment \"\n", ";\n", "\n\n"]))
        return "".join(parts)

    def render(self, toks):
        """tokens joined by random admissible separators: a separator may be empty only next to a
        parenthesis, a quote mark, or before/after a string or |identifier| delimiter"""
        out = []
        for i, t in enumerate(toks):
            if i > 0:
                prev = toks[i - 1]
                # the previous token ends by itself: ( #( ' ) " |   ; the next one starts a new token by itself: ( ) " | ;
                left_self = prev in ("(", "#(", "'") or prev.endswith(")") and prev == ")" or prev.endswith("\"") and len(prev) > 1 and prev[0] == "\"" \
                    or (prev.startswith("|") and prev.endswith("|") and len(prev) > 1)
                right_self = t in ("(", ")") or t.startswith("\"") or t.startswith("|")
                # characters swallow whatever follows only one char, but #\a followed directly by b would
                # still lex (known: no delimiter needed after a character or boolean): keep a separator there
                if prev.startswith("#\\") or prev in ("#t", "#f"):
                    left_self = False
                    right_self = right_self and False
                if prev == "'" :
                    left_self = True
                if prev == ")" :
                    left_self = t in ("(", ")") or t.startswith("\"") or t.startswith("|") or t in ("'",) or t == "#("
                    right_self = left_self
                mandatory = not (left_self or right_self)
                if prev == "." or t == ".":
                    mandatory = mandatory or (t == "." and not prev in ("(",)) or (prev == "." and not (t in ("(", ")") or t.startswith("\"") or t.startswith("|")))
                out.append(self.separator(mandatory))
            out.append(t)
        return "".join(out)

    def canon(self, d, first_vector_id=0):
        """the canonical value line the harness / driver print for (quote d) (vector ids numbered by first
        occurrence within the case)"""
        self._vid = first_vector_id
        return self._canon(d)

    def count_vectors(self, d):
        t = d[0]
        if t == "vec":
            return 1 + sum(self.count_vectors(x) for x in d[1])
        if t == "list":
            return sum(self.count_vectors(x) for x in d[1]) + (self.count_vectors(d[2]) if d[2] is not None else 0)
        if t == "quote":
            return self.count_vectors(d[1])
        return 0

    def _canon(self, d):
        t = d[0]
        if t == "int":
            return "i%d" % d[1]
        if t == "rat":
            from math import gcd
            n, dd = d[1], d[2]
            g = gcd(abs(n), dd)
            n, dd = n // g, dd // g
            return "i%d" % n if dd == 1 else "q%d/%d" % (n, dd)
        if t == "real":
            import struct
            return "r%08x" % struct.unpack("<I", struct.pack("<f", float(d[1])))[0]
        if t == "bool":
            return "#t" if d[1] else "#f"
        if t == "char":
            return "(char %d)" % ord(d[1])
        if t == "str":
            return "(str %s)" % d[1].encode().hex()
        if t in ("sym", "qsym"):
            return "(sym %s)" % d[1].encode().hex()
        if t == "list":
            tail = self._canon_tail(d)
            return tail
        if t == "vec":
            vid = self._vid
            self._vid += 1
            return "(vec l #%d [%s])" % (vid, " ".join(self._canon(x) for x in d[1]))
        if t == "quote":
            return "(pair (sym 71756f7465) (pair %s ()))" % self._canon(d[1])
        raise ValueError(d)

    def _canon_tail(self, d):
        items = d[1]
        parts = [self._canon(x) for x in items]
        tail = self._canon(d[2]) if d[2] is not None else "()"
        s = tail
        for p in reversed(parts):
            s = "(pair %s %s)" % (p, s)
        return s


# ------------------------------------------------------------------------------------------
# C14 / C13: library graphs
# ------------------------------------------------------------------------------------------
NODE_KINDS = ["healthy", "missing", "faulting", "faulting-early", "wrong-name", "broken", "not-utf8",
              "second-in-file", "after-other-forms", "defined-twice"]


EDGE_SALT = 0      # set per graph by the caller: which import-set shape each edge gets


def library_text(name, imports, kind):
    """source of library (name) importing the given libraries"""
    # a dependency is a dependency whatever import set names it: the library alone, or only / except / rename / prefix
    # around it, also with an EMPTY list of identifiers
    shapes = ["(%s)", "(only (%s))", "(%s)", "(except (%s))", "(rename (%s))", "(prefix (%s) p-)", "(only (%s) %s-v)", "(%s)"]

    def edge(i):
        sh = shapes[(sum(map(ord, name)) * 7 + sum(map(ord, i)) + 3 * len(imports) + EDGE_SALT) % len(shapes)]
        return sh % ((i, i) if sh.count("%s") == 2 else i)
    imp = " ".join(edge(i) for i in imports)
    imports_decl = "(import (scheme base)%s)" % ((" " + imp) if imp else "")
    if kind == "healthy":
        return "(define-library (%s) (export %s-v) %s (begin (define %s-v '%s)))" % (name, name, imports_decl, name, name)
    healthy = "(define-library (%s) (export %s-v) %s (begin (define %s-v '%s)))" % (name, name, imports_decl, name, name)
    if kind == "second-in-file":
        # the source holds another library first: the one asked for is searched for by name
        return ("(define-library (%s extra) (export %s-x) (import (scheme base)) (begin (define %s-x 'extra)))\n%s"
                % (name, name, name, healthy))
    if kind == "after-other-forms":
        return "; a comment\n(define stray-%s 1)\n'datum\n%s\n(define later-%s 2)" % (name, healthy, name)
    if kind == "defined-twice":
        return ("%s\n(define-library (%s) (export %s-v) (import (scheme base)) (begin (define %s-v 'second-definition)))"
                % (healthy, name, name, name))
    if kind == "faulting":
        return "(define-library (%s) (export %s-v) %s (begin (define %s-v (car '()))))" % (name, name, imports_decl, name)
    if kind == "faulting-early":
        # the fault is in the middle of the body: what follows must not run and the library must not load
        return ("(define-library (%s) (export %s-v) %s (begin (define %s-t (vector 1 2)) (vector-ref %s-t 3) (define %s-v '%s)))"
                % (name, name, imports_decl, name, name, name, name))
    if kind == "wrong-name":
        return "(define-library (not-%s) (export %s-v) %s (begin (define %s-v 1)))" % (name, name, imports_decl, name)
    if kind == "broken":
        return "(define-library (%s) (export %s-v) %s (begin (define %s-v 1)" % (name, name, imports_decl, name)
    raise ValueError(kind)


def library_graphs(n, rng=None, sample=None):
    """every digraph on n libraries l0..l(n-1) (self loops included) x every assignment of node kinds"""
    import itertools
    names = ["l%d" % k for k in range(n)]
    pairs = [(a, b) for a in range(n) for b in range(n)]
    out = []
    for mask in range(1 << len(pairs)):
        edges = [pairs[k] for k in range(len(pairs)) if mask >> k & 1]
        for kinds in itertools.product(NODE_KINDS, repeat=n):
            # edges out of nodes that have no readable source do not exist
            ok = True
            for a, b in edges:
                if kinds[a] in ("missing", "not-utf8"):
                    ok = False
                    break
            if ok:
                out.append((names, edges, kinds))
    if sample and rng and len(out) > sample:
        out = rng.sample(out, sample)
    return out


# ------------------------------------------------------------------------------------------
# C13: stateful libraries, importers with colliding names
# ------------------------------------------------------------------------------------------
def encapsulation_case(rng):
    """returns (libraries: list of (name, text), program forms)"""
    k = rng.randint(1, 3)
    libs = []
    names = ["lib%s" % c for c in "abc"[:k]]
    internal = rng.choice(["n", "state", "x"])
    helper = rng.choice(["helper", "h", "step"])
    collide = []
    for i, name in enumerate(names):
        deps = [d for d in names[:i] if rng.random() < 0.7]
        ext_peek = rng.choice(["peek-%s" % name, "look-%s" % name])
        exports = ["next-%s" % name, "(rename peek %s)" % ext_peek, "reset-%s!" % name]
        aliases = []
        if rng.random() < 0.5:
            # the same internal binding exported under a second (and third) external name
            exports.append("(rename next-%s also-%s)" % (name, name))
            aliases.append("(also-%s)" % name)
            if rng.random() < 0.5:
                exports.insert(0, "(rename peek see-%s)" % name)
                aliases.append("(see-%s)" % name)
        body = ["(define %s %d)" % (internal, rng.randint(0, 5)),
                "(define (%s d) (set! %s (+ %s d)) %s)" % (helper, internal, internal, internal),
                "(define (next-%s) (%s 1))" % (name, helper),
                "(define (peek) %s)" % internal,
                "(define (reset-%s!) (set! %s 0))" % (name, internal)]
        # an export whose EXTERNAL name collides with an unexported internal of this library (the helper, the state
        # variable) or with a name it imports: the library's own procedures must keep seeing their internal binding
        if rng.random() < 0.5:
            target = rng.choice([helper, internal, "car", "+"] + ["next-%s" % d for d in deps])
            body.append("(define (alt-%s . r) 'alt-%s)" % (name, name))
            exports.append("(rename alt-%s %s)" % (name, target))
            collide.append(target)
        for d in deps:
            exports.append("via-%s-%s" % (name, d))
            body.append("(define (via-%s-%s) (next-%s) (next-%s))" % (name, d, d, d))
        if rng.random() < 0.3:
            body.insert(0, "(tick %d 0)" % (90 + i))           # how often the body runs
            imports = "(import (scheme base) (verif tick)%s)" % "".join(" (%s)" % d for d in deps)
        else:
            imports = "(import (scheme base)%s)" % "".join(" (%s)" % d for d in deps)
        # a name the library IMPORTS, then defines itself, and exports: importers get the library's own definition
        if rng.random() < 0.5:
            shadowed = rng.choice(["abs", "max", "list"] + ["next-%s" % d for d in deps])
            body.append("(define (%s . r) (cons 'own-%s r))" % (shadowed, name))
            exports.append("(rename %s own-%s)" % (shadowed, name) if rng.random() < 0.7 or shadowed.startswith("next-") else shadowed)
            aliases.append("(own-%s 1 2)" % name if "(rename %s own-%s)" % (shadowed, name) in exports else "(%s 1 2)" % shadowed)
        # the declarations in any order that puts the imports before the body; exports and body possibly split
        decls = [imports]
        ex = list(exports)
        layout = rng.choice(["export-first", "export-middle", "export-last", "split"])
        if layout == "split" and len(ex) >= 2 and len(body) >= 2:
            cut_e, cut_b = rng.randint(1, len(ex) - 1), rng.randint(1, len(body) - 1)
            decls = ["(export %s)" % " ".join(ex[:cut_e]), imports, "(begin %s)" % " ".join(body[:cut_b]),
                     "(export %s)" % " ".join(ex[cut_e:]), "(begin %s)" % " ".join(body[cut_b:])]
        elif layout == "export-middle":
            decls = [imports, "(export %s)" % " ".join(ex), "(begin %s)" % " ".join(body)]
        elif layout == "export-last":
            decls = [imports, "(begin %s)" % " ".join(body), "(export %s)" % " ".join(ex)]
        else:
            decls = ["(export %s)" % " ".join(ex), imports, "(begin %s)" % " ".join(body)]
        text = "(define-library (%s) %s)" % (name, " ".join(decls))
        libs.append((name, text, deps, ext_peek, aliases))
    bare = rng.random() < 0.4
    if bare:
        # a library WITHOUT import declaration (the core forms need none): names it neither defines nor imports are unbound
        # in it, whatever the importing program defines
        free = rng.choice([internal, helper, "free-name", "car"])
        libs.append(("bare", "(define-library (bare) (export probe poke! (rename own bare-own)) (begin (define own 'bare) "
                     "(define (probe) %s) (define (poke!) (set! %s 'poked) own)))" % (free, free), [], "probe", []))
    forms = []
    order = list(names)
    rng.shuffle(order)
    imported = []
    for name in order:
        if rng.random() < 0.8:
            forms.append(rng.choice(["(import (%s))" % name, "(import (%s) (%s))" % (name, name)]))
            imported.append(name)
    if bare:
        forms.insert(rng.randint(0, len(forms)), "(import (bare))")
    if rng.random() < 0.4:
        # a library that exports NOTHING (no export declaration, or an empty one) and acts when it is loaded: loaded once,
        # however many import declarations name it
        decl = rng.choice(["", "(export) "])
        effect = "(tick 95 0)" + (" (next-%s)" % names[0] if rng.random() < 0.5 else "")
        imp = "(import (scheme base) (verif tick)%s)" % (" (%s)" % names[0] if "next-" in effect else "")
        libs.append(("plug", "(define-library (plug) %s%s (begin %s))" % (decl, imp, effect), [], None, []))
        for _ in range(rng.randint(2, 3)):
            forms.insert(rng.randint(0, len(forms)), rng.choice(["(import (plug))", "(import (plug) (plug))", "(import (only (plug)))"]))
    # the import phase ends with the first other form
    pool = []
    for name, text, deps, ext_peek, aliases in libs:
        if name in imported:
            pool += ["(next-%s)" % name, "(%s)" % ext_peek, "(reset-%s!)" % name] + aliases + aliases
            pool += ["(via-%s-%s)" % (name, d) for d in deps]
    pool += ["(%s 1 2)" % c for c in collide] + ["(car '(1 2))", "(+ 1 2)"]
    pool += [internal, helper, "peek", "(define %s 100)" % internal, "(define (%s d) 'mine)" % helper,
             "(set! %s 7)" % internal, "(define (peek) 'shadow)"]
    for name in imported:
        pool.append("(define next-%s (lambda () 'redefined))" % name)
        pool.append("(define car (lambda (z) 'no-car))")
    if bare:
        pool += ["(define %s 'program)" % free, "(probe)", "(poke!)", free, "bare-own", "(probe)"]
    for _ in range(rng.randint(6, 14)):
        forms.append(rng.choice(pool))
    if bare:
        forms += ["(define %s 'program-again)" % free, "(probe)", "(poke!)", free]
    for name, text, deps, ext_peek, aliases in libs:
        if name in imported:
            forms.append("(%s)" % ext_peek)
            forms += aliases
    return [(n, t) for n, t, _, _, _ in libs], forms


# ------------------------------------------------------------------------------------------
# C18: REPL sessions
# ------------------------------------------------------------------------------------------
import re as _re
_TOKEN = _re.compile(r'''"(?:\\.|[^"\\])*"|#\\.|\|[^|]*\||;[^\n]*|[()']|#\(|[^\s()'";|]+''', _re.S)


def split_tokens(form):
    return _TOKEN.findall(form)


REPL_SPECIAL = [
    "(define zz1 7) (if)", "zz1", '(display "before") (lambda)', "(define zz2 (list 1 2)) )", "zz2",
    "(define zz3 3) (display zz3) (define)", "(+ zz3 1)", "(display 1) #z (display 2)",
    '(display "a(b")', '(display "))")', '(list #\\( #\\) 1)', "(quote |a(b|)", '(display "q\\"(")', "(display 1) ; )(\n",
    '(display "semi;colon(")', "(car '())", "(undefined-thing)", "(define (sq x) (* x x))", "(sq 7)", '(display "x y")',
    "(vector 1 #\\) 2)", "'(a . b)", "(if #f #f)", '(display "\\\\")', "(list \"(\" \")\")", "#\\(", '"plain string"', "'sym",
    "(define-syntax swap! (syntax-rules () ((swap! a b) (let ((tmp a)) (set! a b) (set! b tmp)))))",
    "(begin (display 1) (newline) (display 2) 3)", '(display "two\nlines(")', "(list 1 ; comment )\n 2)",
    "(quote |bar\n(id|)", '(display "a") (display "b")',
    # characters of more than one byte before the parentheses of later lines of the same submission
    '(define (greet name) (display "\u3053\u3093\u306b\u3061\u306f\u3001") (display name) (newline) (list 1 (+ 2 3)))', '(greet "w")',
    '(list "\u00e9\u2192\U0001F600" (list 1 2) (car (list 3)) (list (list)))', '(list #\\\u00e9 (list #\\\u2192) (+ 1 2) (vector))',
    '(begin (display "\U0001F600\U0001F600\U0001F600\U0001F600") (newline) (list (list 1) (list 2)))',
    '(list (quote |\u00fc\u00fc\u00fc\u00fc|) (list (list 1)) (car (list 2)))',
]


# something established by one submission and relied on by LATER ones (every kind of thing a submission can leave behind)
REPL_THREADS = [
    ("(define-syntax swap! (syntax-rules () ((swap! a b) (let ((tmp a)) (set! a b) (set! b tmp)))))",
     ["(define sx 1)", "(define sy 2)", "(swap! sx sy)", "(list sx sy)"]),
    ("(define-syntax my-or (syntax-rules () ((my-or) #f) ((my-or e) e) ((my-or e r ...) (let ((t e)) (if t t (my-or r ...))))))",
     ["(my-or #f 7)", "(my-or)", "(list (my-or #f #f) (my-or 1 2))"]),
    ("(define-syntax twice (syntax-rules () ((twice e) (begin e e))))",
     ["(define tw 0)", "(twice (set! tw (+ tw 1)))", "tw", "(define-syntax twice (syntax-rules () ((twice e) (list e e))))", "(twice tw)"]),
    ("(define kept (vector 1 2))", ["(vector-set! kept 0 'changed)", "kept", "(set! kept 5)", "kept"]),
    ("(define (later-fn x) (helper-fn x))", ["(define (helper-fn x) (* x 2))", "(later-fn 21)"]),
    ("(import (only (scheme base) car))", ["(car '(1 2))"]),
    ("(define counter-thread ((lambda (n) (lambda () (set! n (+ n 1)) n)) 0))", ["(counter-thread)", "(counter-thread)", "(list (counter-thread))"]),
]


def repl_session(rng, nforms=6):
    g = Gen(rng, ticks=False, derived=True)
    forms, _ = g.program(nforms, 2)
    out = []
    for f in forms:
        out.append(f)
        if rng.random() < 0.5:
            out.append(rng.choice(REPL_SPECIAL))
    if rng.random() < 0.7:
        first, later = rng.choice(REPL_THREADS)
        pos = rng.randint(0, len(out))
        out.insert(pos, first)
        for u in later:
            pos = rng.randint(pos + 1, len(out))
            out.insert(pos, u)
            if rng.random() < 0.3:
                # a failing submission in between must not disturb what was established
                out.insert(pos, rng.choice(["(car '())", "(undefined-thing)", "(if)", ")"]))
                pos += 1
    if rng.random() < 0.5:
        # the same submission two or three times in a row (same text, same line splitting): each one is a submission
        rep = rng.choice(["(bump-r!)", '(display "tick")', "(car '())", "(begin (bump-r!) (bump-r!))", "(undefined-thing)",
                          '(begin (display "a") (bump-r!))'])
        pos = rng.randint(0, len(out))
        block = ["(define n-r 0) (define (bump-r!) (set! n-r (+ n-r 1)) n-r)"] + [rep] * rng.randint(2, 3) + ["(* 6 7)", "n-r"]
        out[pos:pos] = block
    return out


def render_lines(rng, forms, style):
    """lay the forms out as input lines, one submission per form: a line break only inside an open list
    (the REPL submits as soon as every list is closed), never inside a token"""
    lines = []
    for f in forms:
        toks = split_tokens(f)
        cur = ""
        depth = 0
        for j, t in enumerate(toks):
            brk = {"one-line": 0.0, "some": 0.25, "many": 0.7}[style]
            if cur and depth > 0 and rng.random() < brk:
                lines.append(cur)
                cur = ""
            sep = ""
            if cur:
                prev = cur[-1]
                glue = prev in "('" or t == ")"
                sep = "" if glue and rng.random() < 0.7 else " "
            cur += sep + t
            if t in ("(", "#("):
                depth += 1
            elif t == ")":
                depth -= 1
            if t.startswith(";"):
                lines.append(cur)
                cur = ""
        if cur:
            lines.append(cur)
    return lines


# ------------------------------------------------------------------------------------------
# C17: program files
# ------------------------------------------------------------------------------------------
SYNTAX_FAULTS = ["(define)", ")", "(display 1", "#z", "\"unterminated", "(lambda)", "(if)", "(let ((x)) x)", "(1 . 2)",
                 "(define-syntax m)", "(quote)"]     # not "'" (it quotes the next form), not "#\\": before a line break it is the newline character


FILE_STRINGS = ['(display "squares:\n%s")' % " ".join(str(k * k) for k in range(1, 330)),
                '(display "a\nb\n%s")' % ("x" * 2100),
                '(display "%s\nend")' % ("long line " * 300),
                '(display "name    \nvalue\t\n")', '(display "two  \n  lines")', '(display (list "a \n" "b\t\n\t"))',
                '(display "ends in escape \\\\\nnext")', '(display "x\n\n y ")', '(display "tab\there ")']


def file_program(rng, nforms=8):
    """returns (forms, index of the failing form or None, kind of failure)"""
    g = Gen(rng, ticks=False, derived=True)
    base, env = g.program(nforms, 2)
    forms = ["(import (scheme base) (scheme write))"]
    for f in base:
        if f.startswith("(define"):
            forms.append(f)
        else:
            forms.append(rng.choice(["(display %s)", "(display %s) (newline)", "(display (list %s \"a b\" #\\c 1.5 1/2))",
                                     "%s"]) % f)
    # string literals that span lines, with blanks / tabs before the line break and escapes at line ends
    for _ in range(rng.choice([0, 0, 1, 2])):
        forms.insert(rng.randint(1, len(forms)), rng.choice(FILE_STRINGS))
    idx, kind = None, None
    k = rng.random()
    if k < 0.35:
        idx = rng.randint(1, len(forms))
        kind = "runtime " + rng.choice(FAULT_KINDS)
        forms.insert(idx, "(display %s)" % fault_expr(rng, kind.split(" ")[1]))
    elif k < 0.6:
        idx = rng.randint(1, len(forms))
        kind = "syntax"
        forms.insert(idx, rng.choice(SYNTAX_FAULTS))
    if idx is not None:
        forms.append("(display 'after)")
    return forms, idx, kind


def boundary_file(rng, boundary, ch, back, eol):
    """a valid program of more than `boundary` bytes in which the UTF-8 encoding of character `ch` (or the CR LF pair)
    begins `back` bytes before byte offset `boundary`: a reader that decodes the file block by block splits it there"""
    pre = '(import (scheme base) (scheme write))' + eol + '(display "start ")' + eol
    head = '(display "x'
    want = boundary - back - len(head.encode()) - len(pre.encode())
    pad = ""
    while want > 0:
        room = min(want, rng.randint(30, 90))
        if want - room < len(eol) + 2 and want != room:
            room = want
        if room < len(eol) + 1:
            raise ValueError("no room")
        pad += ";" + "p" * (room - 1 - len(eol)) + eol
        want -= room
    text = pre + pad + head + ch + 'y")' + eol + '(display (+ 1 2))' + eol + '(display "\u00e9nd")' + eol
    assert text.encode()[boundary - back:boundary - back + len(ch.encode())] == ch.encode()
    return text


def render_file(rng, forms, eol, final_newline):
    parts = []
    for f in forms:
        if rng.random() < 0.2:
            parts.append("; a comment ) (")
        if rng.random() < 0.15:
            # an empty line, or one that holds blanks only
            parts.append(rng.choice(["", "", "   ", "\t", " \t  "]))
        # indentation before, and blanks after, a form
        parts.append(("  " if rng.random() < 0.2 else "") + f + (rng.choice([" ", "  ", "   ", "\t", " \t ", "    "]) if rng.random() < 0.25 else ""))
    text = eol.join(parts)
    if final_newline:
        text += eol
    return text


# ------------------------------------------------------------------------------------------
# C16: values of the readable subset, as expressions that build them
# ------------------------------------------------------------------------------------------
REAL_BITS = ["00000000", "80000000", "3f800000", "bf800000", "3fc00000", "3dcccccd", "3e99999a", "00000001", "00800000",
             "007fffff", "7f7fffff", "ff7fffff", "4b800000", "4b7fffff", "4b800001", "5a0e1bca", "501502f9", "2edbe6ff",
             "38d1b717", "38d1b718", "38d1b716", "5a0e1bc9", "5a0e1bcb", "461c4000", "47c35000", "49742400", "4cbebc20",
             "3a83126f", "3c23d70a", "41200000", "42c80000", "447a0000", "3f000000", "3e800000", "40490fdb", "402df854"]


# characters a text-processing layer is tempted to treat specially: byte order mark, no-break and zero-width spaces,
# line / paragraph separators, next-line, a combining mark, letters outside ASCII and outside the BMP
UNUSUAL_CHARS = ["\ufeff", "\u00a0", "\u200b", "\u2028", "\u2029", "\u0085", "\u0301", "\u00e9", "\u03bb", "\u4e2d",
                 "\U0001f600", "\u00ad", "\ufffd", "\u007f"]


def readable_value(rng, depth, defs):
    """returns an expression; reals are bound to variables via DEFNUM lines collected in defs"""
    k = rng.random()
    if depth <= 0 or k < 0.35:
        a = rng.random()
        if a < 0.25:
            return str(rng.choice([0, 1, -1, 42, -42, 2147483647, -2147483648, 1000000, rng.randint(-10 ** 9, 10 ** 9)]))
        if a < 0.40:
            n, d = rng.choice([1, -1, 3, -7, 22, 355, -2147483647]), rng.choice([2, 3, 7, 113, 2147483647])
            return rng.choice(["%d/%d" % (n, d), "(/ %d %d)" % (n, -d), "(/ %d %d)" % (n, d)])
        if a < 0.60:
            bits = rng.choice(REAL_BITS) if rng.random() < 0.6 else "%08x" % rng.getrandbits(32)
            e = int(bits, 16) >> 23 & 0xff
            if e == 0xff:
                bits = "3f800000"          # non-finite reals are outside the readable subset
            name = "r%d" % len(defs)
            defs.append((name, bits))
            return name
        if a < 0.72:
            return rng.choice(["#t", "#f"])
        if a < 0.82:
            return "#\\" + rng.choice(list("azAZ09!?*+-/<=>_~()\";'|#") + ["x", " ", " "] + UNUSUAL_CHARS)
        return "'" + rng.choice(["a", "foo", "list->vector", "x1", "!", "<=?", "a.b", "+", "-", "...", "->x", "set!"])
    if k < 0.7:
        items = [readable_value(rng, depth - 1, defs) for _ in range(rng.randint(0, 6))]
        if items and rng.random() < 0.3:
            tail = readable_value(rng, depth - 1, defs)
            expr = tail
            for it in reversed(items):
                expr = "(cons %s %s)" % (it, expr)
            return expr
        return "(list %s)" % " ".join(items)
    items = [readable_value(rng, depth - 1, defs) for _ in range(rng.randint(0, 5))]
    if rng.random() < 0.25:
        items.append("#\\ ")           # a vector whose last element is the space character
    return "(vector %s)" % " ".join(items)


# ------------------------------------------------------------------------------------------
# C15: fault programs laid out over several lines, with known extents
# ------------------------------------------------------------------------------------------
LAYOUT_STRINGS = ['"first line\nsecond line\n  third"', '"tab\there \u00e9\u00fc"', '"esc \\" q \\\\ \\n z\nnext"',
                  '"\nstarts with a line break"', '"x\\n\ny"', '"a\n\nb"', '#\\x "s\nt"', '"\u4e2d\u6587 wide"', "'|sym\nbol|"]


def layout_program(rng, forms):
    """returns (text, extents, token_ends) where extents[k] = ((line, col) of the first character,
    (line, col) just after the last character) of form k; 1-based, columns count characters;
    token_ends[k][j] = (line, col) just after token j of form k"""
    text = ""
    line, col = 1, 1
    extents = []
    token_ends = []

    def emit(s):
        nonlocal text, line, col
        for ch in s:
            text += ch
            if ch == "\n":
                line += 1
                col = 1
            else:
                col += 1

    for f in forms:
        emit(rng.choice(["", "\n", "  ", "\n\n", "; note (\n", "   ; )\n  ", "\t"]))
        if rng.random() < 0.3:
            # a string literal that spans lines (a top-level form of its own, evaluating to itself), tabs, escapes,
            # characters outside ASCII: the line/column bookkeeping inside tokens
            emit(rng.choice(LAYOUT_STRINGS))
            emit(rng.choice(["\n", " ", "\n  "]))
        toks = split_tokens(f)
        start = None
        depth = 0
        ends = []
        for j, t in enumerate(toks):
            if j > 0:
                prev = toks[j - 1]
                glue = (prev in ("(", "'", "#(") or t == ")")
                sep = rng.choice(["", " "]) if glue else rng.choice([" ", " ", "  ", "\n", "\n    ", " ; c\n "]) if depth > 0 else " "
                emit(sep)
            if start is None:
                start = (line, col)
            emit(t)
            ends.append((line, col))
            if t in ("(", "#("):
                depth += 1
            elif t == ")":
                depth -= 1
        extents.append((start, (line, col)))
        token_ends.append(ends)
        emit(rng.choice(["\n", "\n", " ", "\n\n"]))
    return text, extents, token_ends


LOC_FAULTS = {
    # kind -> list of (expression, marker token whose end is the expected location or None)
    "unbound-ref": [("undefined-variable", "undefined-variable"), ("(+ 1 undefined-variable)", "undefined-variable"),
                    ("(undefined-procedure 1 2)", "undefined-procedure"), ("(list 1 (car undefined-variable))", "undefined-variable")],
    "non-procedure": [("(5 1)", "5"), ("(#t 2 3)", "#t"), ("(\"s\" 1)", "\"s\""), ("(+ 1 (7 2))", "7")],
    "unbound-set": [("(set! undefined-variable 1)", None)],
    "arity": [("((lambda (a b) a) 1)", None), ("(car 1 2)", None), ("(fa2 1)", None)],
    "type": [("(+ 1 'a)", None), ("(car 5)", None), ("(vector-ref 5 0)", None)],
    "vector-index": [("(vector-ref (vector 1 2) 2)", None)],
    "literal-vector": [("(vector-set! '#(1 2) 0 9)", None)],
    "division-by-zero": [("(/ 1 0)", None), ("(floor-quotient 7 0)", None)],
}
LOC_CONTEXTS = ["direct", "nested", "lambda-call", "apply", "library-lambda", "derived"]


LOC_DERIVED = ["(let ((z 1)) z %s)", "(let* ((z 1) (w z)) w %s)", "(cond (#f 1) (else 2 %s))", "(and 1 %s)", "(or #f %s)",
               "(begin 1 %s)", "(when #t 1 %s)", "(case 2 ((1) 0) ((2) 5 %s) (else 1))", "(cond (%s))", "(and %s)", "(or %s)",
               "(unless #f 1 %s)", "(cond (#f 1) (%s))", "(case 2 ((2) %s))"]


def located_fault_program(rng, kind, context, template=None, fault=None):
    """the fault sits in the text of the failing top-level form itself. returns (forms, index, marker) where marker is
    None or the index, among the tokens of the failing form, of the offending identifier / operator"""
    g = Gen(rng, ticks=False, derived=True)
    forms, _ = g.program(rng.randint(0, 5), 2)
    forms.append("(define fa2 (lambda (a b) (+ a b)))")
    # identifiers that begin with a sign or a dot take another path through the lexer
    forms.append("(define ->n 5) (define -neg 2) (define +pos 3)")
    expr, marker = fault if fault is not None else rng.choice(LOC_FAULTS[kind])
    if context == "direct":
        f = expr
    elif context == "nested":
        f = rng.choice(["(list 1 %s 3)", "(+ 1 (if #t %s 0))", "(vector (cons 1 %s))", "(list \"two\nlines\" %s)",
                        "(cons \"a\\\\\nb\tc\" (list %s))", "(list ->n -neg +pos %s)", "(list '... '->x '-y (+ ->n %s))",
                        "(list (- -neg ->n) '(... ...) %s)", "(list -1/2 +5 -7.25 1e3 #\\x %s)"]) % expr
    elif context == "lambda-call":
        f = rng.choice(["((lambda (z) %s) 1)", "((lambda () 1 %s))", "((lambda (z) (if z %s 0)) #t)"]) % expr
    elif context == "apply":
        f = "(apply (lambda (z) %s) '(1))" % expr
    elif context == "library-lambda":
        f = rng.choice(["(map (lambda (z) %s) '(1 2))", "(for-each (lambda (z) %s) '(1))", "(fold-left (lambda (z acc) %s) 0 '(1))"]) % expr
    else:
        f = (template if template is not None else rng.choice(LOC_DERIVED)) % expr
    if rng.random() < 0.4:
        # the same text earlier in the program, where it does not fail (the body of a procedure that is never called, or
        # called with the name bound): what is reported for the failing form must not depend on it
        forms.insert(rng.randint(0, len(forms)), rng.choice(["(define (unused-helper) %s)", "(define unused-thunk (lambda () (list %s)))",
                                                              "(define (unused-2 undefined-variable undefined-procedure) %s)"]) % f)
    idx = len(forms)
    forms.append(f)
    forms.append("(display 'not-reached)")
    if marker is not None:
        # f = wrapper % expr: the marker's token index = tokens of the wrapper before the hole + its index in expr
        k = f.index(expr)
        assert f.count(expr) == 1
        marker = len(split_tokens(f[:k])) + split_tokens(expr).index(marker)
        assert split_tokens(f)[marker] in expr
    return forms, idx, marker


# ------------------------------------------------------------------------------------------
# C11: the list library against a model on python lists
# ------------------------------------------------------------------------------------------
class Str(str):
    """a Scheme string in the python model of the data (plain str is a symbol)"""


class Chr(str):
    """a Scheme character in the python model of the data"""


class PyList:
    """python model of the data: ints, symbols (str), strings (Str), characters (Chr), pairs as ('pair', a, b), nil as ()"""
    @staticmethod
    def from_items(items, tail=()):
        v = tail
        for x in reversed(items):
            v = ("pair", x, v)
        return v

    @staticmethod
    def render(v):
        if v == ():
            return "()"
        if isinstance(v, bool):
            return "#t" if v else "#f"
        if isinstance(v, int):
            return str(v)
        if isinstance(v, Str):
            return '"%s"' % v
        if isinstance(v, Chr):
            return "#\\" + v
        if isinstance(v, str):
            return v
        items = []
        while isinstance(v, tuple) and v and v[0] == "pair":
            items.append(PyList.render(v[1]))
            v = v[2]
        if v == ():
            return "(" + " ".join(items) + ")"
        return "(" + " ".join(items) + " . " + PyList.render(v) + ")"

    @staticmethod
    def canon(v):
        if v == ():
            return "()"
        if isinstance(v, bool):
            return "#t" if v else "#f"
        if isinstance(v, int):
            return "i%d" % v
        if isinstance(v, Str):
            return "(str %s)" % v.encode().hex()
        if isinstance(v, Chr):
            return "(char %d)" % ord(v)
        if isinstance(v, str):
            return "(sym %s)" % v.encode().hex()
        return "(pair %s %s)" % (PyList.canon(v[1]), PyList.canon(v[2]))


def rand_atom(rng):
    return rng.choice([0, 1, 2, 3, 7, -1, 42, "a", "b", "c", True, False, Str("a"), Str("two"), Str(""), Chr("a"), Chr("b"), Chr("x")])


def rand_list(rng, maxlen=12, depth=2, improper=0.15):
    n = rng.randint(0, maxlen) if rng.random() < 0.8 else rng.randint(0, 3)
    items = []
    for _ in range(n):
        if depth > 0 and rng.random() < 0.2:
            items.append(rand_list(rng, 4, depth - 1, improper))
        else:
            items.append(rand_atom(rng))
    tail = ()
    if items and rng.random() < improper:
        tail = rand_atom(rng)
    return PyList.from_items(items, tail)


def py_items(v):
    items = []
    while isinstance(v, tuple) and v and v[0] == "pair":
        items.append(v[1])
        v = v[2]
    return items, v


def is_pair(v):
    return isinstance(v, tuple) and len(v) == 3 and v[0] == "pair"


class LibError(Exception):
    pass


def py_eqv(a, b):
    if is_pair(a) or is_pair(b):
        return False
    return type(a) == type(b) and a == b


def py_equal(a, b):
    if is_pair(a) and is_pair(b):
        return py_equal(a[1], b[1]) and py_equal(a[2], b[2])
    if is_pair(a) or is_pair(b):
        return False
    return py_eqv(a, b)


def perturb(rng, v):
    """a copy of v that differs from it in exactly one place (an atom changed, an element dropped or added, the tail
    changed), at a random position of a random nesting level"""
    if not is_pair(v):
        return rng.choice([x for x in [0, 1, "a", "z", (), True, ("pair", 1, ()), Str("a"), Str("z"), Chr("a"), Chr("z")] if not py_equal(x, v)])
    items, tail = py_items(v)
    k = rng.randrange(len(items) + 1)
    if k < len(items) and rng.random() < 0.6:
        items = items[:k] + [perturb(rng, items[k])] + items[k + 1:]
    elif k < len(items) and len(items) > 1 and rng.random() < 0.5:
        items = items[:k] + items[k + 1:]
    elif rng.random() < 0.5:
        items = items[:k] + [rand_atom(rng)] + items[k:]
    else:
        tail = perturb(rng, tail)
    return PyList.from_items(items, tail)


def list_call(rng):
    """returns (scheme text, expected canonical value or 'error', procedure name)"""
    q = lambda v: "'" + PyList.render(v) if (is_pair(v) or v == () or isinstance(v, str)) else PyList.render(v)
    name = rng.choice(["car", "cdr", "cons", "cxr", "list", "make-list", "null?", "pair?", "list?", "append", "map", "for-each",
                       "fold-left", "fold-right", "list-tail", "list-ref", "last-pair", "memq", "memv", "equal?", "apply",
                       "compose"])
    try:
        if name in ("car", "cdr"):
            v = rand_list(rng) if rng.random() < 0.9 else rand_atom(rng)
            if not is_pair(v):
                raise LibError()
            return "(%s %s)" % (name, q(v)), PyList.canon(v[1] if name == "car" else v[2]), name
        if name == "cons":
            a, b = rand_list(rng, 3), rand_list(rng, 4)
            return "(cons %s %s)" % (q(a), q(b)), PyList.canon(("pair", a, b)), name
        if name == "cxr":
            path = "".join(rng.choice("ad") for _ in range(rng.randint(2, 3)))
            v = rand_list(rng, 4, 3, 0.1)
            cur = v
            text = "(c%sr %s)" % (path, q(v))
            for step in reversed(path):
                if not is_pair(cur):
                    return text, "error", "c%sr" % path
                cur = cur[1] if step == "a" else cur[2]
            return text, PyList.canon(cur), "c%sr" % path
        if name == "list":
            items = [rand_atom(rng) for _ in range(rng.randint(0, 6))]
            return "(list %s)" % " ".join(q(x) for x in items), PyList.canon(PyList.from_items(items)), name
        if name == "make-list":
            k = rng.randint(0, 6)
            x = rand_atom(rng)
            return "(make-list %d %s)" % (k, q(x)), PyList.canon(PyList.from_items([x] * k)), name
        if name in ("null?", "pair?", "list?"):
            v = rng.choice([rand_list(rng, 4), rand_atom(rng), ()])
            items, tail = py_items(v)
            res = {"null?": v == (), "pair?": is_pair(v), "list?": (is_pair(v) or v == ()) and tail == ()}[name]
            return "(%s %s)" % (name, q(v)), PyList.canon(res), name
        if name == "append":
            ls = [rand_list(rng, 4, 1, 0.0) for _ in range(rng.randint(0, 4))]
            if ls and rng.random() < 0.3:
                ls[-1] = rng.choice([rand_atom(rng), rand_list(rng, 3, 1, 0.5)])
            if rng.random() < 0.3 and len(ls) >= 2:
                ls[rng.randrange(len(ls) - 1)] = ()
            if not ls:
                return "(append)", "()", name
            acc = ls[-1]
            for l in reversed(ls[:-1]):
                items, tail = py_items(l)
                acc = PyList.from_items(items, acc)
            return "(append %s)" % " ".join(q(l) for l in ls), PyList.canon(acc), name
        if name == "map":
            l = rand_list(rng, 8, 0, 0.0)
            items, _ = py_items(l)
            return "(map (lambda (z) (tick 7 (list z))) %s)" % q(l), PyList.canon(PyList.from_items([PyList.from_items([x]) for x in items])) + " ticks=%d" % len(items), name
        if name == "for-each":
            l = rand_list(rng, 8, 0, 0.0)
            items, _ = py_items(l)
            return "(begin (for-each (lambda (z) (tick 7 z)) %s) 'done)" % q(l), "(sym 646f6e65) ticks=%d" % len(items), name
        if name == "fold-left":
            l = rand_list(rng, 8, 0, 0.0)
            items, _ = py_items(l)
            acc = ()
            for x in items:
                acc = ("pair", x, acc)          # minischeme argument order: (f elem acc)
            return "(fold-left cons '() %s)" % q(l), PyList.canon(acc), name
        if name == "fold-right":
            l = rand_list(rng, 8, 0, 0.0)
            items, _ = py_items(l)
            acc = ()
            for x in reversed(items):
                acc = PyList.from_items([x, acc])
            return "(fold-right list '() %s)" % q(l), PyList.canon(acc), name
        if name in ("list-tail", "list-ref"):
            l = rand_list(rng, 8, 1, 0.2)
            items, tail = py_items(l)
            k = rng.randint(0, len(items) + 1)
            cur = l
            for _ in range(k):
                if not is_pair(cur):
                    raise LibError()
                cur = cur[2]
            if name == "list-ref":
                if not is_pair(cur):
                    raise LibError()
                cur = cur[1]
            return "(%s %s %d)" % (name, q(l), k), PyList.canon(cur), name
        if name == "last-pair":
            l = rand_list(rng, 8, 1, 0.3)
            if not is_pair(l):
                raise LibError()
            cur = l
            while is_pair(cur[2]):
                cur = cur[2]
            return "(last-pair %s)" % q(l), PyList.canon(cur), name
        if name in ("memq", "memv"):
            l = rand_list(rng, 8, 1, 0.0)
            x = rand_atom(rng)
            cur = l
            while is_pair(cur) and not py_eqv(x, cur[1]):
                cur = cur[2]
            res = cur if is_pair(cur) else False
            return "(%s %s %s)" % (name, q(x), q(l)), PyList.canon(res), name
        if name == "equal?":
            a = rand_list(rng, 5, 2, 0.2)
            r = rng.random()
            b = a if r < 0.35 else (perturb(rng, a) if r < 0.8 else rand_list(rng, 5, 2, 0.2))
            if rng.random() < 0.5:
                a, b = b, a
            return "(equal? %s %s)" % (q(a), q(b)), PyList.canon(py_equal(a, b)), name
        if name == "apply":
            l = rand_list(rng, 5, 0, 0.0)
            items, _ = py_items(l)
            pre = [rand_atom(rng) for _ in range(rng.randint(0, 2))]
            return "(apply list %s %s)" % (" ".join(q(x) for x in pre), q(l)), PyList.canon(PyList.from_items(pre + items)), name
        # compositions
        l1, l2 = rand_list(rng, 5, 0, 0.0), rand_list(rng, 5, 0, 0.0)
        i1, _ = py_items(l1)
        i2, _ = py_items(l2)
        allv = i1 + i2
        if not allv:
            raise LibError()
        k = rng.randrange(len(allv))
        return "(list-ref (append %s %s) %d)" % (q(l1), q(l2), k), PyList.canon(allv[k]), "compose"
    except LibError:
        # regenerate the text for the error case
        return list_call_error(rng, name)


LONG_LENGTHS = [31, 32, 33, 63, 64, 65, 99, 100, 101, 102, 103, 127, 128, 129, 199, 200, 201, 255, 256, 257]


def long_list_call(rng, lengths=None):
    """the list procedures on LONG proper lists of distinct integers (lengths around the thresholds an implementation
    might treat specially), with order-sensitive procedure arguments. A long result is observed at its first element, at
    seven random positions and at its last pair (the canonical printer stops at nesting depth 200).
    returns (text, expected, name)"""
    n = rng.choice(lengths or LONG_LENGTHS)
    items = list(range(1, n + 1))
    l = PyList.from_items(items)
    lit = "'" + PyList.render(l)

    def sample(expr, res):
        m = len(res)
        ks = sorted(set(rng.randrange(m) for _ in range(7)) | {0, m - 1, min(m - 1, 99), min(m - 1, 100), min(m - 1, 101)})
        text = "((lambda (r) (list %s (car (last-pair r)) (null? (cdr (last-pair r))))) %s)" % (
            " ".join("(list-ref r %d)" % k for k in ks), expr)
        return text, PyList.canon(PyList.from_items([res[k] for k in ks] + [res[-1], True]))

    name = rng.choice(["fold-right", "fold-right", "fold-left", "map", "for-each", "append", "list-tail", "list-ref", "last-pair",
                       "memv", "list?", "equal?", "apply", "make-list"])
    if name == "fold-right":
        if rng.random() < 0.5:
            t, w = sample("(fold-right cons '() %s)" % lit, items)
            return t, w, name
        acc = 0
        for x in reversed(items):
            acc = x - acc
        return "(fold-right - 0 %s)" % lit, PyList.canon(acc), name
    if name == "fold-left":
        t, w = sample("(fold-left cons '() %s)" % lit, list(reversed(items)))
        return t, w, name
    if name == "map":
        t, w = sample("(map (lambda (z) (tick 7 (+ z 1))) %s)" % lit, [x + 1 for x in items])
        return t, w + " ticks=%d" % n, name
    if name == "for-each":
        return "(begin (for-each (lambda (z) (tick 7 z)) %s) 'done)" % lit, "(sym 646f6e65) ticks=%d" % n, name
    if name == "append":
        k = rng.randint(0, n)
        a, b = PyList.from_items(items[:k]), PyList.from_items(items[k:])
        t, w = sample("(append '%s '%s)" % (PyList.render(a), PyList.render(b)), items)
        return t, w, name
    if name == "list-tail":
        k = rng.choice([0, n // 2, n - 2, n - 1])
        t, w = sample("(list-tail %s %d)" % (lit, k), items[k:])
        return t, w, name
    if name == "list-ref":
        k = rng.choice([0, n // 2, n - 2, n - 1])
        return "(list-ref %s %d)" % (lit, k), PyList.canon(items[k]), name
    if name == "last-pair":
        return "(last-pair %s)" % lit, PyList.canon(PyList.from_items([n])), name
    if name == "memv":
        k = rng.choice([1, n // 2, n - 1, n, n + 1])
        if k > n:
            return "(memv %d %s)" % (k, lit), PyList.canon(False), name
        t, w = sample("(memv %d %s)" % (k, lit), items[k - 1:])
        return t, w, name
    if name == "list?":
        return "(list? %s)" % lit, PyList.canon(True), name
    if name == "equal?":
        other = list(items)
        same = rng.random() < 0.5
        if not same:
            other[rng.choice([0, n // 2, n - 1])] = 0
        return "(equal? %s '%s)" % (lit, PyList.render(PyList.from_items(other))), PyList.canon(same), name
    if name == "apply":
        t, w = sample("(apply list 0 %s)" % lit, [0] + items)
        return t, w, name
    t, w = sample("(make-list %d 'x)" % n, ["x"] * n)
    return t, w, "make-list"


def list_call_error(rng, name):
    q = lambda v: "'" + PyList.render(v) if (is_pair(v) or v == () or isinstance(v, str)) else PyList.render(v)
    if name in ("car", "cdr", "last-pair"):
        return "(%s %s)" % (name, rng.choice(["'()", "5", "'a"])), "error", name
    if name in ("list-tail", "list-ref"):
        l = rand_list(rng, 4, 0, 0.0)
        items, _ = py_items(l)
        return "(%s %s %d)" % (name, q(l), len(items) + 1 + rng.randint(0, 2)), "error", name
    return "(car '())", "error", "car"


# names of standard procedures used as operators; a program may bind any of them to something else
SHADOWABLE = ["not", "null?", "car", "cdr", "list", "cons", "+", "-", "*", "<", "=", "eqv?", "pair?", "vector-ref", "apply"]
SHADOW_MEANINGS = ["pair?", "null?", "(lambda (v) v)", "(lambda (v) (eqv? v 0))", "(lambda (v) #f)", "(lambda (v) (cons 'own v))",
                   "car", "(lambda (v) 'sym)", "list"]


def shadowed_builtin_program(rng):
    """identifiers resolve lexically whatever they are called: a parameter, an internal or top-level definition or a
    let-bound variable named like a standard procedure is what an operator of that name refers to - in tests of
    conditionals (one- and two-armed), in operands, in tail position"""
    name = rng.choice(SHADOWABLE)
    arg = rng.choice(["'(1 2)", "'()", "0", "5", "#f", "#t", "'sym"])
    use = rng.choice([
        "(if (%s x) 'yes 'no)", "(if (%s x) 'yes)", "(if (%s x) (list 'then x) (list 'else x))", "(list (%s x))",
        "(%s x)", "(if (if (%s x) #f #t) 'inner-yes 'inner-no)", "(cond ((%s x) 'first) (else 'second))",
        "(and (%s x) 'both)", "(or (%s x) 'neither)", "(when (%s x) 'w)", "(unless (%s x) 'u)",
        "(let ((r (%s x))) (if r 'bound-yes 'bound-no))"]) % name
    meaning = rng.choice(SHADOW_MEANINGS)
    shape = rng.choice(["parameter", "internal", "toplevel", "let", "lambda-operand", "set"])
    if shape == "parameter":
        forms = ["(define (p %s x) %s)" % (name, use), "(p %s %s)" % (meaning, arg), "(p %s %s)" % (name, arg)]
    elif shape == "internal":
        forms = ["(define (p x) (define %s %s) %s)" % (name, meaning, use), "(p %s)" % arg]
    elif shape == "toplevel":
        forms = ["(define saved %s)" % name, "(define %s %s)" % (name, meaning), "(define (p x) %s)" % use, "(p %s)" % arg,
                 "(define x %s)" % arg, use, "(define %s saved)" % name, "(p %s)" % arg]
    elif shape == "let":
        forms = ["(define (p x) (let ((%s %s)) %s))" % (name, meaning, use), "(p %s)" % arg]
    elif shape == "lambda-operand":
        forms = ["((lambda (%s x) %s) %s %s)" % (name, use, meaning, arg)]
    else:
        forms = ["(define (p x) %s)" % use, "(p %s)" % arg, "(define saved %s)" % name, "(set! %s %s)" % (name, meaning),
                 "(p %s)" % arg, "(set! %s saved)" % name, "(p %s)" % arg]
    return forms


def sequential_binding_program(rng):
    """binding forms that bind several names in sequence (let*, nested let, internal definitions, named parameters): a
    closure made by an EARLIER initialiser that mentions a name bound LATER in the same form (or bound twice) shares
    the outer / earlier binding, not the later one; then the later binding is assigned or its vector mutated"""
    nm = rng.choice(["total", "n", "cell", "acc"])
    outer = rng.choice(["global", "parameter", "earlier", "none"])
    form = rng.choice(["let*", "let*", "nested-let", "let*-3"])
    vec = rng.random() < 0.4
    v0, v1 = rng.randint(1, 9), rng.randint(10, 99)
    init0 = "(vector %d)" % v0 if vec else str(v0)
    init1 = "(vector %d)" % v1 if vec else str(v1)
    read = "(vector-ref %s 0)" % nm if vec else nm
    mutate = "(vector-set! %s 0 (+ %s 1))" % (nm, read) if vec else "(set! %s (+ %s 1))" % (nm, read)
    getter = "(get (lambda () %s))" % read
    setter = "(bump (lambda () %s))" % mutate
    first = [getter] if rng.random() < 0.6 else [getter, setter]
    later = "(%s %s)" % (nm, init1)
    pre = ["(%s %s)" % (nm, init0)] if outer == "earlier" else []
    extra = ["(other %d)" % rng.randint(0, 5)] if form == "let*-3" else []
    binds = pre + first + extra + [later]
    body = "%s (list %s (get)%s)" % (mutate, read, " (begin (bump) (get)) %s" % read if len(first) == 2 else "")
    if form == "nested-let":
        expr = body
        for b in reversed(binds):
            expr = "(let (%s) %s)" % (b, expr)
    else:
        expr = "(let* (%s) %s)" % (" ".join(binds), body)
    forms = []
    if outer == "global":
        forms.append("(define %s %s)" % (nm, "(vector 100)" if vec else "100"))
    if outer == "parameter":
        forms.append("(define (make %s) %s)" % (nm, expr))
        forms.append("(make %s)" % ("(vector 200)" if vec else "200"))
        forms.append("(make %s)" % ("(vector 300)" if vec else "300"))
    else:
        forms.append("(define (make) %s)" % expr)
        forms += ["(make)", "(make)"]
    if outer == "global":
        forms.append(read)
    forms.append(expr)
    return forms


def big_datum_texts(rng, quick):
    """texts of single data that are large in one dimension: nesting depth (lists, vectors, quotations, mixed), number of
    dotted pairs, number of elements; each with the value of a probe that only the correct datum gives"""
    out = []
    depths = [64, 200, 300, 520, 700] if quick else [64, 128, 200, 255, 256, 257, 300, 511, 512, 513, 520, 700, 850]
    for n in depths:
        opener = rng.choice(["(", "(", "#(", "(a ", "'("])
        out.append(("nested", n, opener * n + "core" + ")" * n))
        out.append(("nested-mixed", n, "".join(rng.choice(["(", "#(", "(x "]) for _ in range(n)) + "core" + ")" * n))
    for n in ([100, 300, 600] if quick else [100, 253, 254, 255, 256, 300, 600, 1500]):
        out.append(("dotted-pairs", n, "(" + " ".join("(%d . %d)" % (k, k * k) for k in range(n)) + ")"))
        out.append(("dotted-tail-chain", n, "(" + " ".join("(k%d" % k for k in range(n)) + " . end" + ")" * n + ")"))
        out.append(("wide", n * 4, "(" + " ".join(rng.choice(["a", "1", "#t", "(b)", "#(c)", "\"s\""]) for _ in range(n * 4)) + ")"))
    return out


def user_macro_fault_program(rng):
    """a syntax-rules macro of the program whose template has free identifiers (also under an ellipsis) that are unbound, or
    bound to a non-procedure, at run time; the use that reaches one - for the k-th of n items - is the failing form, and the
    error belongs to that use, not to the text of the definition"""
    g = Gen(rng, ticks=False, derived=True)
    forms, _ = g.program(rng.randint(0, 3), 2)
    n = rng.randint(1, 5)
    p = rng.randrange(n)
    free = rng.choice(["complain", "missing-proc", "oops"])
    shape = rng.choice(["ellipsis", "ellipsis", "ellipsis-pairs", "plain", "ellipsis-operator"])
    if rng.random() < 0.3:
        forms.append("(define %s 5)" % free)          # bound, but not to a procedure
    if shape == "ellipsis":
        forms.append("(define-syntax checked (syntax-rules () ((checked v ...) (list (if v v (%s 'v)) ...))))" % free)
        use = "(checked %s)" % " ".join("#f" if k == p else str(k + 1) for k in range(n))
    elif shape == "ellipsis-pairs":
        forms.append("(define-syntax table (syntax-rules () ((table (k v) ...) (list (cons 'k (if v v (%s 'k))) ...))))" % free)
        use = "(table %s)" % " ".join("(key%d %s)" % (k, "#f" if k == p else str(k)) for k in range(n))
    elif shape == "plain":
        forms.append("(define-syntax pick (syntax-rules () ((pick a b) (if a b (%s b)))))" % free)
        use = "(pick #f %d)" % n
    elif shape == "ellipsis-operator":
        forms.append("(define-syntax each (syntax-rules () ((each v ...) (begin (if v (%s v) v) ...))))" % free)
        use = "(each %s)" % " ".join("#t" if k == p else "#f" for k in range(n))
    else:
        forms.append("(define-syntax outer (syntax-rules () ((outer (v ...) ...) (list (list (if v v (%s)) ...) ...))))" % free)
        use = "(outer %s)" % " ".join("(%s)" % " ".join("#f" if (k == p and j == 1) else "1" for j in range(3)) for k in range(n))
    wrap = rng.choice(["%s", "%s", "(list 0 %s)", "(let ((z 1)) %s)", "((lambda () %s))", "(display %s)"])
    idx = len(forms)
    forms.append(wrap % use)
    forms.append("(display 'not-reached)")
    return forms, idx, None


def early_closure_program(rng):
    """a body WITHOUT parameters (zero-argument generator, let (), immediately called thunk) whose FIRST internal
    definition is a procedure that reads and assigns state the same body defines AFTER it (or calls itself): the closure
    belongs to the frame of that call - empty at the time - so each call has its own state and an outer binding of the
    same name is never touched"""
    st = rng.choice(["n", "count", "state"])
    vec = rng.random() < 0.35
    outer = rng.random() < 0.6
    init_outer = "(vector 'global)" if vec else "100"
    if vec:
        first = rng.choice(["(define (bump) (vector-set! %s 0 (cons 'x (vector-ref %s 0))) (vector-ref %s 0))" % (st, st, st),
                            "(define bump (lambda () (vector-set! %s 0 (cons 'x (vector-ref %s 0))) (vector-ref %s 0)))" % (st, st, st)])
        later = "(define %s (vector '()))" % st
    else:
        first = rng.choice(["(define (bump) (set! %s (+ %s 1)) %s)" % (st, st, st),
                            "(define bump (lambda () (set! %s (+ %s 1)) %s))" % (st, st, st),
                            "(define (bump . r) (if (null? r) (begin (set! %s (+ %s 1)) (bump 'again)) %s))" % (st, st, st)])
        later = "(define %s 0)" % st
    shape = rng.choice(["generator", "generator", "let-unit", "thunk", "lambda-value"])
    if shape == "generator":
        make = "(define (make) %s %s bump)" % (first, later)
    elif shape == "let-unit":
        make = "(define (make) (let () %s %s bump))" % (first, later)
    elif shape == "thunk":
        make = "(define (make) ((lambda () %s %s bump)))" % (first, later)
    else:
        make = "(define make (lambda () %s %s (lambda () (bump))))" % (first, later)
    forms = []
    if outer:
        forms.append("(define %s %s)" % (st, init_outer))
    forms += [make, "(define c1 (make))", "(define c2 (make))", "(c1)", "(c1)", "(c2)", "(c1)"]
    if outer:
        forms.append(st)
    forms.append("(list (c2) (c1))")
    return forms


def repeated_operand_forms(rng):
    """derived and core forms whose operands are TEXTUALLY IDENTICAL expressions with an effect: each occurrence is
    evaluated on its own (number of evaluations, order, deciding value)"""
    e = rng.choice(["(next!)", "(tick 1 (next!))", "(begin (next!))", "(car (list (next!)))"])
    f = rng.choice(["(begin (next!) #f)", "(not (next!))"])
    shapes = ["(and %(e)s %(e)s)", "(and %(e)s %(e)s %(e)s)", "(and 1 %(e)s %(e)s)", "(or %(f)s %(f)s)", "(or %(f)s %(f)s %(e)s)",
              "(if %(e)s %(e)s)", "(if %(e)s %(e)s %(e)s)", "(if %(f)s %(f)s %(f)s)", "(cond (%(e)s %(e)s))", "(cond (%(f)s %(f)s) (%(e)s %(e)s))",
              "(cond (%(e)s))", "(cond (%(f)s) (%(e)s))", "(when %(e)s %(e)s)", "(unless %(f)s %(f)s)", "(begin %(e)s %(e)s)",
              "(let ((a %(e)s) (b %(e)s)) (list a b))", "(let* ((a %(e)s) (b %(e)s)) (list a b))", "(list %(e)s %(e)s)",
              "(case %(e)s ((1 2 3) %(e)s) (else %(e)s))", "(cond (%(e)s => (lambda (r) (list r %(e)s))))",
              "((lambda (x) (and x x %(e)s %(e)s)) 1)", "(define (p) (and %(e)s %(e)s))"]
    forms = ["(define n 0)", "(define (next!) (set! n (+ n 1)) n)"]
    for sh in rng.sample(shapes, rng.randint(2, 5)):
        forms.append(sh % {"e": e, "f": f})
        if sh.startswith("(define (p)"):
            forms.append("(p)")
            forms.append("(list (p))")
        forms.append("n")
    return forms
