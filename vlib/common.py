"""Shared machinery of the Ruschm verification checks (python3 stdlib only).

build steps (Coq development, extraction, OCaml driver, Rust harness, ruschm binary),
hygiene gate, Print Assumptions gate, sharded differential execution, known findings,
evidence and replay writing.
"""
import fcntl
import hashlib
import json
import os
import random
import re
import shutil
import subprocess
import sys
import time

VERIF = os.path.dirname(os.path.dirname(os.path.abspath(__file__)))
REPO = os.environ.get("RUSCHM_REPO", "/repo")
CACHE = os.path.join(VERIF, ".cache")
COQ = os.path.join(VERIF, "coq")
OCAML = os.path.join(VERIF, "ocaml")
HARNESS = os.path.join(VERIF, "harness")
DRIVER_EXE = os.path.join(CACHE, "driver.exe")
HARNESS_TARGET = os.path.join(CACHE, "harness-target")
HARNESS_EXE = os.path.join(HARNESS_TARGET, "debug", "vharness")
BIN_TARGET = os.path.join(CACHE, "ruschm-target")
RUSCHM_BIN = os.path.join(BIN_TARGET, "debug", "ruschm")
NCPU = min(16, os.cpu_count() or 4)

# axioms of the Coq standard library that Flocq's binary32 development depends on
FLOCQ_AXIOMS = [
    "ClassicalDedekindReals.sig_not_dec",
    "ClassicalDedekindReals.sig_forall_dec",
    "FunctionalExtensionality.functional_extensionality_dep",
    "Classical_Prop.classic",
]

TRUSTED_BASE_COMMON = [
    "Coq 8.16.1 kernel; vm_compute for closed computations; no native_compute",
    "extraction with ExtrOcamlBasic only (bool, option, unit, list, prod, sumbool, sumor mapped to OCaml; "
    "andb/orb inlined); N, Z, positive, nat extracted as inductives; OCaml 4.13.1",
    "hand-written OCaml driver ocaml/driver.ml and Rust harness harness/src/main.rs "
    "(line protocol, canonical printing)",
    "python generators, differ and classifier in vlib/",
    "the Rust code is modelled by hand (coq/Model/*.v) and tied to /repo by differential execution "
    "on every run; Gen/*Sld.v is regenerated from /repo's bundled .sld sources and Gen/NativeNames.v (names of the "
    "registered native procedures) from base.rs / write.rs on every run by the scanners in vlib/common.py",
]


class Failure(Exception):
    """a broken obligation (proof, pin, tie) without a concrete failing input"""

    def __init__(self, what, detail=""):
        super().__init__(what)
        self.what = what
        self.detail = detail


def log(msg):
    print(msg, flush=True)


def run(cmd, cwd=None, timeout=None, env=None, input=None, check=False):
    e = dict(os.environ)
    e.setdefault("CARGO_NET_OFFLINE", "true")
    if env:
        e.update(env)
    p = subprocess.run(cmd, cwd=cwd, env=e, input=input, stdout=subprocess.PIPE,
                       stderr=subprocess.STDOUT, timeout=timeout, text=True)
    if check and p.returncode != 0:
        raise Failure("command failed: %s" % " ".join(cmd), p.stdout[-4000:])
    return p.returncode, p.stdout


class Lock:
    def __init__(self, name="build"):
        os.makedirs(CACHE, exist_ok=True)
        self.path = os.path.join(CACHE, name + ".lock")

    def __enter__(self):
        self.f = open(self.path, "w")
        fcntl.flock(self.f, fcntl.LOCK_EX)
        return self

    def __exit__(self, *a):
        fcntl.flock(self.f, fcntl.LOCK_UN)
        self.f.close()


# --------------------------------------------------------------------------------------
# translators: /repo data -> Gen/*.v
# --------------------------------------------------------------------------------------
SLD_SOURCES = {
    "GrammarSld": ("src/parser/grammar.sld", "grammar_sld_text"),
    "BaseSld": ("src/interpreter/library/include/scheme/base.sld", "base_sld_text"),
    "WriteSld": ("src/interpreter/library/include/scheme/write.sld", "write_sld_text"),
}


def write_if_changed(path, content):
    try:
        with open(path) as f:
            if f.read() == content:
                return False
    except FileNotFoundError:
        pass
    os.makedirs(os.path.dirname(path), exist_ok=True)
    with open(path, "w") as f:
        f.write(content)
    return True


NATIVE_SOURCES = {"base": "src/interpreter/library/native/base.rs", "write": "src/interpreter/library/native/write.rs"}
NATIVE_RE = re.compile(r'function_mapping!\(\s*"([^"]*)"')


def native_names():
    """names of the native procedures the Rust source registers: the first string literal after every
    `function_mapping!(` / `pure_function_mapping!(` of base.rs and write.rs"""
    out = {}
    for lib, rel in NATIVE_SOURCES.items():
        with open(os.path.join(REPO, rel), "rb") as f:
            out[lib] = NATIVE_RE.findall(f.read().decode("utf-8"))
    return out


def sld2v():
    """bytes of the bundled Scheme sources -> list N literals (no parsing here); names of the native procedures"""
    changed = []
    names = native_names()
    body = "".join("Definition native_%s_names : list (list N) := [%s].\n"
                   % (lib, "; ".join("[" + "; ".join(str(ord(c)) for c in n) + "]" for n in ns)) for lib, ns in sorted(names.items()))
    v = ("(* generated from /repo/src/interpreter/library/native/{base,write}.rs on every run by vlib/common.py:sld2v -- do not edit *)\n"
         "From Coq Require Import NArith List.\nImport ListNotations.\nLocal Open Scope N_scope.\n" + body)
    if write_if_changed(os.path.join(COQ, "Gen", "NativeNames.v"), v):
        changed.append("NativeNames")
    for mod, (rel, name) in SLD_SOURCES.items():
        with open(os.path.join(REPO, rel), "rb") as f:
            text = f.read().decode("utf-8")
        nums = "; ".join(str(ord(c)) for c in text)
        v = ("(* generated from /repo/%s on every run by vlib/common.py:sld2v -- do not edit *)\n"
             "From Coq Require Import NArith List.\nImport ListNotations.\nLocal Open Scope N_scope.\n"
             "Definition %s : list N := [%s].\n" % (rel, name, nums))
        if write_if_changed(os.path.join(COQ, "Gen", mod + ".v"), v):
            changed.append(mod)
    return changed


# --------------------------------------------------------------------------------------
# builds
# --------------------------------------------------------------------------------------
def coq_makefile():
    mk = os.path.join(COQ, "Makefile")
    cp = os.path.join(COQ, "_CoqProject")
    if not os.path.exists(mk) or os.path.getmtime(mk) < os.path.getmtime(cp):
        run(["coq_makefile", "-f", "_CoqProject", "-o", "Makefile"], cwd=COQ, check=True)


def make_targets(targets, timeout=3000):
    """full .vo build of the given targets (never -vos/-vok); returns output"""
    coq_makefile()
    rc, out = run(["timeout", str(timeout), "make", "-j%d" % NCPU] + targets, cwd=COQ)
    return rc, out


def build_driver():
    """extract the model (make Extract/Extract.vo writes coq/model.ml) and build the OCaml driver"""
    rc, out = make_targets(["Extract/Extract.vo"])
    if rc != 0:
        raise Failure("model does not compile / extract", out[-3000:])
    model_ml = os.path.join(COQ, "model.ml")
    drv = os.path.join(OCAML, "driver.ml")
    if (not os.path.exists(DRIVER_EXE)
            or os.path.getmtime(DRIVER_EXE) < max(os.path.getmtime(model_ml), os.path.getmtime(drv))):
        gen = os.path.join(CACHE, "ocaml-build")
        os.makedirs(gen, exist_ok=True)
        for f in (model_ml, os.path.join(COQ, "model.mli"), drv):
            run(["cp", f, gen], check=True)
        rc, out = run(["ocamlfind", "ocamlopt", "-O2", "-w", "-a", "model.mli", "model.ml", "driver.ml",
                       "-o", DRIVER_EXE], cwd=gen)
        if rc != 0:
            raise Failure("driver build failed", out[-3000:])


def build_harness():
    """always rebuilt (incrementally) from /repo's working tree, hooks on"""
    lock_src = os.path.join(REPO, "Cargo.lock")
    lock_dst = os.path.join(HARNESS, "Cargo.lock")
    if not os.path.exists(lock_dst):
        run(["cp", lock_src, lock_dst], check=True)
    rc, out = run(["timeout", "1200", "cargo", "build", "--offline", "-q"], cwd=HARNESS,
                  env={"CARGO_TARGET_DIR": HARNESS_TARGET, "RUSTFLAGS": "--cfg ruschm_verif -Awarnings"})
    if rc != 0:
        raise Failure("harness/ruschm does not build", out[-3000:])


def build_binary():
    """the ruschm executable, from /repo's working tree, target dir outside /repo"""
    rc, out = run(["timeout", "1200", "cargo", "build", "--offline", "-q", "--manifest-path",
                   os.path.join(REPO, "Cargo.toml"), "--bin", "ruschm"],
                  env={"CARGO_TARGET_DIR": BIN_TARGET, "RUSTFLAGS": "-Awarnings"})
    if rc != 0:
        raise Failure("ruschm binary does not build", out[-3000:])


# --------------------------------------------------------------------------------------
# proof obligations
# --------------------------------------------------------------------------------------
HYGIENE_RE = re.compile(
    r"\b(Admitted|admit|Axiom|Axioms|Parameter|Parameters|Conjecture|Conjectures|Hypothesis|Hypotheses|Variable|Variables"
    r"|Unset\s+Guard|bypass_check|type-in-type|impredicative-set|Admit\s+Obligations|Unset\s+Positivity|Unset\s+Universe)\b")


def strip_comments(text):
    out, depth, i = [], 0, 0
    while i < len(text):
        if text.startswith("(*", i):
            depth += 1
            i += 2
        elif text.startswith("*)", i) and depth > 0:
            depth -= 1
            i += 2
        else:
            if depth == 0:
                out.append(text[i])
            i += 1
    return "".join(out)


def hygiene_gate():
    """no Admitted/admit/Axiom/...; Variable/Hypothesis only inside sections"""
    bad = []
    for root, _, files in os.walk(COQ):
        for fn in files:
            if not fn.endswith(".v"):
                continue
            p = os.path.join(root, fn)
            text = strip_comments(open(p).read())
            depth = 0
            for ln, line in enumerate(text.split("\n"), 1):
                if re.match(r"\s*Section\b", line):
                    depth += 1
                if re.match(r"\s*End\b", line) and depth > 0:
                    depth -= 1
                for m in HYGIENE_RE.finditer(line):
                    w = m.group(1)
                    if w.startswith(("Variable", "Hypothes")) and depth > 0:
                        continue
                    bad.append("%s:%d: %s" % (os.path.relpath(p, VERIF), ln, w))
    if bad:
        raise Failure("hygiene gate: forbidden vernacular", "\n".join(bad))


def props_theorems(prop):
    text = strip_comments(open(os.path.join(COQ, "Props", prop + ".v")).read())
    return re.findall(r"^\s*Theorem\s+([A-Za-z0-9_']+)", text, re.M)


def check_assumptions(prop, allowed):
    """Print Assumptions of every theorem of Props/<prop>.v in a fresh coqc run.

    returns list of (theorem, [axioms]); raises Failure on a disallowed axiom"""
    thms = props_theorems(prop)
    if not thms:
        raise Failure("no theorem in Props/%s.v" % prop)
    d = os.path.join(CACHE, "assum")
    os.makedirs(d, exist_ok=True)
    # the compiled Props file records the digests of everything it depends on: its hash (with the list of theorems and
    # the allowed axioms) identifies the answer of the Print Assumptions run
    vo = os.path.join(COQ, "Props", prop + ".vo")
    key = hashlib.sha1(open(vo, "rb").read() + repr((thms, sorted(allowed))).encode()).hexdigest()
    memo = os.path.join(d, "Assum_%s.%s.json" % (prop, key))
    if os.path.exists(memo):
        try:
            cached = json.load(open(memo))
            if [t for t, _ in cached] == thms:
                return [(t, ax) for t, ax in cached]
        except Exception:
            pass
    src = os.path.join(d, "Assum_%s.v" % prop)
    with open(src, "w") as f:
        f.write("From RV Require Import Props.%s.\n" % prop)
        for t in thms:
            f.write('Goal True. idtac "@@THM %s". exact I. Qed.\nPrint Assumptions %s.\n' % (t, t))
    rc, out = run(["timeout", "600", "coqc", "-Q", COQ, "RV", src], cwd=d)
    if rc != 0:
        raise Failure("Print Assumptions run failed for %s" % prop, out[-3000:])
    result = []
    chunks = out.split("@@THM ")[1:]
    for ch in chunks:
        name, _, rest = ch.partition("\n")
        name = name.strip()
        axioms = []
        if "Closed under the global context" not in rest:
            for m in re.finditer(r"^([A-Za-z_][A-Za-z0-9_.']*)\s*:", rest, re.M):
                if m.group(1) != "Axioms":
                    axioms.append(m.group(1))
        bad = [a for a in axioms if a not in allowed]
        if bad:
            raise Failure("theorem %s depends on disallowed axioms" % name, ", ".join(bad))
        result.append((name, axioms))
    if len(result) != len(thms):
        raise Failure("Print Assumptions output incomplete for %s" % prop, out[-2000:])
    for old in os.listdir(d):
        if old.startswith("Assum_%s." % prop) and old.endswith(".json"):
            os.remove(os.path.join(d, old))
    with open(memo, "w") as f:
        json.dump(result, f)
    return result


def coqchk(prop):
    """thorough tier: re-check the compiled property file and everything it depends on with the independent checker
    coqchk; it must report no axiom beyond the standard-library ones Flocq brings in, nothing relying on type-in-type,
    on unguarded fixpoints or on assumed positivity. Memoised by the hash of the .vo (which holds its dependencies' digests)."""
    vo = os.path.join(COQ, "Props", prop + ".vo")
    h = hashlib.sha1(open(vo, "rb").read()).hexdigest()[:16]
    d = os.path.join(CACHE, "assum")
    os.makedirs(d, exist_ok=True)
    memo = os.path.join(d, "Chk_%s.%s.json" % (prop, h))
    if os.path.exists(memo):
        return json.load(open(memo))
    rc, out = run(["timeout", "3000", "coqchk", "-o", "-silent", "-Q", ".", "RV", "RV.Props." + prop], cwd=COQ)
    if rc != 0 or "CONTEXT SUMMARY" not in out:
        raise Failure("coqchk rejects Props/%s.vo or one of its dependencies" % prop, out[-3000:])
    summary = out[out.index("CONTEXT SUMMARY"):]
    sect = {}
    cur = None
    for line in summary.splitlines():
        t = line.strip()
        if t.startswith("* "):
            cur = t[2:].split(":")[0]
            rest = t[2:].split(":", 1)[1].strip() if ":" in t else ""
            sect[cur] = [rest] if rest and rest != "<none>" else []
        elif t and cur and not t.startswith("="):
            sect[cur].append(t)
    axioms = [a for a in sect.get("Axioms", []) if a != "<none>"]
    bad = [a for a in axioms if not any(a.endswith(x) for x in FLOCQ_AXIOMS)]
    if bad:
        raise Failure("coqchk: axioms outside the allowed standard-library set", ", ".join(bad))
    for k in sect:
        if ("type-in-type" in k or "unsafe" in k or "positivity" in k) and sect[k]:
            raise Failure("coqchk: %s" % k, ", ".join(sect[k]))
    res = {"coqchk_axioms_of_loaded_libraries": axioms, "coqchk": "ok"}
    for old in os.listdir(d):
        if old.startswith("Chk_%s." % prop):
            os.remove(os.path.join(d, old))
    json.dump(res, open(memo, "w"))
    return res


def prove(prop, allowed_axioms=()):
    """make Props/<prop>.vo (full build), hygiene gate, assumptions gate"""
    t0 = time.time()
    hygiene_gate()
    rc, out = make_targets(["Props/%s.vo" % prop])
    if rc != 0:
        m = re.search(r'File "([^"]+)", line (\d+)', out)
        where = "%s:%s" % (m.group(1), m.group(2)) if m else "?"
        raise Failure("proof obligation no longer checks (%s)" % where, out[-3000:])
    res = check_assumptions(prop, set(allowed_axioms))
    return {"theorems": res, "prove_wall_s": round(time.time() - t0, 1)}


# --------------------------------------------------------------------------------------
# differential execution
# --------------------------------------------------------------------------------------
def _groups(lines):
    """cases: a RESET line starts a case that extends to the next RESET; lines before the first
    RESET are independent (one group each)"""
    groups = []
    cur = None
    for k, l in enumerate(lines):
        if l == "RESET":
            if cur is not None:
                groups.append(cur)
            cur = [k]
        elif cur is not None:
            cur.append(k)
        else:
            groups.append([k])
    if cur is not None:
        groups.append(cur)
    return groups


def _big_stack():
    """the extracted model recurses on the system stack (long texts, deep lists): give it 4 GiB. Opt-in
    (VDRIVER_BIG_STACK, set by the checks that feed long texts): with the default 8 MiB a computation the model
    cannot finish - e.g. the unary index of (vector-ref v 2147483647) - ends at once as (model-stack-overflow),
    which the comparisons treat as undecided, instead of running into the time limit"""
    import resource
    try:
        soft, hard = resource.getrlimit(resource.RLIMIT_STACK)
        want = 4 << 30
        if hard != resource.RLIM_INFINITY:
            want = min(want, hard)
        resource.setrlimit(resource.RLIMIT_STACK, (want, hard))
    except Exception:
        pass


def _run_groups(exe, lines, groups, timeout, env):
    """one process over the given groups; returns (rc, list of outputs or None)"""
    idx = [k for g in groups for k in g]
    e = dict(os.environ)
    if env:
        e.update(env)
    try:
        p = subprocess.run([exe], input=("\n".join(lines[k] for k in idx) + "\n").encode(),
                           stdout=subprocess.PIPE, stderr=subprocess.PIPE, env=e, timeout=timeout,
                           preexec_fn=_big_stack if (exe == DRIVER_EXE and os.environ.get("VDRIVER_BIG_STACK")) else None)
    except subprocess.TimeoutExpired:
        return -9, None
    res = p.stdout.decode("utf-8", "replace").split("\n")
    if res and res[-1] == "":
        res = res[:-1]
    if p.returncode == 0 and len(res) == len(idx):
        return 0, res
    return (p.returncode or 1), None


def _solve(exe, lines, groups, timeout, env, out):
    rc, res = _run_groups(exe, lines, groups, timeout, env)
    if res is not None:
        for k, r in zip([k for g in groups for k in g], res):
            out[k] = r
        return
    if len(groups) == 1:
        g = groups[0]
        if len(g) > 1:
            # find the first line of the case that kills the process: run growing prefixes
            lo = 1
            while lo < len(g):
                rc2, res2 = _run_groups(exe, lines, [g[:lo + 1]], min(timeout, 120), env)
                if res2 is None:
                    break
                lo += 1
            rc3, res3 = _run_groups(exe, lines, [g[:lo]], min(timeout, 120), env)
            if res3 is not None:
                for k, r in zip(g[:lo], res3):
                    out[k] = r
            mark = "(timeout)" if rc == -9 else "(abort)"
            for k in g[lo:]:
                out[k] = mark
        else:
            out[g[0]] = "(timeout)" if rc == -9 else "(abort)"
        return
    mid = len(groups) // 2
    _solve(exe, lines, groups[:mid], min(timeout, 300), env, out)
    _solve(exe, lines, groups[mid:], min(timeout, 300), env, out)


def run_lines(exe, lines, timeout=600, shards=None, env=None):
    """feed protocol lines to exe in parallel shards (split at case boundaries); returns the list
    of output lines (same length). A shard that dies (abort, stack overflow) or times out is
    bisected so that only the offending line and the rest of its case are marked."""
    n = len(lines)
    if n == 0:
        return []
    groups = _groups(lines)
    shards = shards or min(NCPU, max(1, n // 50))
    # round robin: expensive cases that a generator emits next to each other are spread over the processes
    chunks = [groups[i::shards] for i in range(shards)]
    chunks = [c for c in chunks if c]
    out = [None] * n
    import threading
    ths = [threading.Thread(target=_solve, args=(exe, lines, ch, timeout, env, out)) for ch in chunks]
    for t in ths:
        t.start()
    for t in ths:
        t.join()
    if exe == HARNESS_EXE:
        sweep_scratch()
    return out


def sweep_scratch():
    """a harness process that died (abort, stack overflow, timeout) leaves its capture directory
    h<pid> behind; remove those whose process is gone"""
    base = os.environ.get("VHARNESS_SCRATCH", os.path.join(CACHE, "scratch"))
    try:
        names = os.listdir(base)
    except OSError:
        return
    for nm in names:
        if re.fullmatch(r"h\d+", nm) and not os.path.exists("/proc/" + nm[1:]):
            shutil.rmtree(os.path.join(base, nm), ignore_errors=True)


def differential(lines, timeout=900, env=None):
    """returns (model_out, impl_out, disagreements as list of indices)"""
    m = run_lines(DRIVER_EXE, lines, timeout)
    i = run_lines(HARNESS_EXE, lines, timeout, env=env)
    dis = [k for k in range(len(lines)) if m[k] != i[k]]
    return m, i, dis


# --------------------------------------------------------------------------------------
# known findings, evidence, replays
# --------------------------------------------------------------------------------------
def known_findings(prop):
    with open(os.path.join(VERIF, "known_findings.json")) as f:
        kf = json.load(f)
    return [k for k in kf["findings"] if k["property"] == prop and k["status"] == "open"]


def write_replay(prop, tag, payload):
    d = os.path.join(VERIF, "replays")
    os.makedirs(d, exist_ok=True)
    path = os.path.join(d, "%s-%s.json" % (prop, tag))
    with open(path, "w") as f:
        json.dump(payload, f, indent=1, sort_keys=True)
    return os.path.relpath(path, VERIF)


def case_hash(obj):
    return hashlib.sha1(json.dumps(obj, sort_keys=True).encode()).hexdigest()[:12]


def write_evidence(prop, tier, seed, coverage, assumptions, wall_s, violations):
    d = os.path.join(VERIF, "evidence")
    os.makedirs(d, exist_ok=True)
    ev = {
        "property_id": prop,
        "tier": tier,
        "seed": seed,
        "level": "proof",
        "coverage": coverage,
        "assumptions": assumptions,
        "wall_s": round(wall_s, 1),
        "violations": violations,
    }
    with open(os.path.join(d, prop + ".json"), "w") as f:
        json.dump(ev, f, indent=1, sort_keys=True)


def hexs(s):
    return s.encode("utf-8").hex()


# --------------------------------------------------------------------------------------
# check driver
# --------------------------------------------------------------------------------------
class Ctx:
    def __init__(self, prop, tier, seed):
        self.prop = prop
        self.tier = tier
        self.seed = seed
        self.rng = random.Random(seed)
        self.t0 = time.time()
        self.violations = []      # (replay_path, suffix)
        self.known_hits = {}      # finding id -> count
        self.broken = []          # Failure objects (obligations that no longer check)
        self.quick = tier != "thorough"

    def violation(self, case, expected, actual, note=""):
        """a concrete in-domain input on which the implementation differs from the proved model"""
        payload = {"property": self.prop, "seed": self.seed, "tier": self.tier, "case": case,
                   "model": expected, "implementation": actual, "note": note,
                   "reference_mode": bool(getattr(self, "reference_mode", False))}
        path = write_replay(self.prop, case_hash(case), payload)
        self.violations.append((path, ""))

    def known(self, fid, what):
        self.known_hits[fid] = (self.known_hits.get(fid, (0, what))[0] + 1, what)


def run_check(ctx, mod):
    prop = ctx.prop
    proof = None
    cov = {}
    allowed = getattr(mod, "ALLOWED_AXIOMS", [])
    try:
        with Lock():
            try:
                changed = sld2v()
                proof = prove(prop, allowed)
                if ctx.tier == "thorough":
                    proof.update(coqchk(prop))
            except Failure as f:
                ctx.broken.append(f)
            build_driver()
            build_harness()
            if getattr(mod, "NEEDS_BINARY", False):
                build_binary()
        if ctx.broken and getattr(mod, "USES_GEN", False):
            # a proof about the bundled Scheme sources no longer checks: search for a failing input with
            # the model running the reference sources (ref/*.sld) for which the theorems were proved
            ctx.reference_mode = True
            log("reference mode: the model runs /verif/ref/*.sld, the implementation runs /repo's sources")
        cov = mod.explore(ctx) or {}
    except Failure as f:
        ctx.broken.append(f)
    except Exception as e:  # machinery error: never silently pass
        ctx.broken.append(Failure("check machinery error: %r" % (e,), traceback_str()))
    # broken obligations without a concrete failing input
    if ctx.broken and not ctx.violations:
        payload = {"property": prop, "unproved": [{"what": f.what, "detail": f.detail} for f in ctx.broken],
                   "note": "no concrete failing input was found by the correspondence search; the property is no "
                           "longer shown to hold"}
        path = write_replay(prop, "unproved", payload)
        ctx.violations.append((path, " no-failing-input-found"))
    for fid, (n, what) in sorted(ctx.known_hits.items()):
        log("KNOWN-FINDING: property=%s %s: %s (%d case(s) this run)" % (prop, fid, what, n))
    thms = proof["theorems"] if proof else []
    axioms = sorted({a for _, ax in thms for a in ax})
    coverage = {
        "obligations": len(props_theorems(prop)) if os.path.exists(os.path.join(COQ, "Props", prop + ".v")) else 0,
        "discharged": len(thms),
        "checker_cmd": "make -C coq Props/%s.vo (coqc 8.16.1, full .vo) && coqc Print Assumptions of every "
                       "theorem of Props/%s.v; hygiene grep over coq/" % (prop, prop),
        "trusted_base": TRUSTED_BASE_COMMON + ["axioms (Print Assumptions): " + (", ".join(axioms) if axioms else "none: closed under the global context")]
        + list(getattr(mod, "TRUSTED_EXTRA", [])),
        "theorems": [t for t, _ in thms],
        "broken_obligations": [f.what for f in ctx.broken],
        "known_class_hits": {k: v[0] for k, v in ctx.known_hits.items()},
    }
    if proof and proof.get("coqchk"):
        coverage["checker_cmd"] += "; coqchk -o -silent RV.Props.%s (independent re-check of the .vo and all it depends on)" % prop
        coverage["coqchk_axioms_of_loaded_libraries"] = proof.get("coqchk_axioms_of_loaded_libraries", [])
    if coverage["obligations"] == 0:
        coverage["obligations"] = 1
    coverage.update(cov)
    write_evidence(prop, ctx.tier, ctx.seed, coverage,
                   list(getattr(mod, "ASSUMPTIONS", [])), time.time() - ctx.t0, len(ctx.violations))
    for path, suffix in ctx.violations[:20]:
        log("VIOLATION property=%s replay=%s%s" % (prop, path, suffix))
    for f in ctx.broken:
        log("BROKEN: %s\n%s" % (f.what, f.detail[-1500:]))
    log("%s %s: %s in %.1fs" % (prop, ctx.tier, "FAIL" if ctx.violations else "ok", time.time() - ctx.t0))
    return 1 if ctx.violations else 0


# --------------------------------------------------------------------------------------
# case-based correspondence
# --------------------------------------------------------------------------------------
def run_cases(ctx, cases, compare=None, classify=None, limit=10, timeout=900):
    """cases: list of dicts with "lines" (protocol lines of one case, without the leading RESET)
    and free-form metadata. Every case runs in a fresh world on both sides. Returns
    (results, ndis) where results[k] = (model_lines, impl_lines, differs)."""
    lines, spans = [], []
    for c in cases:
        start = len(lines)
        lines.append("RESET")
        lines.extend(c["lines"])
        spans.append((start + 1, len(lines)))
    menv = {"RUSCHM_SLD_DIR": os.path.join(VERIF, "ref")} if getattr(ctx, "reference_mode", False) else None
    m = run_lines(DRIVER_EXE, lines, timeout, env=menv)
    i = run_lines(HARNESS_EXE, lines, timeout)
    results, ndis, reported = [], 0, 0
    for c, (a, b) in zip(cases, spans):
        ml, il = m[a:b], i[a:b]
        if compare is compare_fuel:
            differs = not fuel_prefix_equal(ml, il)
        elif compare and getattr(compare, "stop", None):
            # compare.stop(model line, implementation line): from this line on the case decides nothing
            differs = False
            for x, y in zip(ml, il):
                if compare.stop(x, y):
                    break
                if not compare(c, x, y):
                    differs = True
                    break
        elif compare:
            differs = not all(compare(c, x, y) for x, y in zip(ml, il))
        else:
            differs = ml != il
        results.append((ml, il, differs))
        if differs:
            fid = classify(c, ml, il) if classify else None
            if fid:
                ctx.known(fid[0], fid[1])
                continue
            ndis += 1
            if reported < limit:
                reported += 1
                ctx.violation({"lines": c["lines"], "meta": {k: v for k, v in c.items() if k != "lines"}},
                              ml, il)
    return results, ndis


def compare_fuel(case, m, i):
    """equality, except that a model that ran out of its fuel decides nothing"""
    return m == i or m.startswith("(outoffuel)")


def fuel_prefix_equal(ml, il):
    """case-level form of compare_fuel: the lines before the model's first (outoffuel) must be equal; from there
    on the case decides nothing (the model stopped in the middle of a form, so its state has only part of that form's
    effects, and an implementation that recursed without bound has overflowed its stack and lost the case)"""
    for x, y in zip(ml, il):
        if x.startswith("(outoffuel)"):
            return True
        if x != y:
            return False
    return True


def replay_case(ctx, path, compare=None):
    payload = json.load(open(path))
    case = payload["case"]
    if "lines" not in case:
        print("replay file names a broken obligation, not an input:", json.dumps(payload.get("unproved"), indent=1))
        return 1
    with Lock():
        build_driver()
        build_harness()
    lines = ["RESET"] + case["lines"]
    menv = {"RUSCHM_SLD_DIR": os.path.join(VERIF, "ref")} if payload.get("reference_mode") else None
    if menv:
        print("reference mode: the model runs /verif/ref/*.sld")
    m = run_lines(DRIVER_EXE, lines, 300, env=menv)
    i = run_lines(HARNESS_EXE, lines, 300)
    bad = 0
    undecided = False
    for l, x, y in zip(lines, m, i):
        if compare is compare_fuel and x.startswith("(outoffuel)"):
            undecided = True
        if compare and getattr(compare, "stop", None) and compare.stop(x, y):
            undecided = True
        same = True if undecided else (compare(case, x, y) if compare else x == y)
        print(l[:200], "\n   model:", x[:600], "\n   impl: ", y[:600],
              "   (undecided: the model ran out of fuel)" if undecided else ("" if same else "   <== differs"))
        bad += 0 if same else 1
    return 1 if bad else 0


def witness_findings(ctx, prop):
    """run the witness of every open known finding of this property on the implementation:
    KNOWN-FINDING is printed while the implementation still shows the recorded defect"""
    out = []
    for k in known_findings(prop):
        w = k.get("witness")
        if not w:
            continue
        lines = ["RESET"] + w["lines"]
        i = run_lines(HARNESS_EXE, lines, 300)
        got = i[1:]
        still = any(g == d for g, d in zip(got, w["defect_output"]) if d is not None)
        out.append({"id": k["id"], "still_present": still, "impl": got})
        if still:
            ctx.known(k["id"], k["what"])
    return out


def traceback_str():
    import traceback
    return traceback.format_exc()


def diff_report(ctx, lines, m, i, dis, classify=None, describe=None, limit=10):
    """turn disagreements into violations / known findings"""
    n = 0
    for k in dis:
        fid = classify(lines[k], m[k], i[k]) if classify else None
        if fid:
            ctx.known(fid[0], fid[1])
            continue
        n += 1
        if n <= limit:
            ctx.violation(describe(lines[k]) if describe else lines[k], m[k], i[k])
    return n
