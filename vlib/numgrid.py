"""The numeric grid of C09/C10 and NUM / BUILTIN case generators."""
import random
import struct


def f32bits(x):
    return struct.unpack("<I", struct.pack("<f", x))[0]


INTS = [0, 1, -1, 2, -2, 3, 7, -7, 10, 100, -100, 32767, -32768, 32768, 46341, 65536, -65536,
        16777216, 16777217, -16777217, 2147483647, -2147483647, -2147483648, 1073741824]
RATS = [(1, 2), (-1, 2), (1, -2), (-1, -2), (2, 4), (-2, 4), (3, -6), (1, 3), (-1, 3), (2, 3), (-7, 2), (7, -2),
        (22, 7), (-43, 7), (28, 3), (4, 2), (-15, 5), (5, 1), (0, 5), (0, -3), (32767, 32766), (-32767, 2),
        (2147483647, 2), (1, 2147483647), (-2147483648, 3), (2147483647, 2147483646), (65536, 65537),
        (-2147483648, -1), (1, -2147483648), (46341, 46340)]
REALS = [0.0, -0.0, 1.0, -1.0, 0.5, -0.5, 1.5, -1.5, 2.5, -2.5, 3.8, -5.3, 0.1, 1e10, -1e10, 1e-10, 3.4028235e38,
         1.17549435e-38, 1e-45, 16777216.0, 16777218.0, 8388608.5, 8388607.5, -8388607.5, 2147483648.0,
         -2147483648.0, 2147483520.0, 1e30, float("inf"), float("-inf"), float("nan")]


def grid():
    g = ["i%d" % z for z in INTS]
    g += ["q%d/%d" % r for r in RATS]
    g += ["r%08x" % f32bits(x) for x in REALS]
    return g


UNARY = ["abs", "sqrt", "floor", "ceiling", "exact"]
BINARY = ["add", "sub", "mul", "div", "floor_quotient", "floor_remainder", "eq", "cmp", "lt", "le", "gt", "ge"]


def rand_num(rng):
    k = rng.random()
    if k < 0.35:
        m = rng.choice([10, 1000, 40000, 2 ** 31])
        return "i%d" % rng.randint(-m, m - 1)
    if k < 0.7:
        m = rng.choice([10, 1000, 40000, 2 ** 31])
        d = 0
        while d == 0:
            d = rng.randint(-m, m - 1)
        return "q%d/%d" % (rng.randint(-m, m - 1), d)
    if k < 0.85:
        return "r%08x" % rng.getrandbits(32)
    x = rng.choice([rng.uniform(-100, 100), rng.randint(-2 ** 25, 2 ** 25) / 2.0, rng.uniform(-1, 1) * 10 ** rng.randint(-10, 10)])
    return "r%08x" % f32bits(x)


def num_cases(rng, nrandom):
    g = grid()
    lines = []
    for op in UNARY:
        for a in g:
            lines.append("NUM %s %s" % (op, a))
    for op in BINARY:
        for a in g:
            for b in g:
                lines.append("NUM %s %s %s" % (op, a, b))
    for _ in range(nrandom):
        if rng.random() < 0.2:
            lines.append("NUM %s %s" % (rng.choice(UNARY), rand_num(rng)))
        else:
            lines.append("NUM %s %s %s" % (rng.choice(BINARY), rand_num(rng), rand_num(rng)))
    return lines


def trivial_num(line):
    ws = line.split(" ")
    return all(w in ("i0", "i1", "i-1") for w in ws[2:])


# ------------------------------------------------------------------------------------------
# the n-ary builtins (folds and comparison chains) through the evaluator
# ------------------------------------------------------------------------------------------
FOLD_OPS = ["+", "-", "*", "/", "max", "min"]
CHAIN_OPS = ["=", "<", "<=", ">", ">="]
VARS = ["na", "nb", "nc", "nd", "ne", "nf", "ng", "nh", "ni", "nj", "nk", "nl", "nm"]


def hexs(s):
    return s.encode("utf-8").hex()


def nested(op, names):
    e = names[0]
    for n in names[1:]:
        e = "(%s %s %s)" % (op, e, n)
    return e


# distinct numbers that a comparison identifies pairwise only through the conversion to binary32: an exact operand
# is converted when its neighbour is inexact, so "=" on such a tuple is decided by WHICH operands are adjacent
CLUSTERS = [["i16777216", "i16777217", "r%08x" % f32bits(16777216.0)],
            ["i-16777216", "i-16777217", "r%08x" % f32bits(-16777216.0)],
            ["q33554431/2", "i16777216", "r%08x" % f32bits(16777216.0), "q33554433/2"],
            ["i2147483647", "i2147483646", "r%08x" % f32bits(2147483648.0), "i2147483520"],
            ["q1/3", "r%08x" % f32bits(1.0 / 3.0), "q11184811/33554432", "q16777217/50331648"],
            ["i0", "r80000000", "r00000000", "q0/5"]]


def nary_cases(rng, n, per_case=100):
    """cases of `per_case` tests; a test binds 3-5 variables to numbers (grid or random, unreduced ratios
    included) and evaluates an n-ary call, its left-nested binary spelling (folds) or its adjacent pairs (chains).
    returns (cases, tests) where tests[k] = (case index, kind, op, operands, line positions)"""
    g = grid()
    small = [x for x in g if x[0] in "iq" and abs(int(x[1:].split("/")[0])) < 40000][:40]
    cases = []
    tests = []
    lines = None
    for k in range(n):
        if k % per_case == 0:
            lines = ["NEW 0 std"]
            cases.append({"lines": lines})
        arity = rng.choice([3, 3, 3, 4, 5, 8, 9, 10, 13])
        pool = rng.choice([g, small, small])
        ops = [rng.choice(pool) if rng.random() < 0.7 else rand_num(rng) for _ in range(arity)]
        if rng.random() < 0.3:
            # nearly sorted / equal neighbours: chains that fail in exactly one place
            ops = sorted(ops[:arity], key=lambda x: rng.random())
            j = rng.randrange(arity - 1)
            ops[j + 1] = ops[j] if rng.random() < 0.5 else ops[j + 1]
        cluster = rng.random() < 0.2
        if cluster:
            cl = rng.choice(CLUSTERS)
            arity = rng.choice([3, 3, 4, 5])
            ops = [rng.choice(cl) for _ in range(arity)]
        names = VARS[:arity]
        for nm, v in zip(names, ops):
            lines.append("DEFNUM 0 %s %s" % (hexs(nm), v))
        if rng.random() < (0.5 if not cluster else 0.15):
            op = rng.choice(FOLD_OPS)
            pos = [len(lines), len(lines) + 1]
            lines.append("EVAL 0 " + hexs("(%s %s)" % (op, " ".join(names))))
            lines.append("EVAL 0 " + hexs(nested(op, names)))
            tests.append((len(cases) - 1, "fold", op, ops, pos))
        else:
            op = rng.choice(CHAIN_OPS)
            pos = [len(lines)]
            lines.append("EVAL 0 " + hexs("(%s %s)" % (op, " ".join(names))))
            for a, b in zip(names, names[1:]):
                pos.append(len(lines))
                lines.append("EVAL 0 " + hexs("(%s %s %s)" % (op, a, b)))
            tests.append((len(cases) - 1, "chain", op, ops, pos))
    return cases, tests


def nary_oracle(tests, results, which=1):
    """independent reading of the n-ary builtins on the implementation's own answers: a fold equals its
    left-nested binary spelling, a chain is the conjunction of its adjacent pairs. returns list of
    (test, message)"""
    bad = []
    for t in tests:
        ci, kind, op, ops, pos = t
        out = results[ci][which]
        if kind == "fold":
            if out[pos[0]] != out[pos[1]]:
                bad.append((t, "(%s %s) gives %s but the left-nested binary spelling gives %s" % (op, " ".join(ops), out[pos[0]], out[pos[1]])))
        else:
            pairs = [out[p] for p in pos[1:]]
            if all(p.startswith("(ok #") for p in pairs) and out[pos[0]].startswith("(ok #"):
                want = all(p.startswith("(ok #t") for p in pairs)
                got = out[pos[0]].startswith("(ok #t")
                if want != got:
                    bad.append((t, "(%s %s) gives %s but its adjacent pairs give %s" % (op, " ".join(ops), out[pos[0]], pairs)))
    return bad
