#!/bin/bash
# run every quick check on the current /repo tree (regenerates all evidence files); prints one line per check
cd /verif
for i in 01 02 03 04 05 06 07 08 09 10 11 12 13 14 15 16 17 18 19; do
  ./check C$i --tier ${1:-quick} 2>&1 | grep -E "VIOLATION|BROKEN|(quick|thorough):" | head -5
done
