#!/usr/bin/env python3
"""smoke.py: run hand-written cases through model and implementation and show differences.
usage: smoke.py FILE   (cases separated by lines '---'; each line: 'std|plain: text' forms evaluated by PROG,
       or raw protocol lines starting with '!')"""
import sys, os
sys.path.insert(0, os.path.join(os.path.dirname(os.path.abspath(__file__)), ".."))
import common

def main():
    src = open(sys.argv[1]).read()
    lines = []
    desc = []
    for block in src.split("\n---\n"):
        block = block.strip("\n")
        if not block.strip():
            continue
        kind = "std"
        body = block
        if block.startswith("plain:"):
            kind, body = "plain", block[6:]
        elif block.startswith("std:"):
            body = block[4:]
        lines.append("RESET"); desc.append("")
        if body.lstrip().startswith("!"):
            for l in body.split("\n"):
                l = l.strip()
                if l.startswith("!"):
                    lines.append(l[1:].strip()); desc.append(l)
            continue
        lines.append("NEW 0 " + kind); desc.append("")
        for bl in body.split("\n"):
            if bl.strip():
                lines.append("PROG 0 " + common.hexs(bl)); desc.append(bl)
    m, i, dis = common.differential(lines)
    for k in range(len(lines)):
        if desc[k]:
            flag = "DIFF" if k in dis else "same"
            print("[%s] %s" % (flag, desc[k].replace("\n", " | ")[:200]))
            print("    model:", m[k][:1500])
            if k in dis:
                print("    impl: ", i[k][:1500])
    print("%d lines, %d differences" % (len(lines), len(dis)))

main()
