#!/bin/bash
# confirm_mut.sh ID [NAME] : confirm a seeded change in /tmp/wt-ID (tests pass with it, demo fails with it and
# passes without it) and store it as /verif/seeded/NAME/
# WT_PREFIX / OUT_DIR choose the round (defaults: /tmp/wt- and /tmp/mut-out)
id=$1; name=${2:-$1}
wt=${WT_PREFIX:-/tmp/wt-}$id; out=${OUT_DIR:-/tmp/mut-out}/$id
cd $wt || exit 2
export CARGO_TARGET_DIR=$wt/target CARGO_NET_OFFLINE=true
git diff -- src > $out/patch.confirmed.diff
[ -s $out/patch.confirmed.diff ] || { echo "no change in worktree"; exit 2; }
echo "== tests with change"; cargo test --offline 2>&1 | grep -E "^test result|FAILED|failed" | head
t_ok=$(cargo test --offline 2>&1 | grep -c "test result: ok")
cargo build --offline >/dev/null 2>&1
echo "== demo with change (expect fail)"; (cd $out && bash ./demo.sh >/dev/null 2>&1); with=$?
git checkout -q -- src
cargo build --offline >/dev/null 2>&1
echo "== demo without change (expect pass)"; (cd $out && bash ./demo.sh >/dev/null 2>&1); without=$?
git apply $out/patch.confirmed.diff
cargo build --offline >/dev/null 2>&1
echo "with=$with without=$without test_result_ok_lines=$t_ok"
if [ "$with" != "0" ] && [ "$without" = "0" ] && [ "$t_ok" -ge 3 ]; then
  mkdir -p /verif/seeded/$name
  cp $out/patch.confirmed.diff /verif/seeded/$name/patch.diff
  for f in demo.scm demo.sh expected.txt README.md; do [ -e $out/$f ] && cp $out/$f /verif/seeded/$name/; done
  for d in $(cd $out && find . -mindepth 1 -type d -not -name target); do mkdir -p /verif/seeded/$name/$d; cp -r $out/$d/. /verif/seeded/$name/$d/ 2>/dev/null; done
  echo CONFIRMED
else
  echo NOT-CONFIRMED
fi
