#!/bin/bash
# thorough_all.sh [IDS...] : every thorough check with wall time (do not touch /repo meanwhile)
cd /verif
ids=${@:-01 02 03 04 05 06 07 08 09 10 11 12 13 14 15 16 17 18 19}
for i in $ids; do
  s=$(date +%s)
  r=$(timeout 5400 ./check C$i --tier thorough 2>&1 | grep -E "VIOLATION|BROKEN|thorough:" | head -3 | tr '\n' ' ')
  echo "C$i $(( $(date +%s) - s ))s $r"
done
