#!/usr/bin/env python3
"""Regenerates MANIFEST.json from the table below (one entry per claimed property)."""
import json, os, sys
HERE = os.path.dirname(os.path.abspath(__file__))
VERIF = os.path.dirname(os.path.dirname(HERE))
ALL = ["C%02d" % k for k in range(1, 20)]
COMMON_NOTE = ("hand-written Gallina model tied to /repo by differential execution on every run (OCaml driver from "
               "extraction vs Rust harness on the real library, fresh thread per case); Flocq's four classical/real "
               "axioms where values (which contain binary32 numbers) are involved; named in the evidence")

CLAIMS = {
 "C01": dict(
   text="Theorems (all expressions, all nesting depths, all stores): whatever the trampolined evaluator of the model returns for an expression, an operand list, a tail expression or a procedure application - a value, an error or a panic, together with the state reached - is derivable in the direct-style big-step semantics of Spec/EvalSpec.v (innermost binding, operands left to right exactly once, only #f false, fresh frame per call with internal definitions in order, (apply p a.. l) = (p a.. l1..ln)); in particular the chain of tail calls run by the trampoline loop is the nested evaluation the rules describe. Proved by induction on the fuel for nine mutually recursive functions; no bound on program size. The model is tied to interpreter.rs/parser.rs by evaluating seeded type-directed random programs form by form on both sides and comparing values, tick traces (order and multiplicity of operand evaluation) and output.",
   note=COMMON_NOTE + "; terminating programs (OutOfFuel excluded); the converse direction (every derivation is found by the evaluator given enough fuel) and determinism of the rules are not yet proved; builtins enter through the shared function builtin_call",
   technique="Coq proof: soundness of the trampolined evaluator for a big-step R7RS semantics (fuel induction) + differential correspondence on random typed programs"),
 "C02": dict(
   text="Theorems on the evaluator with the hook's depth counter threaded (Model/EvalD.v): it computes the values and states of the plain evaluator (erasure, so C01 applies: the loop computes the same result); every function returns at the depth at which it was entered; a procedure reached through a tail call is entered by the same loop iteration level as its caller (no depth consumed); and the loop rule: if every single iteration stays within D levels and re-establishes an invariant, the whole run of the trampoline stays within D levels, whatever the number of iterations. The model's depth is tied to the implementation by comparing the maximal nesting depth of the evaluator's Rust calls exactly (hook counter) for every composition of the 16 tail contexts (depth 1 all, depth 2 sampled/all) x 9 loop shapes at two iteration counts, and requiring it to be independent of the count.",
   category="proof",
   note=COMMON_NOTE + "; PARTIAL by nature: bytes of machine stack per nesting level and the live heap are runtime facts outside any theorem (the depth counter is what is compared); known finding F3 (tail call through apply consumes depth) is reported as KNOWN-FINDING; the heap clause (frames captured by their own closures are not freed, F4) is not measured by this check",
   technique="Coq proof (erasure, depth invariants, loop rule by fuel induction) + exact depth correspondence through a cfg-guarded hook"),
 "C03": dict(
   text="Theorems: set! (env_set) changes exactly the binding of the name in the innermost frame of the chain that binds it and nothing else (no other binding of any frame, no parent link, no vector, no output); the change is seen through another environment iff its chain reaches the same defining frame; other names are never affected; an unbound name cannot be assigned; every procedure call binds its parameters in a frame that did not exist before; vector-set! changes exactly one cell of exactly the addressed vector, literal vectors reject mutation, vector-ref returns the stored value itself (aliases are addresses), vector/make-vector return fresh vectors; no builtin touches a frame. Tied to environment.rs / values.rs / base.rs by random histories of 20-60 top-level forms over counters made by generator procedures, global assignments and vectors aliased through variables, arguments, rest parameters, lists and other vectors, with the alias partition of every printed value compared (ptr_eq vs store address).",
   note=COMMON_NOTE + "; Rc sharing is modelled as equality of store addresses; the lift of the store lemmas to whole histories is by the evaluator soundness of C01, not a separate refinement theorem",
   technique="Coq proof (store lemmas: locality, sharing iff same defining frame, freshness) + differential correspondence on random alias histories"),
 "C04": dict(
   text="Theorems about the expander model: rules are tried in textual order and the first rule whose pattern matches decides, instantiated from that rule's own bindings only (bindings made by a failed rule are discarded); a use that matches no rule is the MacroMissMatch syntax error; _ and pattern variables match any form; a literal identifier matches exactly that symbol; a literal datum matches exactly an equal datum (prim_eqb is equality); a variable followed by an ellipsis matches the whole remaining run of one or more forms in order (induction on the run); (x ...) in a template is repeated once per matched item in order. Tied to macros.rs by Transformer::transform on (a) rule sets over 16 small patterns x 17 uses and (b) random nested rule sets (lists, vectors, literals, trailing ellipsis over variables and sub-lists, free symbols that other rules bind) with uses derived from the patterns and mutations; the expansion datum with locations, or the error kind, is compared.",
   note="closed under the global context (no axioms); PARTIAL: the full refinement 'transform = structural matcher' for nested patterns under an ellipsis is not proved (covered by the correspondence); supported class only",
   technique="Coq proof (rule-selection, leaf-pattern and ellipsis-run lemmas) + differential correspondence on exhaustive small and random rule sets"),
 "C05": dict(
   text="39 expansion equations, proved about the syntax table computed inside Coq from the CURRENT text of src/parser/grammar.sld (regenerated every run): for begin, let, let*, cond (else, =>, test-only), case (else, =>, compound key), and, or, when, unless and arbitrary sub-forms of any shape, the transformer yields exactly the R7RS derived-form expansion (e.g. (and e1 e2) = (if e1 (and e2) #f); (let ((x v) (y w)) b1 b2) = ((lambda (x y) b1 b2) v w); let* nests left to right; cond/case select the first clause, => receives the test value / key which is evaluated once). The equations mention neither pattern-variable names nor layout, so harmless edits re-prove; a semantic edit breaks a proof and the check then searches for a failing input with the model running the pinned reference sources. Meaning of the expansions: C01. Tied to the code by all pairs of derived forms nested in every position and random nested programs with ticking sub-forms (order and multiplicity of evaluation observed), plus scope probes (closures created in binding positions).",
   note="closed under the global context; equations are for the listed clause shapes, not for arbitrary numbers of clauses; hygiene hypotheses explicit (known finding F1), an ellipsis needs one item (F2), top-level begin does not splice (F8) - each printed as KNOWN-FINDING with its witness",
   technique="Coq proof by computation on the translated grammar.sld (source regenerated each run) + differential correspondence with tick traces; reference-mode search when a proof breaks"),
 "C06": dict(
   text="Theorems about the lexer model: a non-empty run of white space (blank, tab, CR, LF in any number) and a comment before a token are skipped - the token sequence does not depend on the layout; parentheses and the quote mark are tokens by themselves whatever follows; an identifier token (initial, subsequent characters) ends exactly at the next delimiter or the end of input and denotes exactly those characters; the lexer is total (for every text: a token, the end, or a reported error - never a panic or a timeout). Tied to lexer.rs / parser.rs by (a) EVERY string up to length 3 (quick) / 4 (thorough) over the 16-character alphabet ( ) ' # . + - 1 a e / \" ; \\ space newline plus seeded longer samples: token sequences with locations, and data read through the reader hook; (b) random datum trees (all supported token classes, lists, dotted tails, vectors, quote) rendered under random admissible layouts, read back and compared with the tree by an independent oracle.",
   note="closed under the global context; PARTIAL: the per-class scanning lemmas for numbers, strings and characters and the reader's read_render theorem are not proved (covered by the exhaustive short-string comparison and the tree round trip); #t/#f/#\\c need no following delimiter (pinned test depends on it), sign-dot identifiers like +.+ are rejected by the lexer - outside the supported grammar",
   technique="Coq proof (lexer lemmas by structural recursion, totality by induction on length) + exhaustive short-string and random tree/layout correspondence"),
 "C07": dict(
   text="Theorems: the lexer is total (no panic site, never out of fuel); the argument count is tested before any procedure body runs, at every application (first statement of the trampoline loop); hence binding the parameters (arg_iter.next().unwrap()) cannot fail and no native procedure can miss an argument - proved for every entry of the builtin table (the ~40 iter.next().unwrap() of base.rs/write.rs). Every other Rust panic site is an explicit Panic outcome of the whole-pipeline model, which is executed against the implementation on: every string up to length 2/3 over a 20-character alphabet (+ sampled longer), token soup over keywords/builtins/boundary literals with balanced and unbalanced parentheses, token-level mutations of valid programs and of the bundled library sources, random Unicode/control characters, every builtin on tuples of boundary values, a list of malformed special forms, and unreadable (non-UTF-8, directory, missing) program and library files - each followed by (+ 1 2) on the same interpreter. Any panic/abort of the implementation or a failing sanity form is a violation.",
   note=COMMON_NOTE + "; PARTIAL: totality of reader, transformer and evaluator as a whole (wf_ast => no Panic) is not proved; RefCell borrow conflicts are outside the model (one such panic was found by a sub-agent and repaired: fix 12a90b2); deep nesting, non-termination and memory exhaustion are outside the claim",
   technique="Coq proof (lexer totality; unreachability of the argument-unwrap panic sites, table-wide) + fuzzing correspondence of outcome classes on the whole pipeline"),
 "C08": dict(
   text="Theorems: the evaluator reports an error, with the state in which it was raised, only where the context-free big-step rules raise it (soundness, all calling contexts at once because the rules have no notion of context: direct call, tail call through the trampoline, apply, calls from library closures); every application checks the argument count (on the rules, and directly on the trampoline); a call yields a value only if its operator evaluated to a procedure, a reference/assignment only if the variable is bound; along any evaluation, failing or not, no frame and no vector disappears (effects are kept, nothing is rolled back). Tied to the code by valid random programs with one injected fault: 8 fault kinds x 5 calling contexts x position, with an effect completed before the fault and forms reading the state afterwards; kinds compared model vs implementation and against the kind the fault calls for.",
   note=COMMON_NOTE + "; single-fault programs; error locations are C15's subject and are not compared here",
   technique="Coq proof (soundness for context-free big-step rules, arity and inversion lemmas, state monotonicity by mutual induction on derivations) + fault-injection correspondence"),
 "C13": dict(
   text="Theorems: a library exposes exactly the external names of its export specs, each bound to the value its body gave the internal name (and every library an import yields is built that way from the library's own frame; an export of an undefined internal name is an error); the body runs in a fresh frame WITHOUT parent, from which no binding of the importer is reachable; a definition in the importer's frame changes no binding and no parent link of any other frame (so what a library's procedures look up is unaffected by importer redefinitions); the first successful import records the instance and every later import of that library on the interpreter returns it without evaluating anything. Tied to interpreter.rs by random import graphs of 1-3 stateful libraries (rename exports, internal state, unexported helpers, procedures reaching other libraries' state) supplied as files / registered sources / mixed, with importer programs that reference, define and redefine colliding names; per-form values, tick counts of library bodies and the final root frame are compared.",
   note=COMMON_NOTE + "; PARTIAL: full non-interference ('the result of any exported call is independent of importer redefinitions') is given by the store lemmas plus C01, not as one theorem; macros defined in a library leak through the thread-global syntax table (known finding F5 under C19)",
   technique="Coq proof (export step, closed library frame, instance cache lemmas) + differential correspondence on random stateful library graphs"),
 "C14": dict(
   text="Theorems on the loader model: whatever an import attempt does - succeed, fail with any error at any depth of the import graph - afterwards the set of libraries being imported is exactly what it was before, and root frame, program directory and import phase are untouched (mutual induction over eval_import_set / get_library / eval_import / eval_library_definition); a cyclic import is reported exactly when the library is reached while it is being imported, otherwise the outcome is the outcome of loading it; a failed load is not cached; library files are looked up relative to the program's directory. Together: the outcome of an import does not depend on earlier attempts. Tied to the code by every digraph on 1 and 2 libraries (3 sampled in thorough) x every node kind (healthy, missing, faulting body, wrong name, syntactically broken, not UTF-8) x files and registered sources x histories of up to 3 attempts; outcomes compared model vs implementation and each attempt against the same import on a fresh interpreter.",
   note=COMMON_NOTE + "; termination is by fuel in the model: the bound 'number of libraries + 1 suffices' is not proved (every generated graph terminates on both sides); the file system is an oracle",
   technique="Coq proof (invariant by mutual fuel induction over the loader) + exhaustive small-graph differential correspondence with history-independence oracle"),
 "C16": dict(
   text="Theorems: every exact integer of the i32 range prints as text that the lexer's integer conversion reads back as the same integer (digit generation and digit reading are inverse: induction with a sufficient-fuel bound), hence distinct integers print differently; a ratio prints as numerator/denominator; booleans and characters print as the tokens that denote them; lists print with single spaces, with a dotted tail exactly when improper. Tied to values.rs/pair.rs by random value trees of the readable subset (boundary integers, ratios of both signs incl. results of division, edge-case and random binary32 patterns, characters, plain/peculiar symbols, proper/improper lists, nested and empty vectors) and the results of arithmetic on the C09 grid: each value is displayed, the text quoted and read back on the same interpreter; text and both values are compared model vs implementation, the read-back value must equal the original (same exactness, bit-identical reals) and distinct values must print differently.",
   note=COMMON_NOTE + "; PARTIAL: the real-number leaf is conditional - Rust's shortest-digit f32 printing has no Coq model; the model's printer (exact search) is validated against it on every run (thorough: 200000 random finite patterns), not proved; the composition read(display v) = v for whole trees rests on the correspondence",
   technique="Coq proof (integer print/parse inverse, printer shape lemmas) + round-trip differential correspondence on random value trees"),
 "C17": dict(
   text="Theorems on the model of `ruschm FILE`: running a file is evaluating its text (as io.rs hands it to the lexer) with the program's directory set; an LF file reads as itself, the same file with CR LF line ends reads as the LF file, a missing final newline is supplied (so line-end convention and final newline cannot change the outcome); the forms are evaluated in order and the run stops at the first failing form, every form before it having succeeded; exit status 0 exactly when every form succeeded (then no diagnostic), otherwise one diagnostic carrying the failing form's error and status 255; a missing / non-UTF-8 / directory path is a diagnostic with non-zero status. main.rs is short, so the weight is in the tie: random displaying programs with an optional run-time or syntax fault at a random position, comments/blank lines, LF or CR LF, with/without final newline, run through the BUILT BINARY from another working directory: stdout bytes, exit status and the diagnostic's location vs the model, stdout vs in-process evaluation of the same text, and invariance under the other line-end / final-newline choice.",
   note=COMMON_NOTE + "; process exit status, stdio flushing and termcolor output are runtime facts observed on the binary; the diagnostic's message text is not compared",
   technique="Coq proof (line-end normalisation by induction on lines, structure of the evaluation loop) + differential correspondence with the built binary"),
 "C18": dict(
   text="Theorems on the REPL model: the bracket test is a left fold, so it does not depend on how the text was cut into lines; parentheses inside string literals (with escapes), character literals, |quoted identifiers| and comments do not count; while a list is open a line is only appended (nothing is evaluated) and as soon as every list is closed exactly the accumulated text is evaluated and the buffer cleared; a submission spread over several lines is evaluated once as the lines joined by newlines; a session is the sequence of its submissions evaluated one after another on one interpreter (definitions persist). Tied to repl.rs by (a) check_bracket_closed through a cfg-guarded wrapper vs the model on EVERY string up to length 5 (quick) / 7 (thorough) over ( ) \" ; \\ # a newline | plus longer samples, (b) random texts through bracket test and reader (complete forms must be submitted), (c) random sessions fed to the built binary over a pipe under three line splittings: stdout bytes and number of error lines vs the model, and equality across splittings.",
   note=COMMON_NOTE + "; rustyline over a pipe (observed: each line is delivered with its newline, so a string literal that spans lines gets a doubled newline in pipe mode - outside the claim, line breaks are only between tokens); the agreement of the bracket count with the reader's nesting depth is validated exhaustively on short strings, not proved; error messages are counted, not compared",
   technique="Coq proof (fold lemmas for the bracket scanner, induction over the session) + exhaustive short-string sweep and piped-session correspondence with the built binary"),
 "C09": dict(
   text="Theorems (Coq, all operands, no size bound): an exact result of + - * / abs is the exact rational result in Q; division by exact zero is an error iff the divisor is zero; floor/ceiling are Qfloor/Qceiling; floor-quotient/remainder satisfy n = d*q + r with q = floor(n/d); operands below 2^15 always give exact results; every result is in normal form; an inexact operand or an unrepresentable exact result gives the binary32 operation on the converted operands. The model (Model/Num.v on Flocq binary32) is tied to src/values.rs by executing both on the complete numeric grid and seeded random operands on every run, compared bit for bit.",
   note="Flocq's four classical/real axioms (named in evidence); Rust f32 = IEEE binary32 (validated bit-for-bit each run); hand-written model tied by differential execution through the public Number API",
   technique="Coq proof over Q of a Flocq-based model of values.rs + differential correspondence on the full operand grid"),
 "C10": dict(
   text="Theorems: for all exact operands with non-zero denominators partial_cmp is Qcompare of the rational values (so < > <= >= = are the order of Q, negative denominators included); mixed exact/inexact pairs are compared as binary32 after conversion; eqv? on numbers in normal form is 'same exactness and numerically equal'; one max/min step returns the Qmax/Qmin (exact operands) or the binary32 extreme (an inexact operand). Model tied to src/values.rs by the full grid of pairs on every run.",
   note="as C09; n-ary comparison builtins are covered by the evaluator correspondence (Model/Builtins.v)",
   technique="Coq proof (Qcompare refinement) + differential correspondence on all grid pairs"),
 "C12": dict(
   text="Theorems (all import-set terms, any nesting): the list eval_import_set computes binds exactly the names the R7RS import-set algebra (relation `denotes`) yields, each to the library's value under the original name, and changes nothing else of the interpreter; the result is independent of the enumeration order of the library's table (permutation); an import declaration (re)defines exactly the merged bindings in the importing frame and leaves every other binding, vector and the output unchanged; several sets give the union. Tied to interpreter.rs by importing every admissible term of nesting depth <= 2 (quick, exhaustive) / 3 (thorough) over a 4-export library into a fresh interpreter on a fresh thread and comparing the sorted root frame with the model and with an independent reading of the algebra.",
   note=COMMON_NOTE + "; admissible terms only (the code's behaviour on colliding renamings is hash-order dependent and outside the claim)",
   technique="Coq proof (refinement of eval_import_set to an inductive import-set algebra) + exhaustive differential correspondence on terms of bounded depth"),
}

def main():
    checks = []
    for pid in ALL:
        if pid not in CLAIMS:
            continue
        c = CLAIMS[pid]
        checks.append({
            "property_id": pid,
            "quick_cmd": "./check %s --tier quick" % pid,
            "thorough_cmd": "./check %s --tier thorough" % pid,
            "evidence_file": "/verif/evidence/%s.json" % pid,
            "replay_cmd_template": "./check %s --replay {path}" % pid,
            "engine": "rocq-model+correspondence",
            "level_claimed": {"category": c.get("category", "proof"), "text": c["text"],
                              "design_ref": "DESIGN.md section 5 (%s)" % pid},
            "level_note": c["note"],
            "technique": c["technique"],
        })
    na = c2 = None
    old = json.load(open(os.path.join(VERIF, "MANIFEST.json")))
    reasons = {e["property_id"]: e["reason"] for e in old.get("not_applicable", [])}
    na = [{"property_id": pid, "reason": NA_REASONS.get(pid, reasons.get(pid, "not yet claimed: check under construction"))}
          for pid in ALL if pid not in CLAIMS]
    man = {
        "version": 1,
        "setup_cmd": "./setup.sh",
        "hooks": {
            "guard": "ruschm_verif",
            "enable": "RUSTFLAGS=\"--cfg ruschm_verif\" (set by vlib/common.py:build_harness when building harness/ against /repo)",
            "baseline_off_cmd": "cd /repo && cargo test --workspace --no-fail-fast --offline",
            "source_commits": ["9cb0946", "0dc0783"],
            "add_only": True,
        },
        "engines": [{
            "name": "rocq-model+correspondence",
            "path": "/verif/coq, /verif/ocaml, /verif/harness, /verif/vlib",
            "serves_properties": [c["property_id"] for c in checks],
            "kind_free_text": "Coq 8.16 model + theorems (Props/Cxx.v), extracted OCaml driver, Rust harness on the real library, python differ",
        }],
        "checks": checks,
        "notes": "Every check rebuilds the harness from /repo's working tree, regenerates coq/Gen from /repo's bundled .sld sources, re-checks Props/Cxx.vo and its Print Assumptions, then runs the seeded correspondence. See DESIGN.md.",
        "not_applicable": na,
    }
    with open(os.path.join(VERIF, "MANIFEST.json"), "w") as f:
        json.dump(man, f, indent=1)
    print("claimed:", [c["property_id"] for c in checks])

NA_REASONS = {}
if __name__ == "__main__":
    main()
