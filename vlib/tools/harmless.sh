#!/bin/bash
# harmless.sh [NAME...] : apply every behaviour-preserving change of /verif/harmless (or the named ones) to /repo in turn and
# run all quick checks: none may report a violation (a broken proof with "no-failing-input-found" is listed separately)
cd /verif
names="$@"; [ -z "$names" ] && names=$(ls harmless)
for n in $names; do
  git -C /repo apply /verif/harmless/$n/patch.diff || { echo "$n PATCH-DOES-NOT-APPLY"; continue; }
  out=$(vlib/tools/allquick.sh 2>&1)
  git -C /repo checkout -- .
  v=$(echo "$out" | grep -c "^VIOLATION")
  if [ "$v" = "0" ]; then echo "$n QUIET"; else echo "$n ALARM:"; echo "$out" | grep -E "VIOLATION|BROKEN|FAIL" | head -12; fi
done
git -C /repo status --short | head -3
