#!/bin/bash
# regress.sh [NAME...] : apply every seeded change (or the named ones) to /repo in turn, run the quick check of its property
# (and of the checks listed under "checks" in its meta.json), undo; prints one line per change: CAUGHT / MISSED
cd /verif
names="$@"; [ -z "$names" ] && names=$(ls seeded)
for n in $names; do
  [ -e seeded/$n/patch.diff ] || continue
  checks=$(python3 -c "
import json,sys
m=json.load(open('seeded/$n/meta.json'))
print(' '.join(m.get('checks') or [m['property']]))")
  git -C /repo apply /verif/seeded/$n/patch.diff || { echo "$n PATCH-DOES-NOT-APPLY"; continue; }
  hit=""
  for c in $checks; do
    if ./check $c --tier quick 2>&1 | grep -q "^VIOLATION"; then hit="$hit $c"; fi
  done
  git -C /repo checkout -- .
  if [ -n "$hit" ]; then echo "$n CAUGHT by$hit"; else echo "$n MISSED (ran: $checks)"; fi
done
git -C /repo status --short | head -3
