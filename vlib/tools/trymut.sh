#!/bin/bash
# trymut.sh NAME CHECK... : apply seeded/NAME/patch.diff to /repo, run the quick checks, undo
name=$1; shift
cd /verif
git -C /repo apply /verif/seeded/$name/patch.diff || { echo "patch does not apply"; exit 2; }
for c in "$@"; do
  echo "=== $c on $name"
  ./check $c --tier quick 2>&1 | grep -E "VIOLATION|KNOWN-FINDING|BROKEN|quick:" | head -8
done
git -C /repo checkout -- .
git -C /repo status --short | head -3
