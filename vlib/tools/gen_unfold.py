#!/usr/bin/env python3
"""gen_unfold.py FILE.v PREFIX: prints one-step unfolding lemmas (name_S) for every function of a
mutual Fixpoint on fuel whose body has the shape  match fuel with | O => .. | S f => BODY end"""
import re, sys
src = open(sys.argv[1]).read()
m = re.search(r"^Fixpoint .*?\n  end\.\n", src, re.S | re.M)
block = m.group(0)
parts = re.split(r"\n\nwith ", block)
out = []
for k, part in enumerate(parts):
    if k == 0:
        part = part[len("Fixpoint "):]
    head, _, rest = part.partition(":=\n")
    head = " ".join(head.split())
    name = head.split(" ")[0]
    params = re.findall(r"\((\w+(?: \w+)*) : ([^()]*(?:\([^()]*\)[^()]*)*)\)", head)
    binders = []
    for names, ty in params:
        for n in names.split():
            if n != "fuel":
                binders.append(n)
    body = rest
    i = body.index("| S f =>") + len("| S f =>")
    j = body.rindex("\n  end")
    bodytxt = body[i:j].rstrip()
    out.append("Lemma %s_S : forall f %s, %s (S f) %s =\n  (%s).\nProof. reflexivity. Qed.\n" %
               (name, " ".join(binders), name, " ".join(binders), bodytxt.strip()))
print("\n".join(out))
