#!/bin/bash
# seedsweep.sh SEED... : every quick check with other seeds (latent false alarms of the generators / oracles)
cd /verif
for s in "$@"; do
  for i in 01 02 03 04 05 06 07 08 09 10 11 12 13 14 15 16 17 18 19; do
    r=$(VERIF_SEED=$s ./check C$i --tier quick 2>&1 | grep -E "VIOLATION|BROKEN|quick:" | head -3 | tr '\n' ' ')
    echo "seed=$s $r"
  done
done
