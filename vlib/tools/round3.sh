#!/bin/bash
# round3.sh ID NAME CHECK... : confirm a round-3 seeded change and run the given checks against it
id=$1; name=$2; shift; shift
WT_PREFIX=${WT_PREFIX:-/tmp/wt4-} OUT_DIR=${OUT_DIR:-/tmp/mut4-out} /verif/vlib/tools/confirm_mut.sh $id $name 2>&1 | tail -2
[ -e /verif/seeded/$name/patch.diff ] && /verif/vlib/tools/trymut.sh $name "$@" | grep -E "===|VIOLATION|quick:" | awk '/VIOLATION/{n++; if(n<=2)print; next}{print}'
