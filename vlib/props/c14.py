"""C14 Library loading terminates, and its outcome depends only on the library graph."""
import itertools
import re
import common
import gen

ALLOWED_AXIOMS = common.FLOCQ_AXIOMS
NEEDS_BINARY = True
ASSUMPTIONS = [
    "the file system is an oracle (path -> readable text / not UTF-8 / directory / absent) that does not change during a run",
]
TRUSTED_EXTRA = ["Model/Interp.v models eval_import_set / get_library / file_library_factory / eval_library_definition of "
                 "interpreter.rs, library_factory.rs and io.rs"]

KIND = re.compile(r"^\((ok|err \w+|panic|abort|timeout|outoffuel)")


def kind_of(line):
    m = KIND.match(line)
    return m.group(1) if m else line[:16]


def graph_lines(names, edges, kinds, how):
    """FILE lines (libraries as files in the working directory) or REGSRC lines (registered sources)"""
    h = common.hexs
    lines = []
    for k, n in enumerate(names):
        if kinds[k] == "missing":
            continue
        imports = [names[b] for a, b in edges if a == k]
        if kinds[k] == "not-utf8":
            if how == "files":
                lines.append("FILE %s %s BAD" % (h("cwd"), h(n)))
            continue
        text = gen.library_text(n, imports, kinds[k])
        if how == "files":
            lines.append("FILE %s %s %s" % (h("cwd"), h(n), h(text)))
        else:
            lines.append("REGSRC 0 %s %s" % (h(n), h(text)))
    return lines


def explore(ctx):
    cases = []
    graphs = gen.library_graphs(1) + gen.library_graphs(2, ctx.rng, 700 if ctx.quick else None)
    if not ctx.quick:
        graphs += gen.library_graphs(3, ctx.rng, 6000)
    dist = {"files": 0, "registered": 0}
    for gi, (names, edges, kinds) in enumerate(graphs):
        for how in ("files", "registered"):
            gen.EDGE_SALT = gi
            if how == "registered" and any(k in ("not-utf8",) for k in kinds):
                continue
            dist[how] += 1
            targets = list(range(len(names)))
            hists = [[t] for t in targets]
            hists += [list(p) for p in itertools.product(targets, repeat=2)]
            if len(names) <= 2:
                hists += [list(p) for p in ctx.rng.sample(list(itertools.product(targets, repeat=3)), min(4, len(targets) ** 3))]
            if ctx.quick and len(hists) > 5:
                hists = hists[:len(targets)] + ctx.rng.sample(hists[len(targets):], 4)
            for hist in hists:
                lines = ["NEW 0 std"]
                setup = graph_lines(names, edges, kinds, how)
                if how == "files":
                    lines = setup + lines
                else:
                    lines = lines + setup
                nsetup = len(lines)
                for t in hist:
                    lines.append("EVAL 0 " + common.hexs("(import (%s))" % names[t]))
                cases.append({"lines": lines, "graph": {"names": names, "edges": edges, "kinds": list(kinds)}, "how": how,
                              "history": hist, "nsetup": nsetup})
    # a healthy library is healthy whatever its size and byte layout: files of more than 8 / 16 / 64 KiB with a 2-, 3- or
    # 4-byte character lying across a power-of-two byte offset (in a comment), imported directly and through another library
    for boundary in ([8192, 16384] if ctx.quick else [4096, 8192, 16384, 32768, 65536]):
        for ch in ("\u00e9", "\u4e2d", "\U0001f600"):
            for back in range(1, len(ch.encode())):
                pad = boundary - back - 2
                big = "; " + "x" * pad + ch + " end of header\n" + gen.library_text("big", [], "healthy")
                assert big.encode()[boundary - back:boundary - back + len(ch.encode())] == ch.encode()
                via = "(define-library (via) (export via-v) (import (scheme base) (big)) (begin (define via-v (list big-v))))"
                lines = ["FILE %s %s %s" % (common.hexs("cwd"), common.hexs("big"), common.hexs(big)),
                         "FILE %s %s %s" % (common.hexs("cwd"), common.hexs("via"), common.hexs(via)), "NEW 0 std"]
                nsetup = len(lines)
                lines += ["EVAL 0 " + common.hexs("(import (via))"), "EVAL 0 " + common.hexs("(import (big))"), "EVAL 0 " + common.hexs("via-v")]
                cases.append({"lines": lines, "graph": {"names": ["via", "big"], "edges": [[0, 1]], "kinds": ["healthy", "healthy"]},
                              "how": "files", "history": [0, 1], "nsetup": nsetup})
    # library files are located relative to the directory of the program file, whatever the working directory and
    # however the program is named: libraries next to the program, decoys of the same names elsewhere
    h = common.hexs
    prog_cases = []
    for names, edges, kinds in ctx.rng.sample(graphs, min(len(graphs), 40 if ctx.quick else 600)):
        lines = []
        gen.EDGE_SALT = ctx.rng.randrange(8)
        for k, n in enumerate(names):
            imports = [names[b] for a, b in edges if a == k]
            if kinds[k] == "missing":
                pass
            elif kinds[k] == "not-utf8":
                lines.append("FILE %s %s BAD" % (h("prog"), h(n)))
            else:
                lines.append("FILE %s %s %s" % (h("prog"), h(n), h(gen.library_text(n, imports, kinds[k]))))
            for decoy_dir in ("elsewhere", "cwd"):
                lines.append("FILE %s %s %s" % (h(decoy_dir), h(n), h(
                    "(define-library (%s) (export decoy-%s) (import (scheme base)) (begin (define decoy-%s 'decoy)))" % (n, n, n))))
        t = ctx.rng.randrange(len(names))
        main = "(import (scheme base) (scheme write) (%s))\n(display 'loaded)\n" % names[t]
        lines.append("FILE %s %s %s" % (h("prog"), h("main.scm"), h(main)))
        npre = len(lines)
        lines += ["RUNBIN %s %s" % (h("prog"), h("main.scm")), "RUNBIN %s %s rel" % (h("prog"), h("main.scm")),
                  "NEW 0 std", "RUNFILE 0 %s %s" % (h("prog"), h("main.scm"))]
        prog_cases.append({"lines": lines, "graph": {"names": names, "edges": edges, "kinds": list(kinds)}, "npre": npre})
    presults, pndis = common.run_cases(ctx, prog_cases, timeout=1200)
    naming = 0
    for c, (ml, il, d) in zip(prog_cases, presults):
        if il[c["npre"]] != il[c["npre"] + 1]:
            naming += 1
            if naming <= 3:
                ctx.violation({"lines": c["lines"], "meta": {"graph": c["graph"]}}, ml, il,
                              note="the outcome of loading depends on how the program file is named: absolute %s, relative %s"
                                   % (il[c["npre"]], il[c["npre"] + 1]))
    results, ndis = common.run_cases(ctx, cases)
    ndis += pndis
    # the property on the (proved-about) model's output: the outcome of an import attempt depends only on the graph
    # and the target, not on the attempts made before it on the same interpreter
    first = {}
    for c, (ml, il, d) in zip(cases, results):
        if len(c["history"]) == 1:
            key = (str(c["graph"]), c["how"], c["history"][0])
            first[key] = kind_of(ml[c["nsetup"]])
    dependent = 0
    outcomes = {}
    for c, (ml, il, d) in zip(cases, results):
        loaded = set()
        for j, t in enumerate(c["history"]):
            got = kind_of(ml[c["nsetup"] + j])
            outcomes[got] = outcomes.get(got, 0) + 1
            want = first.get((str(c["graph"]), c["how"], t))
            if want is not None and got != want:
                dependent += 1
                if dependent <= 5:
                    ctx.violation({"lines": c["lines"], "meta": {"graph": c["graph"], "history": c["history"]}}, ml, il,
                                  note="attempt %d imports %s: outcome %s, but %s on a fresh interpreter" % (j, c["graph"]["names"][t], got, want))
    # and the outcome is what the graph prescribes: cyclic iff a cycle is reachable through healthy nodes before any fault
    return {
        "evaluations": sum(len(c["history"]) for c in cases),
        "programs": len(cases) + len(prog_cases),
        "program_directory_cases": len(prog_cases), "naming_dependent_outcomes": naming,
        "distinct_nontrivial": len({(str(c["graph"]), c["how"]) for c in cases if c["graph"]["edges"]}),
        "traces_validated_against_impl": len(cases) - ndis,
        "disagreements": ndis,
        "history_dependent_outcomes": dependent,
        "rule": "every directed graph (self loops included) on 1 and 2 libraries%s x every assignment of node kinds (healthy, "
                "missing, faulting body, fault in the middle of the body, wrong library name in the file, syntactically broken, not UTF-8, "
                "the library second in its file after another library, after other top-level forms, defined twice in its file), libraries supplied "
                "as files in the working directory and as registered sources, every edge written as one of the import-set shapes (the library alone; only / except / rename with an empty identifier list; prefix; only with an identifier), plus healthy library files of 8-64 KiB with a multi-byte character across a power-of-two byte offset, x histories of 1, 2 and 3 import attempts on "
                "one interpreter%s; observable: outcome kind and location per attempt, compared model vs implementation; and "
                "the outcome of every attempt is compared with the outcome of the same import on a fresh interpreter "
                "(history independence); plus program files with the libraries next to them and decoy libraries of the same names "
                "in the working directory, run through the built binary by absolute and by relative path and through eval_file "
                "(lookup relative to the program's directory). non-trivial = distinct graph with at least one edge"
                % (" (sampled)" if ctx.quick else " and sampled graphs on 3", " (sampled)" if ctx.quick else ""),
        "exhaustive": not ctx.quick,
        "input_distribution": dict(dist, **{"outcome " + k: v for k, v in outcomes.items()}),
        "samples": [{"graph": c["graph"], "how": c["how"], "history": c["history"], "model": r[0][c["nsetup"]:], "impl": r[1][c["nsetup"]:]}
                    for c, r in list(zip(cases, results))[:: max(1, len(cases) // 4)]][:4],
    }


def replay(ctx, path):
    with common.Lock():
        common.build_binary()
    return common.replay_case(ctx, path)
