"""C13 Libraries are encapsulated and loaded once per program."""
import common
import gen

ALLOWED_AXIOMS = common.FLOCQ_AXIOMS
ASSUMPTIONS = [
    "macros defined inside a library go to the thread-global syntax table (known finding F5, property C19); the "
    "generated libraries define no syntax",
]
TRUSTED_EXTRA = ["Model/Interp.v models eval_library_definition, get_library and the per-interpreter cache of instantiated libraries"]


def explore(ctx):
    n = 3000 if ctx.quick else 20000
    cases = []
    dist = {"files": 0, "registered": 0}
    h = common.hexs
    for k in range(n):
        libs, forms = gen.encapsulation_case(ctx.rng)
        how = ctx.rng.choice(["files", "registered", "mixed"])
        pre, post = [], []
        for j, (name, text) in enumerate(libs):
            as_file = how == "files" or (how == "mixed" and j % 2 == 0)
            if as_file:
                pre.append("FILE %s %s %s" % (h("cwd"), h(name), h(text)))
                dist["files"] += 1
            else:
                post.append("REGSRC 0 %s %s" % (h(name), h(text)))
                dist["registered"] += 1
        lines = pre + ["FUEL 3000", "NEW 0 std"] + post + ["EVAL 0 " + h(f) for f in forms] + ["ENV 0"]
        cases.append({"lines": lines, "libs": libs, "forms": forms})
    results, ndis = common.run_cases(ctx, cases, compare=common.compare_fuel)
    shared = 0
    for c, (ml, il, d) in zip(cases, results):
        if sum(1 for f in c["forms"] if f.startswith("(via-")) and len(c["libs"]) > 1:
            shared += 1
    return {
        "evaluations": sum(len(c["forms"]) for c in cases),
        "programs": len(cases),
        "distinct_nontrivial": shared,
        "traces_validated_against_impl": len(cases) - ndis,
        "disagreements": ndis,
        "rule": "random import graphs of 1-3 stateful libraries, in four cases of ten plus a library WITHOUT import declaration whose procedures read and assign a name the program defines, in four of ten plus a library that exports nothing and acts when loaded, named by several import declarations (exports with and without rename, an internal state variable, "
                "an unexported helper, procedures that call procedures of the libraries they import, optionally a tick in the "
                "body to count instantiations, optionally a definition of a name the library also imports - from (scheme base) or from "
                "another library - exported under its own or another name; export / import / begin declarations in every order "
                "that keeps imports before the body, exports and body possibly split over two declarations), supplied as files, as registered sources or mixed; importer programs import "
                "them in random order (also twice in one declaration), call the exports, reference and (re)define names that "
                "collide with the libraries' internals, redefine imported names and car; observables per form: value / error "
                "kind, tick trace, and at the end the sorted bindings of the root frame. non-trivial = a program that calls a "
                "procedure reaching another library's state (instance sharing across the graph)",
        "exhaustive": False,
        "input_distribution": dist,
        "samples": [{"libraries": [t for _, t in c["libs"]], "forms": c["forms"], "model": r[0][-4:-1], "impl": r[1][-4:-1]}
                    for c, r in list(zip(cases, results))[:: max(1, len(cases) // 3)]][:3],
    }


def replay(ctx, path):
    return common.replay_case(ctx, path, compare=common.compare_fuel)
