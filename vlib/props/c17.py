"""C17 Running a program file: output, diagnostics and exit status."""
import re
import common
import gen

ALLOWED_AXIOMS = common.FLOCQ_AXIOMS
NEEDS_BINARY = True
ASSUMPTIONS = [
    "standard output is flushed when the process exits; the diagnostic's message text is not compared (its shape "
    "FILE[:LINE:COL] MESSAGE, the location and the exit status are); termcolor escape sequences are stripped",
    "the file system is an oracle",
]
TRUSTED_EXTRA = ["Model/Cli.v models main.rs for `ruschm FILE`; Model/Interp.v models eval_file and io.rs (file_char_stream)"]

RUN = re.compile(r"^\(run out=([0-9a-f]*) status=(-?\d+) diag=(.*)\)$")


def explore(ctx):
    import os
    os.environ["VDRIVER_BIG_STACK"] = "1"      # files of 100 KiB and more: the extracted lexer recurses on the system stack
    h = common.hexs
    n = 400 if ctx.quick else 4000
    cases = []
    dist = {}
    for k in range(n):
        forms, idx, kind = gen.file_program(ctx.rng, ctx.rng.randint(3, 9))
        libfile = []
        if ctx.rng.random() < 0.3:
            # the program uses a library of its own that lies next to it (wherever the program is started from and
            # however it is named)
            forms[0] = "(import (scheme base) (scheme write) (helper17))"
            forms.insert(1, "(display (helper17-value))")
            if idx is not None:
                idx += 1
            libtext = "(define-library (helper17) (export helper17-value) (import (scheme base)) (begin (define (helper17-value) '(from helper17))))"
            # next to the program for the binary; in the harness's own working directory for the in-process evaluation
            libfile = ["FILE %s %s %s" % (h("prog"), h("helper17"), h(libtext)), "FILE %s %s %s" % (h("cwd"), h("helper17"), h(libtext))]
        eol = ctx.rng.choice(["\n", "\n", "\r\n"])
        final = ctx.rng.random() < 0.6
        text = gen.render_file(ctx.rng, forms, eol, final)
        lf = text.replace("\r\n", "\n")
        lines = libfile + ["FILE %s %s %s" % (h("prog"), h("main.scm"), h(text)), "RUNBIN %s %s" % (h("prog"), h("main.scm")),
                 "NEW 0 plain", "EVAL 0 " + h(lf),
                 # the same program with the other line ends and with / without the final newline
                 "FILE %s %s %s" % (h("prog"), h("alt.scm"), h(lf.rstrip("\n") if final else lf + "\n")),
                 "RUNBIN %s %s" % (h("prog"), h("alt.scm")),
                 "FILE %s %s %s" % (h("prog"), h("crlf.scm"), h(lf.replace("\n", "\r\n"))),
                 "RUNBIN %s %s" % (h("prog"), h("crlf.scm")),
                 # the same file named by a relative path with a directory part
                 "RUNBIN %s %s rel" % (h("prog"), h("main.scm"))]
        cases.append({"lines": lines, "forms": forms, "fault": kind, "fault_index": idx, "eol": repr(eol), "final_newline": final,
                      "off": len(libfile)})
        dist[kind or "no fault"] = dist.get(kind or "no fault", 0) + 1
        if libfile:
            dist["with a library next to the program"] = dist.get("with a library next to the program", 0) + 1
    # files larger than the usual buffer sizes with a multi-byte character (or a CR LF pair) lying across a block boundary
    for boundary in ([4096, 8192, 16384] if ctx.quick else [512, 1024, 4096, 8192, 16384, 32768, 65536, 131072]):
        for ch in ("\u00e9", "\u4e2d", "\U0001f600", "\r\n"):
            for back in range(1, len(ch.encode())):
                for eol in ("\n", "\r\n"):
                    if ch == "\r\n" and eol == "\n":
                        continue
                    if ch == "\r\n":
                        text = gen.boundary_file(ctx.rng, boundary, "q\r\n", 2, eol)      # CR just before the offset, LF on it
                    else:
                        text = gen.boundary_file(ctx.rng, boundary, ch, back, eol)
                    lf = text.replace("\r\n", "\n")
                    lines = ["FILE %s %s %s" % (h("prog"), h("main.scm"), h(text)), "RUNBIN %s %s" % (h("prog"), h("main.scm")),
                             "NEW 0 plain", "EVAL 0 " + h(lf)]
                    cases.append({"lines": lines, "forms": ["<%d bytes, %r %d byte(s) before offset %d>" % (len(text.encode()), ch, back, boundary)],
                                  "fault": None, "fault_index": None, "eol": repr(eol), "final_newline": True})
                    dist["block boundary"] = dist.get("block boundary", 0) + 1
    # a long run of comment and blank lines before and between the forms (flat text must not consume stack)
    for nlines in ([3000] if ctx.quick else [3000, 20000]):
        for eol in ("\n", "\r\n"):
            block = "".join("; comment line %d%s%s" % (k, eol, eol if k % 7 == 0 else "") for k in range(nlines))
            text = "(import (scheme base) (scheme write))" + eol + block + '(display "after the comments")' + eol + block + "(display (+ 1 2))" + eol
            lf = text.replace("\r\n", "\n")
            cases.append({"lines": ["FILE %s %s %s" % (h("prog"), h("main.scm"), h(text)), "RUNBIN %s %s" % (h("prog"), h("main.scm")),
                                    "NEW 0 plain", "EVAL 0 " + h(lf)],
                          "forms": ["<%d comment lines twice>" % nlines], "fault": None, "fault_index": None, "eol": repr(eol), "final_newline": True})
            dist["long comment block"] = dist.get("long comment block", 0) + 1
    # special files
    for content, name in (("", "empty"), ("(import (scheme write))(display 1)", "one-line"), ("; only a comment", "comment")):
        cases.append({"lines": ["FILE %s %s %s" % (h("prog"), h("main.scm"), h(content)), "RUNBIN %s %s" % (h("prog"), h("main.scm")),
                                "NEW 0 plain", "EVAL 0 " + h(content)], "forms": [content], "fault": None, "fault_index": None,
                      "eol": "-", "final_newline": False})
    for content in ("BAD", "DIR"):
        cases.append({"lines": ["FILE %s %s %s" % (h("prog"), h("main.scm"), content), "RUNBIN %s %s" % (h("prog"), h("main.scm"))],
                      "forms": [content], "fault": "unreadable", "fault_index": 0, "eol": "-", "final_newline": False})
    cases.append({"lines": ["RUNBIN %s %s" % (h("prog"), h("missing.scm"))], "forms": [], "fault": "missing", "fault_index": 0,
                  "eol": "-", "final_newline": False})
    results, ndis = common.run_cases(ctx, cases, timeout=1200)
    bad = 0
    for c, (ml, il, d) in zip(cases, results):
        il = il[c.get("off", 0):]       # the lines that write the program's own library come first
        ml = ml[c.get("off", 0):]
        run = RUN.match(il[1] if len(il) > 1 else il[0])
        if not run:
            continue
        out, status, diag = run.group(1), int(run.group(2)), run.group(3)
        problems = []
        if c["fault"] is None and (status != 0 or diag != "none"):
            problems.append("a program without fault exits with status %d / diagnostic %s" % (status, diag))
        if c["fault"] is not None and (status == 0 or diag == "none"):
            problems.append("a failing program exits with status 0 or without diagnostic")
        if len(il) > 3 and " o=" in il[3]:
            inproc = il[3].split(" o=")[1]
            if inproc != out:
                problems.append("the file's output differs from in-process evaluation of the same text")
        if len(il) >= 9 and il[8] != il[1]:
            problems.append("the outcome depends on how the file is named (absolute vs relative path): %s / %s" % (il[1], il[8]))
        if len(il) >= 8:
            if il[5] != il[1] or il[7] != il[1]:
                problems.append("the outcome depends on the line ends or on the final newline: %s / %s / %s" % (il[1], il[5], il[7]))
        for p in problems:
            bad += 1
            if bad <= 6:
                ctx.violation({"lines": c["lines"], "meta": {"forms": c["forms"], "fault": c["fault"]}}, ml, il, note=p)
    return {
        "evaluations": len(cases),
        "programs": len(cases),
        "distinct_nontrivial": sum(1 for c in cases if c["fault"]),
        "traces_validated_against_impl": len(cases) - ndis,
        "disagreements": ndis,
        "property_failures": bad,
        "rule": "random displaying programs (definitions, display of computed values, lists, strings, newlines, derived forms) "
                "with an optional injected fault (8 run-time kinds or a syntactically invalid form) at a random position, "
                "comments and blank lines, string literals that span lines with blanks and tabs before the line break, LF or CR LF "
                "line ends, with or without final newline, named by an absolute and by a relative path, three in ten importing a library file that lies next to the program, blanks at line ends and lines of blanks only; written to a scratch "
                "directory and run through the built binary from ANOTHER working directory: stdout bytes, exit status and "
                "the diagnostic's location vs the model; stdout vs in-process evaluation of the same text; the same program "
                "with the other line-end convention and final-newline choice must give the same result; plus files of 4-130 KiB in which a 2-, 3- or 4-byte character "
                "or a CR LF pair lies across a power-of-two byte offset; files with 3000 (20000) consecutive comment and blank lines; plus empty, "
                "comment-only, non-UTF-8, directory and missing files. non-trivial = program with a failing form",
        "exhaustive": False,
        "input_distribution": dist,
        "samples": [{"forms": c["forms"][:5], "fault": c["fault"], "model": r[0][min(1, len(r[0]) - 1)], "impl": r[1][min(1, len(r[1]) - 1)]} for c, r in
                    list(zip(cases, results))[:: max(1, len(cases) // 4)]][:4],
    }


def replay(ctx, path):
    import os
    os.environ["VDRIVER_BIG_STACK"] = "1"
    with common.Lock():
        common.build_binary()
    return common.replay_case(ctx, path)
