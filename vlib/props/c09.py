"""C09 Exact arithmetic is exact, and inexactness is contagious."""
import common
import numgrid

ALLOWED_AXIOMS = common.FLOCQ_AXIOMS
ASSUMPTIONS = [
    "Rust f32 arithmetic (+ - * / sqrt floor ceil round abs, i32->f32) is IEEE-754 binary32 round-to-nearest-even "
    "= Flocq's Bplus/Bminus/Bmult/Bdiv/Bsqrt/Bnearbyint/binary_normalize at prec 24, emax 128 (compared bit-for-bit on every case)",
    "operands have non-zero denominators (wf); i128 intermediates of i32 operands cannot overflow",
]
TRUSTED_EXTRA = ["Model/Num.v, Model/Real32.v model src/values.rs (Number, upcast_oprands, exact_ratio, operators)"]


def explore(ctx):
    nrandom = 60000 if ctx.quick else 1000000
    lines = numgrid.num_cases(ctx.rng, nrandom)
    m, i, dis = common.differential(lines)
    bad = common.diff_report(ctx, lines, m, i, dis)
    # the n-ary builtins through the evaluator: folds and comparison chains over 3-5 operands
    ncases, ntests = numgrid.nary_cases(ctx.rng, 10000 if ctx.quick else 200000)
    nres, nndis = common.run_cases(ctx, ncases)
    nbad = numgrid.nary_oracle(ntests, nres)
    for t, msg in nbad[:5]:
        ci, kind, op, ops, pos = t
        ctx.violation({"lines": ncases[ci]["lines"], "meta": {"op": op, "operands": ops}}, nres[ci][0], nres[ci][1], note=msg)
    distinct = len({l for l, o in zip(lines, m) if not numgrid.trivial_num(l) and not o.startswith("(err")})
    kinds = {}
    for l in lines:
        kinds[l.split(" ")[1]] = kinds.get(l.split(" ")[1], 0) + 1
    return {
        "evaluations": len(lines) + len(ntests),
        "nary_tests": len(ntests), "nary_disagreements": nndis, "nary_oracle_failures": len(nbad),
        "distinct_nontrivial": distinct,
        "traces_validated_against_impl": len(lines) - len(dis),
        "disagreements": len(dis),
        "rule": "complete grid (%d numbers: boundary integers, reduced/unreduced ratios of both signs, binary32 classes) "
                "for every unary and binary Number operation through the public Rust API, plus %d seeded random cases; "
                "plus n-ary calls of + - * / max min = < <= > >= on 3-5 operands (grid and random numbers, unreduced ratios bound through "
                "the API, nearly sorted tuples with equal neighbours, tuples drawn from clusters of distinct numbers that only the conversion to binary32 identifies - 2^24 / 2^24+1 / 16777216.0 and the like -) through the evaluator, compared model vs implementation and "
                "against the implementation's own left-nested binary spelling (folds) / adjacent pairs (chains); "
                "non-trivial = not an error and some operand outside {-1,0,1}; model and implementation compared on "
                "variant, components and binary32 bit pattern" % (len(numgrid.grid()), nrandom),
        "exhaustive": False,
        "input_distribution": kinds,
        "samples": [{"case": lines[k], "model": m[k], "impl": i[k]} for k in (0, len(lines) // 3, len(lines) // 2, len(lines) - 1)],
    }


def replay(ctx, path):
    import json
    case = json.load(open(path))["case"]
    with common.Lock():
        common.build_driver()
        common.build_harness()
    m, i, dis = common.differential([case])
    if isinstance(case, dict):
        return common.replay_case(ctx, path)
    print("case:", case, "\nmodel:", m[0], "\nimplementation:", i[0])
    return 1 if dis else 0
