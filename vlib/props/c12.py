"""C12 Import sets bind exactly the names the import-set algebra yields."""
import itertools
import common

ALLOWED_AXIOMS = common.FLOCQ_AXIOMS  # values contain binary32 numbers (Flocq)
ASSUMPTIONS = [
    "admissible terms only (every renaming names an identifier at most once and introduces no collision): "
    "for other terms the bindings depend on the hash order of a HashMap and the property makes no claim",
    "the libraries named in the term are instantiated or natively provided (theorems C12_import_set_denotes, "
    "C12_first_import_native)",
]
TRUSTED_EXTRA = ["Model/Interp.v (eval_import_set, eval_import) models interpreter.rs:485-608; "
                 "Spec/ImportSpec.v is the R7RS import-set algebra"]

LIB = {"a": 1, "b": 2, "c": 3, "d": 4}


def apply_op(op, names):
    """names: dict name -> value. returns new dict or None if the result is not admissible"""
    k = op[0]
    if k == "only":
        return {n: v for n, v in names.items() if n in op[1]}
    if k == "except":
        return {n: v for n, v in names.items() if n not in op[1]}
    if k == "prefix":
        return {op[1] + n: v for n, v in names.items()}
    if k == "rename":
        pairs = op[1]
        froms = [a for a, _ in pairs]
        if len(set(froms)) != len(froms):
            return None
        mp = dict(pairs)
        out = {}
        for n, v in names.items():
            t = mp.get(n, n)
            if t in out:
                return None
            out[t] = v
        return out
    raise ValueError(op)


def ops_for(names, rng, full):
    ns = sorted(names)
    ops = []
    subsets = []
    for r in range(0, len(ns) + 1):
        for sub in itertools.combinations(ns, r):
            subsets.append(list(sub))
    if not full and len(subsets) > 8:
        subsets = [subsets[0], subsets[-1]] + rng.sample(subsets[1:-1], 6)
    for sub in subsets:
        ops.append(("only", sub))
        ops.append(("except", sub))
        if len(sub) >= 2:
            # the order in which an identifier list is written must not matter: descending and a random order too
            ops.append(("only", list(reversed(sub))))
            ops.append(("except", list(reversed(sub))))
            if len(sub) >= 3:
                perm = list(sub)
                rng.shuffle(perm)
                ops.append(("only", perm))
                ops.append(("except", perm))
    ops.append(("only", ns[:1] + ["zz"]))       # an identifier the set does not contain
    ops.append(("except", ["zz"]))
    for p in ("p-", "a"):
        ops.append(("prefix", p))
    if ns:
        x = ns[0]
        ops.append(("rename", [(x, "r1")]))
        ops.append(("rename", [("zz", "r2")]))
        if len(ns) >= 2:
            y = ns[1]
            ops.append(("rename", [(x, y), (y, x)]))                 # swap
            ops.append(("rename", [(x, "t"), (y, x)]))               # chain
            ops.append(("rename", [(y, x), (x, "t")]))
            if len(ns) >= 3:
                z = ns[2]
                ops.append(("rename", [(x, y), (y, z), (z, x)]))     # rotation
        ops.append(("rename", [(n, n + n) for n in ns]))
    return ops


def render(term):
    if term[0] == "lib":
        return "(verif lib4)"
    op, sub = term[0], term[1]
    inner = render(sub)
    if op[0] in ("only", "except"):
        return "(%s %s %s)" % (op[0], inner, " ".join(op[1])) if op[1] else "(%s %s)" % (op[0], inner)
    if op[0] == "prefix":
        return "(prefix %s %s)" % (inner, op[1])
    return "(rename %s %s)" % (inner, " ".join("(%s %s)" % p for p in op[1]))


def terms(depth, rng, full):
    level = [(("lib",), dict(LIB))]
    allt = list(level)
    for d in range(depth):
        nxt = []
        for t, names in level:
            for op in ops_for(names, rng, full or d == 0):
                res = apply_op(op, names)
                if res is None:
                    continue
                nxt.append(((op, t), res))
        allt.extend(nxt)
        level = nxt
        if d + 1 < depth and not full and len(level) > 400:
            level = rng.sample(level, 400)
    return allt


def explore(ctx):
    depth = 2 if ctx.quick else 3
    ts = terms(depth, ctx.rng, full=True) if ctx.quick else terms(depth, ctx.rng, full=False)
    if not ctx.quick and len(ts) > 60000:
        ts = ts[:3000] + ctx.rng.sample(ts[3000:], 57000)
    cases = []
    for t, names in ts:
        text = "(import %s)" % render(t)
        cases.append({"lines": ["NEW 0 plain", "EVAL 0 " + common.hexs(text), "ENV 0"], "text": text,
                      "expect": names})
    # several import sets in one declaration (disjoint by prefixing) and re-import on a used interpreter
    for k in range(800 if ctx.quick else 2000):
        (t1, n1), (t2, n2) = ctx.rng.choice(ts), ctx.rng.choice(ts)
        text = "(import %s (prefix %s q/))" % (render(t1), render(t2))
        text2 = "(import %s)" % render(t2)
        cases.append({"lines": ["NEW 0 plain", "EVAL 0 " + common.hexs(text), "ENV 0",
                                "EVAL 0 " + common.hexs(text2), "ENV 0"], "text": text + " " + text2,
                      "expect": None})
    results, ndis = common.run_cases(ctx, cases)
    # independent cross-check of the model's ENV line against the python reading of the algebra
    spec_bad = 0
    for c, (ml, il, differs) in zip(cases, results):
        if c["expect"] is None:
            continue
        want = " ".join("%s=i%d" % (common.hexs(n), v) for n, v in
                        sorted(c["expect"].items(), key=lambda kv: kv[0].encode()))
        if ml[2] != want:
            spec_bad += 1
            if spec_bad <= 3:
                ctx.violation({"lines": c["lines"], "meta": {"text": c["text"]}}, ml, il,
                              note="model disagrees with the import-set algebra: " + want)
    nontrivial = len({c["text"] for c, r in zip(cases, results) if c["text"].count("(") > 2})
    sizes = {}
    for c in cases:
        d = c["text"].count("(verif lib4)")
        k = "sets=%d nesting=%d" % (d, max(0, c["text"].count("(") - 1 - 2 * d + d))
        sizes[k] = sizes.get(k, 0) + 1
    return {
        "evaluations": len(cases),
        "distinct_nontrivial": nontrivial,
        "traces_validated_against_impl": len(cases) - ndis,
        "disagreements": ndis,
        "spec_disagreements": spec_bad,
        "rule": "every admissible import-set term of nesting depth <= %d over the 4-export native library (verif lib4): "
                "only/except with identifier subsets (all subsets in the quick tier at depth <= 2; sampled subsets and sampled 400-term frontier per level in the thorough tier at depth 3), two prefixes, "
                "renamings (single, absent name, swap, chain, rotation, all), collisions excluded; each imported by text "
                "into a fresh interpreter on a fresh thread (fresh hash keys); observable = sorted name=value list of "
                "the root frame; plus declarations with two import sets and a second import on the same interpreter. "
                "non-trivial = at least one operator applied" % depth,
        "exhaustive": bool(ctx.quick),
        "input_distribution": sizes,
        "samples": [{"case": c["text"], "model": r[0][-1], "impl": r[1][-1]} for c, r in
                    list(zip(cases, results))[:: max(1, len(cases) // 5)]][:6],
    }


def replay(ctx, path):
    return common.replay_case(ctx, path)
