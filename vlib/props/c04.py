"""C04 syntax-rules expansion selects the first matching rule and fills its template."""
import itertools
import common
import gen

ALLOWED_AXIOMS = []
ASSUMPTIONS = [
    "the expander's supported class (keyword spelled out, at most one ellipsis per (sub)list and last, ellipsis depth 1, "
    "one or more items per ellipsis, ellipsis sub-templates mention an ellipsis variable)",
]
TRUSTED_EXTRA = ["Model/Macro.v models macros.rs (match_datum, match_datum_stream, substitude*, transform); "
                 "Model/Transform.v models transform_pattern / transform_template of parser.rs"]


def small_rule_sets():
    """every rule set of one or two rules over a small alphabet of patterns / templates, against every use
    of bounded size"""
    pats = ["", "a", "1", "else", "_", "a b", "a ...", "a b ...", "(a)", "(a b ...)", "(a b) ...", "1 a", "a else b",
            "#(a)", "#(a b ...)", "a 2"]
    tmpl = {"": ["k"], "a": ["a", "(a a)"], "1": ["one"], "else": ["lit"], "_": ["any"], "a b": ["(b a)", "(a (b))"],
            "a ...": ["(a ...)", "((a) ...)"], "a b ...": ["(b ... a)", "(a (b ...))", "((a b) ...)"], "(a)": ["a"],
            "(a b ...)": ["(b ... a)"], "(a b) ...": ["((b a) ...)", "(a ... b ...)"], "1 a": ["a"],
            "a else b": ["(a b)"], "#(a)": ["a"], "#(a b ...)": ["#(b ... a)"], "a 2": ["(a b)"]}
    uses = ["", "x", "1", "2", "else", "x y", "1 x", "x else y", "(x)", "(x y z)", "(x y) (z w)", "x y z w",
            "#(x)", "#(x y z)", "(1 2)", "x 2", "()"]
    out = []
    for p1 in pats:
        for t1 in tmpl[p1]:
            rules1 = "((m %s) '%s)" % (p1, t1)
            for p2 in pats:
                t2 = tmpl[p2][0]
                rules = "%s ((m %s) '%s)" % (rules1, p2, t2.replace("a", "a"))
                out.append(("(define-syntax m (syntax-rules (else) %s))" % rules, ["(m %s)" % u for u in uses]))
    return out


def explore(ctx):
    cases = []
    small = small_rule_sets()
    if ctx.quick:
        small = ctx.rng.sample(small, 150)
    for definition, uses in small:
        lines = ["NEW 0 std", "EVAL 0 " + common.hexs(definition)]
        lines += ["EXPAND 0 6d " + common.hexs(u) for u in uses]
        lines += ["EVAL 0 " + common.hexs(u) for u in uses[:6]]
        cases.append({"lines": lines, "definition": definition, "uses": uses, "kind": "small"})
    n = 5000 if ctx.quick else 40000
    mg = gen.MacroGen(ctx.rng)
    for k in range(n):
        definition, uses = mg.macro_case(ctx.rng.randint(1, 3), 4)
        lines = ["NEW 0 std", "EVAL 0 " + common.hexs(definition)]
        lines += ["EXPAND 0 6d " + common.hexs(u) for u in uses]
        lines += ["EVAL 0 " + common.hexs(u) for u in uses]
        cases.append({"lines": lines, "definition": definition, "uses": uses, "kind": "random"})
    results, ndis = common.run_cases(ctx, cases)
    outcome = {"expanded": 0, "MacroMissMatch": 0, "other-error": 0}
    distinct = set()
    for c, (ml, il, d) in zip(cases, results):
        for u, o in zip(c["uses"], ml[2:2 + len(c["uses"])]):
            if o.startswith("(err MacroMissMatch"):
                outcome["MacroMissMatch"] += 1
            elif o.startswith("(err") or o.startswith("("+"no-") or o.startswith("(bad"):
                outcome["other-error"] += 1
            else:
                outcome["expanded"] += 1
                distinct.add((c["definition"], u))
    return {
        "evaluations": sum(len(c["uses"]) for c in cases),
        "programs": len(cases),
        "distinct_nontrivial": len(distinct),
        "traces_validated_against_impl": len(cases) - ndis,
        "disagreements": ndis,
        "rule": "(a) rule sets of two rules over 16 small patterns (variables, _, literal identifier, literal datum, "
                "sub-list, vector, trailing ellipsis over a variable or a sub-list) x 17 uses (%s); literal data include integers, reals and ratios, with numbers of the same value and another kind or spelling as near misses; ellipsis sub-templates also with their variables only inside a vector or a nested list; (b) %d random rule "
                "sets of 1-3 rules with nested list/vector patterns, literals, one trailing ellipsis per (sub)list, "
                "templates mixing pattern variables, constants, free symbols that other rules bind, and ellipsis "
                "sub-templates; uses derived from the rules' own patterns (1-4 items per ellipsis) and mutations "
                "(missing/extra element, changed literal, zero items). Observable: the expansion datum with its "
                "locations (Transformer::transform on the use) or the error kind, and the value of the quoted "
                "expansion. non-trivial = distinct (rule set, use) that expanded" % ("sampled" if ctx.quick else "all", n),
        "exhaustive": False,
        "input_distribution": outcome,
        "samples": [{"definition": c["definition"], "use": c["uses"][0], "model": r[0][2], "impl": r[1][2]}
                    for c, r in list(zip(cases, results))[:: max(1, len(cases) // 4)]][:4],
    }


def replay(ctx, path):
    return common.replay_case(ctx, path)
