"""C07 No input can crash the interpreter."""
import itertools
import re
import common
import gen

ALLOWED_AXIOMS = common.FLOCQ_AXIOMS
ASSUMPTIONS = [
    "texts of bounded nesting depth; stack exhaustion by deep nesting or deep non-tail recursion, non-termination and "
    "memory exhaustion are outside the claim",
    "RefCell borrow conflicts are not represented in the model; they are searched for by the fuzz streams only",
]
TRUSTED_EXTRA = ["every Rust panic site (unwrap/expect/todo!/unreachable!/index) is an explicit Panic outcome of the model or "
                 "is shown unreachable (Props/C07.v); the whole pipeline model is executed against the code"]

ALPHABET = "()'#.+-1ae/\";\\ \n|`,x"
SANITY = "(+ 1 2)"
SANITY_OUT = "(ok i3) t=[] o="

VOCAB = ["(", ")", "(", ")", "'", "#(", ".", "define", "lambda", "if", "set!", "quote", "define-syntax", "syntax-rules",
         "import", "define-library", "export", "begin", "let", "let*", "cond", "case", "else", "=>", "and", "or", "when",
         "unless", "...", "_", "x", "y", "f", "car", "cdr", "cons", "apply", "map", "append", "vector", "vector-ref",
         "vector-set!", "make-vector", "+", "-", "*", "/", "<", "=", "max", "floor", "exact", "sqrt", "display", "list",
         "0", "1", "-1", "2147483647", "-2147483648", "99999999999", "1/2", "1/0", "-1/2", "1.5", "1e10", "1e", "1/",
         "-.", "#t", "#f", "#\\a", "#\\", "\"s\"", "\"", "|a b|", "|", "(scheme base)", "(only (scheme base) car)",
         "(rename", "(prefix", "#", "#u8(", "`", ",", ",@", ";c\n", "\n"]

POOL = ["0", "1", "-1", "2", "2147483647", "-2147483648", "1/2", "-7/2", "1.5", "-0.0", "1e30", "'()", "'(1 2)", "'(1 . 2)",
        "(vector 1 2 3)", "'#(1 2)", "(vector)", "\"s\"", "'a", "#t", "#f", "#\\a", "car", "(lambda (x) x)",
        "(lambda x x)", "(make-vector 2 0)",
        # long printed forms with characters of 2, 3 and 4 bytes at every alignment (error messages quote the value)
        "\"" + "\u0430\u0431\u0432\u0433 " * 16 + "\"", "\"x" + "\u03b1" * 55 + "\"", "\"xy" + "\u4e2d" * 40 + "\"",
        "\"" + "a\U0001f600" * 30 + "\"", "'" + "\u03bb" * 90, "(list " + "\"\u00e9\u00e8\" " * 20 + ")"]

BUILTINS = [("car", 1), ("cdr", 1), ("cons", 2), ("eqv?", 2), ("eq?", 2), ("not", 1), ("boolean=?", 2), ("+", 2), ("-", 2),
            ("*", 2), ("/", 2), ("=", 2), ("<", 2), ("<=", 3), ("max", 2), ("min", 2), ("abs", 1), ("sqrt", 1), ("floor", 1),
            ("ceiling", 1), ("exact", 1), ("floor-quotient", 2), ("floor-remainder", 2), ("vector", 2), ("make-vector", 2),
            ("vector-length", 1), ("vector-ref", 2), ("vector-set!", 3), ("apply", 2), ("apply", 3), ("display", 1),
            ("map", 2), ("append", 2), ("list-tail", 2), ("list-ref", 2), ("length", 1), ("memv", 2), ("equal?", 2),
            ("fold-left", 3), ("for-each", 2), ("last-pair", 1), ("make-list", 2), ("cadr", 1), ("cddr", 1), ("list?", 1),
            ("pair?", 1), ("null?", 1), ("procedure?", 1), ("newline", 0), ("-", 1), ("/", 1), ("+", 0), ("max", 1)]

CLASS = re.compile(r"^\((ok|err \w+|panic|abort|timeout|outoffuel|disp[^ )]*)")


def sanity_is_wrong(sanity, model_sanity):
    """the sanity form must never crash and must evaluate as the (proved-about) model says: that is 3 unless the
    input itself redefined + (a mutated program may do that)"""
    if klass(sanity) in ("panic", "abort", "timeout"):
        return True
    if model_sanity.startswith("(outoffuel"):
        return False
    return sanity != model_sanity


def klass(line):
    m = CLASS.match(line)
    return m.group(1) if m else line[:12]


def compare(case, m, i):
    if i.startswith("(timeout)"):
        return True       # non-termination (e.g. a redefined macro that expands to itself) is outside the claim
    if m.startswith("(outoffuel)") or m.startswith("(model-stack-overflow)"):
        # the model cannot decide: unbounded (non-tail) recursion exhausts its fuel, and the implementation's stack -
        # outside the claim; a panic (as opposed to the abort of a stack overflow) is still a crash
        return not i.startswith("(panic)")
    return klass(m) == klass(i)


def _stack_exhausted(m, i):
    """the model ran out of fuel and the implementation's process died of stack exhaustion (unbounded non-tail
    recursion: outside the claim); the rest of the case was not run"""
    return (m.startswith("(outoffuel)") or m.startswith("(model-stack-overflow)")) and i.startswith("(abort)")


compare.stop = _stack_exhausted


def batch_case(texts, kind):
    lines = ["FUEL 2000", "NEW 0 std"]
    for t in texts:
        lines.append("EVAL 0 " + common.hexs(t))
        lines.append("EVAL 0 " + common.hexs(SANITY))
    return {"lines": lines, "texts": texts, "kind": kind}


def mutate_tokens(rng, text):
    toks = re.findall(r"\(|\)|'|[^\s()']+", text)
    if not toks:
        return text
    for _ in range(rng.randint(1, 3)):
        k = rng.random()
        i = rng.randrange(len(toks))
        if k < 0.3:
            toks.pop(i)
        elif k < 0.55:
            toks.insert(i, rng.choice(VOCAB))
        elif k < 0.8:
            toks[i] = rng.choice(VOCAB)
        else:
            j = rng.randrange(len(toks))
            toks[i], toks[j] = toks[j], toks[i]
        if not toks:
            break
    return " ".join(toks)


def explore(ctx):
    cases = []
    dist = {}

    def add(texts, kind, per=40):
        for k in range(0, len(texts), per):
            cases.append(batch_case(texts[k:k + per], kind))
        dist[kind] = dist.get(kind, 0) + len(texts)

    maxlen = 2 if ctx.quick else 3
    short = ["".join(t) for n in range(1, maxlen + 1) for t in itertools.product(ALPHABET, repeat=n)]
    if ctx.quick:
        short += ["".join(ctx.rng.choice(ALPHABET) for _ in range(ctx.rng.randint(3, 4))) for _ in range(1500)]
    add(short, "short strings")
    soup = []
    for _ in range(5000 if ctx.quick else 60000):
        n = ctx.rng.randint(1, 12)
        toks = [ctx.rng.choice(VOCAB) for _ in range(n)]
        if ctx.rng.random() < 0.5:        # balance the parentheses
            depth = 0
            out = []
            for t in toks:
                if t.startswith("(") and not t.endswith(")") or t in ("#(", "#u8("):
                    depth += 1
                if t == ")":
                    if depth == 0:
                        continue
                    depth -= 1
                out.append(t)
            toks = out + [")"] * depth
        soup.append(" ".join(toks))
    add(soup, "token soup", per=10)
    muts = []
    for _ in range(2500 if ctx.quick else 30000):
        g = gen.Gen(ctx.rng, ticks=False, derived=True)
        forms, _ = g.program(2, 2)
        muts.append(mutate_tokens(ctx.rng, " ".join(forms)))
    add(muts, "mutated programs", per=10)
    sld = open(common.REPO + "/src/interpreter/library/include/scheme/base.sld").read()
    gram = open(common.REPO + "/src/parser/grammar.sld").read()
    lib_forms = re.findall(r"\(define[^\n]*\n(?:[ \t]+[^\n]*\n)*", sld)[:60] + re.findall(r"\(define-syntax[^\n]*\n(?:[ \t]+[^\n]*\n)*", gram)
    add([mutate_tokens(ctx.rng, ctx.rng.choice(lib_forms)) for _ in range(800 if ctx.quick else 1500)], "mutated library sources", per=2)
    uni = []
    for _ in range(1000 if ctx.quick else 10000):
        n = ctx.rng.randint(1, 8)
        uni.append("".join(chr(ctx.rng.choice([ctx.rng.randint(1, 31), ctx.rng.randint(127, 0x2ff), ctx.rng.randint(0x4e00, 0x4e40),
                                               0x1f600, 0xfeff, 0x2028, ord("("), ord(")"), ord("a"), ord("\""), ord("#"), ord("\\")]))
                           for _ in range(n)))
    add(uni, "unicode and control characters")
    calls = []
    for name, arity in BUILTINS:
        # all tuples for arity <= 2 (boundary pairs such as (-2147483648, -1) must not be left to chance)
        combos = list(itertools.product(POOL, repeat=arity)) if arity <= 2 else None
        if combos is None:
            nmax = 400 if ctx.quick else 6000
            total = len(POOL) ** arity
            combos = [tuple(ctx.rng.choice(POOL) for _ in range(arity)) for _ in range(min(nmax, total))]
        for c in combos:
            if name in ("make-vector", "make-list") and c and c[0] in ("2147483647", "1e30"):
                continue      # allocating 2^31 cells exhausts memory: outside the claim
            calls.append("(%s %s)" % (name, " ".join(c)) if c else "(%s)" % name)
    add(calls, "builtins on boundary values")
    special = ["1/", "1e", "-.", "99999999999", "(a . b)", "((lambda ((a) b) a) 1 2)", "(define (f x) x) (define (g) (f)) (g)",
               "(+ 2147483647 1)", "(/ -2147483648 -1)", "(abs -2147483648)", "(- -2147483648)", "(* 65536 65536)",
               "(define-syntax m (syntax-rules () ((m name) (define-syntax name (syntax-rules () ((name) 1)))))) (m foo) (foo)",
               "(define-syntax k (syntax-rules () ((k a ...) '(a ... ...))))", "(define-syntax)", "(define-syntax m)",
               "(define-syntax m 1)", "(define-syntax m (syntax-rules))", "(define-syntax m (syntax-rules () ()))",
               "(define-syntax m (syntax-rules () ((m) . 1)))", "(define-syntax m (syntax-rules () (m 1)))",
               "(define-syntax m (syntax-rules () ((... a) a))) (m 1)", "(define-syntax m (syntax-rules () ((m ... a) a))) (m 1 2)",
               "(lambda (x . ) x)", "(lambda (x x) x)", "(lambda)", "(lambda x)", "(lambda 1 1)", "(if)", "(if 1)", "(set!)",
               "(set! 1 2)", "(define)", "(define 1 2)", "(define (1) 2)", "(define ((f a) b) a)", "(quote)", "(import)",
               "(import 1)", "(import (only))", "(import (rename (scheme base) (car)))", "(import (prefix (scheme base)))",
               "(define-library)", "(define-library (a))", "(define-library (a) (export (rename a)))",
               "(define-library (a) (begin))", "(define-library (a) 1)", "(vector-ref (vector 1) 1.0)",
               "(make-vector 1.5 0)", "(make-vector 'a)", "(exact 1e30)", "(exact (/ 0.0 0.0))", "(floor (/ 1.0 0))",
               "(apply apply apply '())", "(apply apply (list car '((1))))", "(map map '((1)))", "((lambda args (apply + args)) 1 2 3)",
               "(let loop ((i 0)) i)", "(cond)", "(case)", "(let)", "(let ((x)) x)", "(let ((x 1 2)) x)", "(let (x) x)",
               "#(1 . 2)", "'#(1 . 2)", "'(1 . 2 3)", "'(. 1)", "'( . )", "(1 . 2)", "#u8(1 2)", "`(a ,b)", ",a", "#\\", "\"\\q\"",
               "\"abc", "|abc", "(car (cdr (list 1)))", "(vector-set! (vector 1 2) -1 0)", "(vector-ref (vector 1 2) -1)",
               "(list-tail '(1 2) -1)", "(make-list -1 0)", "(list-ref '(1 2) -1)",
               # variables of one ellipsis sub-template with different numbers of matches
               "(define-syntax zip (syntax-rules () ((zip (a ...) (b ...)) '((a b) ...)))) (zip (1 2 3) (4 5))",
               "(define-syntax zip (syntax-rules () ((zip (a ...) (b ...)) '((a b) ...)))) (zip (1 2) (4 5 6))",
               "(define-syntax zip (syntax-rules () ((zip (a ...) (b ...)) '((a b) ...)))) (zip () (4 5 6)) (zip (1) ())",
               "(define-syntax tag-all (syntax-rules () ((tag-all t x ...) '((x t) ...)))) (tag-all k 1 2 3)",
               "(define-syntax tag-all (syntax-rules () ((tag-all t x ...) '((t x) ...)))) (tag-all k 1 2 3) (tag-all k)",
               "(define-syntax m3 (syntax-rules () ((m3 (a ...) (b ...) (c ...)) (list (+ a b c) ...)))) (m3 (1 2 3) (1) (1 2))",
               "(define-syntax m2 (syntax-rules () ((m2 (a b ...) ...) '((b ... a) ...)))) (m2 (1 2 3) (4) (5 6))",
               # library names whose parts are unusual as path components
               "(import (scheme ..))", "(import (..))", "(import (a ...))", "(import (|/|))", "(import (|a/b| c))", "(import (|| x))",
               "(import (scheme |..|))", "(import (a b.c))", "(import (a .b))", "(import (a 1))", "(import (a 1.5))",
               "(import (a #t))", "(import (scheme base.))", "(import (a |b c|))", "(import (a/b))", "(import (... ...))",
               "(import (only (..) x))", "(import (prefix (a ..) p))", "(import ())", "(import (a ()))", "(import (a \"s\"))",
               "(define-library (..) (export) (begin))", "(define-library (a ..) (export x) (begin (define x 1))) (import (a ..))"]
    add(special, "special forms and literals", per=10)
    results, ndis = common.run_cases(ctx, cases, compare=compare, timeout=30)
    outcomes = {}
    crashed = 0
    insane = 0
    for c, (ml, il, d) in zip(cases, results):
        outs = il[2:]
        for j, t in enumerate(c["texts"]):
            o, sanity = outs[2 * j], outs[2 * j + 1]
            k = klass(o)
            kk = "value" if k == "ok" else ("error" if k.startswith("err") else k)
            outcomes[kk] = outcomes.get(kk, 0) + 1
            if k == "abort" and (ml[2 + 2 * j].startswith("(outoffuel)") or ml[2 + 2 * j].startswith("(model-stack-overflow)")):
                # unbounded recursion: the model runs out of fuel, the implementation out of stack (outside the claim);
                # the process is gone, the rest of the case was not run
                outcomes["stack exhaustion (excluded)"] = outcomes.get("stack exhaustion (excluded)", 0) + 1
                break
            if k in ("panic", "abort"):
                crashed += 1
                if crashed <= 10:
                    ctx.violation({"lines": ["NEW 0 std", "EVAL 0 " + common.hexs(t), "EVAL 0 " + common.hexs(SANITY)],
                                   "meta": {"text": t, "kind": c["kind"]}}, ml[2 + 2 * j: 4 + 2 * j], [o, sanity],
                                  note="the implementation crashed on this input")
            elif k != "timeout" and sanity != SANITY_OUT and sanity_is_wrong(sanity, ml[2 + 2 * j + 1]):
                insane += 1
                if insane <= 5:
                    ctx.violation({"lines": c["lines"][: 2 + 2 * j + 2], "meta": {"text": t, "kind": c["kind"]}}, ml, il,
                                  note="the interpreter no longer evaluates (+ 1 2) after this input: %s" % sanity)
    files = file_cases(ctx)
    fres, fdis = common.run_cases(ctx, files, compare=compare)
    for c, (ml, il, d) in zip(files, fres):
        for o in il:
            if klass(o) in ("panic", "abort"):
                crashed += 1
                ctx.violation({"lines": c["lines"], "meta": {"kind": "file"}}, ml, il, note="crash on an unreadable file")
    return {
        "evaluations": sum(len(c["texts"]) for c in cases) + len(files),
        "distinct_nontrivial": len({t for c in cases for t in c["texts"]}),
        "traces_validated_against_impl": len(cases) + len(files) - ndis - fdis,
        "disagreements": ndis + fdis,
        "crashes": crashed,
        "sanity_failures": insane,
        "rule": "every string up to length %d over a 20-character alphabet%s; token soup over the vocabulary of keywords, "
                "builtins and boundary literals with balanced and unbalanced parentheses; token-level mutations of valid "
                "programs and of the bundled library sources; random Unicode / control characters; every builtin on tuples "
                "of boundary values; a list of special malformed forms, among them imports of library names whose parts are unusual path components (.., ..., |/|, ||, numbers) and macros whose ellipsis sub-template holds variables with different numbers of matches; program and library files that are not UTF-8 or "
                "are directories. Each text is evaluated on a standard interpreter and followed by (+ 1 2) on the same "
                "interpreter. Compared: outcome class (value / error kind / panic / abort) model vs implementation; the "
                "property itself (no panic, no abort, sanity form still 3) is checked on the implementation's output. "
                "non-trivial = distinct text" % (maxlen, " plus sampled length 3-4" if ctx.quick else ""),
        "exhaustive": False,
        "input_distribution": dict(dist, **{"outcome " + k: v for k, v in outcomes.items()}),
        "samples": [{"text": c["texts"][0], "model": r[0][2], "impl": r[1][2]} for c, r in
                    list(zip(cases, results))[:: max(1, len(cases) // 5)]][:5],
    }


def file_cases(ctx):
    h = common.hexs
    out = []
    for content in ("BAD", "DIR"):
        out.append({"lines": ["NEW 0 plain", "FILE %s %s %s" % (h("prog"), h("main.scm"), content),
                              "RUNFILE 0 %s %s" % (h("prog"), h("main.scm")), "EVAL 0 " + h("(import (scheme base))"),
                              "EVAL 0 " + h(SANITY)], "texts": [content]})
        out.append({"lines": ["NEW 0 std", "FILE %s %s %s" % (h("cwd"), h("badlib"), content),
                              "EVAL 0 " + h("(import (badlib))"), "EVAL 0 " + h(SANITY),
                              "EVAL 0 " + h("(import (badlib))"), "EVAL 0 " + h(SANITY)], "texts": [content]})
    out.append({"lines": ["NEW 0 plain", "RUNFILE 0 %s %s" % (h("prog"), h("missing.scm")),
                          "EVAL 0 " + h("(import (scheme base))"), "EVAL 0 " + h(SANITY)], "texts": ["missing"]})
    return out


def replay(ctx, path):
    return common.replay_case(ctx, path, compare=compare)
