"""C16 Printed values read back as the same values."""
import re
import common
import gen
import numgrid

ALLOWED_AXIOMS = common.FLOCQ_AXIOMS
ASSUMPTIONS = [
    "readable subset: booleans, exact integers and ratios, finite reals, characters, plain symbols, proper and improper "
    "lists, vectors (strings, non-finite reals and symbols needing bars are excluded by the property)",
    "Rust's {:?} for f32 prints the shortest decimal that reads back to the same binary32 value; the model's printer "
    "searches for that decimal in exact arithmetic and is validated against the implementation, not proved to be Rust's algorithm",
]
TRUSTED_EXTRA = ["Model/Print.v models Display for Value / Number / GenericPair / vectors"]

RT = re.compile(r"^\(rt ([0-9a-f]*) \| (.*) \| (.*)\)$")


def explore(ctx):
    h = common.hexs
    n = 8000 if ctx.quick else 60000
    cases = []
    per = 20
    exprs_all = []
    for b in range(0, n, per):
        lines = ["NEW 0 std"]
        exprs = []
        for k in range(per):
            defs = []
            e = gen.readable_value(ctx.rng, ctx.rng.randint(0, 5), defs)
            for name, bits in defs:
                lines.append("DEFNUM 0 %s r%s" % (h(name), bits))
            lines.append("ROUNDTRIP 0 " + h(e + "\n"))
            exprs.append(e)
        cases.append({"lines": lines, "exprs": exprs})
    # values that are large in one dimension: nesting depth, number of dotted pairs, number of elements
    lines = ["NEW 0 std"]
    exprs = []
    for kind, size, text in gen.big_datum_texts(ctx.rng, ctx.quick):
        if size > 600 and kind.startswith("nested"):
            continue
        e = "(quote %s)" % text.replace('"s"', "s2").replace("'(", "(")
        lines.append("ROUNDTRIP 0 " + h(e + "\n"))
        exprs.append("%s %d" % (kind, size))
    cases.append({"lines": lines, "exprs": exprs})
    # the results of arithmetic on the numeric grid
    g = numgrid.grid()
    lines = ["NEW 0 std"]
    exprs = []
    from math import gcd
    for a in g:
        if a.startswith("q"):
            nn, dd = [int(x) for x in a[1:].split("/")]
            if dd <= 1 or gcd(abs(nn), dd) != 1:
                continue          # not a value any literal or operation produces (results are in normal form, C09)
        if a.startswith("r") and (int(a[1:], 16) >> 23 & 0xff) == 0xff:
            continue              # non-finite reals are outside the readable subset
        lines.append("DEFNUM 0 %s %s" % (h("n"), a))
        for op in ("(- n)", "(* n 2)", "(/ n 3)", "(+ n 1/3)", "(list n (abs n))"):
            lines.append("ROUNDTRIP 0 " + h(op))
            exprs.append(a + " " + op)
    cases.append({"lines": lines, "exprs": exprs})
    if not ctx.quick:
        # many binary32 bit patterns
        lines = ["NEW 0 std"]
        exprs = []
        for _ in range(200000):
            bits = ctx.rng.getrandbits(32)
            if bits >> 23 & 0xff == 0xff:
                continue
            lines.append("DEFNUM 0 %s r%08x" % (h("x"), bits))
            lines.append("ROUNDTRIP 0 " + h("x"))
            exprs.append("%08x" % bits)
            if len(exprs) % 2000 == 0:
                cases.append({"lines": lines, "exprs": exprs})
                lines, exprs = ["NEW 0 std"], []
    results, ndis = common.run_cases(ctx, cases)
    bad = 0
    texts = {}
    total = 0
    kinds = {"int": 0, "rat": 0, "real": 0, "list": 0, "vector": 0, "dotted": 0}
    for c, (ml, il, d) in zip(cases, results):
        for l, o in zip(c["lines"], il):
            if not l.startswith("ROUNDTRIP"):
                continue
            m = RT.match(o)
            if not m:
                if o.startswith("(err") and ("DivisionByZero" in o):
                    continue
                bad += 1
                if bad <= 5:
                    ctx.violation({"lines": c["lines"][:1] + [x for x in c["lines"] if x.startswith("DEFNUM")][:0] + [l], "meta": {}}, [o], [o],
                                  note="the value cannot be printed and read back: " + o)
                continue
            if any(x in m.group(2) for x in ("r7f800000", "rff800000", "rnan")):
                continue          # a non-finite real (overflow of an operation): outside the readable subset
            total += 1
            text, a, b = m.group(1), m.group(2).replace("(vec m", "(vec l"), m.group(3)     # a literal vector equals the vector it prints
            if a != b:
                bad += 1
                if bad <= 5:
                    ctx.violation({"lines": c["lines"], "meta": {"text": bytes.fromhex(text).decode("utf-8", "replace")}}, ml, il,
                                  note="printed as %r, read back as a different value: %s vs %s" % (bytes.fromhex(text).decode("utf-8", "replace"), a, b))
            if text in texts and texts[text] != a:
                bad += 1
                if bad <= 5:
                    ctx.violation({"lines": c["lines"], "meta": {}}, ml, il, note="two distinct values print the same: %s / %s" % (texts[text], a))
            texts[text] = a
            if " . " in bytes.fromhex(text).decode("utf-8", "replace"):
                kinds["dotted"] += 1
            for k2, tag in (("int", " i"), ("rat", "q"), ("real", "r"), ("vector", "(vec"), ("list", "(pair")):
                if tag.strip() in a:
                    kinds[k2] += 1
    return {
        "evaluations": total,
        "distinct_nontrivial": len(texts),
        "traces_validated_against_impl": len(cases) - ndis,
        "disagreements": ndis,
        "round_trip_failures": bad,
        "rule": "random value trees of the readable subset (depth <= 5, width <= 6: boundary integers, ratios of both signs also "
                "as results of division, binary32 values from a table of edge cases - subnormals, powers of ten and two, "
                "shortest-representation edge cases - and random bit patterns, characters, plain and peculiar symbols, "
                "proper / improper lists, vectors), values large in one dimension (nested to 600, 100-1500 dotted pairs, dotted tail chains, up to 6000 elements) and the results of arithmetic on the C09 grid%s: the value is displayed, the text is "
                "quoted and read back on the same interpreter; text and both values compared model vs implementation, the "
                "read-back value must equal the original (same exactness, bit-identical reals), distinct values must print "
                "differently. non-trivial = distinct printed text" % ("" if ctx.quick else " and 200000 random finite binary32 patterns"),
        "exhaustive": False,
        "input_distribution": kinds,
        "samples": [{"expr": cases[0]["exprs"][k], "impl": [x for x in results[0][1] if x.startswith("(rt")][k][:300]} for k in range(3)],
    }


def replay(ctx, path):
    return common.replay_case(ctx, path)
