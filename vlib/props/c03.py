"""C03 Mutable state: bindings and vectors are shared by reference."""
import common
import gen

ALLOWED_AXIOMS = common.FLOCQ_AXIOMS
USES_GEN = True   # theorems about the binding forms of grammar.sld
ASSUMPTIONS = ["Rc sharing of frames and vectors is modelled as equality of store addresses"]
TRUSTED_EXTRA = ["Model/Value.v models environment.rs (LexicalScope) and ValueReference; the vector builtins are in Model/Builtins.v"]


def explore(ctx):
    n = 3000 if ctx.quick else 20000
    cases = []
    tot = {}
    for k in range(n):
        forms, stats = gen.history_program(ctx.rng, ctx.rng.randint(20, 60))
        for a, b in stats.items():
            tot[a] = tot.get(a, 0) + b
        lines = ["FUEL 3000", "NEW 0 std"] + ["EVAL 0 " + common.hexs(f) for f in forms]
        cases.append({"lines": lines, "forms": forms})
    # sequential binding forms: a closure of an earlier initialiser and a later binding of the name it mentions
    for k in range(400 if ctx.quick else 6000):
        forms = gen.sequential_binding_program(ctx.rng)
        tot["sequential-binding programs"] = tot.get("sequential-binding programs", 0) + 1
        lines = ["FUEL 3000", "NEW 0 std"] + ["EVAL 0 " + common.hexs(f) for f in forms]
        cases.append({"lines": lines, "forms": forms})
    # generators without parameters whose first internal definition is the procedure that uses the state defined after it
    for k in range(300 if ctx.quick else 5000):
        forms = gen.early_closure_program(ctx.rng)
        tot["early-closure programs"] = tot.get("early-closure programs", 0) + 1
        lines = ["FUEL 3000", "NEW 0 std"] + ["EVAL 0 " + common.hexs(f) for f in forms]
        cases.append({"lines": lines, "forms": forms})
    results, ndis = common.run_cases(ctx, cases, compare=common.compare_fuel)
    # non-trivial: a history in which some vector shows up under two different access paths
    # (an alias class with a back reference "#k)" in the final dump) or a closure was called twice
    nontrivial = 0
    for c, (ml, il, d) in zip(cases, results):
        final = ml[-1 - sum(1 for f in c["forms"] if f.startswith("((cdr c") or (f.startswith("(c") and f.endswith(" 0)")))]
        if any(("#%d)" % j) in " ".join(ml) for j in range(8)):
            nontrivial += 1
    return {
        "evaluations": sum(len(c["forms"]) for c in cases),
        "programs": len(cases),
        "distinct_nontrivial": nontrivial,
        "traces_validated_against_impl": len(cases) - ndis,
        "disagreements": ndis,
        "rule": "random histories of 20-60 top-level forms over up to 5 counters/accumulators made by up to 3 generator "
                "procedures (internal define + closure, closure pairs sharing one binding, rest parameters, vector "
                "cells), global assignments, and up to 8 vector variables aliased through variables, arguments, rest "
                "parameters, lists and other vectors, with probes; literal vectors are mutated to see the rejection; plus let* / nested let "
                "forms in which a closure of an earlier initialiser reads or assigns a name that a later binding of the same form "
                "binds again (outer binding global, parameter, earlier binding or none), followed by assignment or vector mutation; plus parameterless generators (procedure, let (), thunk) whose first "
                "internal definition is the procedure that reads and assigns the state the body defines after it, called alternately. "
                "Observables per form: canonical value with vectors numbered by identity (ptr_eq in the implementation, "
                "store address in the model), so the alias partition is compared. non-trivial = a history in which "
                "some vector is reached by two access paths in one printed value",
        "exhaustive": False,
        "input_distribution": tot,
        "samples": [{"forms": c["forms"][-6:], "model": r[0][-3:], "impl": r[1][-3:]} for c, r in
                    list(zip(cases, results))[:: max(1, len(cases) // 3)]][:3],
    }


def replay(ctx, path):
    return common.replay_case(ctx, path, compare=common.compare_fuel)
