"""C15 Reported error locations point into the form that failed."""
import re
import common
import gen

ALLOWED_AXIOMS = common.FLOCQ_AXIOMS
NEEDS_BINARY = True
ASSUMPTIONS = [
    "the fault is in the text of the failing top-level form itself (for a fault inside a procedure defined by an earlier form "
    "the two clauses of the property - 'within the failing form' and 'at the offending identifier' - cannot both hold)",
    "known finding F7: a located error raised inside a procedure of a bundled library (a non-procedure handed to map, "
    "for-each, fold-left ...) points into base.sld",
    "location convention of the code: the cursor position after the token (1-based line, column after the last character)",
]
TRUSTED_EXTRA = ["locations are threaded through Model/Lexer.v, Reader.v, Macro.v, Transform.v, Eval.v, Interp.v exactly as in the code"]

ERR = re.compile(r"^\(err (\w+) (\d+):(\d+)\)")


def explore(ctx):
    h = common.hexs
    reps = 30 if ctx.quick else 120
    cases = []
    dist = {}
    combos = [(kind, context, None, None) for rep in range(reps) for kind in gen.LOC_FAULTS for context in gen.LOC_CONTEXTS]
    # every derived-form template x every fault whose exact position is known (the offending token may be the whole
    # expansion of a macro use, its last operand, a clause body ...)
    combos += [(kind, "derived", t, fl) for kind in ("unbound-ref", "non-procedure") for t in gen.LOC_DERIVED
               for fl in gen.LOC_FAULTS[kind]]
    # faults reached through the templates of the program's own macros (free identifiers, also under an ellipsis)
    combos += [("unbound-or-non-procedure", "user-macro", None, None)] * (300 if ctx.quick else 3000)
    for kind, context, template, fault in combos:
        if True:
            if True:
                if context == "user-macro":
                    forms, idx, marker = gen.user_macro_fault_program(ctx.rng)
                else:
                    forms, idx, marker = gen.located_fault_program(ctx.rng, kind, context, template, fault)
                text, extents, ends = gen.layout_program(ctx.rng, forms)
                lines = ["NEW 0 std", "EVAL 0 " + h(text),
                         "FILE %s %s %s" % (h("prog"), h("main.scm"), h("(import (scheme base) (scheme write))\n" + text)),
                         "RUNBIN %s %s" % (h("prog"), h("main.scm")),
                         "FILE %s %s %s" % (h("prog"), h("crlf.scm"), h(("(import (scheme base) (scheme write))\n" + text).replace("\n", "\r\n"))),
                         "RUNBIN %s %s" % (h("prog"), h("crlf.scm"))]
                cases.append({"lines": lines, "text": text, "extent": extents[idx], "marker": None if marker is None else ends[idx][marker], "kind": kind,
                              "context": context, "form": forms[idx]})
                dist[kind + "/" + context] = dist.get(kind + "/" + context, 0) + 1
    # syntax errors that carry a location: at or before the offending token
    syn = []
    for k in range(500 if ctx.quick else 1500):
        g = gen.Gen(ctx.rng, ticks=False)
        forms, _ = g.program(ctx.rng.randint(1, 4), 2)
        bad = ctx.rng.choice([")", "#z", "\"unterminated", "(a . b . c)", "#\\", "1/0", "(define 5 1)"])
        forms.append(bad)
        text, extents, _ = gen.layout_program(ctx.rng, forms)
        syn.append({"lines": ["NEW 0 std", "EVAL 0 " + h(text)], "text": text, "extent": extents[-1], "marker": None,
                    "kind": "syntax", "context": "direct", "form": bad})
    results, ndis = common.run_cases(ctx, cases + syn)
    outside = 0
    inside = 0
    for c, (ml, il, d) in zip(cases + syn, results):
        m = ERR.match(il[1])
        if not m:
            if c["kind"] != "syntax":
                outside += 1
                if outside <= 5:
                    ctx.violation({"lines": c["lines"], "meta": {"form": c["form"]}}, ml, il,
                                  note="the failing form reports no located error: %s" % il[1])
            continue
        loc = (int(m.group(2)), int(m.group(3)))
        (s, e) = c["extent"]
        ok = s <= loc <= e if c["kind"] != "syntax" else loc <= e
        want = None
        if ok and c["marker"]:
            # the cursor position after the offending identifier / operator
            want = tuple(c["marker"])
            ok = loc == want
        if ok:
            inside += 1
        else:
            outside += 1
            if outside <= 5:
                ctx.violation({"lines": c["lines"], "meta": {"form": c["form"], "extent": c["extent"], "expected": want}}, ml, il,
                              note="%s/%s: the error of form %r is reported at %s, outside the form's text %s..%s%s"
                                   % (c["kind"], c["context"], c["form"], loc, s, e, " (expected %s)" % (want,) if want else ""))
        if c["kind"] != "syntax" and len(il) > 3:
            # the binary's diagnostic: one line further down (the import line was prepended)
            rm = re.search(r"diag=(\d+):(\d+)", il[3])
            rm2 = re.search(r"diag=(\d+):(\d+)", il[5]) if len(il) > 5 else rm
            if rm and (not rm2 or rm2.groups() != rm.groups()):
                outside += 1
                if outside <= 5:
                    ctx.violation({"lines": c["lines"], "meta": {"form": c["form"]}}, ml, il,
                                  note="the diagnostic location depends on the line-end convention: %s vs %s" % (il[3], il[5]))
            if not rm or (int(rm.group(1)) - 1, int(rm.group(2))) != loc:
                outside += 1
                if outside <= 5:
                    ctx.violation({"lines": c["lines"], "meta": {"form": c["form"]}}, ml, il,
                                  note="the binary's diagnostic location %s differs from the library interface's %s" % (il[3], loc))
    common.witness_findings(ctx, "C15")
    return {
        "evaluations": len(cases) + len(syn),
        "programs": len(cases) + len(syn),
        "distinct_nontrivial": inside,
        "traces_validated_against_impl": len(cases) + len(syn) - ndis,
        "disagreements": ndis,
        "locations_outside_the_form": outside,
        "rule": "8 fault kinds x 6 contexts (direct, nested in data construction, in an immediately called lambda, under apply, in "
                "a lambda handed to map/for-each/fold-left, inside a derived form; plus faults reached through free identifiers of the templates of the program's own macros, also under an ellipsis for the k-th of n items; in four programs of ten the text of the failing form also stands earlier where it does not fail) x %d seeds, the fault written in the failing "
                "top-level form itself, preceded by 0-5 valid forms, everything laid out with random line breaks, indentation, "
                "tabs and comments, identifiers that begin with a sign or a dot (->n -neg +pos ...) and signed / rational / real literals on the "
                "line of the fault, the extent of every form recorded by the renderer; whole-text evaluation through the library "
                "interface and through the built binary: the location must lie in the extent of the failing form, must be the "
                "cursor position after the offending identifier / operator for unbound variables and non-procedures, and model, "
                "library and binary must agree; plus syntax errors (location at or before the end of the offending token). "
                "non-trivial = fault whose location was inside the form" % reps,
        "exhaustive": False,
        "input_distribution": dist,
        "samples": [{"form": c["form"], "extent": c["extent"], "model": r[0][1], "impl": r[1][1]} for c, r in
                    list(zip(cases, results))[:: max(1, len(cases) // 4)]][:4],
    }


def offset_of(text, pos):
    line, col = pos
    off = 0
    for _ in range(line - 1):
        off = text.index("\n", off) + 1
    return off + col - 1


def replay(ctx, path):
    with common.Lock():
        common.build_binary()
    return common.replay_case(ctx, path)
