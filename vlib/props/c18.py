"""C18 A REPL session equals evaluating its forms in sequence."""
import itertools
import common
import gen

ALLOWED_AXIOMS = common.FLOCQ_AXIOMS
NEEDS_BINARY = True
ASSUMPTIONS = [
    "rustyline delivers the lines of standard input when it is not a terminal; prompts, history and signals are out of scope",
    "error messages are compared by their number (one line on standard error per failing submission), values and displayed "
    "output byte for byte on standard output; the relative order of the two streams is not compared",
    "line breaks only between tokens (a break inside a string literal is part of the string)",
]
TRUSTED_EXTRA = ["Model/Repl.v models repl.rs (check_bracket_closed, the accumulate / evaluate / print loop)"]

ALPHABET = "()\";\\#a\n|"


def explore(ctx):
    h = common.hexs
    lines = []
    maxlen = 5 if ctx.quick else 7
    for n in range(0, maxlen + 1):
        for tup in itertools.product(ALPHABET, repeat=n):
            lines.append("BRACKET " + h("".join(tup)))
    if ctx.quick:
        for _ in range(20000):
            lines.append("BRACKET " + h("".join(ctx.rng.choice(ALPHABET) for _ in range(ctx.rng.randint(6, 12)))))
    nbr = len(lines)
    # the bracket test against the reader: a text that reads as complete forms must be submitted
    probe = ["".join(ctx.rng.choice("()\";\\#a\n| '1") for _ in range(ctx.rng.randint(1, 10))) for _ in range(8000 if ctx.quick else 100000)]
    probe += ["(display \"(\")", "(a #\\( b)", "(a ;)\n)", "(quote |a(b|)", "#(1 2)", "(a \"\\\")\")", "(list #\\\" 1)"]
    for t in probe:
        lines.append("BRACKET " + h(t))
        lines.append("READ " + h(t))
    m, i, dis = common.differential(lines)
    bad = common.diff_report(ctx, lines, m, i, dis)
    unsubmitted = 0
    complete = 0
    for k in range(nbr, len(lines), 2):
        br, rd = m[k], m[k + 1]
        if not rd.startswith("(err"):
            complete += 1
            if br != "#t":
                unsubmitted += 1
                if unsubmitted <= 5:
                    ctx.violation(lines[k], br, rd, note="the text reads as complete forms but the REPL would not submit it")
    # sessions over a pipe
    sessions = []
    nsess = 150 if ctx.quick else 1500
    for s in range(nsess):
        forms = gen.repl_session(ctx.rng, ctx.rng.randint(3, 7))
        renders = []
        for style in ("one-line", "some", "many"):
            ls = gen.render_lines(ctx.rng, forms, style)
            renders.append(ls)
        sessions.append((forms, renders))
    slines = []
    for forms, renders in sessions:
        for ls in renders:
            parts = [part for l in ls for part in l.split("\n")]
            slines.append("REPL " + " ".join(h(l) if l else "-" for l in parts))
    sm, si, sdis = common.differential(slines, timeout=1200)
    sbad = common.diff_report(ctx, slines, sm, si, sdis)
    # split invariance on the model's transcripts
    variant = 0
    k = 0
    for forms, renders in sessions:
        outs = sm[k:k + len(renders)]
        k += len(renders)
        if len(set(outs)) != 1:
            variant += 1
            if variant <= 5:
                ctx.violation({"lines": slines[k - len(renders):k], "meta": {"forms": forms}}, outs, si[k - len(renders):k],
                              note="the transcript depends on how the forms are split into lines")
    return {
        "evaluations": len(lines) + len(slines),
        "distinct_nontrivial": complete + len(sessions),
        "traces_validated_against_impl": len(lines) - len(dis) + len(slines) - len(sdis),
        "disagreements": len(dis) + len(sdis),
        "complete_texts_not_submitted": unsubmitted,
        "split_dependent_sessions": variant,
        "rule": "(a) check_bracket_closed (hook wrapper) vs the model on EVERY string up to length %d over the alphabet "
                "( ) \" ; \\ # a newline |%s; (b) random texts through both the bracket test and the reader: a text that reads "
                "as complete forms must be submitted; (c) %d random sessions (forms from the C01/C05 generators incl. failing "
                "ones, strings/characters/comments/|identifiers| containing parentheses, multi-byte characters before the parentheses of later lines, the same submission two or three times in a row, several forms per line, and threads: a macro, a "
                "procedure, a vector, a counter closure or an import established by one submission and used / redefined by later ones, "
                "failing submissions in between), each fed to "
                "the built binary over a pipe under 3 line splittings (one form per line, some breaks, many breaks): stdout "
                "bytes and the number of error lines vs the model, and equality of the three transcripts. non-trivial = text "
                "that reads completely, or a session" % (maxlen, " plus seeded longer samples" if ctx.quick else "", nsess),
        "exhaustive": True,
        "input_distribution": {"bracket strings": nbr, "bracket/reader probes": len(probe), "sessions": len(sessions),
                               "session renderings": len(slines)},
        "samples": [{"case": slines[0], "model": sm[0], "impl": si[0]}, {"case": lines[nbr - 1], "model": m[nbr - 1], "impl": i[nbr - 1]}],
    }


def replay(ctx, path):
    import json
    payload = json.load(open(path))
    case = payload["case"]
    with common.Lock():
        common.build_driver()
        common.build_harness()
        common.build_binary()
    ls = [case] if isinstance(case, str) else case["lines"]
    m, i, dis = common.differential(ls)
    for l, a, b in zip(ls, m, i):
        print(l[:300], "\n  model:", a[:600], "\n  impl: ", b[:600])
    return 1 if dis else 0
