"""C05 Derived forms behave as R7RS specifies."""
import common
import gen

ALLOWED_AXIOMS = []
USES_GEN = True
ASSUMPTIONS = [
    "hygiene hypotheses: the user's sub-forms do not mention the temporaries the templates introduce (x in or, temp in "
    "cond, atom-key in case) and if/lambda/let/begin/not/memv/quote have their standard meaning at the use "
    "(known finding F1 otherwise)",
    "every ellipsis matches at least one item (known finding F2: (when c e), (let () e), (begin) are rejected)",
    "the meaning of the expansion is given by C01 (core forms); the equations are proved for the clause shapes "
    "listed in Props/C05.v with arbitrary sub-forms, not for arbitrary numbers of clauses",
]
TRUSTED_EXTRA = ["Gen/GrammarSld.v is regenerated from /repo/src/parser/grammar.sld on every run; the syntax table G is "
                 "computed from it inside Coq by the model's own lexer, reader and transformer"]


def explore(ctx):
    cases = []
    pairs = gen.nested_pairs(ctx.rng, ctx.quick)
    for name, form in pairs:
        lines = ["FUEL 3000", "NEW 0 std", "EVAL 0 " + common.hexs("(import (verif tick))"), "EVAL 0 " + common.hexs(form)]
        cases.append({"lines": lines, "forms": [form], "kind": "pair " + name})
    for name, form in gen.lookalike_forms(ctx.rng, ctx.quick):
        lines = ["FUEL 3000", "NEW 0 std", "EVAL 0 " + common.hexs("(import (verif tick))"), "EVAL 0 " + common.hexs(form)]
        cases.append({"lines": lines, "forms": [form], "kind": "lookalike " + name})
    for name, forms in gen.scope_probes(ctx.rng):
        lines = ["FUEL 3000", "NEW 0 std", "EVAL 0 " + common.hexs("(import (verif tick))")]
        lines += ["EVAL 0 " + common.hexs(f) for f in forms]
        cases.append({"lines": lines, "forms": forms, "kind": "scope " + name})
    for k in range(300 if ctx.quick else 4000):
        forms = gen.repeated_operand_forms(ctx.rng)
        lines = ["FUEL 3000", "NEW 0 std", "EVAL 0 " + common.hexs("(import (verif tick))")]
        lines += ["EVAL 0 " + common.hexs(f) for f in forms]
        cases.append({"lines": lines, "forms": forms, "kind": "repeated operand"})
    n = 1200 if ctx.quick else 8000
    for k in range(n):
        g = gen.Gen(ctx.rng, ticks=True, derived=True, tick_rate=0.3)
        forms, _ = g.program(ctx.rng.randint(3, 7), ctx.rng.choice([2, 3, 3]))
        lines = ["FUEL 3000", "NEW 0 std", "EVAL 0 " + common.hexs("(import (verif tick))")]
        lines += ["EVAL 0 " + common.hexs(f) for f in forms]
        cases.append({"lines": lines, "forms": forms, "kind": "random"})
    results, ndis = common.run_cases(ctx, cases, compare=common.compare_fuel)
    kinds = {}
    distinct = set()
    for c, (ml, il, d) in zip(cases, results):
        for f, o in zip(c["forms"], ml[3:]):
            for kw in ("(begin", "(let ", "(let* ", "(cond", "(case", "(and", "(or", "(when", "(unless"):
                if kw in f:
                    kinds[kw[1:].strip()] = kinds.get(kw[1:].strip(), 0) + f.count(kw)
            if o.startswith("(ok") and "t=[]" not in o:
                distinct.add(f)
    common.witness_findings(ctx, "C05")
    return {
        "evaluations": sum(len(c["forms"]) for c in cases),
        "programs": len(cases),
        "distinct_nontrivial": len(distinct),
        "traces_validated_against_impl": len(cases) - ndis,
        "disagreements": ndis,
        "rule": "(a) every pair of derived forms (12 templates covering begin let let* cond cond=> cond-test-only case "
                "case=> and or when unless) with the inner form in every sub-form position of the outer one (%s), every "
                "other position holding a ticking expression; (a') every template with one position holding a datum SPELLED like a "
                "keyword of the templates (the strings \"=>\" \"else\" \"...\" \"_\", quoted else / =>), which is data and leaves the clause "
                "its ordinary meaning; (b) %d random programs nesting the derived forms inside "
                "each other and inside procedures with ticking sub-forms; (c) forms whose operands are textually identical expressions with an effect (a counter), followed by a probe of the counter. Observables per form: value, tick trace "
                "(order and multiplicity of evaluation), stdout. non-trivial = distinct form that evaluated and ticked"
                % ("sampled" if ctx.quick else "all", n),
        "exhaustive": False,
        "input_distribution": kinds,
        "samples": [{"form": c["forms"][-1], "model": r[0][-1], "impl": r[1][-1]} for c, r in
                    list(zip(cases, results))[:: max(1, len(cases) // 4)]][:4],
    }


def replay(ctx, path):
    return common.replay_case(ctx, path, compare=common.compare_fuel)
