"""C11 The list library computes what its specification says."""
import re
import common
import gen

ALLOWED_AXIOMS = common.FLOCQ_AXIOMS
USES_GEN = True
ASSUMPTIONS = [
    "proper and improper lists of atoms and nested lists (vectors inside lists are outside the claim: equal? compares "
    "vectors by identity); map takes exactly one list; fold-left / fold-right are minischeme's ((f elem acc))",
    "the procedures written in Scheme (base.sld) are proved about the text that is in /repo now (Gen/BaseSld.v, Proofs/Lib*.v); the "
    "higher-order ones for procedure arguments without side effects; this check additionally compares model, implementation "
    "and an independent model on python lists",
]
TRUSTED_EXTRA = ["Model/Builtins.v models the native car cdr cons eqv? apply; base.sld is input to the model, read from /repo"]

OUT = re.compile(r"^\(ok (.*)\) t=\[([^\]]*)\] o=")


def explore(ctx):
    h = common.hexs
    n = 6000 if ctx.quick else 300000
    per = 25
    cases = []
    dist = {}
    for b in range(0, n, per):
        lines = ["FUEL 4000", "NEW 0 std", "EVAL 0 " + h("(import (verif tick))")]
        calls = []
        for k in range(per):
            text, want, name = gen.list_call(ctx.rng)
            lines.append("EVAL 0 " + h(text))
            calls.append((text, want, name))
            dist[name] = dist.get(name, 0) + 1
        cases.append({"lines": lines, "calls": calls})
    # long lists: behaviour must not depend on the length (lengths around powers of two, 100, 200)
    for b in range(0, 120 if ctx.quick else 1500, 6):
        lines = ["FUEL 6000", "NEW 0 std", "EVAL 0 " + h("(import (verif tick))")]
        calls = []
        for k in range(6):
            text, want, name = gen.long_list_call(ctx.rng, None if ctx.quick else gen.LONG_LENGTHS + [300, 384, 385])
            lines.append("EVAL 0 " + h(text))
            calls.append((text, want, name))
            dist["long " + name] = dist.get("long " + name, 0) + 1
        cases.append({"lines": lines, "calls": calls})
    results, ndis = common.run_cases(ctx, cases, compare=common.compare_fuel)
    wrong = 0
    ok = 0
    for c, (ml, il, d) in zip(cases, results):
        for (text, want, name), o in zip(c["calls"], ml[3:]):
            m = OUT.match(o)
            if want == "error":
                good = o.startswith("(err")
            else:
                wv, _, wt = want.partition(" ticks=")
                good = bool(m) and m.group(1) == wv and (not wt or len([x for x in m.group(2).split(",") if x]) == int(wt))
            if good:
                ok += 1
            else:
                wrong += 1
                if wrong <= 6:
                    ctx.violation({"lines": ["FUEL 4000", "NEW 0 std", "EVAL 0 " + h("(import (verif tick))"), "EVAL 0 " + h(text)],
                                   "meta": {"call": text, "expected": want}}, [o], [o],
                                  note="%s: %s should give %s but gives %s" % (name, text, want, o))
    return {
        "evaluations": sum(len(c["calls"]) for c in cases),
        "distinct_nontrivial": len({t for c in cases for t, w, _ in c["calls"] if w != "error"}),
        "traces_validated_against_impl": len(cases) - ndis,
        "disagreements": ndis,
        "contract_failures": wrong,
        "rule": "random argument tuples per library procedure (car cdr cons, the c[ad]{2,3}r compositions, list make-list null? "
                "pair? list? append (variadic, improper last argument, empty lists in every position) map for-each fold-left "
                "fold-right list-tail list-ref last-pair memq memv equal? apply, and compositions): proper and improper lists up to "
                "length 12 with nesting, atoms incl. strings and characters (equal? compares them by content), indices in and just outside range, ticking procedure arguments (once per element); the "
                "result is compared model vs implementation and against an independent model on python lists (value, number of "
                "calls of the procedure argument, error when the list is too short); plus the list procedures on long lists of distinct integers "
                "(lengths 31-257 around powers of two, 100 and 200; to 385 in the thorough tier) with order-sensitive procedure arguments. non-trivial = distinct call with a value",
        "exhaustive": False,
        "input_distribution": dist,
        "samples": [{"call": c["calls"][0][0], "expected": c["calls"][0][1], "model": r[0][3], "impl": r[1][3]} for c, r in
                    list(zip(cases, results))[:: max(1, len(cases) // 4)]][:4],
    }


def replay(ctx, path):
    return common.replay_case(ctx, path, compare=common.compare_fuel)
