"""C19 Interpreter instances are isolated from one another."""
import common
import gen

ALLOWED_AXIOMS = common.FLOCQ_AXIOMS
ASSUMPTIONS = [
    "known finding F5: the table of macro definitions is a per-thread global (parser.rs BINDINGS); programs that define "
    "syntax in the root scope are the known class and are reported as KNOWN-FINDING",
    "two instances on one thread; a fresh thread is a fresh syntax table",
]
TRUSTED_EXTRA = ["the model's world: instances share only the store's address space (disjoint frames) and the syntax table"]


def program_for(rng, tag):
    g = gen.Gen(rng, ticks=False, derived=True, reuse=0.7)
    forms, _ = g.program(rng.randint(3, 6), 2)
    extra = []
    for _ in range(rng.randint(1, 3)):
        extra.append(rng.choice(["(define shared-name '%s)" % tag, "(set! shared-name (list shared-name))",
                                 "(define (shared-proc) '%s)" % tag, "(define v (vector '%s))" % tag,
                                 "(vector-set! v 0 'changed-by-%s)" % tag, "(car '())", "(undefined-%s)" % tag,
                                 "(define car (lambda (x) '%s-car))" % tag, "(lib-value)", "(lib-bump!)", "(lib-bump!)",
                                 # variables named like the keywords of the derived forms
                                 "(define when '%s-when)" % tag, "(define (unless x) (list '%s x))" % tag,
                                 "(define cond 5)", "(define (let* . r) r)", "(define and 'my-and)",
                                 "(when #t 1 2)", "(unless #f 1 2)", "(cond (#f 1) (else 2 3))", "(let* ((p 1) (q p)) q p)",
                                 "(and 1 2 3)", "(case 2 ((1) 'a) ((2) 'b) (else 'c))"]))
    probes = ["shared-name", "(shared-proc)", "v", "(car '(1 2))", "(lib-value)", "(when #t 1 2)", "(cond (#f 1) (else 2 3))",
              "(unless #f 1 2)"]
    if rng.random() < 0.6:
        # operations that fail deep inside nested calls, many times, and nested evaluation that succeeds: whatever an
        # instance's failures leave behind must not be visible to the other instance
        extra.append("(define (deep-%s n) (if (= n 0) (car '()) (+ 1 (deep-%s (- n 1)))))" % (tag, tag))
        extra.append("(define (count-%s n) (if (= n 0) 0 (+ 1 (count-%s (- n 1)))))" % (tag, tag))
        for _ in range(rng.randint(6, 10)):
            extra.append("(deep-%s %d)" % (tag, rng.randint(30, 45)))
        extra.append("(count-%s 60)" % tag)
        probes = probes + ["(count-%s 50)" % tag]
    if rng.random() < 0.4:
        # what the READER is given: directives and notations of R7RS that this reader does not know (each is a failing
        # form here), and identifiers that differ only in case - reading a text must not depend on what another
        # instance has read
        for _ in range(rng.randint(1, 3)):
            extra.insert(rng.randint(0, len(extra)), rng.choice([
                "#!fold-case\n(define Limit-%s 10)" % tag, "#!no-fold-case\n(define limit-%s 11)" % tag, "#!fold-case", "#!eof",
                "#;(hidden) 'after-datum-comment", "#|block|# 'after-block-comment", "#u8(1 2)", "#0=(a . #0#)", "#d10", "#x1F", "#e1.5",
                "'#!fold-case", "(quote #!no-fold-case)"]))
        extra.append("(define Total '%s-upper)" % tag)
        extra.append("(define total '%s-lower)" % tag)
        extra.append("(define (Scale x) (list x Total total))")
        probes = probes + ["Total", "total", "(Scale 3)", "(list 'Abc 'abc 'ABC)", "(eqv? 'Total 'total)"]
    if rng.random() < 0.5:
        # forms that PRINT alike and are different data (a string or a character where the other instance has an identifier
        # or a number), at the same position of their texts: what one instance has expanded is nothing to the other
        twins = [('(let ((v "k")) v)', "(let ((v k)) v)"), ("(case #\\x ((#\\x) 'matched) (else 'other))", "(case x ((x) 'matched) (else 'other))"),
                 ('(cond ((eqv? n "1") \'one) (else \'other))', "(cond ((eqv? n 1) 'one) (else 'other))"), ('(and "k" 1)', "(and k 1)"),
                 ('(when "x" x)', "(when x x)"), ('(or #f "k")', "(or #f k)"), ('(let* ((a "1") (b a)) (list a b))', "(let* ((a 1) (b a)) (list a b))"),
                 ('(begin "n" n)', "(begin n n)"), ("(unless #f #\\k)", "(unless #f k)")]
        extra = ["(define k '%s-k)" % tag, "(define x 'y)", "(define n 1)"] + extra
        for a, b in rng.sample(twins, rng.randint(2, 5)):
            extra.insert(rng.randint(3, len(extra)), a if rng.random() < 0.5 else b)
        probes = probes + [rng.choice(t) for t in twins[:4]]
    out = []
    # imports belong to the beginning of a program
    if rng.random() < 0.8:
        out.append("(import (colliding))")
    if rng.random() < 0.4:
        out.append("(import (prefix (verif lib4) %s-))" % tag)
    for f in forms + extra:
        out.append(f)
        if rng.random() < 0.3:
            out.append(rng.choice(probes))
    return out + probes


def lib_text(tag, k):
    return ("(define-library (colliding) (export lib-value lib-bump!) (import (scheme base)) "
            "(begin (define state '(%s %d)) (define (lib-value) state) (define (lib-bump!) (set! state (cons '%s state)) state)))"
            % (tag, k, tag))


def explore(ctx):
    h = common.hexs
    n = 1200 if ctx.quick else 10000
    cases = []
    meta = []
    dist = {}
    for k in range(n):
        a = program_for(ctx.rng, "a")
        b = program_for(ctx.rng, "b")
        reg_a = "REGSRC 0 %s %s" % (h("colliding"), h(lib_text("a", k)))
        reg_b = "REGSRC 1 %s %s" % (h("colliding"), h(lib_text("b", k)))
        al = ["EVAL 0 " + h(f) for f in a]
        bl = ["EVAL 1 " + h(f) for f in b]
        files = []
        if ctx.rng.random() < 0.5:
            # each instance runs a program file from a directory of its own; a library file (flib) is present in
            # one, both (with different contents) or neither of the two directories
            for inst, d, tag, ops in ((0, "dir-a", "a", al), (1, "dir-b", "b", bl)):
                have = ctx.rng.choice(["absent", "present", "present"])
                dist[tag + "-flib-" + have] = dist.get(tag + "-flib-" + have, 0) + 1
                if have == "present":
                    files.append("FILE %s %s %s" % (h(d), h("flib"), h(
                        "(define-library (flib) (export flib-value) (import (scheme base)) (begin (define (flib-value) '(flib-of %s))))" % tag)))
                files.append("FILE %s %s %s" % (h(d), h("main.scm"), h(
                    "(import (scheme base) (flib))\n(define from-file (flib-value))\n")))
                ops.insert(0, "RUNFILE %d %s %s" % (inst, h(d), h("main.scm")))
                at = ctx.rng.randint(1, len(ops))
                ops.insert(at, "EVAL %d %s" % (inst, h("(import (flib))")))
                ops.append("EVAL %d %s" % (inst, h("(flib-value)")))
                ops.append("EVAL %d %s" % (inst, h("from-file")))
        # B alone
        alone = files + ["FUEL 3000", "NEW 1 std", reg_b] + bl
        nb0 = len(files) + 3
        # interleaved: a random merge of A's and B's forms; instance B is created at a random point
        merged = files + ["FUEL 3000", "NEW 0 std", reg_a]
        ia = ib = 0
        created_b = False
        bpos = []
        while ib < len(bl):
            if ia < len(al) and ctx.rng.random() < 0.5:
                merged.append(al[ia])
                ia += 1
            else:
                if not created_b:
                    merged += ["NEW 1 std", reg_b]
                    created_b = True
                bpos.append(len(merged))
                merged.append(bl[ib])
                ib += 1
        # a further instance can always be created
        merged.append("NEW 2 std")
        merged.append("EVAL 2 " + h("(+ 1 2)"))
        cases.append({"lines": alone, "kind": "alone", "pair": k, "nb0": nb0})
        cases.append({"lines": merged, "kind": "interleaved", "pair": k, "bpos": bpos, "a": a, "b": b, "bl": bl})
    # the known class: syntax definitions in the root scope
    known = [
        {"lines": ["NEW 0 std", "NEW 1 std", "EVAL 1 " + h("(foo 1 2)"),
                   "EVAL 0 " + h("(define-syntax foo (syntax-rules () ((foo a b) (+ a b))))"), "EVAL 1 " + h("(foo 1 2)")],
         "kind": "known-syntax", "pair": -1},
    ]
    results, ndis = common.run_cases(ctx, cases + known, compare=common.compare_fuel)
    leaks = 0
    compared = 0
    for j in range(0, len(cases), 2):
        alone, inter = results[j], results[j + 1]
        c = cases[j + 1]
        import re
        norm = lambda x: re.sub(r"#\d+", "#", x)       # vector identities are numbered per case
        b_alone = [norm(x) for x in alone[0][cases[j]["nb0"]:]]
        b_inter = [norm(inter[0][p]) for p in c["bpos"]]
        compared += len(b_alone)
        if b_alone != b_inter:
            leaks += 1
            if leaks <= 5:
                first = next(k for k, (x, y) in enumerate(zip(b_alone, b_inter)) if x != y)
                bf = c["bl"][first].split()
                bf = bf[0] + " " + bytes.fromhex(bf[-1]).decode()
                ctx.violation({"lines": c["lines"], "meta": {"b_form": bf}}, inter[0], inter[1],
                              note="B's step %r gives %s alone but %s when interleaved with A" % (bf, b_alone[first], b_inter[first]))
        if inter[1][-2] != "ok" or not inter[1][-1].startswith("(ok i3)"):
            leaks += 1
            ctx.violation({"lines": c["lines"], "meta": {}}, inter[0], inter[1], note="a new instance could not be created or used at the end")
    common.witness_findings(ctx, "C19")
    return {
        "evaluations": compared,
        "programs": len(cases) // 2,
        "distinct_nontrivial": len(cases) // 2,
        "traces_validated_against_impl": len(cases) + len(known) - ndis,
        "disagreements": ndis,
        "pairs_with_interference": leaks,
        "rule": "random program pairs A and B (core and derived forms with names drawn from a small shared pool, definitions, "
                "assignments, vector mutation, failing forms, reader directives and notations this reader does not know (#!fold-case, #;, #| |#, #u8, labels) with identifiers that differ only in case, forms that print alike and are different data (string / character vs identifier / number), imports with prefixes, redefinition of car, and a library named "
                "(colliding) registered with a different source in each instance and mutated through its exports; in half of the pairs each "
                "instance first runs a program file from a directory of its own, with a library file (flib) present in one, both "
                "(different contents) or neither directory, imported again later), B's forms "
                "interleaved at random with A's on two instances of one thread, instance B created at a random point, a third "
                "instance created and used at the end: B's per-form results must equal those of B run alone (separate case, "
                "fresh thread); all lines compared model vs implementation. non-trivial = every pair",
        "exhaustive": False,
        "input_distribution": dict(dist, pairs=len(cases) // 2),
        "samples": [{"a": cases[1]["a"][:4], "b": cases[1]["b"][:4], "model_b": [results[1][0][p] for p in cases[1]["bpos"]][:4]}],
    }


def replay(ctx, path):
    return common.replay_case(ctx, path, compare=common.compare_fuel)
