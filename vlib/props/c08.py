"""C08 Run-time errors are detected, classified, and leave the interpreter usable."""
import re
import common
import gen

ALLOWED_AXIOMS = common.FLOCQ_AXIOMS
ASSUMPTIONS = [
    "one faulting operation per program (which of two faults a doubly faulty call reports is left open by "
    "Spec/EvalSpec.v and is not compared)",
    "error locations are the subject of C15 and are not compared here",
]
TRUSTED_EXTRA = ["as C01; Model/Builtins.v models library/native/base.rs"]

LOC = re.compile(r"^\(err (\w+) [^)]*\)")


def strip_loc(s):
    return LOC.sub(r"(err \1)", s)


def compare(case, m, i):
    return strip_loc(m) == strip_loc(i) or m.startswith("(outoffuel)")


def explore(ctx):
    reps = 80 if ctx.quick else 400
    cases = []
    dist = {}
    k = 0
    for rep in range(reps):
        for kind in gen.FAULT_KINDS:
            for context in gen.FAULT_CONTEXTS:
                k += 1
                forms, idx = gen.fault_program(ctx.rng, kind, context, k)
                lines = ["FUEL 3000", "NEW 0 std", "EVAL 0 " + common.hexs("(import (verif tick))")]
                lines += ["EVAL 0 " + common.hexs(f) for f in forms]
                cases.append({"lines": lines, "forms": forms, "fault_index": idx, "kind": kind, "context": context})
                dist[kind + "/" + context] = dist.get(kind + "/" + context, 0) + 1
    results, ndis = common.run_cases(ctx, cases, compare=compare)
    # the property itself, checked on the (proved) model's output: the faulting form reports the
    # kind that corresponds to the fault; every form before and after evaluates normally
    wrong_kind = 0
    detected = 0
    distinct = set()
    for c, (ml, il, differs) in zip(cases, results):
        out = ml[3:]
        want = gen.EXPECTED_KIND[c["kind"]]
        got = out[c["fault_index"]]
        m = LOC.match(got)
        if m and m.group(1) == want:
            detected += 1
            distinct.add(c["forms"][c["fault_index"]])
        else:
            wrong_kind += 1
            if wrong_kind <= 5:
                ctx.violation({"lines": c["lines"], "meta": {"kind": c["kind"], "context": c["context"],
                                                             "form": c["forms"][c["fault_index"]]}}, ml, il,
                              note="the faulting form should report %s but the model reports %s" % (want, got))
        others_bad = [o for j, o in enumerate(out) if j != c["fault_index"] and not o.startswith("(ok")]
        if others_bad:
            wrong_kind += 1
            if wrong_kind <= 5:
                ctx.violation({"lines": c["lines"], "meta": {"kind": c["kind"], "context": c["context"]}}, ml, il,
                              note="a form other than the faulting one failed: %s" % others_bad[0])
    return {
        "evaluations": len(cases),
        "programs": len(cases),
        "distinct_nontrivial": len(distinct),
        "traces_validated_against_impl": len(cases) - ndis,
        "disagreements": ndis,
        "faults_detected_with_expected_kind": detected,
        "property_failures": wrong_kind,
        "rule": "valid random programs with one injected fault (one type / non-procedure fault in five with an offending value that prints 70-300 bytes long and holds 2-, 3- and 4-byte characters at random offsets): 8 fault kinds x 6 calling contexts (direct, tail call "
                "of a procedure, through apply, from a (scheme base) procedure, inside a derived form, after / as a self tail call of "
                "a procedure that has re-entered itself) x %d seeds, an "
                "effect completed before the fault in the same form, followed by forms that read the state; per form: "
                "value or error kind, tick trace, stdout, compared between model and implementation, and the kind "
                "checked against the kind the fault calls for. non-trivial = distinct faulting form whose fault was "
                "reported with the expected kind" % reps,
        "exhaustive": False,
        "input_distribution": dist,
        "samples": [{"kind": c["kind"], "context": c["context"], "faulting_form": c["forms"][c["fault_index"]],
                     "model": r[0][3 + c["fault_index"]], "impl": r[1][3 + c["fault_index"]]}
                    for c, r in list(zip(cases, results))[:: max(1, len(cases) // 6)]][:6],
    }


def replay(ctx, path):
    return common.replay_case(ctx, path, compare=compare)
