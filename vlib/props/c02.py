"""C02 Tail calls run in bounded space."""
import itertools
import re
import common
import gen

ALLOWED_AXIOMS = common.FLOCQ_AXIOMS
ASSUMPTIONS = [
    "the machine stack is represented by the nesting depth of the evaluator's Rust calls (hook counter in "
    "src/verif.rs: eval_expression, eval_tail_expression, apply_scheme_procedure, apply_procedure, builtin apply), "
    "compared exactly between model and implementation; bytes of stack per level and the live heap are runtime facts "
    "outside the model (partial by nature)",
    "known finding F3: a tail call through apply consumes depth; loops in that class are reported as KNOWN-FINDING",
]
TRUSTED_EXTRA = ["Model/EvalD.v is Model/Eval.v with the depth counter threaded (proved to compute the same values and states)"]

D_RE = re.compile(r" d=(\d+)$")


def depth_of(line):
    m = D_RE.search(line)
    return int(m.group(1)) if m else None


def explore(ctx):
    names = list(gen.TAIL_CONTEXTS)
    combos = [(c,) for c in names] + [()]
    two = [(a, b) for a in names for b in names]
    if ctx.quick:
        combos += ctx.rng.sample(two, 40)
        nsmall, nlarge = 10, 300
    else:
        combos += two
        three = [(a, b, c) for a in names for b in names for c in names]
        combos += ctx.rng.sample(three, 40)
        nsmall, nlarge = 10, 400
    cases = []
    dist = {}
    for combo in combos:
        for shape in gen.LOOP_SHAPES:
            defs, call = gen.loop_program(shape, combo)
            lines = ["NEW 0 std"] + ["EVAL 0 " + common.hexs(d) for d in defs]
            lines += ["DEVAL 0 " + common.hexs(call % nsmall), "DEVAL 0 " + common.hexs(call % nlarge)]
            cases.append({"lines": lines, "shape": shape, "contexts": list(combo), "defs": defs,
                          "known": "apply" in combo})
            dist[shape] = dist.get(shape, 0) + 1
            for c in combo:
                dist["ctx " + c] = dist.get("ctx " + c, 0) + 1
    results, ndis = common.run_cases(ctx, cases, timeout=1500)
    bounded = 0
    grows = 0
    for c, (ml, il, differs) in zip(cases, results):
        small, large = ml[-2], ml[-1]
        ds, dl = depth_of(small), depth_of(large)
        ok_val = small.startswith("(ok i%d)" % nsmall) and large.startswith("(ok i%d)" % nlarge)
        if ds is not None and ds == dl and ok_val:
            bounded += 1
            continue
        if c["known"] and ok_val and ds is not None and dl is not None and dl > ds:
            ctx.known("F3-apply-tail-call", "a tail call through apply consumes depth")
            grows += 1
            continue
        ctx.violation({"lines": c["lines"], "meta": {"shape": c["shape"], "contexts": c["contexts"]}}, ml, il,
                      note="depth or value of the loop depends on the iteration count: %s / %s" % (small, large))
    common.witness_findings(ctx, "C02")
    return {
        "evaluations": 2 * len(cases),
        "programs": len(cases),
        "distinct_nontrivial": bounded,
        "traces_validated_against_impl": len(cases) - ndis,
        "disagreements": ndis,
        "loops_with_constant_depth": bounded,
        "loops_in_known_class": grows,
        "rule": "every composition of the 16 tail contexts up to depth 1 (all) and 2 (%s) x %d loop shapes (self, 2-way (also with each procedure binding names of its own and reading globals named like the other's) and "
                "3-way mutual, through a procedure parameter, variadic, closure returned from an internal definition, and "
                "three with a computed operator: call, if, car), "
                "each run for N=%d and N=%d through the depth-instrumented evaluator; the maximal nesting depth of the "
                "evaluator's calls is compared exactly between model and implementation (hook counter) and must be the "
                "same for both N, the value must be N. non-trivial = loop whose depth is independent of N"
                % ("sampled" if ctx.quick else "all; depth 3 sampled", len(gen.LOOP_SHAPES), nsmall, nlarge),
        "exhaustive": False,
        "input_distribution": dist,
        "samples": [{"shape": c["shape"], "contexts": c["contexts"], "definitions": c["defs"], "model": r[0][-2:], "impl": r[1][-2:]}
                    for c, r in list(zip(cases, results))[:: max(1, len(cases) // 4)]][:4],
    }


def replay(ctx, path):
    return common.replay_case(ctx, path)
