"""C06 The reader maps text to the data its tokens denote."""
import itertools
import common
import gen

ALLOWED_AXIOMS = []
ASSUMPTIONS = [
    "supported lexical grammar (no delimiter is required after #t/#f and character literals: the pinned test "
    "simple_tokens depends on #t#f lexing as two tokens; renderings keep a separator there)",
    "real literals are compared as the binary32 value of their text (C09/C16 cover the conversion)",
]
TRUSTED_EXTRA = ["Model/Lexer.v models lexer.rs; Model/Reader.v models the datum reader of parser.rs"]

ALPHABET = "()'#.+-1ae/\";\\ \n|"


def explore(ctx):
    maxlen = 3 if ctx.quick else 4
    lines = []
    for n in range(0, maxlen + 1):
        for tup in itertools.product(ALPHABET, repeat=n):
            s = "".join(tup)
            lines.append("LEX " + common.hexs(s))
    if ctx.quick:
        # length 4: a seeded sample
        for _ in range(12000):
            s = "".join(ctx.rng.choice(ALPHABET) for _ in range(4))
            lines.append("LEX " + common.hexs(s))
        for _ in range(6000):
            s = "".join(ctx.rng.choice(ALPHABET) for _ in range(ctx.rng.randint(5, 9)))
            lines.append("LEX " + common.hexs(s))
    # spellings of numbers: leading zeros in every part, signs, ratios, decimals, exponents, and the near misses
    parts = ["0", "1", "7", "00", "01", "02", "007", "010", "10", "100", "0100", "2147483647", "02147483647", "2147483648"]
    for a in parts:
        for sign in ("", "-", "+"):
            lines.append("LEX " + common.hexs(sign + a))
            for b in parts:
                lines.append("LEX " + common.hexs("%s%s/%s" % (sign, a, b)))
                if len(a) <= 3 and len(b) <= 3:
                    lines.append("LEX " + common.hexs("%s%s.%s" % (sign, a, b)))
                    lines.append("LEX " + common.hexs("%s%se%s" % (sign, a, b)))
                    lines.append("LEX " + common.hexs("(%s%s/%s %s.%se%s)" % (sign, a, b, a, b, a)))
    nlex = len(lines)
    reads = []
    for _ in range(20000 if ctx.quick else 60000):
        s = "".join(ctx.rng.choice(ALPHABET) for _ in range(ctx.rng.randint(1, 8)))
        reads.append("READ " + common.hexs(s))
    lines += reads
    m, i, dis = common.differential(lines)
    bad = common.diff_report(ctx, lines, m, i, dis)
    # (b) random datum trees under random layouts: the value read back must be the tree
    dg = gen.DatumGen(ctx.rng)
    cases = []
    ntrees = 6000 if ctx.quick else 40000
    for k in range(ntrees):
        d = dg.datum(ctx.rng.randint(1, 4))
        toks = dg.tokens(d)
        layouts = [dg.render(toks) for _ in range(3)]
        nv = dg.count_vectors(d)
        want = [dg.canon(d, j * nv) for j in range(3)]
        clines = ["NEW 0 std"] + ["EVAL 0 " + common.hexs("(quote %s)" % t) for t in layouts]
        clines += ["READ " + common.hexs(layouts[0])]
        cases.append({"lines": clines, "want": want, "layouts": layouts})
    # (c) single data that are large in one dimension (nesting depth, number of dotted pairs, number of elements)
    big = gen.big_datum_texts(ctx.rng, ctx.quick)
    for kind, n, text in big:
        cases.append({"lines": ["NEW 0 std", "READ " + common.hexs(text), "EVAL 0 " + common.hexs("(quote %s)" % text)],
                      "want": [], "layouts": [], "big": "%s %d" % (kind, n)})
    results, ndis = common.run_cases(ctx, cases)
    wrong = 0
    for c, (ml, il, d) in zip(cases, results):
        for lay, o, w in zip(c["layouts"], ml[1:4], c["want"]):
            if o != "(ok %s) t=[] o=" % w:
                wrong += 1
                if wrong <= 5:
                    ctx.violation({"lines": c["lines"], "meta": {"layout": lay, "want": w}}, ml, il,
                                  note="the datum read from this layout is not the tree it was rendered from")
    kinds = {"lex strings": nlex, "read strings": len(reads), "trees": ntrees, "big data": len(big)}
    errs = sum(1 for x in m[:nlex] if x.startswith("(err"))
    return {
        "evaluations": len(lines) + 4 * len(cases),
        "distinct_nontrivial": len({x for x in m[:nlex] if not x.startswith("(err") and " " in x}) + ntrees,
        "traces_validated_against_impl": len(lines) - len(dis) + len(cases) - ndis,
        "disagreements": len(dis) + ndis,
        "tree_layout_failures": wrong,
        "rule": "(a) every string up to length %d over the 17-character alphabet ( ) ' # . + - 1 a e / \" ; \\ | space "
                "newline%s, plus a grid of number spellings (leading zeros in every part, signs, ratios, decimals, exponents): token sequence with locations, model vs implementation; random strings through the "
                "datum reader (hook Parser::verif_next_datum), data with locations compared; (b) %d random datum trees "
                "(integers incl. i32 bounds, ratios, decimals with exponents, booleans, characters, strings with "
                "escapes, plain / peculiar / |quoted| identifiers, lists, dotted tails, vectors, quote) each rendered "
                "under 3 random admissible layouts (no space where allowed, blanks, tabs, LF, CR LF, comments), quoted, "
                "evaluated; the value must equal the tree for every layout; (c) single data nested 64-850 deep (lists, vectors, quotations, mixed), "
                "with 100-1500 dotted pairs or dotted tails, with up to 6000 elements, read and quoted. non-trivial = distinct string that "
                "lexes to two or more tokens, or a tree" % (maxlen, " plus seeded samples of length 4-9" if ctx.quick else "", ntrees),
        "exhaustive": True,
        "input_distribution": dict(kinds, **{"lex errors": errs}),
        "samples": [{"text": lines[k], "model": m[k], "impl": i[k]} for k in (5, nlex // 2, nlex - 1)] +
                   [{"layout": cases[0]["layouts"][0], "want": cases[0]["want"][0], "model": results[0][0][1]}],
    }


def replay(ctx, path):
    import json
    payload = json.load(open(path))
    case = payload["case"]
    if isinstance(case, str):
        with common.Lock():
            common.build_driver()
            common.build_harness()
        m, i, dis = common.differential([case])
        print("case:", case, "\nmodel:", m[0], "\nimplementation:", i[0])
        return 1 if dis else 0
    return common.replay_case(ctx, path)
