"""C01 Core evaluation yields the value Scheme semantics assigns."""
import common
import gen

ALLOWED_AXIOMS = common.FLOCQ_AXIOMS
ASSUMPTIONS = [
    "terminating programs (the theorems exclude OutOfFuel; the model's fuel is an artefact, Rust has none)",
    "a call whose operator is not a procedure and whose operand also faults may report either error "
    "(Spec/EvalSpec.v states this liberty; the implementation differs between tail and non-tail position there)",
    "primitive procedures enter the specification through the model function builtin_call (their contracts: C09-C11)",
]
TRUSTED_EXTRA = ["Model/Eval.v models interpreter.rs:216-483 (eval_expression, eval_tail_expression, apply_procedure "
                 "trampoline, apply_scheme_procedure, read_literal) and base.rs apply; Model/Transform.v models parser.rs",
                 "Spec/EvalSpec.v is the direct-style big-step semantics the theorems refer to"]

PRELUDE = "(import (verif tick))"


def make_case(forms):
    lines = ["FUEL 3000", "NEW 0 std", "EVAL 0 " + common.hexs(PRELUDE)]
    for f in forms:
        lines.append("EVAL 0 " + common.hexs(f))
    return {"lines": lines, "forms": forms}


def explore(ctx):
    n = 1200 if ctx.quick else 20000
    cases = []
    kinds = {"define": 0, "expr": 0, "apply": 0, "rest": 0, "internal-define": 0, "lambda": 0, "tick": 0}
    for k in range(n):
        g = gen.Gen(ctx.rng, ticks=True, derived=False)
        forms, _ = g.program(ctx.rng.randint(4, 10), ctx.rng.choice([2, 3, 3, 4]))
        for f in forms:
            kinds["define" if f.startswith("(define") else "expr"] += 1
            kinds["apply"] += f.count("(apply ")
            kinds["rest"] += f.count(" . ")
            kinds["internal-define"] += max(0, f.count("(define") - (1 if f.startswith("(define") else 0))
            kinds["lambda"] += f.count("(lambda")
            kinds["tick"] += f.count("(tick ")
        cases.append(make_case(forms))
    # closures created in different rounds of (mutually) tail-recursive loops: every call binds fresh locations
    for k in range(120 if ctx.quick else 3000):
        forms = gen.loop_closure_program(ctx.rng)
        kinds["lambda"] += sum(f.count("(lambda") for f in forms)
        cases.append(make_case(forms))
    for k in range(120 if ctx.quick else 3000):
        forms = gen.forward_reference_program(ctx.rng)
        kinds["internal-define"] += sum(f.count("(define") for f in forms)
        cases.append(make_case(forms))
    for k in range(150 if ctx.quick else 4000):
        forms = gen.evaluation_position_program(ctx.rng)
        kinds["tick"] += sum(f.count("(tick ") for f in forms)
        cases.append(make_case(forms))
    for k in range(40 if ctx.quick else 1000):
        forms = gen.closure_chain_program(ctx.rng)
        kinds["lambda"] += sum(f.count("(lambda") for f in forms)
        cases.append(make_case(forms))
    # standard procedure names rebound by the program: an operator is looked up like any other identifier
    for k in range(300 if ctx.quick else 6000):
        forms = gen.shadowed_builtin_program(ctx.rng)
        kinds["define"] += sum(1 for f in forms if f.startswith("(define"))
        cases.append(make_case(forms))
    results, ndis = common.run_cases(ctx, cases, compare=common.compare_fuel)
    outcomes = {"value": 0, "none": 0, "error": 0, "timeout/abort": 0}
    distinct = set()
    for c, (ml, il, differs) in zip(cases, results):
        for f, l in zip(c["forms"], ml[3:]):
            if l.startswith("(ok none)"):
                outcomes["none"] += 1
            elif l.startswith("(ok"):
                outcomes["value"] += 1
                if "(lambda" in f or "(apply" in f or f.count("(") > 3:
                    distinct.add(f)
            elif l.startswith("(err"):
                outcomes["error"] += 1
            else:
                outcomes["timeout/abort"] += 1
    return {
        "evaluations": sum(len(c["forms"]) for c in cases),
        "programs": len(cases),
        "distinct_nontrivial": len(distinct),
        "traces_validated_against_impl": len(cases) - ndis,
        "disagreements": ndis,
        "rule": "type-directed random programs over the core forms (closures up to order 3, 0-5 parameters with and "
                "without rest parameter, internal definitions, recursion on a decreasing counter, define sugar vs "
                "lambda, direct call vs apply, operands wrapped in ticking calls at random), plus loops (self and mutual tail "
                "recursion under if / cond / thunks) that create a closure per round capturing parameters and internal "
                "definitions and let it escape through a list, an argument or a vector, and procedure bodies whose first internal "
                "definition is initialised by a closure made on the spot that refers to later internal definitions (with and "
                "without parameters, an outer binding of the same name present or not), procedures whose body is a nested conditional "
                "in tail position with ticking / state-changing tests and every kind of branch (constant, variable, quoted datum, "
                "call, nested and one-armed conditional) called directly, as operand, through apply, from a tail call and from a thunk, "
                "and loops whose every round tail-calls a NEW closure of the same lambda expression capturing changing values, "
                "and programs that bind the name of a standard procedure (not, car, +, list, ...) as a parameter, by an internal or "
                "top-level definition, by let or by set! to another procedure and use it as operator in tests of conditionals, "
                "operands and derived forms, "
                "evaluated form by form "
                "on one interpreter; observables per form: canonical value or error kind+location, tick trace, "
                "stdout. non-trivial = distinct form that produced a value and contains a lambda, an apply or more "
                "than three nested calls",
        "exhaustive": False,
        "input_distribution": dict(kinds, **{"outcome " + k: v for k, v in outcomes.items()}),
        "samples": [{"forms": c["forms"][:4], "model": r[0][3:7], "impl": r[1][3:7]} for c, r in
                    list(zip(cases, results))[:: max(1, len(cases) // 3)]][:3],
    }


def replay(ctx, path):
    return common.replay_case(ctx, path, compare=common.compare_fuel)
