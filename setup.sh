#!/bin/bash
# Builds the whole framework offline from files on disk: Gen/*.v from /repo, the Coq development
# (full .vo), the extracted model + OCaml driver, the Rust harness and the ruschm binary.
set -e
cd "$(dirname "$0")"
export CARGO_NET_OFFLINE=true
python3 - <<'PY'
import sys
sys.path.insert(0, "vlib")
import common
with common.Lock():
    common.sld2v()
    common.coq_makefile()
    rc, out = common.make_targets([], timeout=7200)
    print(out[-3000:])
    if rc != 0:
        sys.exit("coq build failed")
    common.build_driver()
    common.build_harness()
    common.build_binary()
print("setup ok")
PY
