(** Extraction of the executable model to OCaml (model.ml is written to the directory make
    runs in, coq/). ExtrOcamlBasic only: bool, option, unit, list, prod, sumbool, sumor are
    mapped to OCaml's; every number type (positive, N, Z, nat) stays the extracted inductive. *)
From Coq Require Import Extraction ExtrOcamlBasic.
From RV Require Import Model.Common Model.Real32 Model.Num Model.Datum Model.Lexer Model.Reader
  Model.Macro Model.Ast Model.Transform Model.Value Model.Equal Model.Print Model.Builtins
  Model.Eval Model.EvalD Model.Interp Model.Repl Model.Cli.
Extraction "model.ml"
  Common.str_eqb Common.loc_or Ast.eloc Common.errkind_eqb Common.bind Common.mapM
  Real32.f32_of_bits Real32.bits_of_f32 Real32.f32_of_decimal
  Num.num_add Num.num_sub Num.num_mul Num.num_div Num.num_abs Num.num_sqrt Num.num_floor
  Num.num_ceiling Num.num_floor_quotient Num.num_floor_remainder Num.num_exact
  Num.num_eqb Num.num_cmp Num.num_ltb Num.num_leb Num.num_gtb Num.num_geb Num.num_eqv
  Num.num_max2 Num.num_min2 Num.is_exact
  Lexer.lex_text Reader.read_text
  Macro.transform_use Datum.set_dloc Transform.transform_stmt Transform.transform_transformer
  Value.empty_state Value.env_define Value.env_get
  Print.display Print.print_f32 Print.print_number
  Builtins.builtin_table Builtins.tick_table
  Eval.eval_expr Eval.apply_proc EvalD.deval_expr Interp.parse_next
  Interp.register_factory Interp.file_chars Interp.factory_from_text Interp.eval_import_set
  Interp.eval_import Interp.eval_ast Interp.eval_text Interp.eval_file Interp.initial_syntax
  Cli.run_program Repl.check_bracket_closed Repl.repl_run Interp.new_instance Interp.import_stdlib Interp.default_efuel Interp.native_defs.
