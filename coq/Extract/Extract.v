(** Extraction of the executable model to OCaml (model.ml is written to the directory make runs in, coq/).
    bool, option, unit, list, prod, sumbool, sumor are mapped to OCaml's; every number
    type (positive, N, Z, nat) stays the extracted inductive. The output file is written
    to the directory coqc is run from (ocaml/gen). *)
From Coq Require Import Extraction ExtrOcamlBasic.
From RV Require Import Model.Common Model.Real32 Model.Num.
Extraction "model.ml"
  Common.str_eqb Common.errkind_eqb Common.bind Common.mapM
  Real32.f32_of_bits Real32.bits_of_f32 Real32.f32_of_decimal
  Num.num_add Num.num_sub Num.num_mul Num.num_div Num.num_abs Num.num_sqrt Num.num_floor
  Num.num_ceiling Num.num_floor_quotient Num.num_floor_remainder Num.num_exact
  Num.num_eqb Num.num_cmp Num.num_ltb Num.num_leb Num.num_gtb Num.num_geb Num.num_eqv
  Num.num_max2 Num.num_min2 Num.is_exact.
