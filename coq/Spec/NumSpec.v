(** Specification side for the numeric properties: the rational value of an exact number. *)
From Coq Require Import ZArith QArith Qround Bool.
From RV Require Import Model.Common Model.Real32 Model.Num.
Local Open Scope Z_scope.

(** a number is well formed when its denominator is not zero (a ratio with a zero
    denominator is not a number; the lexer rejects such literals and no operation
    produces one, see [normal] below) *)
Definition wf (x : number) : Prop :=
  match x with NRat _ d => d <> 0 | _ => True end.

Definition in_i32 (z : Z) : Prop := -2147483648 <= z <= 2147483647.

Definition wf32 (x : number) : Prop :=
  match x with
  | NInt z => in_i32 z
  | NRat n d => in_i32 n /\ in_i32 d /\ d <> 0
  | NReal _ => True
  end.

(** the mathematical value of an exact number *)
Definition qval (x : number) : Q :=
  match x with
  | NInt z => inject_Z z
  | NRat n d => Qmake (n * Z.sgn d) (Z.to_pos (Z.abs d))
  | NReal _ => 0%Q
  end.

(** normal form of the results: lowest terms, positive denominator, not an integer in
    ratio clothing, components in the i32 range *)
Definition normal (x : number) : Prop :=
  match x with
  | NInt z => in_i32 z
  | NRat n d => in_i32 n /\ in_i32 d /\ 1 < d /\ Z.gcd n d = 1
  | NReal _ => True
  end.

Definition small (x : number) : Prop :=
  match x with
  | NInt z => Z.abs z < 32768
  | NRat n d => Z.abs n < 32768 /\ Z.abs d < 32768 /\ d <> 0
  | NReal _ => False
  end.
