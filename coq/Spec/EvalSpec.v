(** Specification of evaluation (R7RS 4.1, 5.3): a big-step relation in direct style over
    the store of Model/Value.v. No fuel, no trampoline, no notion of tail position: a call is
    a call wherever it stands.

      ev     st env e  r st'     expression [e] evaluates in frame [env] from [st] to result [r]
      evs    st env es r st'     operands, left to right, each exactly once
      app    st p args r st'     application of a procedure value to argument values
      evproc st fm defs body closure args r st'   the body of a user procedure
      evdefs / evbody            internal definitions in order, body expressions in order

    A result is [Ok v] or a failure ([Err kind loc]; [Panic site] where the code would
    panic). Failures propagate unchanged ([refail]) together with the state reached, so the
    effects completed before a fault persist. The primitive procedures enter through the
    function [builtin_call] (their own contracts are C09-C11).

    Two deliberate liberties, both where R7RS says only "it is an error":
    - a call whose operator is not a procedure reports TypeMisMatch at the operator or
      without location; if an operand also faults, either error may be reported (the state is
      the same in both cases: operator, then operands up to the fault);
    - nothing else is left open: every other rule is deterministic. *)
From Coq Require Import ZArith NArith List Bool.
From RV Require Import Model.Common Model.Real32 Model.Num Model.Datum Model.Macro Model.Ast
  Model.Value Model.Builtins Model.Eval.
Import ListNotations.

Definition failed {A} (r : res A) : Prop :=
  match r with Err _ _ | Panic _ => True | _ => False end.

Definition refail {A B} (r : res A) : res B :=
  match r with
  | Ok _ => Panic PUnmodelled     (* never used on Ok *)
  | Err k l => Err k l
  | Panic s => Panic s
  | OutOfFuel => OutOfFuel
  end.

Definition is_proc (v : value) : bool :=
  match v with VProcU _ _ _ _ | VProcB _ => true | _ => false end.

Definition is_list_value (v : value) : bool :=
  match v with VNil | VPair _ _ => true | _ => false end.

Inductive ev : state -> nat -> expr -> res value -> state -> Prop :=
  (* literals and quotation: read_literal allocates literal vectors, nothing else *)
  | ev_prim : forall st env p l, ev st env (EPrim p l) (eval_primitive p) st
  | ev_datum : forall st env d l r st', read_literal d st = (r, st') -> ev st env (EDatum d l) r st'
  | ev_quote : forall st env d l r st', read_literal d st = (r, st') -> ev st env (EQuote d l) r st'
  (* variable reference: the innermost binding on the chain of frames *)
  | ev_sym : forall st env x l v, env_get st env x = Some v -> ev st env (ESym x l) (Ok v) st
  | ev_sym_unbound : forall st env x l,
      env_get st env x = None -> ev st env (ESym x l) (Err UnboundedSymbol l) st
  (* lambda captures the current frame *)
  | ev_lambda : forall st env fm defs body l,
      ev st env (ELambda fm defs body l) (Ok (VProcU fm defs body env)) st
  (* assignment: the innermost frame of the chain that binds x *)
  | ev_set : forall st env x e l v st1 st2,
      ev st env e (Ok v) st1 -> env_set st1 env x v = Some st2 ->
      ev st env (ESet x e l) (Ok VVoid) st2
  | ev_set_unbound : forall st env x e l v st1,
      ev st env e (Ok v) st1 -> env_set st1 env x v = None ->
      ev st env (ESet x e l) (Err UnboundedSymbol None) st1
  | ev_set_fail : forall st env x e l r st1,
      ev st env e r st1 -> failed r -> ev st env (ESet x e l) (refail r) st1
  (* conditional: only #f is false *)
  | ev_if_true : forall st env c t alt l cv st1 r st2,
      ev st env c (Ok cv) st1 -> truthy cv = true -> ev st1 env t r st2 ->
      ev st env (EIf c t alt l) r st2
  | ev_if_false : forall st env c t a l cv st1 r st2,
      ev st env c (Ok cv) st1 -> truthy cv = false -> ev st1 env a r st2 ->
      ev st env (EIf c t (Some a) l) r st2
  | ev_if_false_none : forall st env c t l cv st1,
      ev st env c (Ok cv) st1 -> truthy cv = false ->
      ev st env (EIf c t None l) (Ok VVoid) st1
  | ev_if_fail : forall st env c t alt l r st1,
      ev st env c r st1 -> failed r -> ev st env (EIf c t alt l) (refail r) st1
  (* procedure call: operator, then operands left to right, then the application *)
  | ev_call : forall st env fe args l fv st1 vs st2 r st3,
      ev st env fe (Ok fv) st1 -> evs st1 env args (Ok vs) st2 -> is_proc fv = true ->
      app st2 fv vs r st3 ->
      ev st env (ECall fe args l) r st3
  | ev_call_fail_operator : forall st env fe args l r st1,
      ev st env fe r st1 -> failed r -> ev st env (ECall fe args l) (refail r) st1
  | ev_call_fail_operand : forall st env fe args l fv st1 r st2,
      ev st env fe (Ok fv) st1 -> evs st1 env args r st2 -> failed r ->
      ev st env (ECall fe args l) (refail r) st2
  | ev_call_not_procedure : forall st env fe args l fv st1 r st2 l',
      ev st env fe (Ok fv) st1 -> evs st1 env args r st2 -> r <> OutOfFuel -> is_proc fv = false ->
      l' = eloc fe \/ l' = None ->
      ev st env (ECall fe args l) (Err TypeMisMatch l') st2

with evs : state -> nat -> list expr -> res (list value) -> state -> Prop :=
  | evs_nil : forall st env, evs st env [] (Ok []) st
  | evs_cons : forall st env e es v st1 vs st2,
      ev st env e (Ok v) st1 -> evs st1 env es (Ok vs) st2 -> evs st env (e :: es) (Ok (v :: vs)) st2
  | evs_fail_head : forall st env e es r st1,
      ev st env e r st1 -> failed r -> evs st env (e :: es) (refail r) st1
  | evs_fail_tail : forall st env e es v st1 r st2,
      ev st env e (Ok v) st1 -> evs st1 env es r st2 -> failed r -> evs st env (e :: es) (refail r) st2

with app : state -> value -> list value -> res value -> state -> Prop :=
  | app_unknown_builtin : forall st name args,
      proc_arity (VProcB name) = None -> app st (VProcB name) args (Panic PUnmodelled) st
  (* the number of arguments is checked at every application *)
  | app_arity : forall st p args fixed variadic,
      proc_arity p = Some (fixed, variadic) -> arity_ok (length args) fixed variadic = false ->
      app st p args (Err ArgumentMissMatch None) st
  | app_builtin : forall st name args fixed variadic r st',
      proc_arity (VProcB name) = Some (fixed, variadic) -> arity_ok (length args) fixed variadic = true ->
      str_eqb name apply_name = false ->
      builtin_call name args st = (r, st') ->
      app st (VProcB name) args r st'
  (* (apply p a ... l) is (p a ... l1 ... ln) *)
  | app_apply_nil : forall st p r st',
      is_proc p = true -> app st p [] r st' -> app st (VProcB apply_name) [p] r st'
  | app_apply : forall st p init last r st',
      is_proc p = true -> is_list_value last = true ->
      app st p (init ++ vitems last) r st' ->
      app st (VProcB apply_name) (p :: init ++ [last]) r st'
  | app_apply_not_list : forall st p init last,
      is_proc p = true -> is_list_value last = false ->
      app st (VProcB apply_name) (p :: init ++ [last]) (Err TypeMisMatch None) st
  | app_apply_not_procedure : forall st p rest,
      is_proc p = false -> app st (VProcB apply_name) (p :: rest) (Err TypeMisMatch None) st
  | app_user : forall st fm defs body closure args r st',
      arity_ok (length args) (length (f_fixed fm)) (match f_rest fm with Some _ => true | None => false end) = true ->
      evproc st fm defs body closure args r st' ->
      app st (VProcU fm defs body closure) args r st'

(** a fresh frame whose parent is the closure's frame; parameters bound to the arguments, the
    rest parameter to the list of the surplus ones; internal definitions in order into that
    frame; then the body *)
with evproc : state -> formals -> list (str * expr * loc) -> list expr -> nat -> list value ->
              res value -> state -> Prop :=
  | evproc_body : forall st fm defs body closure args surplus st1 st2 u st3 r st4,
      bind_fixed (snd (alloc_frame st (Some closure))) (fst (alloc_frame st (Some closure))) (f_fixed fm) args
        = Ok (surplus, st1) ->
      st2 = match f_rest fm with
            | Some rest => env_define st1 (fst (alloc_frame st (Some closure))) rest (vlist surplus)
            | None => st1
            end ->
      evdefs st2 (fst (alloc_frame st (Some closure))) defs (Ok u) st3 ->
      evbody st3 (fst (alloc_frame st (Some closure))) body r st4 ->
      evproc st fm defs body closure args r st4
  | evproc_defs_fail : forall st fm defs body closure args surplus st1 st2 rd st3,
      bind_fixed (snd (alloc_frame st (Some closure))) (fst (alloc_frame st (Some closure))) (f_fixed fm) args
        = Ok (surplus, st1) ->
      st2 = match f_rest fm with
            | Some rest => env_define st1 (fst (alloc_frame st (Some closure))) rest (vlist surplus)
            | None => st1
            end ->
      evdefs st2 (fst (alloc_frame st (Some closure))) defs rd st3 -> failed rd ->
      evproc st fm defs body closure args (refail rd) st3
  | evproc_bind_fail : forall st fm defs body closure args rb,
      bind_fixed (snd (alloc_frame st (Some closure))) (fst (alloc_frame st (Some closure))) (f_fixed fm) args
        = rb -> failed rb ->
      evproc st fm defs body closure args (refail rb) (snd (alloc_frame st (Some closure)))

with evdefs : state -> nat -> list (str * expr * loc) -> res unit -> state -> Prop :=
  | evdefs_nil : forall st env, evdefs st env [] (Ok tt) st
  | evdefs_cons : forall st env x e l ds v st1 r st2,
      ev st env e (Ok v) st1 -> evdefs (env_define st1 env x v) env ds r st2 ->
      evdefs st env ((x, e, l) :: ds) r st2
  | evdefs_fail : forall st env x e l ds r st1,
      ev st env e r st1 -> failed r -> evdefs st env ((x, e, l) :: ds) (refail r) st1

with evbody : state -> nat -> list expr -> res value -> state -> Prop :=
  | evbody_empty : forall st env, evbody st env [] (Panic PEmptyBody) st
  | evbody_last : forall st env e r st', ev st env e r st' -> evbody st env [e] r st'
  | evbody_cons : forall st env e e2 es v st1 r st2,
      ev st env e (Ok v) st1 -> evbody st1 env (e2 :: es) r st2 -> evbody st env (e :: e2 :: es) r st2
  | evbody_fail : forall st env e e2 es r st1,
      ev st env e r st1 -> failed r -> evbody st env (e :: e2 :: es) (refail r) st1.

Scheme ev_ind' := Minimality for ev Sort Prop
  with evs_ind' := Minimality for evs Sort Prop
  with app_ind' := Minimality for app Sort Prop
  with evproc_ind' := Minimality for evproc Sort Prop
  with evdefs_ind' := Minimality for evdefs Sort Prop
  with evbody_ind' := Minimality for evbody Sort Prop.

Combined Scheme ev_mutind from ev_ind', evs_ind', app_ind', evproc_ind', evdefs_ind', evbody_ind'.
