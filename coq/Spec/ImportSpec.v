(** Specification of import sets (R7RS 5.2): the import-set algebra as a relation
    "the import set [s] binds [x] to [v]", over the export sets of the named libraries. *)
From Coq Require Import List Bool.
From RV Require Import Model.Common Model.Ast Model.Value Model.Interp.
Import ListNotations.

Section Denote.
Variable libs : libname -> option library.   (* the definitions each library exports *)

Inductive denotes : import_set -> str -> value -> Prop :=
  | D_direct : forall n l lib x v,
      libs n = Some lib -> In (x, v) lib -> denotes (IDirect n l) x v
  | D_only : forall s ids l x v,
      denotes s x v -> In x ids -> denotes (IOnly s ids l) x v
  | D_except : forall s ids l x v,
      denotes s x v -> ~ In x ids -> denotes (IExcept s ids l) x v
  | D_prefix : forall s p l x v,
      denotes s x v -> denotes (IPrefix s p l) (p ++ x) v
  | D_rename_hit : forall s rn l x y v,
      denotes s x v -> In (x, y) rn -> denotes (IRename s rn l) y v
  | D_rename_miss : forall s rn l x v,
      denotes s x v -> ~ In x (map fst rn) -> denotes (IRename s rn l) x v.

(** admissible terms: every renaming names each identifier at most once (R7RS: it is an
    error otherwise), and the named libraries exist *)
Fixpoint admissible (s : import_set) : Prop :=
  match s with
  | IDirect n _ => exists lib, libs n = Some lib
  | IOnly s _ _ | IExcept s _ _ | IPrefix s _ _ => admissible s
  | IRename s rn _ => admissible s /\ NoDup (map fst rn)
  end.

(** the names an import set binds are distinct (no name is bound twice) *)
Definition functional (s : import_set) : Prop :=
  forall x v w, denotes s x v -> denotes s x w -> v = w.
End Denote.
