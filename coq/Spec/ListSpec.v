(** C11: what the procedures of the list library compute, as functions on values (R7RS 6.4).
    A list is a chain of pairs ending in the empty list ([vlist]); an improper list ends in
    something else. No reference to the evaluator. *)
From Coq Require Import ZArith List Bool.
From RV Require Import Model.Common Model.Num Model.Value Model.Builtins.
Import ListNotations.

(** an exact integer *)
Definition vint (z : Z) : value := VNum (NInt z).

(** the empty list / a pair *)
Definition is_nil (v : value) : bool := match v with VNil => true | _ => false end.
Definition is_pair (v : value) : bool := match v with VPair _ _ => true | _ => false end.

(** (list-tail x k): k times cdr; none if the chain of pairs is shorter *)
Fixpoint vtail (k : nat) (v : value) : option value :=
  match k with
  | O => Some v
  | S k' => match v with VPair _ b => vtail k' b | _ => None end
  end.

(** (memv obj l) / (memq obj l): the first sublist whose car is eqv to obj, else #f *)
Fixpoint vmem (obj : value) (l : list value) : value :=
  match l with
  | [] => VBool false
  | x :: r => if value_eqv obj x then vlist l else vmem obj r
  end.

(** (last-pair (a . b)) *)
Fixpoint vlast (a b : value) : value :=
  match b with VPair a' b' => vlast a' b' | _ => VPair a b end.

(** (list? v) *)
Fixpoint is_proper (v : value) : bool :=
  match v with VNil => true | VPair _ b => is_proper b | _ => false end.

(** (equal? x y): pairs componentwise, everything else by eqv? *)
Fixpoint vequal (x y : value) : bool :=
  match x with
  | VPair a b => match y with VPair c d => vequal a c && vequal b d | _ => false end
  | _ => if is_pair y then false else value_eqv x y
  end.

(** (append l1 ... ln t): the elements of the lists in order, ending in t *)
Fixpoint vapp_tail (l : list value) (t : value) : value :=
  match l with [] => t | x :: r => VPair x (vapp_tail r t) end.
