(** C06 / C07: the reader of Model/Reader.v always answers. The lexer consumes at least one character
    for every token it delivers ([lex_next_progress]); therefore the fuel the model gives the reader
    (4 * characters + 12) is never exhausted: [read_next] returns a datum, the end of input, or a
    reported syntax error - never a timeout, and (the reader has no panic site) never a panic. *)
From Coq Require Import ZArith NArith List Bool Lia.
From RV Require Import Model.Common Model.Datum Model.Lexer Model.Reader Proofs.Basics Proofs.LexProofs.
Import ListNotations.
Local Open Scope N_scope.

(** a result whose remaining input is at most [n] characters long *)
Definition shr {A} (n : nat) (x : res (A * list char * pos)) : Prop :=
  forall a r p, x = Ok (a, r, p) -> (length r <= n)%nat.

Lemma shr_ok : forall {A} n (a : A) r p, (length r <= n)%nat -> shr n (Ok (a, r, p)).
Proof. intros A n a r p H a' r' p' E. injection E as <- <- <-. exact H. Qed.
Lemma shr_err : forall {A} n k l, shr n (@Err (A * list char * pos) k l).
Proof. intros A n k l a r p E. discriminate. Qed.
Lemma shr_mono : forall {A} n m (x : res (A * list char * pos)), (n <= m)%nat -> shr n x -> shr m x.
Proof. intros A n m x L H a r p E. specialize (H a r p E). lia. Qed.

Lemma shr_test_delimiter : forall {A} n p c (k : res (A * list char * pos)), shr n k -> shr n (test_delimiter p c k).
Proof. intros A n p c k H. unfold test_delimiter. destruct (is_delimiter c); [exact H|apply shr_err]. Qed.
Lemma shr_peek_delim : forall {A} n l p (k : res (A * list char * pos)), shr n k -> shr n (peek_delim l p k).
Proof. intros A n l p k H. unfold peek_delim. destruct l; [exact H|now apply shr_test_delimiter]. Qed.

Lemma shr_number_suffix : forall lit l p, shr (length l) (number_suffix lit l p).
Proof.
  intros lit l p. unfold number_suffix. destruct l as [|e r]; [now apply shr_ok|].
  destruct r as [|s0 r'].
  - cbn. apply shr_ok. cbn. lia.
  - destruct ((s0 =? c_plus) || (s0 =? c_minus)).
    + destruct (take_while is_digit r' (adv s0 (adv e p))) as [[ds r2] p2] eqn:ET.
      apply take_while_length in ET. apply shr_peek_delim, shr_ok. cbn. lia.
    + destruct (take_while is_digit (s0 :: r') (adv e p)) as [[ds r2] p2] eqn:ET.
      apply take_while_length in ET. apply shr_peek_delim, shr_ok. cbn in *. lia.
Qed.

Lemma shr_real_tail : forall lit l p, shr (length l) (real_tail lit l p).
Proof.
  intros lit l p. unfold real_tail. destruct l as [|d r]; [now apply shr_ok|].
  destruct r as [|nc r']; [apply shr_ok; cbn; lia|].
  destruct (nc =? c_e); [eapply shr_mono; [|apply shr_number_suffix]; cbn; lia|].
  destruct (is_digit nc).
  - destruct (take_while is_digit (nc :: r') (adv d p)) as [[ds r2] p2] eqn:ET.
    apply take_while_length in ET. destruct r2 as [|nnc r3]; [apply shr_ok; cbn; lia|].
    destruct (nnc =? c_e); [eapply shr_mono; [|apply shr_number_suffix]; cbn in *; lia|].
    apply shr_test_delimiter, shr_ok. cbn in *. lia.
  - apply shr_test_delimiter, shr_ok. cbn. lia.
Qed.

Lemma shr_bind_tok : forall n (x : res (list char * list char * pos)) (g : list char -> pos -> res token),
  shr n x -> shr n (do y <- x ;; let '(lit, r, p) := y in do t <- g lit p ;; Ok (t, r, p)).
Proof.
  intros n [[[lit r] p]|k l|s|] g H; cbn; try (intros a r0 p0 E; discriminate).
  destruct (g lit p) as [t|k l|s|]; cbn; try (intros a r0 p0 E; discriminate).
  apply shr_ok. exact (H lit r p eq_refl).
Qed.

Lemma shr_lex_number : forall c l p, shr (length l) (lex_number c l p).
Proof.
  intros c l p. unfold lex_number.
  destruct (take_while is_digit l p) as [[ds r] p1] eqn:ET. apply take_while_length in ET.
  destruct r as [|nc r'].
  - destruct (parse_i32 (c :: ds)); [apply shr_ok; cbn; lia|apply shr_err].
  - destruct (nc =? c_e).
    { apply shr_bind_tok. eapply shr_mono; [|apply shr_number_suffix]. exact ET. }
    destruct (nc =? c_dot).
    { apply shr_bind_tok. eapply shr_mono; [|apply shr_real_tail]. exact ET. }
    destruct (nc =? c_slash).
    { destruct (take_while is_digit r' (adv nc p1)) as [[den r2] p2] eqn:ET2. apply take_while_length in ET2.
      apply shr_peek_delim. destruct (parse_i32 (c :: ds)); [|apply shr_err].
      destruct (parse_i32 den) as [[| |]|]; try apply shr_err; apply shr_ok; cbn in *; lia. }
    apply shr_test_delimiter. destruct (parse_i32 (c :: ds)); [apply shr_ok; exact ET|apply shr_err].
Qed.

Lemma shr_lex_normal_ident : forall c l p, shr (length l) (lex_normal_ident c l p).
Proof.
  intros c l p. unfold lex_normal_ident, ident_tail.
  destruct (take_while is_subsequent l p) as [[cs r] p1] eqn:ET. apply take_while_length in ET.
  now apply shr_peek_delim, shr_ok.
Qed.

Lemma shr_dot_subsequent : forall id l p, shr (length l) (dot_subsequent id l p).
Proof.
  intros id l p. unfold dot_subsequent, ident_tail. destruct l as [|c r]; [now apply shr_ok|].
  destruct ((c =? c_plus) || (c =? c_minus) || (c =? c_dot) || (c =? c_at) || is_initial c).
  - destruct (take_while is_subsequent (c :: r) p) as [[cs r1] p1] eqn:ET. apply take_while_length in ET.
    destruct r1; [apply shr_err|]. now apply shr_test_delimiter, shr_ok.
  - apply shr_test_delimiter, shr_ok. lia.
Qed.

Lemma shr_lex_peculiar : forall c l p, shr (length l) (lex_peculiar c l p).
Proof.
  intros c l p. unfold lex_peculiar. pose proof (shr_dot_subsequent [c] l p) as H.
  destruct (dot_subsequent [c] l p) as [[[id r] p1]|k ll|s|]; cbn; try (intros a r0 p0 E; discriminate).
  apply shr_ok. exact (H id r p1 eq_refl).
Qed.

Lemma shr_lex_quoted_ident : forall l p acc, shr (length l) (lex_quoted_ident l p acc).
Proof.
  induction l as [|c l IH]; intros p acc; cbn [lex_quoted_ident]; [apply shr_err|].
  destruct (c =? c_bar); [apply shr_ok; cbn; lia|]. eapply shr_mono; [|apply IH]. cbn. lia.
Qed.

Lemma shr_lex_string : forall fuel l p acc, shr (length l) (lex_string fuel l p acc).
Proof.
  induction fuel as [|f IH]; intros l p acc; [intros a r p0 E; discriminate|]. cbn [lex_string].
  destruct l as [|c l]; [apply shr_err|].
  destruct (c =? c_dquote); [apply shr_ok; cbn; lia|].
  destruct (c =? c_backslash).
  - destruct l as [|ec l']; [apply shr_err|].
    repeat match goal with |- shr _ (if ?b then _ else _) => destruct b end;
      try apply shr_err; (eapply shr_mono; [|apply IH]; cbn; lia).
  - eapply shr_mono; [|apply IH]. cbn. lia.
Qed.

Lemma shr_sub : forall n (x : res (token * list char * pos)) (o : option (token * pos)) r p,
  shr n x -> (do y <- x ;; let '(t, r', p') := y in Ok (Some (t, p'), r', p')) = Ok (o, r, p) -> (length r <= n)%nat.
Proof.
  intros n [[[t r0] p0]|k l|s|] o r p H E; cbn in E; try discriminate. injection E as <- <- <-.
  exact (H t r0 p0 eq_refl).
Qed.

(** every token costs at least one character *)
Theorem lex_next_progress : forall fuel l p t tp r p',
  lex_next fuel l p = Ok (Some (t, tp), r, p') -> (length r < length l)%nat.
Proof.
  induction fuel as [|f IH]; intros l p t tp r p' H; [discriminate|]. rewrite lex_next_S in H.
  destruct l as [|c l0]; [discriminate|]. cbn [length]. cbv zeta in H.
  destruct (is_ws c).
  { destruct (take_while is_ws l0 (adv c p)) as [[a r'] p1] eqn:ET. apply take_while_length in ET.
    apply IH in H. lia. }
  destruct (c =? c_semi).
  { destruct (take_while not_eol l0 (adv c p)) as [[a r'] p1] eqn:ET. apply take_while_length in ET.
    apply IH in H. lia. }
  repeat match type of H with
         | (if ?b then _ else _) = _ => destruct b
         | match ?x with _ => _ end = _ => destruct x eqn:?
         end;
    try discriminate;
    try (injection H as <- <- <- <-; cbn [length]; lia);
    try (unfold lerr in H; discriminate);
    try (match type of H with
         | (do y <- ?x ;; _) = _ =>
             let K := fresh in
             assert (K : shr (length l0) x) by
               first [ apply shr_lex_peculiar | apply shr_lex_number | apply shr_lex_normal_ident
                     | apply shr_lex_quoted_ident | apply shr_lex_string ];
             pose proof (shr_sub _ _ _ _ _ K H); subst; cbn [length] in *; lia
         end).
  all: match type of H with
       | (do y <- ?x ;; _) = _ =>
           match x with
           | lex_peculiar _ ?lst _ => pose proof (shr_sub _ _ _ _ _ (shr_lex_peculiar _ lst _) H)
           | lex_number _ ?lst _ => pose proof (shr_sub _ _ _ _ _ (shr_lex_number _ lst _) H)
           end
       end; subst; cbn [length] in *; lia.
Qed.

Corollary lex_next_length : forall fuel l p o r p', lex_next fuel l p = Ok (o, r, p') -> (length r <= length l)%nat.
Proof.
  intros fuel l p [[t tp]|] r p' H; [apply lex_next_progress in H; lia|].
  revert l p H. induction fuel as [|f IH]; intros l p H; [discriminate|]. rewrite lex_next_S in H.
  destruct l as [|c l0]; [injection H as <- <-; cbn; lia|]. cbn [length]. cbv zeta in H.
  destruct (is_ws c).
  { destruct (take_while is_ws l0 (adv c p)) as [[a r'] p1] eqn:ET. apply take_while_length in ET.
    apply IH in H. lia. }
  destruct (c =? c_semi).
  { destruct (take_while not_eol l0 (adv c p)) as [[a r'] p1] eqn:ET. apply take_while_length in ET.
    apply IH in H. lia. }
  repeat match type of H with
         | (if ?b then _ else _) = _ => destruct b
         | match ?x with _ => _ end = _ => destruct x eqn:?
         end;
    try discriminate; try (unfold lerr in H; discriminate);
    try (injection H as <- <-; cbn [length]; lia);
    try (match type of H with
         | (do y <- ?x ;; _) = _ => destruct x as [[[? ?] ?]| | |]; cbn in H; discriminate
         end).
Qed.

(** * the reader's fuel is sufficient *)

Local Close Scope N_scope.

Definition L (s : pst) : nat := length (lrest s).

Lemma p_advance_ok : forall s, exists s1, p_advance s = Ok s1 \/ exists k l, p_advance s = Err k l.
Proof.
  intros s. unfold p_advance. pose proof (lex_next_total (lrest s) (lpos s)) as [NP NF].
  destruct (lex_next (lex_fuel (lrest s)) (lrest s) (lpos s)) as [[[o r] p]|k l|x|]; cbn.
  - eexists. left. reflexivity.
  - exists s. right. eauto.
  - exfalso. now apply (NP x).
  - exfalso. now apply NF.
Qed.

Lemma p_advance_shrinks : forall s s1, p_advance s = Ok s1 ->
  L s1 <= L s /\ (pcur s1 <> None -> L s1 < L s).
Proof.
  intros s s1 H. unfold p_advance in H.
  destruct (lex_next (lex_fuel (lrest s)) (lrest s) (lpos s)) as [[[o r] p]|k l|x|] eqn:E; cbn in H; try discriminate.
  injection H as <-. unfold L. cbn. split.
  - eapply lex_next_length; exact E.
  - intros Hn. destruct o as [[t tp]|]; [|now elim Hn]. eapply lex_next_progress; exact E.
Qed.

Lemma p_advance_noF : forall s, p_advance s <> OutOfFuel /\ forall x, p_advance s <> Panic x.
Proof.
  intros s. destruct (p_advance_ok s) as [s1 [H|[k [l H]]]]; rewrite H; split; try discriminate; intros; discriminate.
Qed.

Lemma p_peek_advance : forall s t, p_peek s = Ok (Some t) ->
  exists s1 tl, p_advance s = Ok s1 /\ pcur s1 = Some (t, tl).
Proof.
  intros s t H. unfold p_peek, p_advance in *.
  destruct (lex_next (lex_fuel (lrest s)) (lrest s) (lpos s)) as [[[o r] p]|k l|x|]; cbn in *; try discriminate.
  destruct o as [[t0 tl]|]; cbn in H; [|discriminate]. injection H as <-. eexists _, tl. split; reflexivity.
Qed.

Lemma p_peek_noF : forall s, p_peek s <> OutOfFuel /\ forall x, p_peek s <> Panic x.
Proof.
  intros s. unfold p_peek. pose proof (lex_next_total (lrest s) (lpos s)) as [NP NF].
  destruct (lex_next (lex_fuel (lrest s)) (lrest s) (lpos s)) as [[[o r] p]|k l|x|]; cbn.
  - split; [discriminate|intros; discriminate].
  - split; [discriminate|intros; discriminate].
  - exfalso. now apply (NP x).
  - exfalso. now apply NF.
Qed.

Lemma p_unwrap_shrinks : forall s t tl s1, p_advance_unwrap s = Ok (t, tl, s1) -> L s1 < L s.
Proof.
  intros s t tl s1 H. unfold p_advance_unwrap in H.
  destruct (p_advance s) as [s'|k l|x|] eqn:E; cbn in H; try discriminate.
  destruct (pcur s') as [[t0 tl0]|] eqn:EP; [|unfold lerr in H; discriminate]. injection H as <- <- <-.
  apply (proj2 (p_advance_shrinks _ _ E)). congruence.
Qed.

Lemma p_unwrap_fine : forall s, fine (p_advance_unwrap s).
Proof.
  intros s. unfold p_advance_unwrap. destruct (p_advance_noF s) as [NF NP].
  destruct (p_advance s) as [s'|k l|x|]; cbn.
  - destruct (pcur s') as [[t tl]|]; [apply fine_ok|apply fine_err].
  - apply fine_err.
  - exfalso. now apply (NP x).
  - exfalso. now apply NF.
Qed.

(** fine, and the remaining input does not grow *)
Definition good {A} (n : nat) (x : res (A * pst)) : Prop :=
  fine x /\ forall a s', x = Ok (a, s') -> L s' <= n.

Lemma good_err : forall {A} n k l, good n (@Err (A * pst) k l).
Proof. intros. split; [apply fine_err|intros a s' E; discriminate]. Qed.
Lemma good_ok : forall {A} n (a : A) s, L s <= n -> good n (Ok (a, s)).
Proof. intros A n a s H. split; [apply fine_ok|]. intros a' s' E. injection E as <- <-. exact H. Qed.
Lemma good_mono : forall {A} n m (x : res (A * pst)), n <= m -> good n x -> good m x.
Proof. intros A n m x Hle [H1 H2]. split; [exact H1|]. intros a s' E. specialize (H2 a s' E). lia. Qed.

Lemma good_map : forall {A B} n (x : res (A * pst)) (g : A -> pst -> B),
  good n x -> good n (do y <- x ;; let '(a, s1) := y in Ok (g a s1, s1)).
Proof.
  intros A B n [[a s1]|k l|xx|] g [[NP NF] H]; cbn.
  - apply good_ok. exact (H a s1 eq_refl).
  - apply good_err.
  - exfalso. now apply (NP xx).
  - exfalso. now apply NF.
Qed.

Record rd_ok (f : nat) : Prop := {
  r_cur : forall s, 4 * L s + 4 <= f -> good (L s) (read_current f s);
  r_quo : forall s, 4 * L s + 6 <= f \/ (pcur s = None /\ 2 <= f) -> good (L s) (read_quoted f s);
  r_dat : forall s, 4 * L s + 5 <= f \/ (pcur s = None /\ 1 <= f) -> good (L s) (read_datum f s);
  r_lst : forall s ll els per, 4 * L s + 3 <= f -> good (L s) (read_list f s ll els per);
  r_vec : forall s els, 4 * L s + 3 <= f -> good (L s) (read_vec f s els)
}.

Lemma rd_ok_0 : rd_ok 0.
Proof. split; intros; try lia; destruct H as [H|[_ H]]; lia. Qed.

Lemma take_cur_L : forall s, L (take_cur s) = L s.
Proof. reflexivity. Qed.

Lemma rd_ok_step : forall f, rd_ok f -> rd_ok (S f).
Proof.
  intros f IH. split.
  - (* read_current *)
    intros s Hf. cbn [read_current]. destruct (pcur s) as [[t tl]|] eqn:EP; [|now apply good_ok].
    destruct t; try apply good_err; try (apply good_ok; rewrite take_cur_L; lia).
    + (* ( *)
      pose proof (r_lst f IH (take_cur s) (ploc (take_cur s)) [] false ltac:(rewrite take_cur_L; lia)) as G.
      rewrite take_cur_L in G.
      destruct (read_list f (take_cur s) (ploc (take_cur s)) [] false) as [[d s1]|k l|x|]; cbn;
        [apply good_ok; exact (proj2 G d s1 eq_refl)|apply good_err| |]; destruct G as [[NP NF] _];
        exfalso; [now apply (NP x)|now apply NF].
    + (* #( *)
      pose proof (r_vec f IH (take_cur s) [] ltac:(rewrite take_cur_L; lia)) as G. rewrite take_cur_L in G.
      destruct (read_vec f (take_cur s) []) as [[v s1]|k l|x|]; cbn;
        [apply good_ok; exact (proj2 G v s1 eq_refl)|apply good_err| |]; destruct G as [[NP NF] _];
        exfalso; [now apply (NP x)|now apply NF].
    + (* ' *)
      destruct (p_advance_noF (take_cur s)) as [NF NP].
      destruct (p_advance (take_cur s)) as [s1|k l|x|] eqn:EA; cbn;
        [|apply good_err|exfalso; now apply (NP x)|exfalso; now apply NF].
      destruct (p_advance_shrinks _ _ EA) as [S1 S2]. rewrite take_cur_L in S1, S2.
      assert (G : good (L s1) (read_quoted f s1)).
      { apply (r_quo f IH). destruct (pcur s1) eqn:EP1; [left; specialize (S2 ltac:(discriminate)); lia|right; split; [reflexivity|lia]]. }
      destruct (read_quoted f s1) as [[d s2]|k l|x|]; cbn;
        [apply good_ok; pose proof (proj2 G d s2 eq_refl); lia|apply good_err| |]; destruct G as [[NP' NF'] _];
        exfalso; [now apply (NP' x)|now apply NF'].
  - (* read_quoted *)
    intros s Hf. cbn [read_quoted].
    assert (G : good (L s) (read_datum f s)).
    { apply (r_dat f IH). destruct Hf as [Hf|[Hn Hf]]; [left; lia|right; split; [exact Hn|lia]]. }
    destruct (read_datum f s) as [[d s1]|k l|x|]; cbn;
      [apply good_ok; exact (proj2 G d s1 eq_refl)|apply good_err| |]; destruct G as [[NP NF] _];
      exfalso; [now apply (NP x)|now apply NF].
  - (* read_datum *)
    intros s Hf. cbn [read_datum]. destruct (pcur s) as [[t tl]|] eqn:EP; [|apply good_err].
    assert (Hf' : 4 * L s + 4 <= f) by (destruct Hf as [Hf|[Hn _]]; [lia|discriminate]).
    destruct t; try apply good_err; try (apply good_ok; lia).
    + apply (r_lst f IH). lia.
    + pose proof (r_vec f IH s [] ltac:(lia)) as G.
      destruct (read_vec f s []) as [[v s1]|k l|x|]; cbn;
        [apply good_ok; exact (proj2 G v s1 eq_refl)|apply good_err| |]; destruct G as [[NP NF] _];
        exfalso; [now apply (NP x)|now apply NF].
    + destruct (p_advance_noF s) as [NF NP].
      destruct (p_advance s) as [s1|k l|x|] eqn:EA; cbn;
        [|apply good_err|exfalso; now apply (NP x)|exfalso; now apply NF].
      destruct (p_advance_shrinks _ _ EA) as [S1 S2].
      eapply good_mono; [exact S1|]. apply (r_quo f IH).
      destruct (pcur s1) eqn:EP1; [left; specialize (S2 ltac:(discriminate)); lia|right; split; [reflexivity|lia]].
  - (* read_list *)
    intros s ll els per Hf. cbn [read_list].
    pose proof (p_unwrap_fine s) as [NP NF].
    destruct (p_advance_unwrap s) as [[[t tl] s1]|k l|x|] eqn:EU; cbn;
      [|apply good_err|exfalso; now apply (NP x)|exfalso; now apply NF].
    pose proof (p_unwrap_shrinks _ _ _ _ EU) as S1.
    assert (Hcur : good (L s1) (read_current f s1)) by (apply (r_cur f IH); lia).
    assert (Hrest : forall s2 e p, L s2 <= L s1 -> good (L s) (read_list f s2 ll e p)).
    { intros s2 e p Hs2. eapply good_mono; [|apply (r_lst f IH); lia]. lia. }
    destruct t; try (apply Hrest; lia);
      try (destruct (read_current f s1) as [[[el|] s2]|k l|x|] eqn:ER; cbn;
           [pose proof (proj2 Hcur _ _ eq_refl) as S2;
            destruct els; [apply Hrest; lia|];
            destruct per; [|apply Hrest; lia];
            pose proof (p_unwrap_fine s2) as [NP2 NF2];
            destruct (p_advance_unwrap s2) as [[[t2 tl2] s3]|k2 l2|x2|] eqn:EU2; cbn;
              [pose proof (p_unwrap_shrinks _ _ _ _ EU2); destruct (token_eqb t2 TRParen); [apply good_ok; lia|apply good_err]
              |apply good_err|exfalso; now apply (NP2 x2)|exfalso; now apply NF2]
           |apply good_err|apply good_err
           |destruct Hcur as [[NPc _] _]; exfalso; now apply (NPc x)
           |destruct Hcur as [[_ NFc] _]; exfalso; now apply NFc]).
    + (* ) *) apply good_ok. lia.
    + (* . *) destruct per; [apply good_err|apply Hrest; lia].
  - (* read_vec *)
    intros s els Hf. cbn [read_vec]. destruct (p_peek_noF s) as [NF NP].
    destruct (p_peek s) as [[t|]|k l|x|] eqn:EK; cbn;
      [|apply good_err|apply good_err|exfalso; now apply (NP x)|exfalso; now apply NF].
    destruct (p_peek_advance _ _ EK) as [s1 [tl [EA EP]]].
    destruct (p_advance_shrinks _ _ EA) as [S1 S2]. specialize (S2 ltac:(congruence)).
    rewrite EA. cbn.
    assert (Go : good (L s) (do x <- read_datum f s1 ;; let '(d, s2) := x in read_vec f s2 (d :: els))).
    { pose proof (r_dat f IH s1 ltac:(left; lia)) as G.
      destruct (read_datum f s1) as [[d s2]|k l|x|]; cbn;
        [|apply good_err|destruct G as [[NP' _] _]; exfalso; now apply (NP' x)|destruct G as [[_ NF'] _]; exfalso; now apply NF'].
      pose proof (proj2 G d s2 eq_refl) as S3. eapply good_mono; [|apply (r_vec f IH); lia]. lia. }
    destruct t; try exact Go. apply good_ok. lia.
Qed.

Theorem rd_ok_all : forall f, rd_ok f.
Proof. induction f; [exact rd_ok_0|now apply rd_ok_step]. Qed.

(** the reader always answers: a datum, the end of input or a reported syntax error *)
Theorem read_next_total : forall s, fine (read_next s).
Proof.
  intros s. unfold read_next. destruct (p_advance_noF s) as [NF NP].
  destruct (p_advance s) as [s1|k l|x|] eqn:EA; cbn [bind];
    [|apply fine_err|exfalso; now apply (NP x)|exfalso; now apply NF].
  destruct (p_advance_shrinks _ _ EA) as [S1 _].
  apply (r_cur _ (rd_ok_all _)). unfold read_fuel. unfold L in *. clear - S1. revert S1. generalize (length (lrest s1)) (length (lrest s)). intros a b S1. lia.
Qed.

(** and it consumes its input: after a datum the remaining text is not longer than before *)
Theorem read_next_shrinks : forall s o s', read_next s = Ok (o, s') -> L s' <= L s.
Proof.
  intros s o s' H. unfold read_next in H.
  destruct (p_advance s) as [s1|k l|x|] eqn:EA; cbn [bind] in H; try discriminate.
  destruct (p_advance_shrinks _ _ EA) as [S1 _].
  assert (HF : 4 * L s1 + 4 <= read_fuel s) by (unfold read_fuel; unfold L in *; clear - S1; revert S1; generalize (length (lrest s1)) (length (lrest s)); intros a b S1; lia).
  pose proof (r_cur _ (rd_ok_all _) s1 HF) as [_ G].
  specialize (G o s' H). lia.
Qed.

(** a datum costs at least one character, so reading a whole text terminates within its fuel *)
Theorem read_next_progress : forall s d s', read_next s = Ok (Some d, s') -> L s' < L s.
Proof.
  intros s d s' H. unfold read_next in H.
  destruct (p_advance s) as [s1|k l|x|] eqn:EA; cbn [bind] in H; try discriminate.
  destruct (p_advance_shrinks _ _ EA) as [S1 S2].
  assert (HF : 4 * L s1 + 4 <= read_fuel s) by (unfold read_fuel; unfold L in *; clear - S1; revert S1; generalize (length (lrest s1)) (length (lrest s)); intros a b S1; lia).
  pose proof (r_cur _ (rd_ok_all _) s1 HF) as [_ G]. specialize (G _ _ H).
  destruct (pcur s1) eqn:EP; [specialize (S2 ltac:(discriminate)); lia|].
  unfold read_fuel in H. destruct (4 * S (length (lrest s)) + 8) eqn:EF; [lia|].
  cbn [read_current] in H. rewrite EP in H. discriminate.
Qed.

Theorem read_all_total : forall fuel s, L s < fuel -> fine (read_all fuel s).
Proof.
  induction fuel as [|f IH]; intros s Hf; [lia|]. cbn [read_all].
  pose proof (read_next_total s) as [NP NF].
  destruct (read_next s) as [[[d|] s1]|k l|x|] eqn:ER; cbn [bind];
    [|apply fine_ok|apply fine_err|exfalso; now apply (NP x)|exfalso; now apply NF].
  pose proof (read_next_progress _ _ _ ER) as P.
  apply fine_bind; [apply IH; lia|intros; apply fine_ok].
Qed.

Corollary read_text_total : forall text, fine (read_text text).
Proof. intros text. unfold read_text. apply read_all_total. unfold L, p_init. cbn. lia. Qed.
