(** C19: what the instances of one thread share in the model - the syntax table and the address
    space of the store - and which operations can touch which. *)
From Coq Require Import ZArith NArith List Bool Lia.
From RV Require Import Model.Common Model.Datum Model.Lexer Model.Reader Model.Macro Model.Ast Model.Transform
  Model.Value Model.Builtins Model.Eval Model.Interp Proofs.Basics Proofs.StoreProofs Proofs.ImportProofs Proofs.LoaderProofs.
Import ListNotations.

(** reading and transforming a form changes nothing but (possibly) the syntax table *)
Theorem parsing_touches_only_syntax : forall c s,
  c_st (snd (parse_next c s)) = c_st c /\ c_inst (snd (parse_next c s)) = c_inst c.
Proof.
  intros c s. unfold parse_next. destruct (read_next s) as [[[d|] s1]|k l|x|]; try (split; reflexivity).
  destruct (transform_stmt _ d [c_syn c]) as [r e']. destruct r; split; reflexivity.
Qed.

(** evaluating an expression or a definition never touches the syntax table nor the instance record *)
Theorem evaluation_keeps_syntax : forall fuel stm env c,
  c_syn (snd (eval_expr_or_def fuel stm env c)) = c_syn c /\
  c_inst (snd (eval_expr_or_def fuel stm env c)) = c_inst c.
Proof.
  intros fuel stm env c. unfold eval_expr_or_def. destruct stm; try (split; reflexivity).
  - destruct (eval_expr fuel e env (c_st c)) as [[v|k ll|y|] st]; split; reflexivity.
  - destruct (eval_expr fuel e env (c_st c)) as [[v|k ll|y|] st]; split; reflexivity.
Qed.

(** a new instance gets a root frame that did not exist before: no other instance's root frame,
    closure or library frame can be that frame *)
Theorem new_instance_fresh_root : forall base write bn wn st syn st' syn' inst,
  new_instance base write bn wn st syn = (Ok inst, st', syn') ->
  i_env inst = length (frames st) /\ nth_error (frames st) (i_env inst) = None /\
  i_in_progress inst = [] /\ i_import_end inst = false /\ i_progdir inst = None.
Proof.
  intros base write bn wn st syn st' syn' inst H. unfold new_instance in H.
  destruct (alloc_frame st None) as [env st1] eqn:EA.
  assert (Henv : env = length (frames st)) by (unfold alloc_frame in EA; now injection EA as <- _).
  unfold factory_from_text in H.
  match type of H with
  | (match find_library ?f ?n ?s ?c with _ => _ end) = _ =>
      pose proof (keeps_find_library f n s c) as K1; destruct (find_library f n s c) as [[fb|k l|x|] c1]
  end; try discriminate.
  match type of H with
  | (match find_library ?f ?n ?s ?c with _ => _ end) = _ =>
      pose proof (keeps_find_library f n s c) as K2; destruct (find_library f n s c) as [[fw|k l|x|] c2]
  end; try discriminate.
  injection H as <- _ _.
  destruct K1 as [A1 [A2 [A3 A4]]]. destruct K2 as [B1 [B2 [B3 B4]]]. cbn in *.
  assert (E : i_env (c_inst c2) = length (frames st)) by congruence.
  repeat split; try congruence.
  rewrite E. apply nth_error_None. lia.
Qed.

(** the only state two instances of a thread share besides the store's address space is the
    syntax table, and only the transformation of a form can change it; the evaluator proper
    (expressions, definitions, imports of already parsed libraries) cannot *)
Theorem import_of_cached_keeps_syntax : forall fs cwd efuel s c fuel l,
  import_list (cached c) s = Some l -> iset_depth s <= fuel ->
  snd (eval_import_set fs cwd fuel efuel s c) = c.
Proof. intros. now rewrite (eval_import_set_cached fs cwd efuel s c fuel l H H0). Qed.
