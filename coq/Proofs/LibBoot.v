(** C11/C13: after start-up (Interpreter::new_with_stdlib: a fresh root frame, the bundled libraries
    registered and (scheme base) (scheme write) imported) the state contains the frame of the
    library (scheme base) that the theorems of Proofs/Lib*.v assume ([has_library]), and the names
    of the list library are bound, in the root frame of the interpreter, to the closures those
    theorems are about. Computed from the text of base.sld / write.sld / grammar.sld that is in
    /repo now. *)
From Coq Require Import ZArith NArith List Bool Lia PeanoNat.
From RV Require Import Model.Common Model.Real32 Model.Num Model.Datum Model.Lexer Model.Reader Model.Macro
  Model.Ast Model.Transform Model.Value Model.Equal Model.Print Model.Builtins Model.Eval Model.Interp
  Spec.EvalSpec Spec.ListSpec Gen.GrammarSld Gen.BaseSld Gen.WriteSld Gen.NativeNames Proofs.Basics Proofs.EvalProofs Proofs.FuelProofs Proofs.DerivedProofs Proofs.LibBase.
Import ListNotations.

Definition boot : option (instance * state) :=
  match new_instance base_sld_text write_sld_text native_base_names native_write_names empty_state G with
  | (Ok i, st, syn) =>
      match import_stdlib [] [] {| c_inst := i; c_st := st; c_syn := syn |} with
      | (Ok _, c) => Some (c_inst c, c_st c)
      | _ => None
      end
  | _ => None
  end.

Definition booted : option (instance * state) := Eval vm_compute in boot.

Lemma booted_is_boot : boot = booted.
Proof. vm_compute. reflexivity. Qed.

(** the frame of (scheme base): the first frame allocated after the interpreter's root frame *)
Definition base_frame : nat := 1.

Definition boot_state : state := match booted with Some (_, st) => st | None => empty_state end.
Definition boot_root : nat := match booted with Some (i, _) => i_env i | None => 0 end.

Theorem boot_succeeds : exists i st, boot = Some (i, st).
Proof. rewrite booted_is_boot. vm_compute. eauto. Qed.

Theorem boot_has_library : has_library boot_state base_frame.
Proof.
  unfold has_library. eexists. split; [vm_compute; reflexivity|]. split.
  - repeat (apply Forall_cons; [vm_compute; reflexivity|]). apply Forall_nil.
  - repeat (apply Forall_cons; [vm_compute; reflexivity|]). apply Forall_nil.
Qed.

(** the exported names of the list library, as seen from the interpreter's root frame, are the
    library's closures *)
Definition exported_list_procs : list (list Z) := [
  [99;97;97;114]; [99;97;100;114]; [99;100;97;114]; [99;100;100;114];
  [99;97;97;97;114]; [99;97;97;100;114]; [99;97;100;97;114]; [99;97;100;100;114];
  [99;100;97;97;114]; [99;100;97;100;114]; [99;100;100;97;114]; [99;100;100;100;114];
  [108;105;115;116]; [109;97;107;101;45;108;105;115;116]; [110;117;108;108;63]; [97;112;112;101;110;100];
  [109;97;112]; [102;111;114;45;101;97;99;104]; [102;111;108;100;45;108;101;102;116];
  [102;111;108;100;45;114;105;103;104;116]; [108;105;115;116;45;116;97;105;108]; [108;105;115;116;45;114;101;102];
  [108;97;115;116;45;112;97;105;114]; [104;101;97;100]; [97;116;111;109;63]; [109;101;109;113]; [109;101;109;118];
  [101;113;117;97;108;63]; [108;105;115;116;63]]%Z.

Theorem boot_binds_library : Forall (fun name =>
    exists c, code_of name = Some c /\ env_get boot_state boot_root (s name) = Some (closure c base_frame))
  exported_list_procs.
Proof.
  repeat (apply Forall_cons; [eexists; split; vm_compute; reflexivity|]). apply Forall_nil.
Qed.

(** what a theorem [lib_call name args y] means for the evaluator of the model (Proofs/FuelProofs.v):
    applied in any state that holds the library, the closure returns [y] for every sufficiently
    large fuel, any answer other than a timeout is [y], and the final state only has more frames *)
Theorem lib_call_runs : forall name args y, lib_call name args y ->
  forall st lf, has_library st lf ->
  exists c st', code_of name = Some c /\ keeps st st' /\
    (forall env, exists n, forall fuel, n <= fuel -> apply_proc fuel (closure c lf) args env st = (Ok y, st')) /\
    (forall fuel env r st1, apply_proc fuel (closure c lf) args env st = (r, st1) -> r <> OutOfFuel ->
       r = Ok y /\ st1 = st').
Proof.
  intros name args y [c [Hc H]] st lf HL. destruct (H st lf HL) as [st' [Happ K]].
  exists c, st'. split; [exact Hc|]. split; [exact K|]. split.
  - intros env. eapply Proofs.FuelProofs.app_complete. exact Happ.
  - intros fuel env r st1 E N. eapply Proofs.FuelProofs.apply_decided_by_rules; eassumption.
Qed.

(** in particular in the state after start-up *)
Theorem lib_call_after_boot : forall name args y, lib_call name args y ->
  exists c st', code_of name = Some c /\
    (forall env, exists n, forall fuel, n <= fuel ->
       apply_proc fuel (closure c base_frame) args env boot_state = (Ok y, st')).
Proof.
  intros name args y H. destruct (lib_call_runs name args y H boot_state base_frame boot_has_library)
    as [c [st' [Hc [_ [Hrun _]]]]]. exists c, st'. now split.
Qed.
