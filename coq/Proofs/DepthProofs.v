(** C02: the depth-instrumented evaluator (Model/EvalD.v).
    - it computes the same values and states as the plain evaluator (erasure), so everything
      proved about Model/Eval.v (C01) holds for it;
    - every function returns at the depth at which it was entered;
    - all iterations of a trampoline run start at the same depth, so the depth reached by a
      loop of tail calls is the maximum over single iterations, whatever their number. *)
From Coq Require Import ZArith NArith List Bool Lia.
From RV Require Import Model.Common Model.Real32 Model.Num Model.Datum Model.Macro Model.Ast
  Model.Value Model.Builtins Model.Eval Model.EvalD Spec.EvalSpec Proofs.Basics Proofs.EvalProofs.
Import ListNotations.

Lemma deval_expr_S : forall f e env st d, deval_expr (S f) e env st d =
  (dguard d (fun d =>
      match e with
      | EPrim p _ => (eval_primitive p, st, d)
      | EDatum q _ => dlift (read_literal q st) d
      | EQuote q _ => dlift (read_literal q st) d
      | ECall fe args _ =>
          dod (first, st1, d1) <- deval_expr f fe env st d ;;
          let '(rargs, st2, d2) := deval_args f args env st1 d1 in
          match first with
          | VProcU _ _ _ _ | VProcB _ =>
              dod (vs, st3, d3) <- (rargs, st2, d2) ;; dapply_proc f first vs env st3 d3
          | _ => match rargs with
                 | OutOfFuel => (OutOfFuel, st2, d2)
                 | _ => (lerr TypeMisMatch (eloc fe), st2, d2)
                 end
          end
      | ESet x ve _ =>
          dod (v, st1, d1) <- deval_expr f ve env st d ;;
          match env_set st1 env x v with
          | Some st2 => (Ok VVoid, st2, d1)
          | None => (err UnboundedSymbol, st1, d1)
          end
      | ELambda fm defs body _ => (Ok (VProcU fm defs body env), st, d)
      | EIf c t alt _ =>
          dod (cv, st1, d1) <- deval_expr f c env st d ;;
          if truthy cv then deval_expr f t env st1 d1
          else match alt with
               | Some a => deval_expr f a env st1 d1
               | None => (Ok VVoid, st1, d1)
               end
      | ESym x l =>
          match env_get st env x with
          | Some v => (Ok v, st, d)
          | None => (lerr UnboundedSymbol l, st, d)
          end
      end)).
Proof. reflexivity. Qed.

Lemma deval_args_S : forall f args env st d, deval_args (S f) args env st d =
  (match args with
      | [] => (Ok [], st, d)
      | a :: r =>
          dod (v, st1, d1) <- deval_expr f a env st d ;;
          dod (vs, st2, d2) <- deval_args f r env st1 d1 ;;
          (Ok (v :: vs), st2, d2)
      end).
Proof. reflexivity. Qed.

Lemma deval_tail_S : forall f e env st d, deval_tail (S f) e env st d =
  (dguard d (fun d =>
      match e with
      | ECall fe args _ => (Ok (TRCall fe args env), st, d)
      | EIf c t alt _ =>
          dod (cv, st1, d1) <- deval_expr f c env st d ;;
          if truthy cv then deval_tail f t env st1 d1
          else match alt with
               | Some a => deval_tail f a env st1 d1
               | None => (Ok (TRValue VVoid), st1, d1)
               end
      | _ => dod (v, st1, d1) <- deval_expr f e env st d ;; (Ok (TRValue v), st1, d1)
      end)).
Proof. reflexivity. Qed.

Lemma dapply_scheme_S : forall f fm defs body closure args st d, dapply_scheme (S f) fm defs body closure args st d =
  (dguard d (fun d =>
      let '(local, st0) := alloc_frame st (Some closure) in
      match bind_fixed st0 local (f_fixed fm) args with
      | Ok (surplus, st1) =>
          let st2 := match f_rest fm with
                     | Some r => env_define st1 local r (vlist surplus)
                     | None => st1
                     end in
          dod (_, st3, d3) <- deval_defs f defs local st2 d ;;
          deval_body f body local st3 d3
      | Err k l => (Err k l, st0, d)
      | Panic x => (Panic x, st0, d)
      | OutOfFuel => (OutOfFuel, st0, d)
      end)).
Proof. reflexivity. Qed.

Lemma deval_defs_S : forall f defs env st d, deval_defs (S f) defs env st d =
  (match defs with
      | [] => (Ok tt, st, d)
      | (x, e, _) :: r =>
          dod (v, st1, d1) <- deval_expr f e env st d ;;
          deval_defs f r env (env_define st1 env x v) d1
      end).
Proof. reflexivity. Qed.

Lemma deval_body_S : forall f body env st d, deval_body (S f) body env st d =
  (match body with
      | [] => (Panic PEmptyBody, st, d)
      | [last] => deval_tail f last env st d
      | e :: r => dod (_, st1, d1) <- deval_expr f e env st d ;; deval_body f r env st1 d1
      end).
Proof. reflexivity. Qed.

Lemma dapply_proc_S : forall f p args env st d, dapply_proc (S f) p args env st d =
  (dguard d (fun d => dtramp f p args env st d)).
Proof. reflexivity. Qed.

Lemma dtramp_S : forall f p args env st d, dtramp (S f) p args env st d =
  (match proc_arity p with
      | None => (Panic PUnmodelled, st, d)
      | Some (fixed, variadic) =>
          if negb (arity_ok (length args) fixed variadic) then (err ArgumentMissMatch, st, d)
          else
            match p with
            | VProcB name =>
                if str_eqb name apply_name then dbuiltin_apply f args env st d
                else dlift (builtin_call name args st) d
            | VProcU fm defs body closure =>
                dod (tr, st1, d1) <- dapply_scheme f fm defs body closure args st d ;;
                match tr with
                | TRValue v => (Ok v, st1, d1)
                | TRCall fe aes last_env =>
                    dod (first, st2, d2) <- deval_expr f fe last_env st1 d1 ;;
                    dod (vs, st3, d3) <- deval_args f aes last_env st2 d2 ;;
                    match first with
                    | VProcU _ _ _ _ | VProcB _ => dtramp f first vs env st3 d3
                    | _ => (lerr TypeMisMatch (eloc fe), st3, d3)
                    end
                end
            | _ => (Panic PUnmodelled, st, d)
            end
      end).
Proof. reflexivity. Qed.

Lemma dbuiltin_apply_S : forall f args env st d, dbuiltin_apply (S f) args env st d =
  (dguard d (fun d =>
      match args with
      | [] => (Panic PBuiltinArg, st, d)
      | p :: rest =>
          match p with
          | VProcU _ _ _ _ | VProcB _ =>
              match rev rest with
              | [] => dapply_proc f p [] env st d
              | last :: init_rev =>
                  match last with
                  | VNil | VPair _ _ => dapply_proc f p (rev init_rev ++ vitems last) env st d
                  | _ => (err TypeMisMatch, st, d)
                  end
              end
          | _ => (err TypeMisMatch, st, d)
          end
      end)).
Proof. reflexivity. Qed.


(** ** erasure *)
Definition proj {A} (x : dres A) : eres A := (fst (fst x), snd (fst x)).

Lemma proj_dbind : forall {A B} (m : dres A) (k : A -> state -> dstate -> dres B) (k' : A -> state -> eres B),
  (forall a st d, proj (k a st d) = k' a st) ->
  proj (dbind m k) = ebind (proj m) k'.
Proof. intros A B [[[a|kk l|s|] st] d] k k' H; cbn; auto. Qed.

Lemma proj_dguard : forall {A} d (k : dstate -> dres A) (x : eres A),
  (forall d0, proj (k d0) = x) -> proj (dguard d k) = x.
Proof.
  intros A d k x H. unfold dguard. specialize (H (denter d)).
  destruct (k (denter d)) as [[r st] d']. exact H.
Qed.

Lemma proj_dlift : forall {A} (r : eres A) d, proj (dlift r d) = r.
Proof. intros A [x st] d. reflexivity. Qed.

Record erase_at (f : nat) : Prop := {
  e_expr : forall e env st d, proj (deval_expr f e env st d) = eval_expr f e env st;
  e_args : forall es env st d, proj (deval_args f es env st d) = eval_args f es env st;
  e_tail : forall e env st d, proj (deval_tail f e env st d) = eval_tail f e env st;
  e_scheme : forall fm defs body closure args st d,
      proj (dapply_scheme f fm defs body closure args st d) = apply_scheme f fm defs body closure args st;
  e_defs : forall defs env st d, proj (deval_defs f defs env st d) = eval_defs f defs env st;
  e_body : forall body env st d, proj (deval_body f body env st d) = eval_body f body env st;
  e_proc : forall p args env st d, proj (dapply_proc f p args env st d) = apply_proc f p args env st;
  e_tramp : forall p args env st d, proj (dtramp f p args env st d) = tramp f p args env st;
  e_bapply : forall args env st d, proj (dbuiltin_apply f args env st d) = builtin_apply f args env st
}.

Lemma erase_0 : erase_at 0.
Proof. split; intros; reflexivity. Qed.

Lemma erase_step : forall f, erase_at f -> erase_at (S f).
Proof.
  intros f IH. split.
  - (* expr *)
    intros e env st d. rewrite deval_expr_S, eval_expr_S. apply proj_dguard. intros d0.
    destruct e as [x l|p l|x ve l|fm defs body l|fe args l|c t alt l|q l|q l]; try reflexivity.
    + destruct (env_get st env x); reflexivity.
    + erewrite proj_dbind; [rewrite (e_expr f IH); reflexivity|].
      intros a st1 d1. cbv beta. destruct (env_set st1 env x a); reflexivity.
    + erewrite proj_dbind; [rewrite (e_expr f IH); reflexivity|].
      intros fv st1 d1. cbv beta.
      pose proof (e_args f IH args env st1 d1) as EA.
      destruct (deval_args f args env st1 d1) as [[rargs st2] d2].
      unfold proj in EA. cbn [fst snd] in EA. rewrite <- EA.
      destruct fv; try (destruct rargs; reflexivity).
      * destruct rargs as [vs|kk ll|ss|]; cbn; try reflexivity. apply (e_proc f IH).
      * destruct rargs as [vs|kk ll|ss|]; cbn; try reflexivity. apply (e_proc f IH).
    + erewrite proj_dbind; [rewrite (e_expr f IH); reflexivity|].
      intros cv st1 d1. cbv beta. destruct (truthy cv); [apply (e_expr f IH)|].
      destruct alt; [apply (e_expr f IH)|reflexivity].
    + apply proj_dlift.
    + apply proj_dlift.
  - (* args *)
    intros es env st d. rewrite deval_args_S, eval_args_S. destruct es as [|a r]; [reflexivity|].
    erewrite proj_dbind; [rewrite (e_expr f IH); reflexivity|].
    intros v st1 d1. cbv beta.
    erewrite proj_dbind; [rewrite (e_args f IH); reflexivity|]. reflexivity.
  - (* tail *)
    intros e env st d. rewrite deval_tail_S, eval_tail_S. apply proj_dguard. intros d0.
    destruct e as [x l|p l|x ve l|fm defs body l|fe args l|c t alt l|q l|q l];
      try (erewrite proj_dbind; [rewrite (e_expr f IH); reflexivity|]; reflexivity); try reflexivity.
    erewrite proj_dbind; [rewrite (e_expr f IH); reflexivity|].
    intros cv st1 d1. cbv beta. destruct (truthy cv); [apply (e_tail f IH)|].
    destruct alt; [apply (e_tail f IH)|reflexivity].
  - (* scheme *)
    intros fm defs body closure args st d. rewrite dapply_scheme_S, apply_scheme_S.
    apply proj_dguard. intros d0.
    destruct (alloc_frame st (Some closure)) as [local st0].
    destruct (bind_fixed st0 local (f_fixed fm) args) as [[surplus st1]|k l|s|]; try reflexivity.
    cbv zeta. erewrite proj_dbind; [rewrite (e_defs f IH); reflexivity|].
    intros u st3 d3. apply (e_body f IH).
  - (* defs *)
    intros defs env st d. rewrite deval_defs_S, eval_defs_S. destruct defs as [|[[x e] l] r]; [reflexivity|].
    erewrite proj_dbind; [rewrite (e_expr f IH); reflexivity|].
    intros v st1 d1. apply (e_defs f IH).
  - (* body *)
    intros body env st d. rewrite deval_body_S, eval_body_S. destruct body as [|e [|e2 es]]; [reflexivity| |].
    + apply (e_tail f IH).
    + erewrite proj_dbind; [rewrite (e_expr f IH); reflexivity|].
      intros v st1 d1. apply (e_body f IH).
  - (* proc *)
    intros p args env st d. rewrite dapply_proc_S, apply_proc_S. apply proj_dguard. intros d0.
    apply (e_tramp f IH).
  - (* tramp *)
    intros p args env st d. rewrite dtramp_S, tramp_S.
    destruct (proc_arity p) as [[fixed variadic]|]; [|reflexivity].
    destruct (negb (arity_ok (length args) fixed variadic)); [reflexivity|].
    destruct p; try reflexivity.
    + erewrite proj_dbind; [rewrite (e_scheme f IH); reflexivity|].
      intros tr st1 d1. cbv beta. destruct tr as [v|fe aes last_env]; [reflexivity|].
      erewrite proj_dbind; [rewrite (e_expr f IH); reflexivity|].
      intros first st2 d2. cbv beta.
      erewrite proj_dbind; [rewrite (e_args f IH); reflexivity|].
      intros vs st3 d3. cbv beta. destruct first; try reflexivity; apply (e_tramp f IH).
    + destruct (str_eqb name apply_name); [apply (e_bapply f IH)|apply proj_dlift].
  - (* builtin apply *)
    intros args env st d. rewrite dbuiltin_apply_S, builtin_apply_S. apply proj_dguard. intros d0.
    destruct args as [|p rest]; [reflexivity|].
    destruct p; try reflexivity.
    + destruct (rev rest) as [|last init_rev]; [apply (e_proc f IH)|].
      destruct last; try reflexivity; apply (e_proc f IH).
    + destruct (rev rest) as [|last init_rev]; [apply (e_proc f IH)|].
      destruct last; try reflexivity; apply (e_proc f IH).
Qed.

Theorem erase_all : forall f, erase_at f.
Proof. induction f; [exact erase_0|now apply erase_step]. Qed.

(** ** depth discipline *)

(** [dle d d']: same current depth, maximum not smaller *)
Definition dle (d d' : dstate) : Prop := fst d' = fst d /\ snd d <= snd d'.
Definition dfin {A} (x : dres A) : dstate := snd x.

Lemma dle_refl : forall d, dle d d.
Proof. intros; split; [reflexivity|lia]. Qed.
Lemma dle_trans : forall a b c, dle a b -> dle b c -> dle a c.
Proof. unfold dle. intros a b c [H1 H2] [H3 H4]. split; [congruence|lia]. Qed.

Lemma dle_dbind : forall {A B} d (m : dres A) (k : A -> state -> dstate -> dres B),
  dle d (dfin m) -> (forall a st d1, dle d1 (dfin (k a st d1))) -> dle d (dfin (dbind m k)).
Proof.
  intros A B d [[[a|kk l|s|] st] d1] k H K; cbn in *; try exact H.
  eapply dle_trans; [exact H|apply K].
Qed.

Lemma dle_dguard : forall {A} d (k : dstate -> dres A),
  (forall d0, dle d0 (dfin (k d0))) -> dle d (dfin (dguard d k)).
Proof.
  intros A d k H. unfold dguard. specialize (H (denter d)).
  destruct (k (denter d)) as [[r st] d']. unfold dle, dfin, denter, dleave in *. cbn in *.
  destruct H as [H1 H2]. rewrite H1. cbn. split; [reflexivity|lia].
Qed.

Lemma dle_dlift : forall {A} (r : eres A) d, dle d (dfin (dlift r d)).
Proof. intros A [x st] d. apply dle_refl. Qed.

Record restore_at (f : nat) : Prop := {
  r_expr : forall e env st d, dle d (dfin (deval_expr f e env st d));
  r_args : forall es env st d, dle d (dfin (deval_args f es env st d));
  r_tail : forall e env st d, dle d (dfin (deval_tail f e env st d));
  r_scheme : forall fm defs body closure args st d, dle d (dfin (dapply_scheme f fm defs body closure args st d));
  r_defs : forall defs env st d, dle d (dfin (deval_defs f defs env st d));
  r_body : forall body env st d, dle d (dfin (deval_body f body env st d));
  r_proc : forall p args env st d, dle d (dfin (dapply_proc f p args env st d));
  r_tramp : forall p args env st d, dle d (dfin (dtramp f p args env st d));
  r_bapply : forall args env st d, dle d (dfin (dbuiltin_apply f args env st d))
}.

Lemma restore_0 : restore_at 0.
Proof. split; intros; apply dle_refl. Qed.

Lemma restore_step : forall f, restore_at f -> restore_at (S f).
Proof.
  intros f IH. split.
  - intros e env st d. rewrite deval_expr_S. apply dle_dguard. intros d0.
    destruct e as [x l|p l|x ve l|fm defs body l|fe args l|c t alt l|q l|q l]; try apply dle_refl.
    + destruct (env_get st env x); apply dle_refl.
    + apply dle_dbind; [apply (r_expr f IH)|]. intros a st1 d1. destruct (env_set st1 env x a); apply dle_refl.
    + apply dle_dbind; [apply (r_expr f IH)|]. intros fv st1 d1.
      pose proof (r_args f IH args env st1 d1) as RA.
      destruct (deval_args f args env st1 d1) as [[rargs st2] d2]. unfold dfin in RA. cbn [snd] in RA.
      assert (G : forall (x : dres value), dle d2 (dfin x) -> dle d1 (dfin x))
        by (intros x Hx; eapply dle_trans; eassumption).
      destruct fv; try (destruct rargs; apply G; apply dle_refl);
        (destruct rargs as [vs|kk ll|ss|]; apply G; cbn; try apply dle_refl; apply (r_proc f IH)).
    + apply dle_dbind; [apply (r_expr f IH)|]. intros cv st1 d1.
      destruct (truthy cv); [apply (r_expr f IH)|]. destruct alt; [apply (r_expr f IH)|apply dle_refl].
    + apply dle_dlift.
    + apply dle_dlift.
  - intros es env st d. rewrite deval_args_S. destruct es as [|a r]; [apply dle_refl|].
    apply dle_dbind; [apply (r_expr f IH)|]. intros v st1 d1.
    apply dle_dbind; [apply (r_args f IH)|]. intros; apply dle_refl.
  - intros e env st d. rewrite deval_tail_S. apply dle_dguard. intros d0.
    destruct e as [x l|p l|x ve l|fm defs body l|fe args l|c t alt l|q l|q l];
      try (apply dle_dbind; [apply (r_expr f IH)|]; intros; apply dle_refl); try apply dle_refl.
    apply dle_dbind; [apply (r_expr f IH)|]. intros cv st1 d1.
    destruct (truthy cv); [apply (r_tail f IH)|]. destruct alt; [apply (r_tail f IH)|apply dle_refl].
  - intros fm defs body closure args st d. rewrite dapply_scheme_S. apply dle_dguard. intros d0.
    destruct (alloc_frame st (Some closure)) as [local st0].
    destruct (bind_fixed st0 local (f_fixed fm) args) as [[surplus st1]|k l|s|]; try apply dle_refl.
    cbv zeta. apply dle_dbind; [apply (r_defs f IH)|]. intros. apply (r_body f IH).
  - intros defs env st d. rewrite deval_defs_S. destruct defs as [|[[x e] l] r]; [apply dle_refl|].
    apply dle_dbind; [apply (r_expr f IH)|]. intros. apply (r_defs f IH).
  - intros body env st d. rewrite deval_body_S. destruct body as [|e [|e2 es]]; [apply dle_refl| |].
    + apply (r_tail f IH).
    + apply dle_dbind; [apply (r_expr f IH)|]. intros. apply (r_body f IH).
  - intros p args env st d. rewrite dapply_proc_S. apply dle_dguard. intros. apply (r_tramp f IH).
  - intros p args env st d. rewrite dtramp_S.
    destruct (proc_arity p) as [[fixed variadic]|]; [|apply dle_refl].
    destruct (negb (arity_ok (length args) fixed variadic)); [apply dle_refl|].
    destruct p; try apply dle_refl.
    + apply dle_dbind; [apply (r_scheme f IH)|]. intros tr st1 d1.
      destruct tr as [v|fe aes last_env]; [apply dle_refl|].
      apply dle_dbind; [apply (r_expr f IH)|]. intros first st2 d2.
      apply dle_dbind; [apply (r_args f IH)|]. intros vs st3 d3.
      destruct first; try apply dle_refl; apply (r_tramp f IH).
    + destruct (str_eqb name apply_name); [apply (r_bapply f IH)|apply dle_dlift].
  - intros args env st d. rewrite dbuiltin_apply_S. apply dle_dguard. intros d0.
    destruct args as [|p rest]; [apply dle_refl|].
    destruct p; try apply dle_refl;
      (destruct (rev rest) as [|last init_rev]; [apply (r_proc f IH)|];
       destruct last; try apply dle_refl; apply (r_proc f IH)).
Qed.

Theorem restore_all : forall f, restore_at f.
Proof. induction f; [exact restore_0|now apply restore_step]. Qed.

(** every function of the evaluator returns at the depth at which it was entered *)
Corollary depth_restored_expr : forall f e env st d r st' d',
  deval_expr f e env st d = (r, st', d') -> fst d' = fst d /\ snd d <= snd d'.
Proof. intros f e env st d r st' d' H. pose proof (r_expr f (restore_all f) e env st d) as R. rewrite H in R. exact R. Qed.

(** ** the trampoline: one loop iteration after the other, all at the same depth *)

(** a tail call does not consume depth: the procedure reached through a tail call is entered by
    the same loop, at the depth at which the calling procedure was entered *)
Theorem tail_call_no_depth : forall f fm defs body closure args env st d fe aes le st1 d1 first st2 d2 vs st3 d3,
  arity_ok (length args) (length (f_fixed fm)) (match f_rest fm with Some _ => true | None => false end) = true ->
  dapply_scheme f fm defs body closure args st d = (Ok (TRCall fe aes le), st1, d1) ->
  deval_expr f fe le st1 d1 = (Ok first, st2, d2) ->
  deval_args f aes le st2 d2 = (Ok vs, st3, d3) ->
  is_proc first = true ->
  dtramp (S f) (VProcU fm defs body closure) args env st d = dtramp f first vs env st3 d3 /\
  fst d3 = fst d.
Proof.
  intros f fm defs body closure args env st d fe aes le st1 d1 first st2 d2 vs st3 d3 HA H1 H2 H3 HP.
  split.
  - rewrite dtramp_S. cbn [proc_arity]. rewrite HA. cbn [negb]. rewrite H1. cbn [dbind].
    rewrite H2. cbn [dbind]. rewrite H3. cbn [dbind]. destruct first; try discriminate HP; reflexivity.
  - pose proof (r_scheme f (restore_all f) fm defs body closure args st d) as R1. rewrite H1 in R1.
    pose proof (r_expr f (restore_all f) fe le st1 d1) as R2. rewrite H2 in R2.
    pose proof (r_args f (restore_all f) aes le st2 d2) as R3. rewrite H3 in R3.
    unfold dle, dfin in *. cbn in *. destruct R1, R2, R3. congruence.
Qed.

(** the loop rule: if one iteration - body up to its tail position, then operator and operands
    of the tail call - stays within depth [D] above the depth at which the loop runs and leads
    to a procedure and arguments that satisfy the invariant again, then the whole run stays
    within [D], however many iterations it makes. *)
Section LoopRule.
  Variable Inv : value -> list value -> state -> Prop.
  Variable D : nat.

  Definition within (d0 d : dstate) : Prop := snd d <= Nat.max (snd d0) (fst d0 + D).

  Hypothesis Inv_not_apply : forall args st, ~ Inv (VProcB apply_name) args st.

  Hypothesis iteration : forall f fm defs body closure args st d,
    Inv (VProcU fm defs body closure) args st ->
    match dapply_scheme f fm defs body closure args st d with
    | (Ok (TRCall fe aes le), st1, d1) =>
        match deval_expr f fe le st1 d1 with
        | (Ok first, st2, d2) =>
            match deval_args f aes le st2 d2 with
            | (Ok vs, st3, d3) => within d d3 /\ (is_proc first = true -> Inv first vs st3)
            | (_, _, d3) => within d d3
            end
        | (_, _, d2) => within d d2
        end
    | (_, _, d1) => within d d1
    end.

  Theorem loop_bounded_depth : forall f p args env st d,
    Inv p args st -> within d (dfin (dtramp f p args env st d)).
  Proof.
    induction f as [|f IH]; intros p args env st d HI.
    - unfold within, dfin. cbn. lia.
    - rewrite dtramp_S.
      destruct (proc_arity p) as [[fixed variadic]|]; [|unfold within, dfin; cbn; lia].
      destruct (negb (arity_ok (length args) fixed variadic)); [unfold within, dfin; cbn; lia|].
      destruct p; try (unfold within, dfin; cbn; lia).
      + specialize (iteration f fm defs body env0 args st d HI).
        pose proof (r_scheme f (restore_all f) fm defs body env0 args st d) as R1.
        destruct (dapply_scheme f fm defs body env0 args st d) as [[rt st1] d1].
        destruct rt as [[v|fe aes le]|kk ll|ss|]; cbn [dbind]; try exact iteration.
        pose proof (r_expr f (restore_all f) fe le st1 d1) as R2.
        destruct (deval_expr f fe le st1 d1) as [[rf st2] d2].
        destruct rf as [first|kk ll|ss|]; cbn [dbind]; try exact iteration.
        pose proof (r_args f (restore_all f) aes le st2 d2) as R3.
        destruct (deval_args f aes le st2 d2) as [[ra st3] d3].
        destruct ra as [vs|kk ll|ss|]; cbn [dbind]; try exact iteration.
        destruct iteration as [W NI].
        assert (E3 : fst d3 = fst d).
        { unfold dle, dfin in *. cbn in *. destruct R1, R2, R3. congruence. }
        destruct (is_proc first) eqn:EP.
        * assert (G : within d3 (dfin (dtramp f first vs env st3 d3))) by (apply IH; now apply NI).
          assert (G2 : within d (dfin (dtramp f first vs env st3 d3))).
          { unfold within in *. rewrite E3 in G. lia. }
          destruct first; try discriminate EP; exact G2.
        * destruct first; try discriminate EP; exact W.
      + destruct (str_eqb name apply_name) eqn:EN.
        * apply str_eqb_eq in EN. subst name. exfalso. eapply Inv_not_apply; eassumption.
        * destruct (builtin_call name args st). unfold within, dfin. cbn. lia.
  Qed.
End LoopRule.
