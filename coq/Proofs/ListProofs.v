(** C11: the native part of the list library (car cdr cons eqv? apply) and the list values. *)
From Coq Require Import ZArith NArith List Bool Lia.
From RV Require Import Model.Common Model.Real32 Model.Num Model.Datum Model.Macro Model.Ast
  Model.Value Model.Print Model.Builtins Model.Eval Spec.EvalSpec Proofs.Basics.
Import ListNotations.

Definition n_car : str := s [99;97;114]%Z.
Definition n_cdr : str := s [99;100;114]%Z.
Definition n_cons : str := s [99;111;110;115]%Z.
Definition n_eqv : str := s [101;113;118;63]%Z.

Theorem car_of_pair : forall a b st, builtin_call n_car [VPair a b] st = (Ok a, st).
Proof. reflexivity. Qed.
Theorem cdr_of_pair : forall a b st, builtin_call n_cdr [VPair a b] st = (Ok b, st).
Proof. reflexivity. Qed.
Theorem cons_builds_pair : forall a b st, builtin_call n_cons [a; b] st = (Ok (VPair a b), st).
Proof. reflexivity. Qed.

(** car and cdr of anything that is not a pair (the empty list included) is an error, never a value *)
Theorem car_of_non_pair : forall v st, (forall a b, v <> VPair a b) ->
  builtin_call n_car [v] st = (Err TypeMisMatch None, st).
Proof. intros v st H. destruct v; try reflexivity. exfalso. now apply (H v1 v2). Qed.
Theorem cdr_of_non_pair : forall v st, (forall a b, v <> VPair a b) ->
  builtin_call n_cdr [v] st = (Err TypeMisMatch None, st).
Proof. intros v st H. destruct v; try reflexivity. exfalso. now apply (H v1 v2). Qed.

(** the elements of a proper list value are its items; (apply p a ... l) passes them on *)
Lemma vitems_vlist : forall l, vitems (vlist l) = l.
Proof.
  induction l as [|x r IH]; [reflexivity|]. cbn [vlist vitems].
  destruct r as [|y r']; [reflexivity|]. cbn [vlist] in *. now rewrite IH.
Qed.

Theorem apply_spreads_the_list : forall st p init l r st',
  is_proc p = true -> app st p (init ++ l) r st' ->
  app st (VProcB apply_name) (p :: init ++ [vlist l]) r st'.
Proof.
  intros st p init l r st' Hp H. apply app_apply; [exact Hp|destruct l; reflexivity|].
  now rewrite vitems_vlist.
Qed.

(** eqv? on two non-empty lists is #f (pairs are copied by value, they have no identity), on two
    empty lists #t: memv / memq / equal? of base.sld build on this *)
Theorem eqv_on_pairs : forall a b c d st,
  builtin_call n_eqv [VPair a b; VPair c d] st = (Ok (VBool false), st).
Proof. reflexivity. Qed.
Theorem eqv_on_empty_lists : forall st, builtin_call n_eqv [VNil; VNil] st = (Ok (VBool true), st).
Proof. reflexivity. Qed.
