(** C04: matching and substitution together, for a rule whose pattern ends in `q ...` and whose template
    ends in `t ...`: the expansion holds one copy of [t] per form matched by [q], in order, the i-th copy being
    [t] with every variable of [q] replaced by what it matched in the i-th form. *)
From Coq Require Import ZArith NArith List Bool Lia.
From RV Require Import Model.Common Model.Datum Model.Macro Proofs.Basics Proofs.MacroProofs.
From RV Require Import Proofs.MacroNoPanic Proofs.MacroSpec Proofs.TemplateSpec.
Import ListNotations.

(** ** tables as finite maps *)
Lemma subst_get_insert_other : forall s x y v, x <> y -> subst_get (subst_insert s y v) x = subst_get s x.
Proof.
  induction s as [|[z w] r IH]; intros x y v Hn; cbn.
  - apply str_eqb_neq in Hn. now rewrite Hn.
  - destruct (str_eqb y z) eqn:Eyz.
    + apply str_eqb_eq in Eyz. subst z. cbn. apply str_eqb_neq in Hn. now rewrite Hn.
    + cbn. destruct (str_eqb x z); [reflexivity|now apply IH].
Qed.

Lemma keys_insert_existing : forall s x v w, subst_get s x = Some w -> map fst (subst_insert s x v) = map fst s.
Proof.
  induction s as [|[z u] r IH]; intros x v w H; cbn in *; [discriminate|].
  destruct (str_eqb x z) eqn:E; cbn; [reflexivity|]. f_equal. eapply IH; exact H.
Qed.

Lemma keys_insert_new : forall s x v, subst_get s x = None -> map fst (subst_insert s x v) = map fst s ++ [x].
Proof.
  induction s as [|[z u] r IH]; intros x v H; cbn in *; [reflexivity|].
  destruct (str_eqb x z) eqn:E; [discriminate|]. cbn. f_equal. now apply IH.
Qed.

Lemma subst_get_None_keys : forall s x, subst_get s x = None <-> ~ In x (map fst s).
Proof.
  induction s as [|[z u] r IH]; intros x; cbn; [tauto|].
  destruct (str_eqb x z) eqn:E.
  - apply str_eqb_eq in E. subst z. split; [discriminate|intros H; exfalso; apply H; now left].
  - apply str_eqb_neq in E. rewrite IH. split; [intros H [H1|H1]; [congruence|contradiction]|intros H H1; apply H; now right].
Qed.

Definition ukeys (s : subst) : Prop := NoDup (map fst s).

Lemma NoDup_snoc : forall {A} (l : list A) x, NoDup l -> ~ In x l -> NoDup (l ++ [x]).
Proof.
  intros A l x H. induction H as [|y r Hy Hr IH]; intros Hx; cbn; [constructor; [intros []|constructor]|].
  constructor.
  - intros Hin. apply in_app_or in Hin. destruct Hin as [Hin|[->|[]]]; [contradiction|]. apply Hx. now left.
  - apply IH. intros Hin. apply Hx. now right.
Qed.

Lemma ukeys_insert : forall s x v, ukeys s -> ukeys (subst_insert s x v).
Proof.
  intros s x v H. unfold ukeys. destruct (subst_get s x) as [w|] eqn:E.
  - now rewrite (keys_insert_existing _ _ _ _ E).
  - rewrite (keys_insert_new _ _ _ E). apply NoDup_snoc; [exact H|]. now apply subst_get_None_keys.
Qed.

Lemma ukeys_push_all : forall fresh s s', subst_push_all s fresh = Ok s' -> map fst s' = map fst s.
Proof.
  induction fresh as [|[x [d w]] r IH]; intros s s' H; cbn in H; [now injection H as <-|].
  unfold subst_push in H. destruct (subst_get s x) as [[a v]|] eqn:E; [|discriminate].
  rewrite (IH _ _ H). eapply keys_insert_existing; exact E.
Qed.

(** what the pushes do: every key of [fresh] gets the fresh binding's form appended *)
Definition pushed (fresh : subst) (x : str) : list datum :=
  match subst_get fresh x with Some (d, _) => [d] | None => [] end.

Lemma push_all_get : forall fresh s s', ukeys fresh -> subst_push_all s fresh = Ok s' ->
  forall y, subst_get s' y = match subst_get s y with Some (a, v) => Some (a, v ++ pushed fresh y) | None => None end.
Proof.
  induction fresh as [|[x [d w]] r IH]; intros s s' Hu H y; cbn in H.
  - injection H as <-. unfold pushed. cbn. destruct (subst_get s y) as [[a v]|]; [now rewrite app_nil_r|reflexivity].
  - unfold subst_push in H. destruct (subst_get s x) as [[a v]|] eqn:E; [|discriminate].
    inversion Hu as [|? ? Hnx Hr]; subst.
    rewrite (IH _ _ Hr H y). unfold pushed. cbn [subst_get].
    destruct (str_eqb y x) eqn:Eyx.
    + apply str_eqb_eq in Eyx. subst y. rewrite subst_get_insert_same, E.
      assert (subst_get r x = None) by now apply subst_get_None_keys. rewrite H0. now rewrite app_nil_r.
    + apply str_eqb_neq in Eyx. rewrite (subst_get_insert_other _ _ _ _ Eyx). reflexivity.
Qed.

(** ** the tables the specification relates have distinct keys *)
Section Keys.
Variable lits : list str.

Combined Scheme M_mutind from M_ind', MS_ind', RUN_ind'.

Lemma M_ukeys :
  (forall p d s s', M lits p d s s' -> ukeys s -> ukeys s') /\
  (forall ps ds s s', MS lits ps ds s s' -> ukeys s -> ukeys s') /\
  (forall q ds s s', RUN lits q ds s s' -> ukeys s -> ukeys s').
Proof.
  apply (M_mutind lits); intros; auto.
  - now apply ukeys_insert.
  - match goal with Hp : subst_push_all _ _ = Ok _ |- _ => pose proof (ukeys_push_all _ _ _ Hp) as Ek end.
    match goal with IHr : ukeys ?s1 -> ukeys ?s2 |- ukeys ?s2 => apply IHr end. unfold ukeys. now rewrite Ek.
Qed.

(** the run after the first item: one fresh table per further form, each variable's forms appended in order *)
Definition further (x : str) (freshes : list subst) : list datum := flat_map (fun fr => pushed fr x) freshes.

Lemma RUN_tables : forall q rest s s2, RUN lits q rest s s2 ->
  exists freshes, Forall2 (fun e fr => M lits q e [] fr) rest freshes /\
    forall x, subst_get s2 x = match subst_get s x with Some (a, v) => Some (a, v ++ further x freshes) | None => None end.
Proof.
  intros q rest s s2 H. induction H as [q s|q e rest s fresh s1 s2 Hm Hp Hr IH].
  - exists []. split; [constructor|]. intros x. unfold further. cbn. destruct (subst_get s x) as [[a v]|]; [now rewrite app_nil_r|reflexivity].
  - destruct IH as [freshes [HF HG]]. exists (fresh :: freshes). split; [constructor; assumption|].
    intros x. rewrite HG. assert (Hu : ukeys fresh) by (apply (proj1 M_ukeys _ _ _ _ Hm); constructor).
    rewrite (push_all_get _ _ _ Hu Hp x). destruct (subst_get s x) as [[a v]|]; [|reflexivity].
    unfold further. cbn [flat_map]. now rewrite app_assoc.
Qed.

(** a fresh match binds exactly the variables of the pattern (MacroNoPanic.v), each to one form *)
Lemma M_fresh_single : forall q e fr x b, M lits q e [] fr -> flatp q -> subst_get fr x = Some b -> snd b = [].
Proof.
  intros q e fr x b Hm Hf. revert x b.
  assert (G : (forall p d s s', M lits p d s s' -> flatp p -> (forall x b, subst_get s x = Some b -> snd b = []) ->
                 forall x b, subst_get s' x = Some b -> snd b = []) /\
              (forall ps ds s s', MS lits ps ds s s' -> Forall flatp ps -> (forall x b, subst_get s x = Some b -> snd b = []) ->
                 forall x b, subst_get s' x = Some b -> snd b = []) /\
              (forall q ds s s', RUN lits q ds s s' -> True)).
  { apply (M_mutind lits).
    - intros l d s _ Hs. exact Hs.
    - intros x l d s Hl _ Hs y b Hb. destruct (str_eqb y x) eqn:E.
      + apply str_eqb_eq in E. subst y. rewrite subst_get_insert_same in Hb. now injection Hb as <-.
      + apply str_eqb_neq in E. rewrite (subst_get_insert_other _ _ _ _ E) in Hb. eauto.
    - intros x l l' s Hl _ Hs. exact Hs.
    - intros q0 l l' s _ Hs. exact Hs.
    - intros p d s s' Hp Hpt Hd Ht _ IH Hfl Hs. apply IH; [|exact Hs].
      clear - Hfl Hp. induction Hfl as [l|l|a b l Ha _ Hb IHb|v l Hv|x l|q0 l]; try discriminate; cbn; [constructor|].
      constructor; [exact Ha|]. destruct b; cbn; try (constructor; fail); apply IHb; reflexivity.
    - intros v l dv l' s s' _ IH Hfl Hs. apply IH; [|exact Hs]. now inversion Hfl; subst.
    - intros s _ Hs. exact Hs.
    - intros q0 l e0 rest s s1 s2 _ _ _ _ Hfl. exfalso.
      inversion Hfl as [|? ? _ HQ2]; inversion HQ2 as [|? ? HQ3 _]; inversion HQ3.
    - intros p ps d ds s s1 s2 _ _ IHp _ IHs Hfl Hs. inversion Hfl; subst. apply IHs; [assumption|]. now apply IHp.
    - intros; exact I.
    - intros; exact I. }
  intros x b Hb. eapply (proj1 G); eauto. intros y c Hc. discriminate.
Qed.
End Keys.

(** ** templates: induction, variables, extensionality of [tinst] *)
Section TemplateInd.
  Variable P : template -> Prop.
  Hypothesis H_id : forall x l, P (TId x l).
  Hypothesis H_lit : forall p l, P (TLit p l).
  Hypothesis H_list : forall els l, Forall (fun e => P (fst e)) els -> P (TList els l).
  Hypothesis H_vec : forall els l, Forall (fun e => P (fst e)) els -> P (TVecT els l).
  Fixpoint template_ind' (t : template) : P t :=
    match t with
    | TId x l => H_id x l
    | TLit p l => H_lit p l
    | TList els l => H_list els l ((fix go (els : list (template * bool)) : Forall (fun e => P (fst e)) els :=
                                     match els with
                                     | [] => Forall_nil _
                                     | e :: r => Forall_cons e (template_ind' (fst e)) (go r)
                                     end) els)
    | TVecT els l => H_vec els l ((fix go (els : list (template * bool)) : Forall (fun e => P (fst e)) els :=
                                     match els with
                                     | [] => Forall_nil _
                                     | e :: r => Forall_cons e (template_ind' (fst e)) (go r)
                                     end) els)
    end.
End TemplateInd.

(** [x] occurs as an identifier in the template *)
Inductive tvar (x : str) : template -> Prop :=
  | tv_id : forall l, tvar x (TId x l)
  | tv_list : forall els l e, In e els -> tvar x (fst e) -> tvar x (TList els l)
  | tv_vec : forall els l e, In e els -> tvar x (fst e) -> tvar x (TVecT els l).

Definition look (s : subst) (pick : datum * list datum -> option datum) (x : str) : option datum :=
  match subst_get s x with Some b => pick b | None => Some (DSym x None) end.

Lemma tinst_ext : forall t s1 p1 s2 p2, (forall x, tvar x t -> look s1 p1 x = look s2 p2 x) ->
  tinst s1 p1 t = tinst s2 p2 t.
Proof.
  induction t as [x l|p l|els l IH|els l IH] using template_ind'; intros s1 p1 s2 p2 H.
  - cbn. apply (H x). constructor.
  - reflexivity.
  - rewrite !tinst_list. f_equal.
    assert (G : forall els0, (forall e, In e els0 -> In e els) -> Forall (fun e => forall s1 p1 s2 p2,
                 (forall x, tvar x (fst e) -> look s1 p1 x = look s2 p2 x) -> tinst s1 p1 (fst e) = tinst s2 p2 (fst e)) els0 ->
               tinst_items s1 p1 els0 = tinst_items s2 p2 els0).
    { induction els0 as [|[t' b] r IHr]; intros Hin HF; [reflexivity|]. inversion HF as [|? ? He Hr]; subst. cbn [tinst_items].
      cbn in He. rewrite (He s1 p1 s2 p2).
      - rewrite (IHr (fun e He0 => Hin e (or_intror He0)) Hr). reflexivity.
      - intros x Hx. apply H. eapply tv_list; [apply Hin; now left|exact Hx]. }
    apply G; [auto|exact IH].
  - rewrite !tinst_vec. f_equal.
    assert (G : forall els0, (forall e, In e els0 -> In e els) -> Forall (fun e => forall s1 p1 s2 p2,
                 (forall x, tvar x (fst e) -> look s1 p1 x = look s2 p2 x) -> tinst s1 p1 (fst e) = tinst s2 p2 (fst e)) els0 ->
               tinst_items s1 p1 els0 = tinst_items s2 p2 els0).
    { induction els0 as [|[t' b] r IHr]; intros Hin HF; [reflexivity|]. inversion HF as [|? ? He Hr]; subst. cbn [tinst_items].
      cbn in He. rewrite (He s1 p1 s2 p2).
      - rewrite (IHr (fun e He0 => Hin e (or_intror He0)) Hr). reflexivity.
      - intros x Hx. apply H. eapply tv_vec; [apply Hin; now left|exact Hx]. }
    apply G; [auto|exact IH].
Qed.

(** a template that mentions a variable without a pick has no instance *)
Lemma tinst_none : forall t s pick x, tvar x t -> look s pick x = None -> tinst s pick t = None.
Proof.
  induction t as [y l|p l|els l IH|els l IH] using template_ind'; intros s pick x Hv Hl.
  - inversion Hv; subst. exact Hl.
  - inversion Hv.
  - inversion Hv as [|? ? e Hin Hx|]; subst. rewrite tinst_list.
    assert (G : tinst_items s pick els = None).
    { clear Hv. induction els as [|[t' b] r IHr]; [destruct Hin|]. inversion IH as [|? ? He Hr]; subst. cbn [tinst_items].
      destruct Hin as [<-|Hin].
      - cbn in He. now rewrite (He s pick x Hx Hl).
      - destruct (tinst s pick t'); [|reflexivity]. now rewrite (IHr Hr Hin). }
    now rewrite G.
  - inversion Hv as [| |? ? e Hin Hx]; subst. rewrite tinst_vec.
    assert (G : tinst_items s pick els = None).
    { clear Hv. induction els as [|[t' b] r IHr]; [destruct Hin|]. inversion IH as [|? ? He Hr]; subst. cbn [tinst_items].
      destruct Hin as [<-|Hin].
      - cbn in He. now rewrite (He s pick x Hx Hl).
      - destruct (tinst s pick t'); [|reflexivity]. now rewrite (IHr Hr Hin). }
    now rewrite G.
Qed.

(** ** a specified match of a pattern without ellipsis binds exactly the pattern's variables *)
Section Final.
Variable lits : list str.

Lemma K_get : forall s x, K s x <-> subst_get s x <> None.
Proof. intros s x. unfold K. destruct (subst_get s x); split; try congruence; eauto. intros [v E]; discriminate. Qed.

Lemma M_keys :
  (forall p d s s', M lits p d s s' -> flatp p -> forall x, K s' x <-> K s x \/ PV lits p x) /\
  (forall ps ds s s', MS lits ps ds s s' -> Forall flatp ps -> forall x, K s' x <-> K s x \/ PVL lits ps x) /\
  (forall q ds s s', RUN lits q ds s s' -> True).
Proof.
  apply (M_mutind lits).
  - intros l d s _ x. cbn. tauto.
  - intros y l d s Hl _ x. rewrite K_insert. cbn. split; [intros [->|H]; [right; auto|now left]|intros [H|[_ ->]]; [now right|now left]].
  - intros y l l' s Hl _ x. cbn. split; [now left|intros [H|[Hf _]]; [exact H|congruence]].
  - intros q l l' s _ x. cbn. tauto.
  - intros p d s s' Hp Hpt Hd Ht _ IH Hf x.
    assert (HF : Forall flatp (pat_iter p)).
    { clear - Hf Hp. induction Hf as [l|l|a b l Ha _ Hb IHb|v l Hv|y l|q0 l]; try discriminate; cbn; [constructor|].
      constructor; [exact Ha|]. destruct b; cbn; try (constructor; fail); apply IHb; reflexivity. }
    rewrite (IH HF x). rewrite (PV_spine lits p x Hp). unfold PVtail. rewrite Hpt. tauto.
  - intros v l dv l' s s' _ IH Hf x. inversion Hf; subst. rewrite (IH ltac:(assumption) x). now rewrite PV_vec.
  - intros s _ x. split; [now left|intros [H|H]; [exact H|now apply PVL_nil in H]].
  - intros q l e rest s s1 s2 _ _ _ _ Hf. exfalso. inversion Hf as [|? ? _ H2]; inversion H2 as [|? ? H3 _]; inversion H3.
  - intros p ps d ds s s1 s2 _ _ IHp _ IHs Hf x. inversion Hf; subst.
    rewrite (IHs ltac:(assumption) x), (IHp ltac:(assumption) x), PVL_cons. tauto.
  - intros; exact I.
  - intros; exact I.
Qed.
End Final.

Section PatternInd.
  Variable P : pattern -> Prop.
  Hypothesis H_us : forall l, P (PUnderscore l).
  Hypothesis H_ell : forall l, P (PEllipsis l).
  Hypothesis H_nil : forall l, P (PNil l).
  Hypothesis H_cons : forall a b l, P a -> P b -> P (PCons a b l).
  Hypothesis H_vec : forall v l, Forall P v -> P (PVec v l).
  Hypothesis H_id : forall x l, P (PIdent x l).
  Hypothesis H_lit : forall q l, P (PLit q l).
  Fixpoint pattern_ind' (p : pattern) : P p :=
    match p with
    | PUnderscore l => H_us l
    | PEllipsis l => H_ell l
    | PNil l => H_nil l
    | PCons a b l => H_cons a b l (pattern_ind' a) (pattern_ind' b)
    | PVec v l => H_vec v l ((fix go (v : list pattern) : Forall P v :=
                                match v with [] => Forall_nil _ | q :: r => Forall_cons q (pattern_ind' q) (go r) end) v)
    | PIdent x l => H_id x l
    | PLit q l => H_lit q l
    end.
End PatternInd.

Lemma PV_dec : forall lits p x, PV lits p x \/ ~ PV lits p x.
Proof.
  intros lits p x. induction p as [l|l|l|a b l IHa IHb|v l IH|y l|q l] using pattern_ind'; cbn.
  - right; intros H; exact H.
  - right; intros H; exact H.
  - right; intros H; exact H.
  - destruct IHa as [Ha|Ha]; [left; now left|]. destruct IHb as [Hb|Hb]; [left; now right|].
    right. intros [H|H]; contradiction.
  - induction IH as [|q r Hq Hr IHr]; [right; intros H; exact H|].
    destruct Hq as [Hq|Hq]; [left; now left|]. destruct IHr as [Hr'|Hr']; [left; now right|].
    right. intros [H|H]; contradiction.
  - destruct (str_in y lits); [right; intros [E _]; discriminate|].
    destruct (str_eqb x y) eqn:E; [apply str_eqb_eq in E; left; auto|apply str_eqb_neq in E; right; intros [_ E2]; contradiction].
  - right; intros H; exact H.
Qed.

Lemma PVL_dec : forall lits ps x, PVL lits ps x \/ ~ PVL lits ps x.
Proof.
  intros lits ps x. induction ps as [|q r IH]; [right; apply PVL_nil|].
  destruct (PV_dec lits q x) as [Hq|Hq]; [left; apply PVL_cons; now left|].
  destruct IH as [Hr|Hr]; [left; apply PVL_cons; now right|].
  right. intros Hc. apply PVL_cons in Hc. destruct Hc; contradiction.
Qed.

(** with the first match of every variable a template always has an instance *)
Lemma tinst_first_some : forall t s, exists d, tinst s pick_first t = Some d.
Proof.
  induction t as [x l|p l|els l IH|els l IH] using template_ind'; intros s.
  - cbn. unfold pick_first. destruct (subst_get s x); eauto.
  - cbn. eauto.
  - rewrite tinst_list. assert (G : exists ds, tinst_items s pick_first els = Some ds).
    { induction IH as [|[t' b] r He Hr IHr]; [cbn; eauto|]. cbn [tinst_items]. cbn in He.
      destruct (He s) as [d ->]. destruct IHr as [ds ->]. eauto. }
    destruct G as [ds ->]. cbn. eauto.
  - rewrite tinst_vec. assert (G : exists ds, tinst_items s pick_first els = Some ds).
    { induction IH as [|[t' b] r He Hr IHr]; [cbn; eauto|]. cbn [tinst_items]. cbn in He.
      destruct (He s) as [d ->]. destruct IHr as [ds ->]. eauto. }
    destruct G as [ds ->]. cbn. eauto.
Qed.

Section Final2.
Variable lits : list str.

(** a specified match of a pattern without ellipsis gives every variable of the pattern a single form and
    leaves every other entry of the table alone *)
Lemma M_frame :
  (forall p d s s', M lits p d s s' -> flatp p ->
     forall x, (PV lits p x -> exists a, subst_get s' x = Some (a, [])) /\ (~ PV lits p x -> subst_get s' x = subst_get s x)) /\
  (forall ps ds s s', MS lits ps ds s s' -> Forall flatp ps ->
     forall x, (PVL lits ps x -> exists a, subst_get s' x = Some (a, [])) /\ (~ PVL lits ps x -> subst_get s' x = subst_get s x)) /\
  (forall q ds s s', RUN lits q ds s s' -> True).
Proof.
  apply (M_mutind lits).
  - intros l d s _ x. cbn. tauto.
  - intros y l d s Hl _ x. cbn. split.
    + intros [_ ->]. rewrite subst_get_insert_same. eauto.
    + intros Hn. apply subst_get_insert_other. intros ->. apply Hn. auto.
  - intros y l l' s Hl _ x. cbn. split; [intros [Hf _]; congruence|reflexivity].
  - intros q l l' s _ x. cbn. tauto.
  - intros p d s s' Hp Hpt Hd Ht _ IH Hf x.
    assert (HF : Forall flatp (pat_iter p)).
    { clear - Hf Hp. induction Hf as [l|l|a b l Ha _ Hb IHb|v l Hv|y l|q0 l]; try discriminate; cbn; [constructor|].
      constructor; [exact Ha|]. destruct b; cbn; try (constructor; fail); apply IHb; reflexivity. }
    destruct (IH HF x) as [A B].
    assert (E : PV lits p x <-> PVL lits (pat_iter p) x).
    { rewrite (PV_spine lits p x Hp). unfold PVtail. rewrite Hpt. tauto. }
    split; [intros Hx; apply A; now apply E|intros Hx; apply B; intros Hc; apply Hx; now apply E].
  - intros v l dv l' s s' _ IH Hf x. inversion Hf; subst. destruct (IH ltac:(assumption) x) as [A B].
    split; [intros Hx; apply A; now apply PV_vec in Hx|intros Hx; apply B; intros Hc; apply Hx; now apply PV_vec].
  - intros s _ x. split; [intros Hx; now apply PVL_nil in Hx|reflexivity].
  - intros q l e rest s s1 s2 _ _ _ _ Hf. exfalso. inversion Hf as [|? ? _ H2]; inversion H2 as [|? ? H3 _]; inversion H3.
  - intros p ps d ds s s1 s2 _ _ IHp _ IHs Hf x. inversion Hf; subst.
    destruct (IHp ltac:(assumption) x) as [A1 B1]. destruct (IHs ltac:(assumption) x) as [A2 B2]. split.
    + intros Hx. destruct (PVL_dec lits ps x) as [Hy|Hn]; [now apply A2|].
      apply PVL_cons in Hx. destruct Hx as [Hx|Hx]; [|contradiction]. rewrite (B2 Hn). now apply A1.
    + intros Hn. rewrite B2, B1; [reflexivity| |]; intros Hc; apply Hn; apply PVL_cons; tauto.
  - intros; exact I.
  - intros; exact I.
Qed.

Definition dflt : datum := DNil None.

Lemma Forall2_in_r : forall {A B} (R : A -> B -> Prop) la lb, Forall2 R la lb -> forall b, In b lb -> exists a, In a la /\ R a b.
Proof.
  intros A B R la lb H. induction H as [|a b0 la lb Hab Hr IH]; intros b Hin; [destruct Hin|].
  destruct Hin as [<-|Hin]; [exists a; split; [now left|exact Hab]|].
  destruct (IH b Hin) as [a' [Ha Hr']]. exists a'. split; [now right|exact Hr'].
Qed.

(** the expansion of a template that ends in `t ...` after a match whose pattern ends in `q ...` *)
Theorem ellipsis_template_expands_per_item : forall q e1 rest s s1 s2 pre t l fuel ds,
  flatp q -> M lits q e1 s s1 -> RUN lits q rest s1 s2 ->
  Forall (fun e => snd e = false /\ flatt (fst e)) pre -> flatt t ->
  (exists x, tvar x t /\ PV lits q x) ->
  (forall x, tvar x t -> K s2 x -> PV lits q x) ->
  substitute fuel (TList (pre ++ [(t, true)]) l) s2 = Ok ds ->
  exists items first more freshes,
    ds = [dlist (items ++ first :: more)] /\
    tinst_items s2 pick_first pre = Some items /\
    tinst s2 pick_first t = Some first /\
    Forall2 (fun e fr => M lits q e [] fr) rest freshes /\
    Forall2 (fun fr d => tinst fr pick_first t = Some d) freshes more.
Proof.
  intros q e1 rest s s1 s2 pre t l fuel ds Hq Hm Hr Hpre Ht [x0 [Hx0t Hx0q]] Hvars H.
  destruct (substitute_final_ellipsis _ _ _ _ _ _ Hpre Ht H) as [items [first [more [-> [Hi [Hfst [A B]]]]]]].
  destruct (RUN_tables lits _ _ _ _ Hr) as [freshes [HF HG]].
  exists items, first, more, freshes. repeat (split; [assumption || reflexivity|]).
  (* the table after the run, at a variable of q *)
  assert (TAB : forall x, PV lits q x -> exists a, subst_get s2 x = Some (a, further x freshes)).
  { intros x Hx. destruct (proj1 (proj1 (M_frame) _ _ _ _ Hm Hq x) Hx) as [a Ea]. exists a. now rewrite HG, Ea. }
  (* every fresh table binds every variable of q to one form *)
  assert (FR : forall fr, In fr freshes -> forall x, PV lits q x -> exists d, subst_get fr x = Some (d, [])).
  { intros fr Hin x Hx. destruct (Forall2_in_r _ _ _ HF _ Hin) as [e [_ Hme]].
    exact (proj1 (proj1 (M_frame) _ _ _ _ Hme Hq x) Hx). }
  assert (FRK : forall fr, In fr freshes -> forall x, K fr x -> PV lits q x).
  { intros fr Hin x Hx. destruct (Forall2_in_r _ _ _ HF _ Hin) as [e [_ Hme]].
    apply (proj1 (M_keys lits) _ _ _ _ Hme Hq x) in Hx. destruct Hx as [Hx|Hx]; [now apply K_nil in Hx|exact Hx]. }
  (* the k-th further pick from the table is the single form of the k-th fresh table *)
  assert (NTH : forall k fr x, nth_error freshes k = Some fr -> PV lits q x ->
            exists d, subst_get fr x = Some (d, []) /\ nth_error (further x freshes) k = Some d /\ further x freshes <> []).
  { intros k fr x Hk Hx. revert k Hk FR. clear - Hx. induction freshes as [|f0 r IH]; intros k Hk FR; [destruct k; discriminate|].
    destruct (FR f0 (or_introl eq_refl) x Hx) as [d0 E0].
    destruct k as [|k].
    - injection Hk as <-. exists d0. unfold further, pushed. cbn. rewrite E0. cbn. repeat split; auto. discriminate.
    - destruct (IH k Hk (fun fr Hin => FR fr (or_intror Hin))) as [d [E1 [E2 E3]]]. exists d.
      unfold further, pushed in *. cbn. rewrite E0. cbn. repeat split; auto. discriminate. }
  assert (LEN : forall x, PV lits q x -> length (further x freshes) = length freshes).
  { intros x Hx. revert FR. clear - Hx. induction freshes as [|f0 r IH]; intros FR; [reflexivity|].
    destruct (FR f0 (or_introl eq_refl) x Hx) as [d0 E0]. unfold further, pushed in *. cbn. rewrite E0. cbn. f_equal.
    apply IH. intros fr Hin. apply FR. now right. }
  (* copy k of the template *)
  assert (COPY : forall k fr, nth_error freshes k = Some fr -> tinst s2 (pick_further k) t = tinst fr pick_first t).
  { intros k fr Hk. apply tinst_ext. intros x Hx. unfold look.
    destruct (subst_get s2 x) as [[a vec]|] eqn:E2.
    - assert (Hxq : PV lits q x) by (apply Hvars; [exact Hx|exists (a, vec); exact E2]).
      destruct (TAB x Hxq) as [a' Ea']. rewrite E2 in Ea'. injection Ea' as -> ->.
      destruct (NTH k fr x Hk Hxq) as [d [E1 [E3 E4]]]. rewrite E1. unfold pick_further, pick_first. cbn [snd fst].
      destruct (further x freshes); [contradiction|exact E3].
    - destruct (subst_get fr x) as [b|] eqn:Ef; [|reflexivity]. exfalso.
      assert (Hxq : PV lits q x) by (eapply FRK; [eapply nth_error_In; exact Hk|exists b; exact Ef]).
      destruct (TAB x Hxq) as [a' Ea']. congruence. }
  (* as many copies as further forms *)
  assert (LM : length more = length freshes).
  { destruct (Nat.lt_trichotomy (length more) (length freshes)) as [Hlt|[He|Hgt]]; [|exact He|]; exfalso.
    - destruct (nth_error freshes (length more)) as [fr|] eqn:Ek; [|apply nth_error_None in Ek; lia].
      rewrite (COPY _ _ Ek) in B.
      destruct (tinst_first_some t fr) as [d Ed]. congruence.
    - (* more copies than forms: the variable x0 has no further match at index (length freshes) *)
      specialize (A (length freshes) Hgt).
      rewrite (tinst_none t s2 (pick_further (length freshes)) x0 Hx0t) in A; [discriminate|].
      unfold look. destruct (TAB x0 Hx0q) as [a Ea]. rewrite Ea. unfold pick_further. cbn [snd].
      destruct (further x0 freshes) eqn:Ef; [reflexivity|]. rewrite <- Ef. apply nth_error_None. rewrite (LEN x0 Hx0q). lia. }
  (* the copies, one by one *)
  assert (GEN : forall fs n ms,
            (forall k fr, nth_error fs k = Some fr -> tinst s2 (pick_further (n + k)) t = tinst fr pick_first t) ->
            (forall k, k < length ms -> tinst s2 (pick_further (n + k)) t = Some (nth k ms (DNil None))) ->
            length ms = length fs -> Forall2 (fun fr d => tinst fr pick_first t = Some d) fs ms).
  { clear. induction fs as [|f0 r IH]; intros n ms C A0 L.
    - destruct ms; [constructor|discriminate].
    - destruct ms as [|d ds]; [discriminate|]. constructor.
      + rewrite <- (C 0 f0 eq_refl). apply (A0 0). cbn. lia.
      + apply (IH (S n)).
        * intros k fr Hk. replace (S n + k) with (n + S k) by lia. exact (C (S k) fr Hk).
        * intros k Hk. replace (S n + k) with (n + S k) by lia. apply (A0 (S k)). cbn. lia.
        * cbn in L. lia. }
  exact (GEN freshes 0 more COPY A LM).
Qed.
End Final2.

