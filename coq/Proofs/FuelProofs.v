(** C01: the converse of Proofs/EvalProofs.v.
    1. Fuel monotonicity: a result that is not a timeout does not change when more fuel is given
       (the fuel of the model is not observable).
    2. Completeness for values: whenever the direct-style rules of Spec/EvalSpec.v assign a value
       to an expression, the trampolined evaluator returns that value and that state for every
       sufficiently large fuel.
    3. Consequences: the rules assign at most one value (and final state) to an expression; any
       answer of the evaluator that is not a timeout is that value. *)
From Coq Require Import ZArith NArith List Bool Lia PeanoNat.
From RV Require Import Model.Common Model.Real32 Model.Num Model.Datum Model.Macro Model.Ast
  Model.Value Model.Builtins Model.Eval Spec.EvalSpec Proofs.Basics Proofs.StoreProofs Proofs.EvalProofs.
Import ListNotations.

(** * 1. monotonicity *)

(** [x] is a timeout or equals [y] *)
Definition lew {A} (x y : eres A) : Prop := fst x = OutOfFuel \/ x = y.

Lemma lew_refl : forall {A} (x : eres A), lew x x.
Proof. intros; now right. Qed.

Lemma lew_oof : forall {A} st (y : eres A), lew (OutOfFuel, st) y.
Proof. intros; now left. Qed.

Lemma lew_trans : forall {A} (x y z : eres A), lew x y -> lew y z -> lew x z.
Proof.
  intros A x y z [H|E] H2; [now left|subst y; exact H2].
Qed.

Lemma ebind_mono : forall {A B} (m m' : eres A) (k k' : A -> state -> eres B),
  lew m m' -> (forall a st, lew (k a st) (k' a st)) -> lew (ebind m k) (ebind m' k').
Proof.
  intros A B [r st] m' k k' [H|E] Hk.
  - cbn in H. subst r. now left.
  - subst m'. destruct r; cbn; try apply lew_refl. apply Hk.
Qed.

Record mono_at (f : nat) : Prop := {
  m_expr : forall e env st, lew (eval_expr f e env st) (eval_expr (S f) e env st);
  m_args : forall es env st, lew (eval_args f es env st) (eval_args (S f) es env st);
  m_tail : forall e env st, lew (eval_tail f e env st) (eval_tail (S f) e env st);
  m_scheme : forall fm defs body closure args st,
      lew (apply_scheme f fm defs body closure args st) (apply_scheme (S f) fm defs body closure args st);
  m_defs : forall defs env st, lew (eval_defs f defs env st) (eval_defs (S f) defs env st);
  m_body : forall body env st, lew (eval_body f body env st) (eval_body (S f) body env st);
  m_proc : forall p args env st, lew (apply_proc f p args env st) (apply_proc (S f) p args env st);
  m_tramp : forall p args env st, lew (tramp f p args env st) (tramp (S f) p args env st);
  m_bapply : forall args env st, lew (builtin_apply f args env st) (builtin_apply (S f) args env st)
}.

Lemma mono_0 : mono_at 0.
Proof. split; intros; now left. Qed.

Lemma mono_step : forall f, mono_at f -> mono_at (S f).
Proof.
  intros f IH. split.
  - (* eval_expr *)
    intros e env st. rewrite (eval_expr_S (S f)), (eval_expr_S f).
    destruct e as [x l|p l|x ve l|fm defs body l|fe args l|c t alt l|d l|d l]; try apply lew_refl.
    + apply ebind_mono; [apply (m_expr f IH)|]. intros v st1. apply lew_refl.
    + apply ebind_mono; [apply (m_expr f IH)|]. intros fv st1.
      pose proof (m_args f IH args env st1) as HA.
      destruct (eval_args f args env st1) as [ra sa], (eval_args (S f) args env st1) as [rb sb].
      destruct HA as [HA|HA].
      * cbn in HA. subst ra. destruct fv; now left.
      * injection HA as -> ->.
        destruct fv; try apply lew_refl;
          (apply ebind_mono; [apply lew_refl|]; intros vs st3; apply (m_proc f IH)).
    + apply ebind_mono; [apply (m_expr f IH)|]. intros cv st1.
      destruct (truthy cv); [apply (m_expr f IH)|]. destruct alt; [apply (m_expr f IH)|apply lew_refl].
  - (* eval_args *)
    intros es env st. rewrite (eval_args_S (S f)), (eval_args_S f). destruct es as [|a r]; [apply lew_refl|].
    apply ebind_mono; [apply (m_expr f IH)|]. intros v st1.
    apply ebind_mono; [apply (m_args f IH)|]. intros; apply lew_refl.
  - (* eval_tail *)
    intros e env st. rewrite (eval_tail_S (S f)), (eval_tail_S f).
    destruct e as [x l|p l|x ve l|fm defs body l|fe args l|c t alt l|d l|d l]; try apply lew_refl;
      try (apply ebind_mono; [apply (m_expr f IH)|]; intros; apply lew_refl).
    apply ebind_mono; [apply (m_expr f IH)|]. intros cv st1.
    destruct (truthy cv); [apply (m_tail f IH)|]. destruct alt; [apply (m_tail f IH)|apply lew_refl].
  - (* apply_scheme *)
    intros fm defs body closure args st. rewrite (apply_scheme_S (S f)), (apply_scheme_S f).
    destruct (alloc_frame st (Some closure)) as [local st0].
    destruct (bind_fixed st0 local (f_fixed fm) args) as [[surplus st1]|k l|x|]; try apply lew_refl.
    apply ebind_mono; [apply (m_defs f IH)|]. intros u st3. apply (m_body f IH).
  - (* eval_defs *)
    intros defs env st. rewrite (eval_defs_S (S f)), (eval_defs_S f).
    destruct defs as [|[[x e] l] r]; [apply lew_refl|].
    apply ebind_mono; [apply (m_expr f IH)|]. intros v st1. apply (m_defs f IH).
  - (* eval_body *)
    intros body env st. rewrite (eval_body_S (S f)), (eval_body_S f).
    destruct body as [|e [|e2 r]]; [apply lew_refl|apply (m_tail f IH)|].
    apply ebind_mono; [apply (m_expr f IH)|]. intros v st1. apply (m_body f IH).
  - (* apply_proc *)
    intros p args env st. rewrite (apply_proc_S (S f)), (apply_proc_S f). apply (m_tramp f IH).
  - (* tramp *)
    intros p args env st. rewrite (tramp_S (S f)), (tramp_S f).
    destruct (proc_arity p) as [[fixed variadic]|]; [|apply lew_refl].
    destruct (negb (arity_ok (length args) fixed variadic)); [apply lew_refl|].
    destruct p; try apply lew_refl.
    + apply ebind_mono; [apply (m_scheme f IH)|]. intros tr st1.
      destruct tr as [v|fe aes last_env]; [apply lew_refl|].
      apply ebind_mono; [apply (m_expr f IH)|]. intros first st2.
      apply ebind_mono; [apply (m_args f IH)|]. intros vs st3.
      destruct first; try apply lew_refl; apply (m_tramp f IH).
    + destruct (str_eqb name apply_name); [apply (m_bapply f IH)|apply lew_refl].
  - (* builtin_apply *)
    intros args env st. rewrite (builtin_apply_S (S f)), (builtin_apply_S f).
    destruct args as [|p rest]; [apply lew_refl|].
    destruct p; try apply lew_refl;
      (destruct (rev rest) as [|last init_rev]; [apply (m_proc f IH)|];
       destruct last; try apply lew_refl; apply (m_proc f IH)).
Qed.

Theorem mono_all : forall f, mono_at f.
Proof. induction f; [apply mono_0|now apply mono_step]. Qed.

Lemma lew_le : forall {A} (g : nat -> eres A), (forall f, lew (g f) (g (S f))) ->
  forall f f', f <= f' -> lew (g f) (g f').
Proof.
  intros A g H f f' L. induction L; [apply lew_refl|]. eapply lew_trans; [exact IHL|apply H].
Qed.

Lemma lew_noF : forall {A} (x y : eres A) r st, lew x y -> x = (r, st) -> noF r -> y = (r, st).
Proof.
  intros A x y r st [H|E'] E N; [|subst y; exact E]. subst x. cbn in H. now elim N.
Qed.

(** more fuel does not change an answer *)
Theorem eval_expr_mono : forall f f' e env st r st', f <= f' ->
  eval_expr f e env st = (r, st') -> noF r -> eval_expr f' e env st = (r, st').
Proof.
  intros f f' e env st r st' L H N.
  eapply lew_noF; [|exact H|exact N].
  apply (lew_le (fun f => eval_expr f e env st)); [|exact L]. intros g. apply (m_expr g (mono_all g)).
Qed.

Theorem apply_proc_mono : forall f f' p args env st r st', f <= f' ->
  apply_proc f p args env st = (r, st') -> noF r -> apply_proc f' p args env st = (r, st').
Proof.
  intros f f' p args env st r st' L H N.
  eapply lew_noF; [|exact H|exact N].
  apply (lew_le (fun f => apply_proc f p args env st)); [|exact L]. intros g. apply (m_proc g (mono_all g)).
Qed.

(** * 2. completeness for values *)

(** [g] returns [x] for every sufficiently large fuel *)
Definition stable {A} (g : nat -> eres A) (x : eres A) : Prop := exists n, forall f, n <= f -> g f = x.

(** a deferred tail call completes with value [v] in state [st'] *)
Definition deferred (fe : expr) (args : list expr) (env : nat) (st1 : state) (v : value) (st' : state) : Prop :=
  exists fv st2 vs st3,
    stable (fun f => eval_expr f fe env st1) (Ok fv, st2) /\
    stable (fun f => eval_args f args env st2) (Ok vs, st3) /\
    is_proc fv = true /\
    forall env0, stable (fun f => tramp f fv vs env0 st3) (Ok v, st').

(** a function of the tail family either settles on the value or settles on a call that completes *)
Definition tail_complete (g : nat -> eres tailres) (v : value) (st' : state) : Prop :=
  stable g (Ok (TRValue v), st') \/
  exists fe args env1 st1, stable g (Ok (TRCall fe args env1), st1) /\ deferred fe args env1 st1 v st'.

Definition C_ev (st : state) (env : nat) (e : expr) (r : res value) (st' : state) : Prop :=
  forall v, r = Ok v ->
    stable (fun f => eval_expr f e env st) (Ok v, st') /\
    tail_complete (fun f => eval_tail f e env st) v st'.
Definition C_evs (st : state) (env : nat) (es : list expr) (r : res (list value)) (st' : state) : Prop :=
  forall vs, r = Ok vs -> stable (fun f => eval_args f es env st) (Ok vs, st').
Definition C_app (st : state) (p : value) (args : list value) (r : res value) (st' : state) : Prop :=
  forall v, r = Ok v -> forall env0, stable (fun f => tramp f p args env0 st) (Ok v, st').
Definition C_evproc (st : state) fm defs body closure args (r : res value) (st' : state) : Prop :=
  forall v, r = Ok v -> tail_complete (fun f => apply_scheme f fm defs body closure args st) v st'.
Definition C_evdefs (st : state) (env : nat) defs (r : res unit) (st' : state) : Prop :=
  forall u, r = Ok u -> stable (fun f => eval_defs f defs env st) (Ok tt, st').
Definition C_evbody (st : state) (env : nat) body (r : res value) (st' : state) : Prop :=
  forall v, r = Ok v -> tail_complete (fun f => eval_body f body env st) v st'.

Lemma stable_const : forall {A} (g : nat -> eres A) x n, (forall f, g (n + f) = x) -> stable g x.
Proof.
  intros A g x n H. exists n. intros f L. replace f with (n + (f - n)) by lia. apply H.
Qed.

(** one step: [g (S f)] is computed from results at fuel [f] that have settled *)
Lemma stable_step : forall {A} (g : nat -> eres A) x n,
  (forall f, n <= f -> g (S f) = x) -> stable g x.
Proof.
  intros A g x n H. exists (S n). intros f L. destruct f; [lia|]. apply H. lia.
Qed.

Lemma refail_Ok : forall {A B} (r : res A) (v : B), failed r -> refail r = Ok v -> False.
Proof. intros A B [a|k l|x|] v F E; cbn in *; try contradiction; discriminate. Qed.

(** expressions that are neither calls nor conditionals: the tail evaluator evaluates them *)
Lemma tail_of_expr : forall e env st v st',
  (forall fe args l, e <> ECall fe args l) -> (forall c t a l, e <> EIf c t a l) ->
  stable (fun f => eval_expr f e env st) (Ok v, st') ->
  tail_complete (fun f => eval_tail f e env st) v st'.
Proof.
  intros e env st v st' NC NI [n H]. left. apply (stable_step _ _ n). intros f L.
  rewrite eval_tail_S. destruct e; try (rewrite (H f L); reflexivity).
  - exfalso. eapply NC; reflexivity.
  - exfalso. eapply NI; reflexivity.
Qed.

Ltac two_max n1 n2 f L :=
  apply (stable_step _ _ (Nat.max n1 n2)); intros f L.

Theorem complete_all :
  (forall st env e r st', ev st env e r st' -> C_ev st env e r st') /\
  (forall st env es r st', evs st env es r st' -> C_evs st env es r st') /\
  (forall st p args r st', app st p args r st' -> C_app st p args r st') /\
  (forall st fm defs body closure args r st',
      evproc st fm defs body closure args r st' -> C_evproc st fm defs body closure args r st') /\
  (forall st env defs r st', evdefs st env defs r st' -> C_evdefs st env defs r st') /\
  (forall st env body r st', evbody st env body r st' -> C_evbody st env body r st').
Proof.
  apply ev_mutind.
  - (* ev_prim *)
    intros st env p l v E.
    assert (S1 : stable (fun f => eval_expr f (EPrim p l) env st) (Ok v, st)).
    { apply (stable_step _ _ 0). intros f _. rewrite eval_expr_S. now rewrite E. }
    split; [exact S1|]. apply tail_of_expr; [discriminate|discriminate|exact S1].
  - (* ev_datum *)
    intros st env d l r st' H v E. subst r.
    assert (S1 : stable (fun f => eval_expr f (EDatum d l) env st) (Ok v, st')).
    { apply (stable_step _ _ 0). intros f _. now rewrite eval_expr_S. }
    split; [exact S1|]. apply tail_of_expr; [discriminate|discriminate|exact S1].
  - (* ev_quote *)
    intros st env d l r st' H v E. subst r.
    assert (S1 : stable (fun f => eval_expr f (EQuote d l) env st) (Ok v, st')).
    { apply (stable_step _ _ 0). intros f _. now rewrite eval_expr_S. }
    split; [exact S1|]. apply tail_of_expr; [discriminate|discriminate|exact S1].
  - (* ev_sym *)
    intros st env x l v H v0 E. injection E as <-.
    assert (S1 : stable (fun f => eval_expr f (ESym x l) env st) (Ok v, st)).
    { apply (stable_step _ _ 0). intros f _. rewrite eval_expr_S. now rewrite H. }
    split; [exact S1|]. apply tail_of_expr; [discriminate|discriminate|exact S1].
  - (* ev_sym_unbound *) intros; intros v E; discriminate.
  - (* ev_lambda *)
    intros st env fm defs body l v E. injection E as <-.
    assert (S1 : stable (fun f => eval_expr f (ELambda fm defs body l) env st) (Ok (VProcU fm defs body env), st)).
    { apply (stable_step _ _ 0). intros f _. now rewrite eval_expr_S. }
    split; [exact S1|]. apply tail_of_expr; [discriminate|discriminate|exact S1].
  - (* ev_set *)
    intros st env x e l v st1 st2 _ IH Hs v0 E. injection E as <-.
    destruct (IH v eq_refl) as [[n Hn] _].
    assert (S1 : stable (fun f => eval_expr f (ESet x e l) env st) (Ok VVoid, st2)).
    { apply (stable_step _ _ n). intros f L. rewrite eval_expr_S, (Hn f L). cbn. now rewrite Hs. }
    split; [exact S1|]. apply tail_of_expr; [discriminate|discriminate|exact S1].
  - (* ev_set_unbound *) intros; intros v0 E; discriminate.
  - (* ev_set_fail *) intros; intros v0 E; exfalso; eapply refail_Ok; eassumption.
  - (* ev_if_true *)
    intros st env c t alt l cv st1 r st2 _ IHc Ht _ IHt v E. subst r.
    destruct (IHc cv eq_refl) as [[n1 H1] _]. destruct (IHt v eq_refl) as [[n2 H2] T].
    split.
    + two_max n1 n2 f L. rewrite eval_expr_S, (H1 f ltac:(lia)). cbn. rewrite Ht. apply H2. lia.
    + destruct T as [[n3 H3]|[fe [args [env1 [st3 [[n3 H3] D]]]]]].
      * left. two_max n1 n3 f L. rewrite eval_tail_S, (H1 f ltac:(lia)). cbn. rewrite Ht. apply H3. lia.
      * right. exists fe, args, env1, st3. split; [|exact D].
        two_max n1 n3 f L. rewrite eval_tail_S, (H1 f ltac:(lia)). cbn. rewrite Ht. apply H3. lia.
  - (* ev_if_false *)
    intros st env c t a l cv st1 r st2 _ IHc Ht _ IHt v E. subst r.
    destruct (IHc cv eq_refl) as [[n1 H1] _]. destruct (IHt v eq_refl) as [[n2 H2] T].
    split.
    + two_max n1 n2 f L. rewrite eval_expr_S, (H1 f ltac:(lia)). cbn. rewrite Ht. apply H2. lia.
    + destruct T as [[n3 H3]|[fe [args [env1 [st3 [[n3 H3] D]]]]]].
      * left. two_max n1 n3 f L. rewrite eval_tail_S, (H1 f ltac:(lia)). cbn. rewrite Ht. apply H3. lia.
      * right. exists fe, args, env1, st3. split; [|exact D].
        two_max n1 n3 f L. rewrite eval_tail_S, (H1 f ltac:(lia)). cbn. rewrite Ht. apply H3. lia.
  - (* ev_if_false_none *)
    intros st env c t l cv st1 _ IHc Ht v E. injection E as <-.
    destruct (IHc cv eq_refl) as [[n1 H1] _].
    split.
    + apply (stable_step _ _ n1). intros f L. rewrite eval_expr_S, (H1 f L). cbn. now rewrite Ht.
    + left. apply (stable_step _ _ n1). intros f L. rewrite eval_tail_S, (H1 f L). cbn. now rewrite Ht.
  - (* ev_if_fail *) intros; intros v0 E; exfalso; eapply refail_Ok; eassumption.
  - (* ev_call *)
    intros st env fe args l fv st1 vs st2 r st3 _ IHf _ IHa Hp _ IHapp v E. subst r.
    destruct (IHf fv eq_refl) as [[n1 H1] _]. pose proof (IHa vs eq_refl) as [n2 H2].
    pose proof (IHapp v eq_refl) as HT.
    split.
    + destruct (HT env) as [n3 H3].
      apply (stable_step _ _ (S (Nat.max n1 (Nat.max n2 n3)))). intros f L.
      rewrite eval_expr_S, (H1 f ltac:(lia)). cbn. rewrite (H2 f ltac:(lia)).
      destruct f; [lia|].
      destruct fv; try discriminate Hp; cbn [ebind]; rewrite apply_proc_S; apply H3; lia.
    + right. exists fe, args, env, st. split.
      * apply (stable_step _ _ 0). intros f _. now rewrite eval_tail_S.
      * exists fv, st1, vs, st2. repeat split; [now exists n1|now exists n2|exact Hp|exact HT].
  - (* ev_call_fail_operator *) intros; intros v0 E; exfalso; eapply refail_Ok; eassumption.
  - (* ev_call_fail_operand *) intros; intros v0 E; exfalso; eapply refail_Ok; eassumption.
  - (* ev_call_not_procedure *) intros; intros v0 E; discriminate.
  - (* evs_nil *)
    intros st env vs E. injection E as <-. apply (stable_step _ _ 0). intros f _. now rewrite eval_args_S.
  - (* evs_cons *)
    intros st env e es v st1 vs st2 _ IHe _ IHes vs0 E. injection E as <-.
    destruct (IHe v eq_refl) as [[n1 H1] _]. destruct (IHes vs eq_refl) as [n2 H2].
    two_max n1 n2 f L. rewrite eval_args_S, (H1 f ltac:(lia)). cbn. now rewrite (H2 f ltac:(lia)).
  - (* evs_fail_head *) intros; intros v0 E; exfalso; eapply refail_Ok; eassumption.
  - (* evs_fail_tail *) intros; intros v0 E; exfalso; eapply refail_Ok; eassumption.
  - (* app_unknown_builtin *) intros; intros v0 E; discriminate.
  - (* app_arity *) intros; intros v0 E; discriminate.
  - (* app_builtin *)
    intros st name args fixed variadic r st' Ha Hok Hn Hb v E env0. subst r.
    apply (stable_step _ _ 0). intros f _. rewrite tramp_S, Ha, Hok. cbn [negb]. now rewrite Hn.
  - (* app_apply_nil *)
    intros st p r st' Hp _ IH v E env0. subst r. destruct (IH v eq_refl env0) as [n Hn].
    apply (stable_step _ _ (S (S n))). intros f L.
    rewrite tramp_S. cbn [proc_arity]. rewrite apply_arity. cbn. try rewrite str_eqb_refl.
    destruct f; [lia|]. rewrite builtin_apply_S.
    destruct f; [lia|].
    destruct p; try discriminate Hp; cbn [rev]; rewrite apply_proc_S; apply Hn; lia.
  - (* app_apply *)
    intros st p init last r st' Hp Hl _ IH v E env0. subst r. destruct (IH v eq_refl env0) as [n Hn].
    apply (stable_step _ _ (S (S n))). intros f L.
    rewrite tramp_S. cbn [proc_arity]. rewrite apply_arity.
    assert (HA : arity_ok (length (p :: init ++ [last])) 1 true = true).
    { unfold arity_ok. cbn [length]. rewrite orb_true_r, andb_true_r. reflexivity. }
    rewrite HA. cbn [negb]. rewrite str_eqb_refl.
    destruct f; [lia|]. rewrite builtin_apply_S.
    destruct f; [lia|].
    rewrite rev_app_distr. cbn [rev List.app].
    destruct p; try discriminate Hp;
      (destruct last; try discriminate Hl; rewrite rev_involutive, apply_proc_S; apply Hn; lia).
  - (* app_apply_not_list *) intros; intros v0 E; discriminate.
  - (* app_apply_not_procedure *) intros; intros v0 E; discriminate.
  - (* app_user *)
    intros st fm defs body closure args r st' Hok _ IH v E env0. subst r.
    destruct (IH v eq_refl) as [[n1 H1]|[fe [aes [env1 [st1 [[n1 H1] D]]]]]].
    + apply (stable_step _ _ n1). intros f L. rewrite tramp_S. cbn [proc_arity]. rewrite Hok. cbn [negb].
      now rewrite (H1 f L).
    + destruct D as [fv [st2 [vs [st3 [[n2 H2] [[n3 H3] [Hp HT]]]]]]].
      destruct (HT env0) as [n4 H4].
      apply (stable_step _ _ (Nat.max n1 (Nat.max n2 (Nat.max n3 n4)))). intros f L.
      rewrite tramp_S. cbn [proc_arity]. rewrite Hok. cbn [negb].
      rewrite (H1 f ltac:(lia)). cbn. rewrite (H2 f ltac:(lia)). cbn. rewrite (H3 f ltac:(lia)). cbn.
      destruct fv; try discriminate Hp; apply H4; lia.
  - (* evproc_body *)
    intros st fm defs body closure args surplus st1 st2 u st3 r st4 Hb Hst2 _ IHd _ IHb v E. subst r.
    destruct (IHd u eq_refl) as [n1 H1].
    assert (Step : forall f, n1 <= f -> apply_scheme (S f) fm defs body closure args st = eval_body f body (fst (alloc_frame st (Some closure))) st3).
    { intros f L. rewrite apply_scheme_S.
      destruct (alloc_frame st (Some closure)) as [local st0] eqn:EA. cbn [fst snd] in *.
      rewrite Hb. rewrite <- Hst2. now rewrite (H1 f L). }
    destruct (IHb v eq_refl) as [[n2 H2]|[fe [aes [env1 [st5 [[n2 H2] D]]]]]].
    + left. two_max n1 n2 f L. rewrite Step by lia. apply H2. lia.
    + right. exists fe, aes, env1, st5. split; [|exact D].
      two_max n1 n2 f L. rewrite Step by lia. apply H2. lia.
  - (* evproc_defs_fail *) intros; intros v0 E; exfalso; eapply refail_Ok; eassumption.
  - (* evproc_bind_fail *) intros; intros v0 E; exfalso; eapply refail_Ok; eassumption.
  - (* evdefs_nil *)
    intros st env u E. apply (stable_step _ _ 0). intros f _. now rewrite eval_defs_S.
  - (* evdefs_cons *)
    intros st env x e l ds v st1 r st2 _ IHe _ IHd u E. subst r.
    destruct (IHe v eq_refl) as [[n1 H1] _]. destruct (IHd u eq_refl) as [n2 H2].
    two_max n1 n2 f L. rewrite eval_defs_S, (H1 f ltac:(lia)). cbn. apply H2. lia.
  - (* evdefs_fail *) intros; intros v0 E; exfalso; eapply refail_Ok; eassumption.
  - (* evbody_empty *) intros; intros v0 E; discriminate.
  - (* evbody_last *)
    intros st env e r st' _ IH v E. subst r. destruct (IH v eq_refl) as [_ T].
    destruct T as [[n H]|[fe [aes [env1 [st1 [[n H] D]]]]]].
    + left. apply (stable_step _ _ n). intros f L. rewrite eval_body_S. now apply H.
    + right. exists fe, aes, env1, st1. split; [|exact D].
      apply (stable_step _ _ n). intros f L. rewrite eval_body_S. now apply H.
  - (* evbody_cons *)
    intros st env e e2 es v st1 r st2 _ IHe _ IHb v0 E. subst r.
    destruct (IHe v eq_refl) as [[n1 H1] _].
    destruct (IHb v0 eq_refl) as [[n2 H2]|[fe [aes [env1 [st3 [[n2 H2] D]]]]]].
    + left. two_max n1 n2 f L. rewrite eval_body_S, (H1 f ltac:(lia)). cbn. apply H2. lia.
    + right. exists fe, aes, env1, st3. split; [|exact D].
      two_max n1 n2 f L. rewrite eval_body_S, (H1 f ltac:(lia)). cbn. apply H2. lia.
  - (* evbody_fail *) intros; intros v0 E; exfalso; eapply refail_Ok; eassumption.
Qed.

(** * 3. consequences *)

Theorem ev_complete : forall st env e v st',
  ev st env e (Ok v) st' -> exists n, forall f, n <= f -> eval_expr f e env st = (Ok v, st').
Proof.
  intros st env e v st' H. destruct complete_all as [C _]. destruct (C _ _ _ _ _ H v eq_refl) as [S1 _]. exact S1.
Qed.

Theorem evs_complete : forall st env es vs st',
  evs st env es (Ok vs) st' -> exists n, forall f, n <= f -> eval_args f es env st = (Ok vs, st').
Proof.
  intros st env es vs st' H. destruct complete_all as [_ [C _]]. exact (C _ _ _ _ _ H vs eq_refl).
Qed.

Theorem app_complete : forall st p args v st' env,
  app st p args (Ok v) st' -> exists n, forall f, n <= f -> apply_proc f p args env st = (Ok v, st').
Proof.
  intros st p args v st' env H. destruct complete_all as [_ [_ [C _]]].
  destruct (C _ _ _ _ _ H v eq_refl env) as [n Hn]. exists (S n). intros f L.
  destruct f; [lia|]. rewrite apply_proc_S. apply Hn. lia.
Qed.

(** any answer of the evaluator other than a timeout is the value the rules assign *)
Theorem eval_decided_by_rules : forall fuel e env st r st1 v st',
  eval_expr fuel e env st = (r, st1) -> noF r -> ev st env e (Ok v) st' -> r = Ok v /\ st1 = st'.
Proof.
  intros fuel e env st r st1 v st' H N D. destruct (ev_complete _ _ _ _ _ D) as [n Hn].
  pose proof (eval_expr_mono fuel (Nat.max fuel n) e env st r st1 ltac:(lia) H N) as H1.
  rewrite (Hn (Nat.max fuel n) ltac:(lia)) in H1. injection H1 as <- <-. now split.
Qed.

Theorem apply_decided_by_rules : forall fuel p args env st r st1 v st',
  apply_proc fuel p args env st = (r, st1) -> noF r -> app st p args (Ok v) st' -> r = Ok v /\ st1 = st'.
Proof.
  intros fuel p args env st r st1 v st' H N D. destruct (app_complete _ _ _ _ _ env D) as [n Hn].
  pose proof (apply_proc_mono fuel (Nat.max fuel n) p args env st r st1 ltac:(lia) H N) as H1.
  rewrite (Hn (Nat.max fuel n) ltac:(lia)) in H1. injection H1 as <- <-. now split.
Qed.

(** the rules assign at most one value and final state *)
Theorem ev_value_unique : forall st env e v st' v2 st2,
  ev st env e (Ok v) st' -> ev st env e (Ok v2) st2 -> v = v2 /\ st' = st2.
Proof.
  intros st env e v st' v2 st2 D1 D2.
  destruct (ev_complete _ _ _ _ _ D1) as [n1 H1]. destruct (ev_complete _ _ _ _ _ D2) as [n2 H2].
  pose proof (H1 (Nat.max n1 n2) ltac:(lia)) as E1. rewrite (H2 (Nat.max n1 n2) ltac:(lia)) in E1.
  injection E1 as <- <-. now split.
Qed.

Theorem app_value_unique : forall st p args v st' v2 st2,
  app st p args (Ok v) st' -> app st p args (Ok v2) st2 -> v = v2 /\ st' = st2.
Proof.
  intros st p args v st' v2 st2 D1 D2.
  destruct (app_complete _ _ _ _ _ 0 D1) as [n1 H1]. destruct (app_complete _ _ _ _ _ 0 D2) as [n2 H2].
  pose proof (H1 (Nat.max n1 n2) ltac:(lia)) as E1. rewrite (H2 (Nat.max n1 n2) ltac:(lia)) in E1.
  injection E1 as <- <-. now split.
Qed.

(** and a value excludes a failure: if the rules assign a value to an expression they assign it no
    error (through soundness: an error derivation would have to be the evaluator's answer) -
    stated for the evaluator: it never answers with an error where the rules give a value *)
Theorem no_spurious_error : forall fuel e env st r st1 v st',
  eval_expr fuel e env st = (r, st1) -> ev st env e (Ok v) st' -> failed r -> False.
Proof.
  intros fuel e env st r st1 v st' H D F.
  destruct (eval_decided_by_rules _ _ _ _ _ _ _ _ H (failed_noF _ F) D) as [-> _]. exact F.
Qed.
