(** C11: equal? of base.sld (see Proofs/LibBase.v) *)
From Coq Require Import ZArith NArith List Bool Lia PeanoNat.
From RV Require Import Model.Common Model.Real32 Model.Num Model.Datum Model.Lexer Model.Reader Model.Macro
  Model.Ast Model.Transform Model.Value Model.Equal Model.Print Model.Builtins Model.Eval Model.Interp
  Spec.EvalSpec Spec.ListSpec Gen.GrammarSld Gen.BaseSld Proofs.Basics Proofs.StoreProofs Proofs.EvalProofs Proofs.FuelProofs
  Proofs.DerivedProofs Proofs.ListProofs Proofs.LibBase.
Import ListNotations.
Local Open Scope Z_scope.

(** equal?: structural equality on pairs, eqv? at the leaves *)
Definition n_equalp := [101;113;117;97;108;63].
(* the parameter names as they are in base.sld now (so that a renaming re-proves) *)
Definition p_equalp_0 : str := Eval vm_compute in par n_equalp 0.
Definition p_equalp_1 : str := Eval vm_compute in par n_equalp 1.

Lemma equalp_closure : forall c, code_of n_equalp = Some c ->
  forall x y st lf, has_library st lf ->
  exists st', app st (closure c lf) [x; y] (Ok (VBool (vequal x y))) st' /\ keeps st st'.
Proof.
  intros c Hc. vm_compute in Hc. injection Hc as <-.
  induction x as [| | | | | | | |a IHa b IHb| | |]; intros y st lf HL; open_lib HL.
  9: {
    destruct y as [| | | | | | | |c d| | |];
      try (eexists; split;
           [enter_tac; eapply evbody_last; eapply ev_if_true; [ev_simple|reflexivity|];
            eapply ev_if_false; [ev_simple|reflexivity|ev_simple] | keeps_tac]).
    start_proc st lf [(p_equalp_0, VPair a b); (p_equalp_1, VPair c d)].
    assert (HL1 : has_library (enter st lf [(p_equalp_0, VPair a b); (p_equalp_1, VPair c d)]) lf)
      by (eapply has_library_keeps; [exact HL | keeps_tac]).
    destruct (IHa c _ lf HL1) as [st2 [Hcar K2]].
    transport (enter st lf [(p_equalp_0, VPair a b); (p_equalp_1, VPair c d)]) st2 K2.
    cbn [vequal]. destruct (vequal a c) eqn:E1.
    - assert (HL2 : has_library st2 lf) by (eapply has_library_keeps; [exact HL | keeps_tac]).
      destruct (IHb d _ lf HL2) as [st3 [Hcdr K3]].
      eexists. split.
      + enter_tac. eapply evbody_last. eapply ev_if_true; [ev_simple|reflexivity|].
        eapply ev_if_true; [ev_simple|reflexivity|].
        eapply ev_if_true; [ev_simple|reflexivity|]. ev_simple.
      + keeps_tac.
    - eexists. split.
      + enter_tac. eapply evbody_last. eapply ev_if_true; [ev_simple|reflexivity|].
        eapply ev_if_true; [ev_simple|reflexivity|].
        eapply ev_if_false; [ev_simple|reflexivity|]. ev_simple.
      + keeps_tac.
  }
  all: destruct y as [| | | | | | | |yc yd| | |];
    (eexists; split;
     [enter_tac; eapply evbody_last; eapply ev_if_false; [ev_simple|reflexivity|];
      first [ eapply ev_if_true; [ev_simple|reflexivity|ev_simple]
            | eapply ev_if_false; [ev_simple|reflexivity|ev_simple] ]
     | keeps_tac]).
Qed.

Theorem equalp_spec : forall x y, lib_call n_equalp [x; y] (VBool (vequal x y)).
Proof.
  intros x y. eapply lib_call_intro; [vm_compute; reflexivity|].
  intros st lf HL. now apply equalp_closure.
Qed.



