(** C07: no input can crash the interpreter - the whole interpreter level. For every program text, file
    system and fuel: reading, transforming, importing, instantiating libraries and evaluating, form after
    form, never ends in one of the panic sites of the Rust code ([PUnmodelled] is the model's own limit).
    Invariant of the context: every procedure body in the store, in the exports of the instantiated
    libraries, in the native tables and in the parsed library definitions held by the factories is
    non-empty ([cnb]). *)
From Coq Require Import ZArith NArith List Bool Lia PeanoNat.
From RV Require Import Model.Common Model.Real32 Model.Num Model.Datum Model.Lexer Model.Reader Model.Macro Model.Ast
  Model.Transform Model.Value Model.Print Model.Builtins Model.Eval Model.Interp Spec.EvalSpec Proofs.Basics
  Proofs.StoreProofs Proofs.EvalProofs Proofs.LexProofs Proofs.ReaderProofs Proofs.ImportProofs Proofs.LoaderProofs
  Proofs.WorldProofs Proofs.RegionProofs Proofs.LoaderRegion Proofs.NoPanicProofs Proofs.LocInvProofs.
From RV Require Import Proofs.NoPanicEval Proofs.TransformNB Proofs.MacroNoPanic Proofs.TransformNoPanic.
Import ListNotations.

Definition lib_nb (lib : library) : Prop := Forall (fun d => vnb (snd d)) lib.
Definition factory_nb (fa : factory) : Prop :=
  match fa with FNative defs => lib_nb defs | FAst decls => Forall nbd decls end.
Definition inst_nb (i : instance) : Prop :=
  Forall (fun nl => lib_nb (snd nl)) (i_libraries i) /\ Forall (fun nf => factory_nb (snd nf)) (i_factories i).
Definition cnb (c : ictx) : Prop := snb (c_st c) /\ inst_nb (c_inst c).

(** ** reading and transforming *)
Lemma parse_next_quiet : forall c s x c', parse_next c s <> (Panic x, c').
Proof.
  intros c s x c' H. unfold parse_next in H.
  pose proof (read_next_total s) as [NP _].
  destruct (read_next s) as [[[d|] s1]|k l|y|] eqn:ER; try discriminate.
  - destruct (transform_stmt (100 * S (datum_size d)) d [c_syn c]) as [r e'] eqn:ET.
    destruct r; try discriminate. injection H as -> _.
    exact (transformer_never_panics _ _ _ _ _ ET).
  - exact (NP y eq_refl).
Qed.

Lemma nbs_library_inv : forall n decls l, nbs (SLibrary n decls l) -> Forall nbd decls.
Proof. intros n decls l H. cbn in H. induction decls as [|d r IH]; [constructor|]. destruct H. constructor; auto. Qed.
Lemma nbd_begin_inv : forall body l, nbd (LDBegin body l) -> Forall nbs body.
Proof. intros body l H. cbn in H. induction body as [|d r IH]; [constructor|]. destruct H. constructor; auto. Qed.

Lemma parse_next_nb : forall c s stm s1 c', parse_next c s = (Ok (Some stm, s1), c') -> nbs stm.
Proof.
  intros c s stm s1 c' H. unfold parse_next in H.
  destruct (read_next s) as [[[d|] s0]|k l|y|]; try discriminate.
  destruct (transform_stmt (100 * S (datum_size d)) d [c_syn c]) as [r e'] eqn:ET.
  destruct r; try discriminate. injection H as <- _ _.
  exact (transform_bodies_non_empty _ _ _ _ _ ET).
Qed.

Lemma find_library_quiet : forall fuel n s c x c', find_library fuel n s c <> (Panic x, c').
Proof.
  induction fuel as [|f IH]; intros n s c x c' H; cbn [find_library] in H; [discriminate|].
  destruct (parse_next c s) as [[[o s1]|k l|y|] c1] eqn:EP; cbn in H; try discriminate.
  - destruct o as [stm|]; [|discriminate].
    destruct stm; try (eapply IH; exact H). destruct (libname_eqb n0 n); [discriminate|eapply IH; exact H].
  - injection H as -> ->. exact (parse_next_quiet _ _ _ _ EP).
Qed.

Lemma find_library_nb : forall fuel n s c fa c', find_library fuel n s c = (Ok fa, c') -> factory_nb fa.
Proof.
  induction fuel as [|f IH]; intros n s c fa c' H; cbn [find_library] in H; [discriminate|].
  destruct (parse_next c s) as [[[o s1]|k l|y|] c1] eqn:EP; cbn in H; try discriminate.
  destruct o as [stm|]; [|discriminate].
  pose proof (parse_next_nb _ _ _ _ _ EP) as Hn.
  destruct stm as [sets l|x e l|kw t l|e|m decls l]; try (eapply IH; exact H).
  destruct (libname_eqb m n); [|eapply IH; exact H].
  injection H as <- _. cbn. now apply nbs_library_inv in Hn.
Qed.

(** ** a top-level expression, definition or syntax definition *)
Definition quiet_or_oof {A} (r : res A) : Prop := forall x, r = Panic x -> x = PUnmodelled.

Lemma eval_expr_or_def_nb : forall efuel stm env c r c',
  eval_expr_or_def efuel stm env c = (r, c') -> noF r -> cnb c -> nbs stm ->
  cnb c' /\ quiet r /\ forall v, r = Ok (Some v) -> vnb v.
Proof.
  intros efuel stm env c r c' H N [Hs Hi] Hn. unfold eval_expr_or_def in H.
  destruct stm as [sets l|x e l|kw t l|e|n decls l].
  - injection H as <- <-. split; [now split|]. split; [apply quiet_err|intros v E; discriminate].
  - destruct (eval_expr efuel e env (c_st c)) as [re st1] eqn:EE. cbn in H.
    destruct re as [v|k ll|xx|]; cbn in H; injection H as <- <-; try (exfalso; now apply N).
    + destruct (bodies_stay_non_empty _ _ _ _ _ _ EE ltac:(discriminate) Hs Hn) as [S1 R1].
      split; [split; cbn; [apply env_define_nb; [exact S1|now apply R1]|exact Hi]|].
      split; [apply quiet_ok|intros w E; discriminate].
    + destruct (bodies_stay_non_empty _ _ _ _ _ _ EE ltac:(discriminate) Hs Hn) as [S1 R1].
      split; [split; [exact S1|exact Hi]|]. split; [apply quiet_err|intros w E; discriminate].
    + destruct (bodies_stay_non_empty _ _ _ _ _ _ EE ltac:(discriminate) Hs Hn) as [S1 R1].
      split; [split; [exact S1|exact Hi]|]. split; [|intros w E; discriminate].
      intros y E. injection E as <-. exact (evaluator_reaches_no_panic_site _ _ _ _ _ _ EE Hs Hn).
  - injection H as <- <-. split; [split; cbn; [apply env_define_nb; [exact Hs|exact I]|exact Hi]|].
    split; [apply quiet_ok|intros v E; discriminate].
  - destruct (eval_expr efuel e env (c_st c)) as [re st1] eqn:EE. cbn in H.
    destruct re as [v|k ll|xx|]; cbn in H; injection H as <- <-; try (exfalso; now apply N);
      destruct (bodies_stay_non_empty _ _ _ _ _ _ EE ltac:(discriminate) Hs Hn) as [S1 R1];
      (split; [split; [exact S1|exact Hi]|]).
    + split; [apply quiet_ok|]. intros w E. injection E as <-. now apply R1.
    + split; [apply quiet_err|intros w E; discriminate].
    + split; [|intros w E; discriminate].
      intros y E. injection E as <-. exact (evaluator_reaches_no_panic_site _ _ _ _ _ _ EE Hs Hn).
  - injection H as <- <-. split; [now split|]. split; [apply quiet_err|intros v E; discriminate].
Qed.

(** ** the loader *)
Lemma lib_get_nb : forall (l : list (libname * library)) n lib,
  Forall (fun nl => lib_nb (snd nl)) l -> lib_get l n = Some lib -> lib_nb lib.
Proof.
  intros l n lib H. induction H as [|[m x] r Hx Hr IH]; cbn; [discriminate|].
  destruct (libname_eqb n m); [intros E; injection E as <-; exact Hx|exact IH].
Qed.
Lemma fac_get_nb : forall (l : list (libname * factory)) n fa,
  Forall (fun nf => factory_nb (snd nf)) l -> lib_get l n = Some fa -> factory_nb fa.
Proof.
  intros l n fa H. induction H as [|[m x] r Hx Hr IH]; cbn; [discriminate|].
  destruct (libname_eqb n m); [intros E; injection E as <-; exact Hx|exact IH].
Qed.
Lemma lib_nb_filter : forall (f : str * value -> bool) l, lib_nb l -> lib_nb (filter f l).
Proof. intros f l H. unfold lib_nb in *. rewrite Forall_forall in *. intros d Hd. apply filter_In in Hd. apply H, Hd. Qed.
Lemma lib_nb_map : forall (g : str * value -> str * value) l, (forall d, snd (g d) = snd d) -> lib_nb l -> lib_nb (map g l).
Proof.
  intros g l Hg H. unfold lib_nb in *. rewrite Forall_forall in *. intros d Hd.
  apply in_map_iff in Hd. destruct Hd as [d0 [<- Hin]]. rewrite Hg. now apply H.
Qed.
Lemma fold_alist_set_nb : forall defs acc, lib_nb defs -> lib_nb acc ->
  lib_nb (fold_left (fun a d => alist_set a (fst d) (snd d)) defs acc).
Proof.
  intros defs. induction defs as [|d r IH]; intros acc Hd Ha; cbn; [exact Ha|].
  inversion Hd; subst. apply IH; [assumption|]. now apply alist_set_Forall.
Qed.
Lemma fold_define_nb : forall env defs st, snb st -> lib_nb defs ->
  snb (fold_left (fun st d => env_define st env (fst d) (snd d)) defs st).
Proof.
  intros env defs. induction defs as [|d r IH]; intros st Hst Hd; cbn; [exact Hst|].
  inversion Hd; subst. apply IH; [now apply env_define_nb|assumption].
Qed.
Lemma env_get_nb : forall st a x v, snb st -> env_get st a x = Some v -> vnb v.
Proof. intros st a x v Hs E. unfold env_get in E. eapply env_get_fuel_nb; eassumption. Qed.

Definition lib_res (r : res library) (c' : ictx) : Prop :=
  cnb c' /\ quiet r /\ forall lib, r = Ok lib -> lib_nb lib.

Record loader_nb (f : nat) : Prop := {
  n_set : forall fs cwd efuel s c r c', eval_import_set fs cwd f efuel s c = (r, c') -> noF r -> cnb c -> lib_res r c';
  n_get : forall fs cwd efuel n l c r c', get_library fs cwd f efuel n l c = (r, c') -> noF r -> cnb c -> lib_res r c';
  n_imp : forall fs cwd efuel sets env c r c', eval_import fs cwd f efuel sets env c = (r, c') -> noF r -> cnb c ->
      cnb c' /\ quiet r;
  n_lib : forall fs cwd efuel decls c r c', eval_library_definition fs cwd f efuel decls c = (r, c') -> noF r -> cnb c ->
      Forall nbd decls -> lib_res r c'
}.

Lemma loader_nb_0 : loader_nb 0.
Proof.
  split; intros; cbn in *;
    match goal with
    | H : (OutOfFuel, _) = (?r, _), N : noF ?r |- _ => injection H as <- <-; exfalso; now apply N
    end.
Qed.

Lemma quiet_of_failed : forall {A B} (ra : res A) (r : res B), quiet ra -> failed ra ->
  (forall b, r <> Ok b) -> noF r -> (forall x, r = Panic x -> ra = Panic x) -> quiet r.
Proof. intros A B ra r Q F NO N P x E. apply Q. now apply P. Qed.

(** ibind with the failure made explicit *)
Lemma ibind_inv' : forall {A B} (m : ires A) (k : A -> ictx -> ires B) r c',
  ibind m k = (r, c') -> noF r ->
  (exists a c1, m = (Ok a, c1) /\ k a c1 = (r, c')) \/
  (exists ra c1, m = (ra, c1) /\ failed ra /\ c' = c1 /\ (forall b, r <> Ok b) /\ (forall x, r = Panic x -> ra = Panic x)).
Proof.
  intros A B [ra c1] k r c' H N. destruct ra as [a|kk l|x|]; cbn in H.
  - left. now exists a, c1.
  - right. exists (Err kk l), c1. injection H as <- <-. repeat split; auto; intros; discriminate.
  - right. exists (Panic x), c1. injection H as <- <-. repeat split; auto; try (intros; discriminate).
    intros y E. injection E as <-. reflexivity.
  - injection H as <- <-. exfalso. now apply N.
Qed.

Opaque env_get.
Lemma loader_nb_step : forall f, loader_nb f -> loader_nb (S f).
Proof.
  intros f IH. split.
  - (* eval_import_set *)
    intros fs cwd efuel s c r c' H N Hc. rewrite eval_import_set_S in H.
    destruct s as [n l|sub ids l|sub ids l|sub p l|sub rn l].
    + destruct (lib_get (i_libraries (c_inst c)) n) as [lib|] eqn:EL.
      * injection H as <- <-. split; [exact Hc|]. split; [apply quiet_ok|]. intros lib0 E. injection E as <-.
        eapply lib_get_nb; [apply Hc|exact EL].
      * destruct (in_progress (i_in_progress (c_inst c)) n).
        -- injection H as <- <-. split; [exact Hc|]. split; [apply quiet_err|intros lib0 E; discriminate].
        -- cbv zeta in H.
           destruct (get_library fs cwd f efuel n l (with_inst c (set_progress (c_inst c) (n :: i_in_progress (c_inst c)))))
             as [r1 c1] eqn:EG.
           assert (N1 : noF r1) by (intros ->; injection H as <- <-; now apply N).
           destruct (n_get f IH _ _ _ _ _ _ _ _ EG N1 Hc) as [[S1 [B1 C1]] [Q1 R1]].
           destruct r1 as [lib|k ll|x|]; injection H as <- <-.
           ++ split; [|split; [apply quiet_ok|intros lib0 E; injection E as <-; now apply R1]].
              split; [exact S1|]. split; [|exact C1]. cbn.
              apply (lib_set_Forall lib_nb); [exact B1|now apply R1].
           ++ split; [split; [exact S1|split; assumption]|]. split; [apply quiet_err|intros lib0 E; discriminate].
           ++ split; [split; [exact S1|split; assumption]|]. split; [exact Q1|intros lib0 E; discriminate].
           ++ exfalso. now apply N1.
    + apply ibind_inv' in H; [|exact N]. destruct H as [[defs [c1 [Hm Hk]]]|[ra [c1 [Hm [Fa [-> [Hno HP]]]]]]].
      * destruct (n_set f IH _ _ _ _ _ _ _ Hm ltac:(discriminate) Hc) as [C1 [Q1 R1]].
        injection Hk as <- <-. split; [exact C1|]. split; [apply quiet_ok|]. intros lib E. injection E as <-.
        apply lib_nb_filter. now apply R1.
      * destruct (n_set f IH _ _ _ _ _ _ _ Hm (failed_noF _ Fa) Hc) as [C1 [Q1 R1]].
        split; [exact C1|]. split; [intros x E; apply Q1; now apply HP|intros lib E; exfalso; exact (Hno lib E)].
    + apply ibind_inv' in H; [|exact N]. destruct H as [[defs [c1 [Hm Hk]]]|[ra [c1 [Hm [Fa [-> [Hno HP]]]]]]].
      * destruct (n_set f IH _ _ _ _ _ _ _ Hm ltac:(discriminate) Hc) as [C1 [Q1 R1]].
        injection Hk as <- <-. split; [exact C1|]. split; [apply quiet_ok|]. intros lib E. injection E as <-.
        apply lib_nb_filter. now apply R1.
      * destruct (n_set f IH _ _ _ _ _ _ _ Hm (failed_noF _ Fa) Hc) as [C1 [Q1 R1]].
        split; [exact C1|]. split; [intros x E; apply Q1; now apply HP|intros lib E; exfalso; exact (Hno lib E)].
    + apply ibind_inv' in H; [|exact N]. destruct H as [[defs [c1 [Hm Hk]]]|[ra [c1 [Hm [Fa [-> [Hno HP]]]]]]].
      * destruct (n_set f IH _ _ _ _ _ _ _ Hm ltac:(discriminate) Hc) as [C1 [Q1 R1]].
        injection Hk as <- <-. split; [exact C1|]. split; [apply quiet_ok|]. intros lib E. injection E as <-.
        apply lib_nb_map; [reflexivity|]. now apply R1.
      * destruct (n_set f IH _ _ _ _ _ _ _ Hm (failed_noF _ Fa) Hc) as [C1 [Q1 R1]].
        split; [exact C1|]. split; [intros x E; apply Q1; now apply HP|intros lib E; exfalso; exact (Hno lib E)].
    + apply ibind_inv' in H; [|exact N]. destruct H as [[defs [c1 [Hm Hk]]]|[ra [c1 [Hm [Fa [-> [Hno HP]]]]]]].
      * destruct (n_set f IH _ _ _ _ _ _ _ Hm ltac:(discriminate) Hc) as [C1 [Q1 R1]].
        injection Hk as <- <-. split; [exact C1|]. split; [apply quiet_ok|]. intros lib E. injection E as <-.
        apply lib_nb_map; [intros d; destruct (alist_get (rev rn) (fst d)); reflexivity|]. now apply R1.
      * destruct (n_set f IH _ _ _ _ _ _ _ Hm (failed_noF _ Fa) Hc) as [C1 [Q1 R1]].
        split; [exact C1|]. split; [intros x E; apply Q1; now apply HP|intros lib E; exfalso; exact (Hno lib E)].
  - (* get_library *)
    intros fs cwd efuel n l c r c' H N Hc. rewrite get_library_S in H. cbv zeta in H.
    assert (WF : forall fa c0 r0 c0',
               match fa with
               | FNative defs => (Ok defs, c0)
               | FAst decls => eval_library_definition fs cwd f efuel decls c0
               end = (r0, c0') -> noF r0 -> factory_nb fa -> cnb c0 -> lib_res r0 c0').
    { intros [defs|decls] c0 r0 c0' E N0 Hfa Hc0.
      - injection E as <- <-. split; [exact Hc0|]. split; [apply quiet_ok|]. intros lib E. injection E as <-. exact Hfa.
      - eapply (n_lib f IH); eassumption. }
    destruct (lib_get (i_factories (c_inst c)) n) as [fa|] eqn:EF.
    + eapply WF; try eassumption. eapply fac_get_nb; [apply Hc|exact EF].
    + destruct (fs_get fs _); [|injection H as <- <-; split; [exact Hc|split; [apply quiet_err|intros lib E; discriminate]]].
      unfold read_file in H.
      destruct (fs_get fs _) as [[t| |]|];
        try (injection H as <- <-; split; [exact Hc|split; [apply quiet_err|intros lib E; discriminate]]).
      apply ibind_inv' in H; [|exact N]. destruct H as [[fa [c1 [Hm Hk]]]|[ra [c1 [Hm [Fa [-> [Hno HP]]]]]]].
      * unfold factory_from_text in Hm. pose proof (find_library_same _ _ _ _ _ _ Hm) as [E1 E2].
        pose proof (find_library_nb _ _ _ _ _ _ Hm) as Hfa.
        eapply WF; [exact Hk|exact N|exact Hfa|].
        destruct Hc as [Hs [B C]]. split; cbn; [rewrite E1; exact Hs|]. rewrite E2. split; [exact B|].
        cbn. apply (lib_set_Forall factory_nb); assumption.
      * unfold factory_from_text in Hm. pose proof (find_library_same _ _ _ _ _ _ Hm) as [E1 E2].
        split; [destruct Hc as [Hs Hi]; split; [rewrite E1; exact Hs|rewrite E2; exact Hi]|].
        split; [|intros lib E; exfalso; exact (Hno lib E)].
        intros x E. apply HP in E. subst ra. exfalso. exact (find_library_quiet _ _ _ _ _ _ Hm).
  - (* eval_import *)
    intros fs cwd efuel sets env c r c' H N Hc. rewrite eval_import_S in H. cbv zeta in H.
    match type of H with
    | ibind (?collect sets [] c) _ = _ =>
        assert (G : forall ss acc c0 r0 c0', collect ss acc c0 = (r0, c0') -> noF r0 -> cnb c0 -> lib_nb acc -> lib_res r0 c0')
    end.
    { clear H. induction ss as [|x rest IHs]; intros acc c0 r0 c0' E N0 Hc0 Hacc; cbn in E.
      - injection E as <- <-. split; [exact Hc0|]. split; [apply quiet_ok|]. intros lib E. injection E as <-. exact Hacc.
      - apply ibind_inv' in E; [|exact N0]. destruct E as [[defs [c1 [Hm Hk]]]|[ra [c1 [Hm [Fa [-> [Hno HP]]]]]]].
        + destruct (n_set f IH _ _ _ _ _ _ _ Hm ltac:(discriminate) Hc0) as [C1 [Q1 R1]].
          exact (IHs _ _ _ _ Hk N0 C1 (fold_alist_set_nb defs acc (R1 defs eq_refl) Hacc)).
        + destruct (n_set f IH _ _ _ _ _ _ _ Hm (failed_noF _ Fa) Hc0) as [C1 [Q1 R1]].
          split; [exact C1|]. split; [intros y Ey; apply Q1; now apply HP|intros lib Ey; exfalso; exact (Hno lib Ey)]. }
    apply ibind_inv' in H; [|exact N]. destruct H as [[defs [c1 [Hm Hk]]]|[ra [c1 [Hm [Fa [-> [Hno HP]]]]]]].
    + destruct (G _ _ _ _ _ Hm ltac:(discriminate) Hc ltac:(constructor)) as [[S1 I1] [Q1 R1]].
      injection Hk as <- <-. split; [|apply quiet_ok]. split; cbn; [|exact I1].
      apply fold_define_nb; [exact S1|now apply R1].
    + destruct (G _ _ _ _ _ Hm (failed_noF _ Fa) Hc ltac:(constructor)) as [C1 [Q1 R1]].
      split; [exact C1|]. intros x E. apply Q1. now apply HP.
  - (* eval_library_definition *)
    intros fs cwd efuel decls c r c' H N Hc Hd. rewrite eval_library_definition_S in H.
    destruct (alloc_frame (c_st c) None) as [lib_env st0] eqn:EA. cbv zeta in H.
    assert (Hc0 : cnb (with_st c st0)).
    { destruct Hc as [Hs Hi]. split; cbn; [|exact Hi].
      pose proof (alloc_frame_nb (c_st c) None Hs) as Ha. rewrite EA in Ha. exact Ha. }
    assert (GS : forall body c0 r0 c0',
               (fix stmts (l : list stmt) (c : ictx) {struct l} : ires unit :=
                  match l with
                  | [] => (Ok tt, c)
                  | x :: r => doi (_, c1) <- eval_expr_or_def efuel x lib_env c ;; stmts r c1
                  end) body c0 = (r0, c0') -> noF r0 -> cnb c0 -> Forall nbs body -> cnb c0' /\ quiet r0).
    { induction body as [|x b IHb]; intros c0 r0 c0' E N0 Hc1 Hb; cbn in E.
      - injection E as <- <-. split; [exact Hc1|apply quiet_ok].
      - inversion Hb; subst.
        apply ibind_inv' in E; [|exact N0]. destruct E as [[u [c1 [Hm Hk]]]|[ra [c1 [Hm [Fa [-> [Hno HP]]]]]]].
        + destruct (eval_expr_or_def_nb _ _ _ _ _ _ Hm ltac:(discriminate) Hc1 ltac:(assumption)) as [C2 _].
          exact (IHb _ _ _ Hk N0 C2 ltac:(assumption)).
        + destruct (eval_expr_or_def_nb _ _ _ _ _ _ Hm (failed_noF _ Fa) Hc1 ltac:(assumption)) as [C2 [Q2 _]].
          split; [exact C2|]. intros y E. apply Q2. now apply HP. }
    match type of H with
    | ibind (?run decls [] ?c0) _ = _ =>
        assert (GR : forall ds exports c1 r1 c1', run ds exports c1 = (r1, c1') -> noF r1 -> cnb c1 -> Forall nbd ds ->
                   cnb c1' /\ quiet r1)
    end.
    { induction ds as [|d rest IHd]; intros exports c1 r1 c1' E N1 Hc1 Hds; cbn in E.
      - injection E as <- <-. split; [exact Hc1|apply quiet_ok].
      - inversion Hds as [|? ? Hd0 Hrest]; subst. destruct d as [sets l|specs l|body l].
        + apply ibind_inv' in E; [|exact N1]. destruct E as [[u [c2 [Hm Hk]]]|[ra [c2 [Hm [Fa [-> [Hno HP]]]]]]].
          * destruct (n_imp f IH _ _ _ _ _ _ _ _ Hm ltac:(discriminate) Hc1) as [C2 _].
            exact (IHd _ _ _ _ Hk N1 C2 Hrest).
          * destruct (n_imp f IH _ _ _ _ _ _ _ _ Hm (failed_noF _ Fa) Hc1) as [C2 Q2].
            split; [exact C2|]. intros y E. apply Q2. now apply HP.
        + eapply IHd; eassumption.
        + apply ibind_inv' in E; [|exact N1]. destruct E as [[u [c2 [Hm Hk]]]|[ra [c2 [Hm [Fa [-> [Hno HP]]]]]]].
          * destruct (GS _ _ _ _ Hm ltac:(discriminate) Hc1 (nbd_begin_inv _ _ Hd0)) as [C2 _].
            exact (IHd _ _ _ _ Hk N1 C2 Hrest).
          * destruct (GS _ _ _ _ Hm (failed_noF _ Fa) Hc1 (nbd_begin_inv _ _ Hd0)) as [C2 Q2].
            split; [exact C2|]. intros y E. apply Q2. now apply HP. }
    apply ibind_inv' in H; [|exact N]. destruct H as [[exports [c1 [Hm Hk]]]|[ra [c1 [Hm [Fa [-> [Hno HP]]]]]]].
    + destruct (GR _ _ _ _ _ Hm ltac:(discriminate) Hc0 Hd) as [[S2 I2] _].
      injection Hk as <- <-. split; [split; assumption|].
      assert (GE : forall xs acc, lib_nb acc ->
                 quiet ((fix export (xs : list export_spec) (acc : library) {struct xs} : res library :=
                    match xs with
                    | [] => Ok acc
                    | x :: r =>
                        let '(from, to, l) := match x with XDirect a l => (a, a, l) | XRename a b l => (a, b, l) end in
                        match env_get (c_st c1) lib_env from with
                        | Some v => export r (alist_set acc to v)
                        | None => lerr UnboundedSymbol l
                        end
                    end) xs acc) /\
                 forall lib, (fix export (xs : list export_spec) (acc : library) {struct xs} : res library :=
                    match xs with
                    | [] => Ok acc
                    | x :: r =>
                        let '(from, to, l) := match x with XDirect a l => (a, a, l) | XRename a b l => (a, b, l) end in
                        match env_get (c_st c1) lib_env from with
                        | Some v => export r (alist_set acc to v)
                        | None => lerr UnboundedSymbol l
                        end
                    end) xs acc = Ok lib -> lib_nb lib).
      { induction xs as [|x r0 IHx]; intros acc Hacc.
        - split; [apply quiet_ok|]. intros lib E. injection E as <-. exact Hacc.
        - destruct x as [a l|a b l]; cbn.
          + destruct (env_get (c_st c1) lib_env a) as [v|] eqn:EG; [|split; [apply quiet_err|intros lib E; discriminate]].
            apply IHx. apply alist_set_Forall; [exact Hacc|]. eapply env_get_nb; eassumption.
          + destruct (env_get (c_st c1) lib_env a) as [v|] eqn:EG; [|split; [apply quiet_err|intros lib E; discriminate]].
            apply IHx. apply alist_set_Forall; [exact Hacc|]. eapply env_get_nb; eassumption. }
      exact (GE exports [] ltac:(constructor)).
    + destruct (GR _ _ _ _ _ Hm (failed_noF _ Fa) Hc0 Hd) as [C2 Q2].
      split; [exact C2|]. split; [intros y E; apply Q2; now apply HP|intros lib E; exfalso; exact (Hno lib E)].
Qed.
Transparent env_get.

Theorem loader_nb_all : forall f, loader_nb f.
Proof. induction f; [exact loader_nb_0|now apply loader_nb_step]. Qed.

(** * a top-level form through an instance *)
Lemma quiet_relocate : forall {A} (r : res A) l, quiet r -> quiet (relocate r l).
Proof. intros A [a|k l0|x|] l Q y E; cbn in E; try discriminate. now apply Q. Qed.

Theorem eval_ast_nb : forall fs cwd efuel stm env c r c',
  eval_ast fs cwd efuel stm env c = (r, c') -> noF r -> cnb c -> nbs stm -> cnb c' /\ quiet r.
Proof.
  intros fs cwd efuel stm env c r c' H N Hc Hn. unfold eval_ast in H.
  assert (Hc2 : cnb (with_inst c (set_import_end (c_inst c) true))) by (destruct Hc as [A [B C]]; split; [exact A|split; assumption]).
  assert (ED : forall stm0 c0 r1 c1, eval_expr_or_def efuel stm0 env c0 = (r1, c1) -> noF (relocate r1 (stmt_loc stm)) -> cnb c0 ->
               nbs stm0 -> cnb c1 /\ quiet (relocate r1 (stmt_loc stm))).
  { intros stm0 c0 r1 c1 E N1 Hc0 Hn0.
    destruct (eval_expr_or_def_nb _ _ _ _ _ _ E (relocate_noF _ _ N1) Hc0 Hn0) as [C1 [Q1 _]].
    split; [exact C1|now apply quiet_relocate]. }
  destruct (negb (i_import_end (c_inst c))).
  - destruct stm as [sets l|x e l|kw t l|e|n decls l].
    + destruct (eval_import fs cwd (import_fuel c) efuel sets env c) as [r1 c1] eqn:EI. cbn in H.
      assert (N1 : noF r1).
      { destruct r1; cbn in H; injection H as <- <-; try discriminate. exfalso. now apply N. }
      destruct (n_imp _ (loader_nb_all _) _ _ _ _ _ _ _ _ EI N1 Hc) as [C1 Q1].
      destruct r1; cbn in H; injection H as <- <-; (split; [exact C1|]); try (intros y E; discriminate).
      intros y E. cbn in E. injection E as <-. now apply Q1.
    + destruct (eval_expr_or_def efuel (SDef x e l) env (with_inst c (set_import_end (c_inst c) true))) as [r1 c1] eqn:EE.
      injection H as <- <-. eapply ED; eassumption.
    + destruct (eval_expr_or_def efuel (SSyntaxDef kw t l) env (with_inst c (set_import_end (c_inst c) true))) as [r1 c1] eqn:EE.
      injection H as <- <-. eapply ED; eassumption.
    + destruct (eval_expr_or_def efuel (SExpr e) env (with_inst c (set_import_end (c_inst c) true))) as [r1 c1] eqn:EE.
      injection H as <- <-. eapply ED; eassumption.
    + injection H as <- <-. split; [exact Hc|]. intros y E. discriminate.
  - destruct (eval_expr_or_def efuel stm env c) as [r1 c1] eqn:EE. injection H as <- <-. eapply ED; eassumption.
Qed.

(** * a whole text: the trace of outcomes, form after form *)
Lemma with_syn_nb : forall c s, cnb c -> cnb (with_syn c s).
Proof. intros c s H. exact H. Qed.

Lemma parse_next_cnb : forall c s r c', parse_next c s = (r, c') -> cnb c -> cnb c'.
Proof.
  intros c s r c' H Hc. pose proof (parsing_touches_only_syntax c s) as [P1 P2]. rewrite H in P1, P2. cbn in P1, P2.
  destruct Hc as [A B]. split; [rewrite P1; exact A|rewrite P2; exact B].
Qed.

Definition trace_quiet (t : list (res (option value))) : Prop := forall x, In (Panic x) t -> x = PUnmodelled.

Theorem eval_loop_quiet : forall fs cwd fuel efuel s last c trace r c' trace',
  eval_loop fs cwd fuel efuel s last c trace = ((r, c'), trace') ->
  cnb c -> trace_quiet trace -> trace_quiet trace' /\ quiet r.
Proof.
  induction fuel as [|f IH]; intros efuel s last c trace r c' trace' H Hc Ht; cbn [eval_loop] in H.
  - injection H as <- _ <-. split; [exact Ht|intros y E; discriminate].
  - destruct (parse_next c s) as [[[o s1]|k l|y|] c1] eqn:EP.
    + pose proof (parse_next_cnb _ _ _ _ EP Hc) as Hc1.
      destruct o as [stm|]; [|injection H as <- _ <-; split; [exact Ht|apply quiet_ok]].
      pose proof (parse_next_nb _ _ _ _ _ EP) as Hn.
      destruct (eval_ast fs cwd efuel stm (i_env (c_inst c1)) c1) as [ra c2] eqn:EA.
      destruct ra as [v|k l|y|].
      * destruct (eval_ast_nb _ _ _ _ _ _ _ _ EA ltac:(discriminate) Hc1 Hn) as [C2 _].
        eapply IH; [exact H|exact C2|]. intros x Hx. apply in_app_or in Hx. destruct Hx as [Hx|[Hx|[]]]; [now apply Ht|discriminate].
      * injection H as <- _ <-. split; [|apply quiet_err].
        intros x Hx. apply in_app_or in Hx. destruct Hx as [Hx|[Hx|[]]]; [now apply Ht|discriminate].
      * destruct (eval_ast_nb _ _ _ _ _ _ _ _ EA ltac:(discriminate) Hc1 Hn) as [_ Q2].
        injection H as <- _ <-. split; [|exact Q2].
        intros x Hx. apply in_app_or in Hx. destruct Hx as [Hx|[Hx|[]]]; [now apply Ht|]. injection Hx as <-. now apply Q2.
      * injection H as <- _ <-. split; [|intros x E; discriminate].
        intros x Hx. apply in_app_or in Hx. destruct Hx as [Hx|[Hx|[]]]; [now apply Ht|discriminate].
    + injection H as <- _ <-. split; [|apply quiet_err].
      intros x Hx. apply in_app_or in Hx. destruct Hx as [Hx|[Hx|[]]]; [now apply Ht|discriminate].
    + exfalso. exact (parse_next_quiet _ _ _ _ EP).
    + injection H as <- _ <-. split; [|intros x E; discriminate].
      intros x Hx. apply in_app_or in Hx. destruct Hx as [Hx|[Hx|[]]]; [now apply Ht|discriminate].
Qed.

(** Interpreter::eval on any text, in any context that meets the invariant *)
Theorem eval_text_reaches_no_panic_site : forall fs cwd efuel text c r c' trace,
  eval_text fs cwd efuel text c = ((r, c'), trace) -> cnb c ->
  (forall x, r = Panic x -> x = PUnmodelled) /\ (forall x, In (Panic x) trace -> x = PUnmodelled).
Proof.
  intros fs cwd efuel text c r c' trace H Hc. unfold eval_text in H.
  destruct (eval_loop_quiet _ _ _ _ _ _ _ _ _ _ _ H Hc ltac:(intros x [])) as [T Q]. split; [exact Q|exact T].
Qed.

(** Interpreter::eval_file *)
Theorem eval_file_reaches_no_panic_site : forall fs cwd efuel dir file c r c' trace,
  eval_file fs cwd efuel dir file c = ((r, c'), trace) -> cnb c ->
  (forall x, r = Panic x -> x = PUnmodelled) /\ (forall x, In (Panic x) trace -> x = PUnmodelled).
Proof.
  intros fs cwd efuel dir file c r c' trace H Hc. unfold eval_file in H.
  assert (Hc0 : cnb (with_inst c (set_progdir (c_inst c) (Some dir)))) by (destruct Hc as [A [B C]]; split; [exact A|split; assumption]).
  unfold read_file in H. destruct (fs_get fs (dir, file)) as [[t| |]|].
  - eapply eval_text_reaches_no_panic_site; eassumption.
  - injection H as <- _ <-. split; [intros x E; discriminate|intros x [E|[]]; discriminate].
  - injection H as <- _ <-. split; [intros x E; discriminate|intros x [E|[]]; discriminate].
  - injection H as <- _ <-. split; [intros x E; discriminate|intros x [E|[]]; discriminate].
Qed.
