(** C16: printed integers are read back, as tokens, wherever they stand. *)
From Coq Require Import ZArith NArith List Bool Lia.
From RV Require Import Model.Common Model.Datum Model.Lexer Model.Reader Model.Num Model.Value Model.Print Model.Eval
  Proofs.Basics Proofs.LexProofs Proofs.PrintProofs.
Import ListNotations.
Local Open Scope N_scope.

(** what may follow a token: nothing, or a delimiter *)
Definition delimited (rest : list char) : Prop :=
  match rest with [] => True | d :: _ => is_delimiter d = true end.

Lemma delimiter_facts : forall d, is_delimiter d = true ->
  is_digit d = false /\ (d =? c_e) = false /\ (d =? c_dot) = false /\ (d =? c_slash) = false.
Proof.
  intros d H. unfold is_delimiter, is_ws in H.
  repeat (apply orb_true_iff in H; destruct H as [H|H]); apply N.eqb_eq in H; subst d; repeat split; reflexivity.
Qed.

Lemma digit_facts : forall c, is_digit c = true ->
  is_ws c = false /\ (c =? c_semi) = false /\ (c =? c_lparen) = false /\ (c =? c_rparen) = false /\
  (c =? c_hash) = false /\ (c =? c_quote) = false /\ (c =? c_backquote) = false /\ (c =? c_comma) = false /\
  (c =? c_dot) = false /\ (c =? c_plus) = false /\ (c =? c_minus) = false /\ (c =? c_dquote) = false.
Proof.
  intros c H. unfold is_digit, c_0, c_9 in H. apply andb_true_iff in H as [H1 H2].
  apply N.leb_le in H1, H2. unfold is_ws, c_space, c_tab, c_nl, c_cr, c_semi, c_lparen, c_rparen, c_hash, c_quote,
    c_backquote, c_comma, c_dot, c_plus, c_minus, c_dquote.
  repeat split; try (apply N.eqb_neq; lia).
  repeat (apply orb_false_iff; split); apply N.eqb_neq; lia.
Qed.

Lemma lex_number_int : forall c ds rest p z,
  forallb is_digit ds = true -> delimited rest -> parse_i32 (c :: ds) = Some z ->
  lex_number c (ds ++ rest) p = Ok (TPrim (PInt z), rest, adv_all ds p).
Proof.
  intros c ds rest p z Hd Hr Hp. unfold lex_number.
  assert (HT : take_while is_digit (ds ++ rest) p = (ds, rest, adv_all ds p)).
  { apply take_while_all; [exact Hd|]. destruct rest as [|d r]; [exact I|]. now apply delimiter_facts. }
  rewrite HT. destruct rest as [|d r]; [now rewrite Hp|].
  destruct (delimiter_facts d Hr) as [_ [E1 [E2 E3]]]. rewrite E1, E2, E3.
  unfold test_delimiter. cbn in Hr. rewrite Hr, Hp. reflexivity.
Qed.

(** the printed form of an integer of the i32 range, followed by a delimiter or the end of the input,
    is one token: that integer *)
Theorem printed_integer_is_its_token : forall z rest p f,
  (-2147483648 <= z <= 2147483647)%Z -> delimited rest ->
  lex_next (S f) (print_Z z ++ rest) p
  = Ok (Some (TPrim (PInt z), adv_all (print_Z z) p), rest, adv_all (print_Z z) p).
Proof.
  intros z rest p f Hz Hr. pose proof (int_roundtrip z Hz) as RT. unfold print_Z in *.
  destruct (z <? 0)%Z eqn:E.
  - (* negative: '-' then digits *)
    apply Z.ltb_lt in E. destruct (digits_roundtrip (- z)%Z ltac:(lia)) as [_ [D NE]].
    destruct (digits_of (- z)) as [|d ds] eqn:ED; [congruence|].
    assert (Hd : is_digit d = true) by (cbn in D; now apply andb_true_iff in D as [D _]).
    rewrite lex_next_S. cbn [app]. cbv zeta.
    change (is_ws 45) with false. change (45 =? c_semi) with false. change (45 =? c_lparen) with false.
    change (45 =? c_rparen) with false. change (45 =? c_hash) with false. change (45 =? c_quote) with false.
    change (45 =? c_backquote) with false. change (45 =? c_comma) with false. change (45 =? c_dot) with false.
    change ((45 =? c_plus) || (45 =? c_minus)) with true. cbv iota.
    rewrite Hd. cbn [orb]. change (d :: ds ++ rest) with ((d :: ds) ++ rest).
    rewrite (lex_number_int 45 (d :: ds) rest (adv 45 p) z D Hr RT). reflexivity.
  - (* non-negative: digits *)
    apply Z.ltb_ge in E. destruct (digits_roundtrip z E) as [_ [D NE]].
    destruct (digits_of z) as [|d ds] eqn:ED; [congruence|].
    assert (Hd : is_digit d = true) by (cbn in D; now apply andb_true_iff in D as [D _]).
    assert (Hds : forallb is_digit ds = true) by (cbn in D; now apply andb_true_iff in D as [_ D]).
    destruct (digit_facts d Hd) as [F1 [F2 [F3 [F4 [F5 [F6 [F7 [F8 [F9 [F10 [F11 F12]]]]]]]]]]].
    rewrite lex_next_S. cbn [app]. cbv zeta.
    rewrite F1, F2, F3, F4, F5, F6, F7, F8, F9, F10, F11, F12. cbn [orb]. rewrite Hd.
    rewrite (lex_number_int d ds rest (adv d p) z Hds Hr RT). reflexivity.
Qed.

(** a ratio in lowest terms prints as numerator/denominator; followed by a delimiter or the end of the input
    that text is one token: that ratio *)
Lemma take_while_digits_then : forall ds c rest p, forallb is_digit ds = true -> is_digit c = false ->
  take_while is_digit (ds ++ c :: rest) p = (ds, c :: rest, adv_all ds p).
Proof. intros ds c rest p Hd Hc. apply take_while_all; [exact Hd|exact Hc]. Qed.

Theorem printed_ratio_is_its_token : forall n d rest p f,
  (-2147483648 <= n <= 2147483647)%Z -> (1 <= d <= 2147483647)%Z -> delimited rest ->
  exists q, lex_next (S f) (print_Z n ++ [47] ++ print_Z d ++ rest) p = Ok (Some (TPrim (PRat n d), q), rest, q).
Proof.
  intros n d rest p f Hn Hd Hr.
  pose proof (int_roundtrip n Hn) as RTn. pose proof (int_roundtrip d ltac:(lia)) as RTd.
  destruct (digits_roundtrip d ltac:(lia)) as [_ [Dd NEd]].
  assert (Ed : print_Z d = digits_of d) by (unfold print_Z; destruct (d <? 0)%Z eqn:E; [apply Z.ltb_lt in E; lia|reflexivity]).
  rewrite Ed in *.
  (* the scan of the numerator's digits stops at the slash, the denominator's at the delimiter *)
  assert (SL : is_digit 47 = false) by reflexivity.
  assert (TD : forall q, take_while is_digit (digits_of d ++ rest) q = (digits_of d, rest, adv_all (digits_of d) q)).
  { intros q. apply take_while_all; [exact Dd|]. destruct rest as [|c r]; [exact I|]. now apply delimiter_facts. }
  assert (PD : forall q (X : res (token * list char * pos)), peek_delim rest q X = X).
  { intros q X. unfold peek_delim, test_delimiter. destruct rest as [|c r]; [reflexivity|]. cbn in Hr. now rewrite Hr. }
  assert (NUM : forall c ds q, forallb is_digit ds = true -> parse_i32 (c :: ds) = Some n ->
            exists q', lex_number c (ds ++ [47] ++ digits_of d ++ rest) q = Ok (TPrim (PRat n d), rest, q')).
  { intros c ds q Hds Hp. unfold lex_number. cbn [app].
    pose proof (take_while_digits_then ds 47 (digits_of d ++ rest) q Hds SL) as X. unfold char in *. rewrite X.
    change (47 =? c_e) with false. change (47 =? c_dot) with false. change (47 =? c_slash) with true. cbv iota.
    rewrite TD. rewrite PD, Hp, RTd. destruct d as [|d'|d']; try lia. eexists. reflexivity. }
  unfold print_Z in *. destruct (n <? 0)%Z eqn:E.
  - apply Z.ltb_lt in E. destruct (digits_roundtrip (- n)%Z ltac:(lia)) as [_ [D NE]].
    destruct (digits_of (- n)) as [|c ds] eqn:ED; [congruence|].
    assert (Hc : is_digit c = true) by (cbn in D; now apply andb_true_iff in D as [D _]).
    rewrite lex_next_S. cbn [app]. cbv zeta.
    change (is_ws 45) with false. change (45 =? c_semi) with false. change (45 =? c_lparen) with false.
    change (45 =? c_rparen) with false. change (45 =? c_hash) with false. change (45 =? c_quote) with false.
    change (45 =? c_backquote) with false. change (45 =? c_comma) with false. change (45 =? c_dot) with false.
    change ((45 =? c_plus) || (45 =? c_minus)) with true. cbv iota.
    rewrite Hc. cbn [orb].
    destruct (NUM 45 (c :: ds) (adv 45 p) D RTn) as [q' K]. cbn [app] in K.
    change (c :: ds ++ 47 :: digits_of d ++ rest) with ((c :: ds) ++ 47 :: digits_of d ++ rest).
    cbn [app]. rewrite K. eexists. reflexivity.
  - apply Z.ltb_ge in E. destruct (digits_roundtrip n E) as [_ [D NE]].
    destruct (digits_of n) as [|c ds] eqn:ED; [congruence|].
    assert (Hc : is_digit c = true) by (cbn in D; now apply andb_true_iff in D as [D _]).
    assert (Hds : forallb is_digit ds = true) by (cbn in D; now apply andb_true_iff in D as [_ D]).
    destruct (digit_facts c Hc) as [F1 [F2 [F3 [F4 [F5 [F6 [F7 [F8 [F9 [F10 [F11 F12]]]]]]]]]]].
    rewrite lex_next_S. cbn [app]. cbv zeta.
    rewrite F1, F2, F3, F4, F5, F6, F7, F8, F9, F10, F11, F12. cbn [orb]. rewrite Hc.
    destruct (NUM c ds (adv c p) Hds RTn) as [q' K]. cbn [app] in K. rewrite K. eexists. reflexivity.
Qed.

(** * trees of atoms: what is printed is read back *)


Local Close Scope N_scope.

(** the atoms whose printed form is a token: exact integers, ratios in lowest terms, booleans, characters, plain
    identifiers *)
Inductive atom := AInt (z : Z) | ARat (n d : Z) | ABool (b : bool) | AChar (c : char) | ASym (c : char) (cs : list char).

Definition atext (a : atom) : list char :=
  match a with
  | AInt z => print_Z z
  | ARat n d => print_Z n ++ [47%N] ++ print_Z d
  | ABool true => [35%N; 116%N]
  | ABool false => [35%N; 102%N]
  | AChar c => [35%N; 92%N; c]
  | ASym c cs => c :: cs
  end.
Definition aval (a : atom) : value :=
  match a with AInt z => VNum (NInt z) | ARat n d => VNum (NRat n d) | ABool b => VBool b | AChar c => VChar c | ASym c cs => VSym (c :: cs) end.
Definition atok (a : atom) : token :=
  match a with
  | AInt z => TPrim (PInt z) | ARat n d => TPrim (PRat n d) | ABool b => TPrim (PBool b) | AChar c => TPrim (PChar c) | ASym c cs => TIdent (c :: cs)
  end.
Definition a_ok (a : atom) : Prop :=
  match a with
  | AInt z => (-2147483648 <= z <= 2147483647)%Z
  | ARat n d => (-2147483648 <= n <= 2147483647)%Z /\ (2 <= d <= 2147483647)%Z /\ Z.gcd n d = 1%Z
  | ABool _ | AChar _ => True
  | ASym c cs => plain_initial c = true /\ forallb is_subsequent cs = true
  end.

(** proper lists, nested to any depth, of atoms *)
Inductive T := Leaf (a : atom) | Node (l : list T).

Section TInd.
  Variable P : T -> Prop.
  Hypothesis Hleaf : forall a, P (Leaf a).
  Hypothesis Hnode : forall l, Forall P l -> P (Node l).
  Fixpoint T_ind' (t : T) : P t :=
    match t with
    | Leaf a => Hleaf a
    | Node l => Hnode l ((fix go (l : list T) : Forall P l :=
                            match l with
                            | [] => Forall_nil P
                            | x :: r => Forall_cons x (T_ind' x) (go r)
                            end) l)
    end.
End TInd.

Fixpoint tval (t : T) : value :=
  match t with
  | Leaf a => aval a
  | Node l => (fix go (l : list T) : value := match l with [] => VNil | x :: r => VPair (tval x) (go r) end) l
  end.
Definition tvals (l : list T) : value :=
  (fix go (l : list T) : value := match l with [] => VNil | x :: r => VPair (tval x) (go r) end) l.

Fixpoint ttext (t : T) : list char :=
  match t with
  | Leaf a => atext a
  | Node l =>
      40%N :: match l with
              | [] => [41%N]
              | x :: r => ttext x ++ (fix tl (l : list T) : list char :=
                                        match l with [] => [41%N] | y :: r => 32%N :: ttext y ++ tl r end) r
              end
  end.
Definition tailtext (l : list T) : list char :=
  (fix tl (l : list T) : list char := match l with [] => [41%N] | y :: r => 32%N :: ttext y ++ tl r end) l.

Fixpoint in_range (t : T) : Prop :=
  match t with
  | Leaf a => a_ok a
  | Node l => (fix go (l : list T) : Prop := match l with [] => True | x :: r => in_range x /\ go r end) l
  end.
Definition all_in_range (l : list T) : Prop :=
  (fix go (l : list T) : Prop := match l with [] => True | x :: r => in_range x /\ go r end) l.

Fixpoint depth (t : T) : nat :=
  match t with
  | Leaf _ => 0
  | Node l => S ((fix go (l : list T) : nat := match l with [] => 0 | x :: r => Nat.max (depth x) (go r) end) l)
  end.
Definition depths (l : list T) : nat :=
  (fix go (l : list T) : nat := match l with [] => 0 | x :: r => Nat.max (depth x) (go r) end) l.

Lemma tval_node : forall l, tval (Node l) = tvals l.
Proof. reflexivity. Qed.
Lemma tvals_cons : forall x r, tvals (x :: r) = VPair (tval x) (tvals r).
Proof. reflexivity. Qed.
Lemma ttext_node_cons : forall x r, ttext (Node (x :: r)) = 40%N :: ttext x ++ tailtext r.
Proof. reflexivity. Qed.
Lemma tailtext_cons : forall y r, tailtext (y :: r) = 32%N :: ttext y ++ tailtext r.
Proof. reflexivity. Qed.
Lemma depth_node : forall l, depth (Node l) = S (depths l).
Proof. reflexivity. Qed.
Lemma depths_cons : forall x r, depths (x :: r) = Nat.max (depth x) (depths r).
Proof. reflexivity. Qed.

(** ** printing *)

Definition disp_tail (f : nat) (st : state) : value -> option str :=
  fix tail (v : value) : option str :=
    match v with
    | VNil => Some [41%N]
    | VPair a b =>
        match display f st a, tail b with
        | Some sa, Some sb => Some (sp ++ sa ++ sb)
        | _, _ => None
        end
    | other =>
        match display f st other with
        | Some so => Some (str_of_ascii [32; 46; 32]%Z ++ so ++ [41%N])
        | None => None
        end
    end.

Lemma display_pair : forall f st a b,
  display (S f) st (VPair a b) =
  match display f st a, disp_tail f st b with
  | Some sa, Some sb => Some ([40%N] ++ sa ++ sb)
  | _, _ => None
  end.
Proof. reflexivity. Qed.

Lemma display_tree : forall t f st, depth t <= f -> display (S f) st (tval t) = Some (ttext t).
Proof.
  induction t as [a|l IH] using T_ind'; intros f st Hf.
  - destruct a as [z|n d|[|]|c|c cs]; reflexivity.
  - rewrite tval_node. destruct l as [|x r]; [reflexivity|].
    rewrite depth_node, depths_cons in Hf. destruct f as [|f]; [lia|].
    rewrite tvals_cons, display_pair. inversion IH as [|? ? Hx Hr]; subst.
    rewrite (Hx f st ltac:(lia)).
    assert (G : forall r, Forall (fun t => forall f st, depth t <= f -> display (S f) st (tval t) = Some (ttext t)) r ->
                depths r <= f -> disp_tail (S f) st (tvals r) = Some (tailtext r)).
    { clear. induction r as [|y r IHr]; intros HF Hd; [reflexivity|].
      inversion HF as [|? ? Hy Hr]; subst. rewrite depths_cons in Hd.
      rewrite tvals_cons, tailtext_cons. cbn [disp_tail]. rewrite (Hy f st ltac:(lia)).
      fold (disp_tail (S f) st). rewrite (IHr Hr ltac:(lia)). reflexivity. }
    rewrite (G r Hr ltac:(lia)). reflexivity.
Qed.

(** ** reading *)

(** the value a datum denotes when quoted (locations play no role) *)
Definition dval (d : datum) (v : value) : Prop := forall st, read_literal d st = (Ok v, st).

Lemma dval_int : forall z l, dval (DPrim (PInt z) l) (VNum (NInt z)).
Proof. intros z l st. reflexivity. Qed.
Lemma exact_ratio_lowest : forall n d, (-2147483648 <= n <= 2147483647)%Z -> (2 <= d <= 2147483647)%Z -> Z.gcd n d = 1%Z ->
  exact_ratio n d = Some (NRat n d).
Proof.
  intros n d Hn Hd Hg. unfold exact_ratio.
  destruct (d =? 0)%Z eqn:E0; [apply Z.eqb_eq in E0; lia|].
  destruct (d <? 0)%Z eqn:E1; [apply Z.ltb_lt in E1; lia|].
  rewrite Hg, !Z.quot_1_r. unfold fits_i32, i32_min, i32_max.
  replace ((-2147483648 <=? n) && (n <=? 2147483647))%Z with true by (symmetry; apply andb_true_iff; split; apply Z.leb_le; lia).
  replace ((-2147483648 <=? d) && (d <=? 2147483647))%Z with true by (symmetry; apply andb_true_iff; split; apply Z.leb_le; lia).
  cbn [andb]. destruct (d =? 1)%Z eqn:E2; [apply Z.eqb_eq in E2; lia|reflexivity].
Qed.

Lemma dval_atom : forall a l, a_ok a ->
  dval (match atok a with TPrim p => DPrim p l | TIdent x => DSym x l | _ => DNil l end) (aval a).
Proof.
  intros [z|n d|b|c|c cs] l Ha st; try reflexivity.
  destruct Ha as [Hn [Hd Hg]]. cbn [atok aval read_literal eval_primitive]. now rewrite (exact_ratio_lowest n d Hn Hd Hg).
Qed.
Lemma dval_nil : forall l, dval (DNil l) VNil.
Proof. intros l st. reflexivity. Qed.
Lemma dval_cons : forall a b l va vb, dval a va -> dval b vb -> dval (DCons a b l) (VPair va vb).
Proof. intros a b l va vb Ha Hb st. cbn [read_literal]. rewrite Ha. cbn. rewrite Hb. reflexivity. Qed.

Lemma dval_build_cdr : forall ds l, Forall2 (fun d t => dval d (tval t)) ds l -> dval (build_cdr ds None) (tvals l).
Proof.
  intros ds l H. induction H as [|d t ds l Hd Hr IH]; [apply dval_nil|].
  cbn [build_cdr]. rewrite tvals_cons. now apply dval_cons.
Qed.

Lemma dval_build_list : forall d t ds l ll, dval d (tval t) -> Forall2 (fun d t => dval d (tval t)) ds l ->
  dval (build_list (d :: ds) None ll) (tvals (t :: l)).
Proof. intros. cbn [build_list]. rewrite tvals_cons. apply dval_cons; [assumption|now apply dval_build_cdr]. Qed.

(** the first character of a printed tree is a digit, a minus sign or an opening parenthesis *)
Lemma ttext_head : forall t, in_range t -> exists c r, ttext t = c :: r /\ is_ws c = false.
Proof.
  intros [[z|n d|[|]|c|c cs]|l] H.
  - cbn [ttext atext]. unfold print_Z. destruct (z <? 0)%Z eqn:E.
    + eexists _, _. split; [reflexivity|reflexivity].
    + apply Z.ltb_ge in E. pose proof (digits_first_is_digit z E) as F.
      destruct (digits_of z) as [|c r]; [contradiction|]. exists c, r. split; [reflexivity|]. now apply digit_facts.
  - cbn [ttext atext]. unfold print_Z at 1. destruct (n <? 0)%Z eqn:E.
    + eexists _, _. split; [reflexivity|reflexivity].
    + apply Z.ltb_ge in E. pose proof (digits_first_is_digit n E) as F.
      destruct (digits_of n) as [|c r]; [contradiction|]. eexists c, _. split; [reflexivity|]. now apply digit_facts.
  - eexists _, _. split; [reflexivity|reflexivity].
  - eexists _, _. split; [reflexivity|reflexivity].
  - eexists _, _. split; [reflexivity|reflexivity].
  - exists c, cs. split; [reflexivity|]. destruct H as [H _]. unfold plain_initial in H.
    repeat (apply andb_true_iff in H as [H ?]).
    repeat match goal with K : negb _ = true |- _ => apply negb_true_iff in K end. assumption.
  - eexists _, _. split; [reflexivity|reflexivity].
Qed.

(** the printed form of an atom, followed by a delimiter or the end, is exactly its token *)
Lemma atom_token : forall a rest p f, a_ok a -> delimited rest ->
  exists q, lex_next (S f) (atext a ++ rest) p = Ok (Some (atok a, q), rest, q).
Proof.
  intros [z|n d|[|]|c|c cs] rest p f Ha Hd; cbn [atext atok].
  - eexists. now apply printed_integer_is_its_token.
  - destruct Ha as [Hn [Hdd Hg]]. rewrite <- !app_assoc.
    destruct (printed_ratio_is_its_token n d rest p f Hn ltac:(lia) Hd) as [q K]. exists q. exact K.
  - eexists. reflexivity.
  - eexists. reflexivity.
  - eexists. reflexivity.
  - destruct Ha as [H1 H2]. eexists. now apply lex_identifier.
Qed.

Lemma delimited_tailtext : forall l rest, delimited (tailtext l ++ rest).
Proof. intros [|y r] rest; reflexivity. Qed.

(** p_advance in terms of the lexer's answer *)
Lemma p_advance_eq : forall s o r p, lex_next (lex_fuel (lrest s)) (lrest s) (lpos s) = Ok (o, r, p) ->
  p_advance s = Ok {| lrest := r; lpos := p; pcur := o; ploc := match o with Some (_, l) => Some l | None => None end |}.
Proof. intros s o r p H. unfold p_advance. now rewrite H. Qed.

Definition with_text (s : pst) (text : list char) (p : pos) : pst :=
  {| lrest := text; lpos := p; pcur := pcur s; ploc := ploc s |}.

(** a blank before a token is skipped *)
Lemma p_advance_skip_blank : forall s text, lrest s = 32%N :: text ->
  match text with [] => False | c :: _ => is_ws c = false end ->
  p_advance s = p_advance (with_text s text (adv 32%N (lpos s))).
Proof.
  intros s text E Hc. unfold p_advance. cbn [lrest lpos with_text]. rewrite E.
  destruct text as [|c r]; [contradiction|].
  unfold lex_fuel. cbn [length].
  pose proof (lex_skip_whitespace (S (S (length r))) 32%N [] (c :: r) (lpos s) eq_refl Hc) as K.
  cbn [app] in K. unfold char in *. rewrite K. reflexivity.
Qed.

Definition RT (t : T) : Prop := forall rest s fuel,
  in_range t -> delimited rest -> lrest s = ttext t ++ rest -> 4 * length (lrest s) + 4 <= fuel ->
  exists s1 tok tl s2 d,
    p_advance s = Ok s1 /\ pcur s1 = Some (tok, tl) /\ tok <> TRParen /\ tok <> TPeriod /\
    read_current fuel s1 = Ok (Some d, s2) /\ lrest s2 = rest /\ dval d (tval t).

Definition RI (l : list T) : Prop := forall rest s fuel ll els,
  all_in_range l -> els <> [] -> lrest s = tailtext l ++ rest -> 4 * length (lrest s) + 3 <= fuel ->
  exists s2 ds,
    read_list fuel s ll els false = Ok (build_list (rev els ++ ds) None ll, s2) /\ lrest s2 = rest /\
    Forall2 (fun d t => dval d (tval t)) ds l.

Lemma unwrap_of_advance : forall s s1 tok tl, p_advance s = Ok s1 -> pcur s1 = Some (tok, tl) ->
  p_advance_unwrap s = Ok (tok, tl, s1).
Proof. intros s s1 tok tl H E. unfold p_advance_unwrap. rewrite H. cbn. now rewrite E. Qed.

Lemma RI_of_RT : forall l, Forall RT l -> RI l.
Proof.
  induction l as [|y r IH]; intros HF rest s fuel ll els Hr Hne E Hf.
  - (* the closing parenthesis *)
    destruct fuel as [|f]; [lia|]. cbn [read_list].
    assert (HA : p_advance s = Ok {| lrest := rest; lpos := adv c_rparen (lpos s); pcur := Some (TRParen, adv c_rparen (lpos s));
                                     ploc := Some (adv c_rparen (lpos s)) |}).
    { apply p_advance_eq. rewrite E. cbn [tailtext app]. unfold lex_fuel. cbn [length]. apply lex_rparen. }
    rewrite (unwrap_of_advance _ _ _ _ HA eq_refl). cbn.
    eexists _, []. rewrite app_nil_r. repeat split. constructor.
  - inversion HF as [|? ? Hy Hrest]; subst. destruct Hr as [Hry Hrr].
    destruct fuel as [|f]; [lia|]. cbn [read_list].
    rewrite tailtext_cons in E.
    destruct (ttext_head y Hry) as [c [tx [Etx Hws]]].
    assert (HS : p_advance s = p_advance (with_text s (ttext y ++ tailtext r ++ rest) (adv 32%N (lpos s)))).
    { apply p_advance_skip_blank; [rewrite E; cbn [app]; now rewrite <- app_assoc|]. rewrite Etx. cbn [app]. exact Hws. }
    assert (Hlen : length (lrest s) = S (length (ttext y ++ tailtext r ++ rest))).
    { rewrite E. cbn [app length]. now rewrite <- app_assoc. }
    destruct (Hy (tailtext r ++ rest) (with_text s (ttext y ++ tailtext r ++ rest) (adv 32%N (lpos s))) f Hry
                (delimited_tailtext r rest) eq_refl ltac:(cbn [lrest with_text]; lia))
      as [s1 [tok [tl [s2 [d [HA [HP [N1 [N2 [HR [HL Hd]]]]]]]]]]].
    rewrite <- HS in HA. rewrite (unwrap_of_advance _ _ _ _ HA HP). cbn [bind].
    assert (Hs2 : length (lrest s2) < length (lrest s)).
    { rewrite HL, Hlen. rewrite !app_length. lia. }
    destruct (IH Hrest rest s2 f ll (d :: els) Hrr ltac:(discriminate) HL ltac:(lia)) as [s3 [ds [HR3 [HL3 HF3]]]].
    exists s3, (d :: ds). split; [|split; [exact HL3|constructor; assumption]].
    destruct tok; try contradiction; try (now elim N1); try (now elim N2);
      rewrite HR; cbn [bind]; (destruct els as [|e0 els0]; [now elim Hne|]);
      rewrite HR3; cbn [rev]; rewrite <- !app_assoc; reflexivity.
Qed.

Lemma RT_all : forall t, RT t.
Proof.
  induction t as [a|l IH] using T_ind'; intros rest s fuel Hr Hd E Hf.
  - (* an atom *)
    cbn [ttext in_range tval] in *.
    destruct (atom_token a rest (lpos s) (length (lrest s)) Hr Hd) as [q K].
    rewrite <- E in K. fold (lex_fuel (lrest s)) in K.
    pose proof (p_advance_eq _ _ _ _ K) as HA.
    destruct fuel as [|f]; [lia|].
    pose proof (dval_atom a None Hr) as DV.
    destruct a as [z|n d|b|c|c cs];
      (eexists _, _, _, _, _; split; [exact HA|]; split; [reflexivity|];
       split; [discriminate|]; split; [discriminate|]; cbn [read_current pcur atok];
       split; [reflexivity|]; split; [reflexivity|]; first [intros st; reflexivity | exact DV]).
  - (* a list *)
    pose (body := match l with [] => [41%N] | x :: r => ttext x ++ tailtext r end ++ rest).
    pose (s1 := {| lrest := body; lpos := adv c_lparen (lpos s); pcur := Some (TLParen, adv c_lparen (lpos s));
                   ploc := Some (adv c_lparen (lpos s)) |}).
    assert (EB : ttext (Node l) ++ rest = c_lparen :: body) by (unfold body; destruct l; reflexivity).
    assert (HA : p_advance s = Ok s1).
    { apply p_advance_eq. rewrite E, EB. unfold lex_fuel. cbn [length]. apply lex_lparen. }
    assert (Hlen : length (lrest s) = S (length body)) by (rewrite E, EB; reflexivity).
    exists s1, TLParen, (adv c_lparen (lpos s)).
    destruct fuel as [|f]; [lia|].
    assert (RC : read_current (S f) s1 =
                 do x <- read_list f (take_cur s1) (ploc (take_cur s1)) [] false ;; let '(d, s2) := x in Ok (Some d, s2))
      by reflexivity.
    rewrite RC. clear RC.
    pose (s0 := take_cur s1). fold s0.
    assert (E0 : lrest s0 = body) by reflexivity.
    destruct l as [|x r].
    + (* () *)
      destruct f as [|f']; [lia|]. cbn [read_list].
      assert (HB : p_advance s0 = Ok {| lrest := rest; lpos := adv c_rparen (lpos s0); pcur := Some (TRParen, adv c_rparen (lpos s0));
                                        ploc := Some (adv c_rparen (lpos s0)) |}).
      { apply p_advance_eq. rewrite E0. unfold body. cbn [app]. unfold lex_fuel. cbn [length]. apply lex_rparen. }
      rewrite (unwrap_of_advance _ _ _ _ HB eq_refl). cbn.
      eexists _, _. split; [exact HA|]. split; [reflexivity|]. split; [discriminate|]. split; [discriminate|].
      split; [reflexivity|]. split; [reflexivity|]. apply dval_nil.
    + inversion IH as [|? ? Hx Hrest]; subst. destruct Hr as [Hrx Hrr].
      destruct f as [|f']; [lia|]. cbn [read_list].
      assert (E0' : lrest s0 = ttext x ++ tailtext r ++ rest) by (rewrite E0; unfold body; now rewrite <- app_assoc).
      destruct (Hx (tailtext r ++ rest) s0 f' Hrx (delimited_tailtext r rest) E0' ltac:(rewrite E0; unfold char in *; lia))
        as [s1' [tok [tl [s2 [d [HA1 [HP [N1 [N2 [HR [HL Hdv]]]]]]]]]]].
      rewrite (unwrap_of_advance _ _ _ _ HA1 HP). cbn [bind].
      assert (Hs2 : length (lrest s2) < length body).
      { rewrite HL. rewrite <- E0, E0'. rewrite !app_length. destruct (ttext_head x Hrx) as [c [tx [-> _]]]. cbn [length]. unfold char in *. lia. }
      destruct (RI_of_RT r Hrest rest s2 f' (ploc s0) [d] Hrr ltac:(discriminate) HL ltac:(unfold char in *; lia))
        as [s3 [ds [HR3 [HL3 HF3]]]].
      exists s3, (build_list (d :: ds) None (ploc s0)).
      split; [exact HA|]. split; [reflexivity|]. split; [discriminate|]. split; [discriminate|].
      split; [|split; [exact HL3|rewrite tval_node; now apply dval_build_list]].
      destruct tok; try contradiction; try (now elim N1); try (now elim N2);
        rewrite HR; cbn [bind]; rewrite HR3; reflexivity.
Qed.

(** a printed tree of integers, followed by a delimiter or the end of input, is read as one datum that
    denotes the tree; nothing of what follows is consumed *)
Theorem printed_tree_is_read_back : forall t rest s,
  in_range t -> delimited rest -> lrest s = ttext t ++ rest ->
  exists d s', read_next s = Ok (Some d, s') /\ lrest s' = rest /\ dval d (tval t).
Proof.
  intros t rest s Hr Hd E.
  destruct (RT_all t rest s (read_fuel s) Hr Hd E ltac:(unfold read_fuel; lia))
    as [s1 [tok [tl [s2 [d [HA [HP [_ [_ [HR [HL Hdv]]]]]]]]]]].
  exists d, s2. unfold read_next. rewrite HA. cbn [bind]. now rewrite HR.
Qed.

(** the whole round trip: what [display] prints for a tree of exact integers is text that the reader
    reads as exactly one datum, and that datum, quoted, evaluates to the tree again *)
Theorem display_read_round_trip : forall t st,
  in_range t ->
  exists text d, display (S (depth t)) st (tval t) = Some text /\
                 read_text text = Ok [d] /\ (forall st', read_literal d st' = (Ok (tval t), st')).
Proof.
  intros t st Hr. exists (ttext t). 
  destruct (printed_tree_is_read_back t [] (p_init (ttext t)) Hr I ltac:(cbn; now rewrite app_nil_r)) as [d [s' [HN [HL Hdv]]]].
  exists d. split; [apply display_tree; lia|]. split; [|exact Hdv].
  unfold read_text. destruct (ttext_head t Hr) as [c [tx [Etx _]]].
  rewrite Etx. cbn [length read_all]. rewrite <- Etx. rewrite HN. cbn [bind].
  (* the rest is empty: the next read finds the end *)
  assert (HE : read_next s' = Ok (None, {| lrest := []; lpos := lpos s'; pcur := None; ploc := None |})).
  { unfold read_next, p_advance. rewrite HL. cbn. reflexivity. }
  destruct (length tx) eqn:EL; cbn [read_all]; rewrite HE; reflexivity.
Qed.

(** the hypotheses are satisfiable: the tree (-42 (a #t -3/4) #\x 7) *)
Example a_tree_in_range :
  in_range (Node [Leaf (AInt (-42)); Node [Leaf (ASym 97%N []); Leaf (ABool true); Leaf (ARat (-3) 4)]; Leaf (AChar 120%N); Leaf (AInt 7)]).
Proof. cbn. repeat split; try lia. Qed.
