(** Basic facts used by every proof file: decidable equality of strings, association lists,
    list updates, the [res] monad. *)
From Coq Require Import ZArith NArith List Bool Lia.
From RV Require Import Model.Common Model.Datum Model.Macro Model.Ast Model.Value.
Import ListNotations.

Lemma str_eqb_refl : forall a, str_eqb a a = true.
Proof. induction a as [|x a IH]; cbn; [reflexivity|]. now rewrite N.eqb_refl, IH. Qed.

Lemma str_eqb_eq : forall a b, str_eqb a b = true <-> a = b.
Proof.
  induction a as [|x a IH]; destruct b as [|y b]; cbn; split; intro H; try reflexivity; try discriminate.
  - apply andb_true_iff in H as [H1 H2]. apply N.eqb_eq in H1. apply IH in H2. now subst.
  - injection H as -> ->. now rewrite N.eqb_refl, str_eqb_refl.
Qed.

Lemma str_eqb_neq : forall a b, str_eqb a b = false <-> a <> b.
Proof.
  intros a b. split; intro H.
  - intro E. apply str_eqb_eq in E. congruence.
  - destruct (str_eqb a b) eqn:E; [|reflexivity]. apply str_eqb_eq in E. contradiction.
Qed.

Lemma str_eqb_sym : forall a b, str_eqb a b = str_eqb b a.
Proof.
  intros a b. destruct (str_eqb a b) eqn:E.
  - apply str_eqb_eq in E. subst. now rewrite str_eqb_refl.
  - symmetry. apply str_eqb_neq. apply str_eqb_neq in E. congruence.
Qed.

Lemma str_in_In : forall x l, str_in x l = true <-> In x l.
Proof.
  intros x l. unfold str_in. rewrite existsb_exists. split.
  - intros [y [Hy E]]. apply str_eqb_eq in E. now subst.
  - intro H. exists x. split; [assumption|apply str_eqb_refl].
Qed.

Lemma str_in_not_In : forall x l, str_in x l = false <-> ~ In x l.
Proof.
  intros x l. split; intro H.
  - intro HI. apply str_in_In in HI. congruence.
  - destruct (str_in x l) eqn:E; [|reflexivity]. apply str_in_In in E. contradiction.
Qed.

(** association lists *)
Lemma alist_get_In : forall {A} (l : list (str * A)) x v, alist_get l x = Some v -> In (x, v) l.
Proof.
  induction l as [|[y w] r IH]; cbn; intros x v H; [discriminate|].
  destruct (str_eqb x y) eqn:E.
  - apply str_eqb_eq in E. injection H as ->. subst. now left.
  - right. now apply IH.
Qed.

Lemma alist_get_None : forall {A} (l : list (str * A)) x, alist_get l x = None <-> ~ In x (map fst l).
Proof.
  induction l as [|[y w] r IH]; cbn; intros x; split; intro H; try tauto.
  - destruct (str_eqb x y) eqn:E; [discriminate|]. apply str_eqb_neq in E.
    intros [H1|H1]; [congruence|]. now apply IH in H.
  - destruct (str_eqb x y) eqn:E.
    + apply str_eqb_eq in E. subst. tauto.
    + apply IH. tauto.
Qed.

Lemma alist_get_NoDup : forall {A} (l : list (str * A)) x v,
  NoDup (map fst l) -> In (x, v) l -> alist_get l x = Some v.
Proof.
  induction l as [|[y w] r IH]; cbn; intros x v ND HI; [contradiction|].
  inversion ND as [|? ? Hn ND']; subst.
  destruct HI as [HI|HI].
  - injection HI as -> ->. now rewrite str_eqb_refl.
  - destruct (str_eqb x y) eqn:E.
    + apply str_eqb_eq in E. subst. exfalso. apply Hn. apply in_map_iff. now exists (y, v).
    + now apply IH.
Qed.

Lemma alist_get_set_same : forall {A} (l : list (str * A)) x v, alist_get (alist_set l x v) x = Some v.
Proof.
  induction l as [|[y w] r IH]; cbn; intros x v.
  - now rewrite str_eqb_refl.
  - destruct (str_eqb x y) eqn:E; cbn; rewrite E; [reflexivity|apply IH].
Qed.

Lemma alist_get_set_other : forall {A} (l : list (str * A)) x y v,
  x <> y -> alist_get (alist_set l x v) y = alist_get l y.
Proof.
  induction l as [|[z w] r IH]; cbn; intros x y v Hne.
  - assert (str_eqb y x = false) as -> by (apply str_eqb_neq; congruence). reflexivity.
  - destruct (str_eqb x z) eqn:E; cbn.
    + apply str_eqb_eq in E. subst.
      assert (str_eqb y z = false) as -> by (apply str_eqb_neq; congruence). reflexivity.
    + destruct (str_eqb y z); [reflexivity|now apply IH].
Qed.

(** list_update *)
Lemma list_update_length : forall {A} (l : list A) i v, length (list_update l i v) = length l.
Proof. induction l as [|x r IH]; intros [|i] v; cbn; auto. Qed.

Lemma nth_error_update_same : forall {A} (l : list A) i v,
  i < length l -> nth_error (list_update l i v) i = Some v.
Proof. induction l as [|x r IH]; intros [|i] v H; cbn in *; try lia; auto. apply IH. lia. Qed.

Lemma nth_error_update_other : forall {A} (l : list A) i j v,
  i <> j -> nth_error (list_update l i v) j = nth_error l j.
Proof.
  induction l as [|x r IH]; intros [|i] [|j] v H; cbn; auto; try congruence.
Qed.

(** the [res] monad *)
Lemma bind_Ok_inv : forall {A B} (r : res A) (f : A -> res B) b,
  bind r f = Ok b -> exists a, r = Ok a /\ f a = Ok b.
Proof. intros A B [a|k l|s|] f b H; cbn in H; try discriminate. now exists a. Qed.
