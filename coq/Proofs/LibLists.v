(** C11: list-tail list-ref make-list last-pair list? memv memq atom? of base.sld (see Proofs/LibBase.v) *)
From Coq Require Import ZArith NArith List Bool Lia PeanoNat.
From RV Require Import Model.Common Model.Real32 Model.Num Model.Datum Model.Lexer Model.Reader Model.Macro
  Model.Ast Model.Transform Model.Value Model.Equal Model.Print Model.Builtins Model.Eval Model.Interp
  Spec.EvalSpec Spec.ListSpec Gen.GrammarSld Gen.BaseSld Proofs.Basics Proofs.StoreProofs Proofs.EvalProofs Proofs.FuelProofs
  Proofs.DerivedProofs Proofs.ListProofs Proofs.LibBase.
Import ListNotations.
Local Open Scope Z_scope.


Definition n_memv := [109;101;109;118].
(* the parameter names as they are in base.sld now (so that a renaming re-proves) *)
Definition p_memv_0 : str := Eval vm_compute in par n_memv 0.
Definition p_memv_1 : str := Eval vm_compute in par n_memv 1.

Lemma memv_closure : forall c, code_of n_memv = Some c ->
  forall l obj st lf, has_library st lf ->
  exists st', app st (closure c lf) [obj; vlist l] (Ok (vmem obj l)) st' /\ keeps st st'.
Proof.
  intros c Hc. vm_compute in Hc. injection Hc as <-.
  induction l as [|x r IH]; intros obj st lf HL; open_lib HL.
  - start_proc st lf [(p_memv_0, obj); (p_memv_1, VNil)].
    pose proof (null_spec VNil) as Hn. call_lib Hn (enter st lf [(p_memv_0, obj); (p_memv_1, VNil)]) lf.
    eexists. split.
    + enter_tac. eapply evbody_last. eapply ev_if_true; [ev_simple|reflexivity|].
      thunk_tac. ev_simple.
    + keeps_tac.
  - cbn [vlist vmem].
    start_proc st lf [(p_memv_0, obj); (p_memv_1, VPair x (vlist r))].
    pose proof (null_spec (VPair x (vlist r))) as Hn.
    call_lib Hn (enter st lf [(p_memv_0, obj); (p_memv_1, VPair x (vlist r))]) lf.
    destruct (value_eqv obj x) eqn:E.
    + eexists. split.
      * enter_tac. eapply evbody_last. eapply ev_if_false; [ev_simple|reflexivity|].
        eapply ev_if_true; [ev_simple|cbn; now rewrite E|].
        thunk_tac. ev_simple.
      * keeps_tac.
    + match goal with K : keeps _ ?s2 |- _ =>
        start_proc s2 (length (frames st)) (@nil (str * value));
        assert (HL3 : has_library (enter s2 (length (frames st)) []) lf)
          by (eapply has_library_keeps; [exact HL | keeps_tac]);
        destruct (IH obj _ lf HL3) as [st4 [Hrec K4]]
      end.
      eexists. split.
      * enter_tac. eapply evbody_last. eapply ev_if_false; [ev_simple|reflexivity|].
        eapply ev_if_false; [ev_simple|cbn; now rewrite E|].
        thunk_tac. ev_simple.
      * keeps_tac.
Qed.

Theorem memv_spec : forall obj l, lib_call n_memv [obj; vlist l] (vmem obj l).
Proof.
  intros obj l. eapply lib_call_intro; [vm_compute; reflexivity|].
  intros st lf HL. now apply memv_closure.
Qed.

(** memq: the same code with eq?, which is eqv? in this implementation *)
Definition n_memq := [109;101;109;113].
(* the parameter names as they are in base.sld now (so that a renaming re-proves) *)
Definition p_memq_0 : str := Eval vm_compute in par n_memq 0.
Definition p_memq_1 : str := Eval vm_compute in par n_memq 1.
Lemma memq_closure : forall c, code_of n_memq = Some c ->
  forall l obj st lf, has_library st lf ->
  exists st', app st (closure c lf) [obj; vlist l] (Ok (vmem obj l)) st' /\ keeps st st'.
Proof.
  intros c Hc. vm_compute in Hc. injection Hc as <-.
  induction l as [|x r IH]; intros obj st lf HL; open_lib HL.
  - start_proc st lf [(p_memq_0, obj); (p_memq_1, VNil)].
    pose proof (null_spec VNil) as Hn. call_lib Hn (enter st lf [(p_memq_0, obj); (p_memq_1, VNil)]) lf.
    eexists. split.
    + enter_tac. eapply evbody_last. eapply ev_if_true; [ev_simple|reflexivity|].
      thunk_tac. ev_simple.
    + keeps_tac.
  - cbn [vlist vmem].
    start_proc st lf [(p_memq_0, obj); (p_memq_1, VPair x (vlist r))].
    pose proof (null_spec (VPair x (vlist r))) as Hn.
    call_lib Hn (enter st lf [(p_memq_0, obj); (p_memq_1, VPair x (vlist r))]) lf.
    destruct (value_eqv obj x) eqn:E.
    + eexists. split.
      * enter_tac. eapply evbody_last. eapply ev_if_false; [ev_simple|reflexivity|].
        eapply ev_if_true; [ev_simple|cbn; now rewrite E|].
        thunk_tac. ev_simple.
      * keeps_tac.
    + match goal with K : keeps _ ?s2 |- _ =>
        start_proc s2 (length (frames st)) (@nil (str * value));
        assert (HL3 : has_library (enter s2 (length (frames st)) []) lf)
          by (eapply has_library_keeps; [exact HL | keeps_tac]);
        destruct (IH obj _ lf HL3) as [st4 [Hrec K4]]
      end.
      eexists. split.
      * enter_tac. eapply evbody_last. eapply ev_if_false; [ev_simple|reflexivity|].
        eapply ev_if_false; [ev_simple|cbn; now rewrite E|].
        thunk_tac. ev_simple.
      * keeps_tac.
Qed.
Theorem memq_spec : forall obj l, lib_call n_memq [obj; vlist l] (vmem obj l).
Proof.
  intros obj l. eapply lib_call_intro; [vm_compute; reflexivity|].
  intros st lf HL. now apply memq_closure.
Qed.

Theorem list_tail_spec : forall k x y, vtail k x = Some y -> (Z.of_nat k <= i32_max) ->
  lib_call n_list_tail [x; vint (Z.of_nat k)] y.
Proof.
  intros k x y H1 H2. eapply lib_call_intro; [vm_compute; reflexivity|].
  intros st lf HL. now apply list_tail_closure.
Qed.

(** list-ref *)
Definition n_list_ref := [108;105;115;116;45;114;101;102].
(* the parameter names as they are in base.sld now (so that a renaming re-proves) *)
Definition p_list_ref_0 : str := Eval vm_compute in par n_list_ref 0.
Definition p_list_ref_1 : str := Eval vm_compute in par n_list_ref 1.
Theorem list_ref_spec : forall k x y z, vtail k x = Some (VPair y z) -> (Z.of_nat k <= i32_max) ->
  lib_call n_list_ref [x; vint (Z.of_nat k)] y.
Proof.
  intros k x y z H1 H2. eapply lib_call_intro; [vm_compute; reflexivity|].
  intros st lf HL. open_lib HL.
  start_proc st lf [(p_list_ref_0, x); (p_list_ref_1, vint (Z.of_nat k))].
  pose proof (list_tail_spec k x _ H1 H2) as Ht.
  call_lib Ht (enter st lf [(p_list_ref_0, x); (p_list_ref_1, vint (Z.of_nat k))]) lf.
  eexists. split.
  - enter_tac. eapply evbody_last. ev_simple.
  - keeps_tac.
Qed.



(** make-list *)
Definition n_make_list := [109;97;107;101;45;108;105;115;116].
(* the parameter names as they are in base.sld now (so that a renaming re-proves) *)
Definition p_make_list_0 : str := Eval vm_compute in par n_make_list 0.
Definition p_make_list_1 : str := Eval vm_compute in par n_make_list 1.

Ltac native_hint ::= (apply minus_call; lia).

Lemma make_list_closure : forall c, code_of n_make_list = Some c ->
  forall k fill st lf, has_library st lf -> (Z.of_nat k <= i32_max) ->
  exists st', app st (closure c lf) [vint (Z.of_nat k); fill] (Ok (vlist (repeat fill k))) st' /\ keeps st st'.
Proof.
  intros c Hc. vm_compute in Hc. injection Hc as <-.
  induction k as [|k IH]; intros fill st lf HL Hk; open_lib HL.
  - eexists. split.
    + enter_tac. eapply evbody_last. eapply ev_if_false; [ev_simple|reflexivity|ev_simple].
    + keeps_tac.
  - start_proc st lf [(p_make_list_0, vint (Z.of_nat (S k))); (p_make_list_1, fill)].
    assert (HL1 : has_library (enter st lf [(p_make_list_0, vint (Z.of_nat (S k))); (p_make_list_1, fill)]) lf)
      by (eapply has_library_keeps; [exact HL | keeps_tac]).
    destruct (IH fill _ lf HL1 ltac:(lia)) as [st2 [Hrec K2]].
    replace (Z.of_nat k) with (Z.of_nat (S k) - 1) in Hrec by lia.
    eexists. split.
    + enter_tac. eapply evbody_last. eapply ev_if_true; [ev_simple|reflexivity|].
      cbn [repeat vlist]. ev_simple.
    + keeps_tac.
Qed.

Theorem make_list_spec : forall k fill, (Z.of_nat k <= i32_max) ->
  lib_call n_make_list [vint (Z.of_nat k); fill] (vlist (repeat fill k)).
Proof.
  intros k fill H. eapply lib_call_intro; [vm_compute; reflexivity|].
  intros st lf HL. now apply make_list_closure.
Qed.



(** last-pair *)
Definition n_last_pair := [108;97;115;116;45;112;97;105;114].
(* the parameter names as they are in base.sld now (so that a renaming re-proves) *)
Definition p_last_pair_0 : str := Eval vm_compute in par n_last_pair 0.

Lemma last_pair_closure : forall c, code_of n_last_pair = Some c ->
  forall b a st lf, has_library st lf ->
  exists st', app st (closure c lf) [VPair a b] (Ok (vlast a b)) st' /\ keeps st st'.
Proof.
  intros c Hc. vm_compute in Hc. injection Hc as <-.
  induction b as [| | | | | | | |a' IHa b' IHb| | |]; intros a st lf HL; open_lib HL;
    try (eexists; split;
         [enter_tac; eapply evbody_last; eapply ev_if_false; [ev_simple|reflexivity|ev_simple] | keeps_tac]).
  start_proc st lf [(p_last_pair_0, VPair a (VPair a' b'))].
  assert (HL1 : has_library (enter st lf [(p_last_pair_0, VPair a (VPair a' b'))]) lf)
    by (eapply has_library_keeps; [exact HL | keeps_tac]).
  destruct (IHb a' _ lf HL1) as [st2 [Hrec K2]].
  eexists. split.
  - enter_tac. eapply evbody_last. eapply ev_if_true; [ev_simple|reflexivity|]. cbn [vlast]. ev_simple.
  - keeps_tac.
Qed.

Theorem last_pair_spec : forall a b, lib_call n_last_pair [VPair a b] (vlast a b).
Proof.
  intros a b. eapply lib_call_intro; [vm_compute; reflexivity|].
  intros st lf HL. now apply last_pair_closure.
Qed.

(** list? *)
Definition n_listp := [108;105;115;116;63].
(* the parameter names as they are in base.sld now (so that a renaming re-proves) *)
Definition p_listp_0 : str := Eval vm_compute in par n_listp 0.

Lemma listp_closure : forall c, code_of n_listp = Some c ->
  forall x st lf, has_library st lf ->
  exists st', app st (closure c lf) [x] (Ok (VBool (is_proper x))) st' /\ keeps st st'.
Proof.
  intros c Hc. vm_compute in Hc. injection Hc as <-.
  induction x as [| | | | | | | |a IHa b IHb| | |]; intros st lf HL; open_lib HL;
    try (eexists; split;
         [enter_tac; eapply evbody_last; eapply ev_if_false; [ev_simple|reflexivity|];
          eapply ev_if_false; [ev_simple|reflexivity|ev_simple] | keeps_tac]).
  - (* pair *)
    start_proc st lf [(p_listp_0, VPair a b)].
    assert (HL1 : has_library (enter st lf [(p_listp_0, VPair a b)]) lf)
      by (eapply has_library_keeps; [exact HL | keeps_tac]).
    destruct (IHb _ lf HL1) as [st2 [Hrec K2]]. cbn [is_proper].
    destruct (is_proper b) eqn:E.
    + eexists. split.
      * enter_tac. eapply evbody_last. eapply ev_if_false; [ev_simple|reflexivity|].
        eapply ev_if_true; [ev_simple|reflexivity|].
        eapply ev_if_true; [ev_simple|reflexivity|ev_simple].
      * keeps_tac.
    + eexists. split.
      * enter_tac. eapply evbody_last. eapply ev_if_false; [ev_simple|reflexivity|].
        eapply ev_if_true; [ev_simple|reflexivity|].
        eapply ev_if_false; [ev_simple|reflexivity|ev_simple].
      * keeps_tac.
  - (* nil *)
    eexists; split;
      [enter_tac; eapply evbody_last; eapply ev_if_true; [ev_simple|reflexivity|ev_simple] | keeps_tac].
Qed.

Theorem listp_spec : forall x, lib_call n_listp [x] (VBool (is_proper x)).
Proof.
  intros x. eapply lib_call_intro; [vm_compute; reflexivity|].
  intros st lf HL. now apply listp_closure.
Qed.


(** atom? *)
Definition n_atomp := [97;116;111;109;63].
(* the parameter names as they are in base.sld now (so that a renaming re-proves) *)
Definition p_atomp_0 : str := Eval vm_compute in par n_atomp 0.
Theorem atomp_spec : forall x, lib_call n_atomp [x] (VBool (negb (is_pair x) && negb (is_nil x))).
Proof.
  intros x. eapply lib_call_intro; [vm_compute; reflexivity|].
  intros st lf HL. open_lib HL.
  start_proc st lf [(p_atomp_0, x)].
  pose proof (null_spec x) as Hn. call_lib Hn (enter st lf [(p_atomp_0, x)]) lf.
  destruct x; cbn [is_pair is_nil negb andb] in *;
    (eexists; split;
     [enter_tac; eapply evbody_last;
      first [ eapply ev_if_true; [ev_simple|reflexivity|ev_simple]
            | eapply ev_if_false; [ev_simple|reflexivity|ev_simple] ]
     | keeps_tac]).
Qed.



