(** C19 / C13 / C03: ownership. A region is a set of frames [F] and a set of vectors [V] such that
    everything stored in them refers only to frames of [F] and vectors of [V] ([stok]). Evaluation
    started inside a region stays inside it: every frame and every vector OUTSIDE the region is left
    exactly as it was, the region only grows by the frames and vectors the evaluation allocates, and
    the value returned belongs to the (grown) region. Two interpreter instances that start with
    disjoint regions therefore never write into each other's frames or vectors, whatever they evaluate. *)
From Coq Require Import ZArith NArith List Bool Lia PeanoNat.
From RV Require Import Model.Common Model.Real32 Model.Num Model.Datum Model.Macro Model.Ast
  Model.Value Model.Print Model.Builtins Model.Eval Spec.EvalSpec Proofs.Basics Proofs.StoreProofs Proofs.EvalProofs.
Import ListNotations.

Definition nset := nat -> Prop.
Definition incl_set (A B : nset) : Prop := forall a, A a -> B a.
(** members of [B] that are not in [A] are at or above [n] *)
Definition new_above (A B : nset) (n : nat) : Prop := forall a, B a -> A a \/ n <= a.

(** a value refers only to frames of [F] and vectors of [V] *)
Fixpoint vok (F V : nset) (v : value) : Prop :=
  match v with
  | VProcU _ _ _ env => F env
  | VVec _ a => V a
  | VPair a b => vok F V a /\ vok F V b
  | _ => True
  end.

Definition frame_ok (F V : nset) (fr : frame) : Prop :=
  (forall p, f_parent fr = Some p -> F p) /\ Forall (fun d => vok F V (snd d)) (f_defs fr).

Definition stok (F V : nset) (st : state) : Prop :=
  (forall a, F a -> exists fr, nth_error (frames st) a = Some fr /\ frame_ok F V fr) /\
  (forall x, V x -> exists cells, nth_error (vectors st) x = Some cells /\ Forall (vok F V) cells).

(** what lies outside the region is untouched *)
Definition untouched (F V : nset) (st st' : state) : Prop :=
  (forall a, a < length (frames st) -> ~ F a -> nth_error (frames st') a = nth_error (frames st) a) /\
  (forall x, x < length (vectors st) -> ~ V x -> nth_error (vectors st') x = nth_error (vectors st) x).

Definition step_ok (F V : nset) (st : state) (F' V' : nset) (st' : state) : Prop :=
  incl_set F F' /\ new_above F F' (length (frames st)) /\
  incl_set V V' /\ new_above V V' (length (vectors st)) /\
  stok F' V' st' /\ untouched F V st st' /\ grows st st'.

Lemma vok_mono : forall F V F' V' v, incl_set F F' -> incl_set V V' -> vok F V v -> vok F' V' v.
Proof.
  intros F V F' V' v HF HV. induction v; cbn; auto. intros [A B]. split; auto.
Qed.

Lemma Forall_vok_mono : forall F V F' V' l, incl_set F F' -> incl_set V V' ->
  Forall (vok F V) l -> Forall (vok F' V') l.
Proof. intros. eapply Forall_impl; [|eassumption]. intros. eapply vok_mono; eassumption. Qed.

Lemma F_lt : forall F V st a, stok F V st -> F a -> a < length (frames st).
Proof. intros F V st a [H _] Ha. destruct (H a Ha) as [fr [E _]]. apply nth_error_Some. now rewrite E. Qed.
Lemma V_lt : forall F V st x, stok F V st -> V x -> x < length (vectors st).
Proof. intros F V st x [_ H] Hx. destruct (H x Hx) as [c [E _]]. apply nth_error_Some. now rewrite E. Qed.

Lemma step_ok_refl : forall F V st, stok F V st -> step_ok F V st F V st.
Proof.
  intros F V st H. unfold step_ok, incl_set, new_above, untouched, grows. repeat split; auto; apply H.
Qed.

Lemma step_ok_trans : forall F V st F1 V1 st1 F2 V2 st2,
  step_ok F V st F1 V1 st1 -> step_ok F1 V1 st1 F2 V2 st2 -> step_ok F V st F2 V2 st2.
Proof.
  intros F V st F1 V1 st1 F2 V2 st2 [A1 [A2 [A3 [A4 [A5 [[A6 A6'] A7]]]]]] [B1 [B2 [B3 [B4 [B5 [[B6 B6'] B7]]]]]].
  destruct A7 as [G1 G2]. destruct B7 as [G3 G4].
  unfold step_ok, incl_set, new_above in *. repeat split.
  - auto.
  - intros a Ha. destruct (B2 a Ha) as [H|H]; [destruct (A2 a H); auto|right; lia].
  - auto.
  - intros a Ha. destruct (B4 a Ha) as [H|H]; [destruct (A4 a H); auto|right; lia].
  - apply B5.
  - apply B5.
  - intros a La Na. rewrite B6; [now apply A6|lia|]. intro H1. destruct (A2 a H1); [auto|lia].
  - intros a La Na. rewrite B6'; [now apply A6'|lia|]. intro H1. destruct (A4 a H1); [auto|lia].
  - lia.
  - lia.
Qed.

(** ** reading *)

Lemma alist_get_Forall : forall {A} (P : A -> Prop) (l : list (str * A)) x v,
  Forall (fun d => P (snd d)) l -> alist_get l x = Some v -> P v.
Proof.
  intros A P l x v H E. apply alist_get_In in E. rewrite Forall_forall in H. apply (H (x, v) E).
Qed.

Lemma env_get_fuel_ok : forall F V st fuel a x v, stok F V st -> F a ->
  env_get_fuel fuel (frames st) a x = Some v -> vok F V v.
Proof.
  intros F V st fuel. induction fuel as [|f IH]; intros a x v Hst Ha E; cbn in E; [discriminate|].
  destruct (proj1 Hst a Ha) as [fr [Efr [Hp Hd]]]. rewrite Efr in E.
  destruct (alist_get (f_defs fr) x) as [w|] eqn:G.
  - injection E as <-. eapply alist_get_Forall; eassumption.
  - destruct (f_parent fr) as [p|] eqn:EP; [|discriminate]. eapply IH; [exact Hst|now apply Hp|exact E].
Qed.

Lemma env_get_ok : forall F V st a x v, stok F V st -> F a -> env_get st a x = Some v -> vok F V v.
Proof. intros. eapply env_get_fuel_ok; eassumption. Qed.

Lemma defining_frame_fuel_ok : forall F V st fuel a x d, stok F V st -> F a ->
  defining_frame_fuel fuel (frames st) a x = Some d -> F d.
Proof.
  intros F V st fuel. induction fuel as [|f IH]; intros a x d Hst Ha E; cbn in E; [discriminate|].
  destruct (proj1 Hst a Ha) as [fr [Efr [Hp Hd]]]. rewrite Efr in E.
  destruct (alist_get (f_defs fr) x).
  - now injection E as <-.
  - destruct (f_parent fr) as [p|] eqn:EP; [|discriminate]. eapply IH; [exact Hst|now apply Hp|exact E].
Qed.

(** ** writing *)

Lemma alist_set_Forall : forall {A} (P : A -> Prop) (l : list (str * A)) x v,
  Forall (fun d => P (snd d)) l -> P v -> Forall (fun d => P (snd d)) (alist_set l x v).
Proof.
  intros A P l x v H Hv. induction l as [|[y w] r IH]; cbn.
  - constructor; [exact Hv|constructor].
  - inversion H; subst. destruct (str_eqb x y); constructor; auto.
Qed.

Lemma env_define_ok : forall F V st a x v, stok F V st -> F a -> vok F V v ->
  step_ok F V st F V (env_define st a x v).
Proof.
  intros F V st a x v Hst Ha Hv. destruct (proj1 Hst a Ha) as [fr [Efr [Hp Hd]]].
  unfold env_define. rewrite Efr.
  assert (Hlen : length (list_update (frames st) a {| f_parent := f_parent fr; f_defs := alist_set (f_defs fr) x v |})
                 = length (frames st)) by apply list_update_length.
  unfold step_ok. split; [intros b Hb; exact Hb|]. split; [intros b Hb; now left|].
  split; [intros b Hb; exact Hb|]. split; [intros b Hb; now left|]. split; [|split].
  - split; cbn.
    + intros b Hb. destruct (Nat.eq_dec a b) as [<-|N].
      * rewrite nth_error_update_same by (apply nth_error_Some; congruence).
        eexists. split; [reflexivity|]. split; [exact Hp|]. cbn. now apply alist_set_Forall.
      * rewrite nth_error_update_other by assumption. now apply (proj1 Hst).
    + apply (proj2 Hst).
  - split; cbn.
    + intros b Lb Nb. apply nth_error_update_other. intros ->. contradiction.
    + intros; reflexivity.
  - unfold grows. cbn. rewrite Hlen. lia.
Qed.

Lemma env_set_ok : forall F V st a x v st', stok F V st -> F a -> vok F V v ->
  env_set st a x v = Some st' -> step_ok F V st F V st'.
Proof.
  intros F V st a x v st' Hst Ha Hv E. unfold env_set in E.
  destruct (defining_frame st a x) as [d|] eqn:D; [|discriminate]. injection E as <-.
  apply env_define_ok; auto. eapply defining_frame_fuel_ok; eassumption.
Qed.

Definition ext (A : nset) (n m : nat) : nset := fun a => A a \/ (n <= a < m).

Lemma alloc_frame_ok : forall F V st p, stok F V st -> (forall q, p = Some q -> F q) ->
  step_ok F V st (ext F (length (frames st)) (S (length (frames st)))) V (snd (alloc_frame st p)) /\
  ext F (length (frames st)) (S (length (frames st))) (fst (alloc_frame st p)).
Proof.
  intros F V st p Hst Hp. cbn [alloc_frame fst snd]. split; [|unfold ext; right; lia].
  unfold step_ok. split; [intros a Ha; now left|]. split; [intros a [Ha|Ha]; [now left|right; lia]|].
  split; [intros a Ha; exact Ha|]. split; [intros a Ha; now left|]. split; [|split].
  - split; cbn.
    + intros a [Ha|Ha].
      * destruct (proj1 Hst a Ha) as [fr [Efr [H1 H2]]]. exists fr. split.
        -- rewrite nth_error_app1; [exact Efr|]. apply nth_error_Some. congruence.
        -- split; [intros q Eq; left; now apply H1|]. eapply Forall_impl; [|exact H2].
           intros d Hd. eapply vok_mono; [| |exact Hd]; unfold incl_set, ext; auto.
      * assert (a = length (frames st)) by lia. subst a.
        eexists. split; [rewrite nth_error_app2 by lia; rewrite Nat.sub_diag; reflexivity|].
        split; cbn; [intros q Eq; left; now apply Hp|constructor].
    + intros x Hx. destruct (proj2 Hst x Hx) as [cells [E H]]. exists cells. split; [exact E|].
      eapply Forall_vok_mono; [| |exact H]; unfold incl_set, ext; auto.
  - split; cbn.
    + intros a La Na. now rewrite nth_error_app1.
    + intros; reflexivity.
  - unfold grows. cbn. rewrite app_length. cbn. lia.
Qed.

Lemma bind_fixed_ok : forall names F V st env args rest st', stok F V st -> F env -> Forall (vok F V) args ->
  bind_fixed st env names args = Ok (rest, st') -> step_ok F V st F V st' /\ Forall (vok F V) rest.
Proof.
  induction names as [|x xs IH]; intros F V st env args rest st' Hst He Ha E; cbn in E.
  - injection E as <- <-. split; [now apply step_ok_refl|exact Ha].
  - destruct args as [|v vs]; [discriminate|]. inversion Ha; subst.
    pose proof (env_define_ok F V st env x v Hst He H1) as S1.
    destruct (IH F V _ env vs rest st' (proj1 (proj2 (proj2 (proj2 (proj2 S1))))) He H2 E) as [S2 R].
    split; [eapply step_ok_trans; eassumption|exact R].
Qed.

(** ** literals and native procedures *)

Lemma stok_same_store : forall F V st st', stok F V st -> frames st' = frames st -> vectors st' = vectors st ->
  step_ok F V st F V st'.
Proof.
  intros F V st st' Hst Ef Ev. unfold step_ok.
  split; [intros a Ha; exact Ha|]. split; [intros a Ha; now left|].
  split; [intros a Ha; exact Ha|]. split; [intros a Ha; now left|]. split; [|split].
  - unfold stok. rewrite Ef, Ev. exact Hst.
  - unfold untouched. rewrite Ef, Ev. split; intros; reflexivity.
  - unfold grows. rewrite Ef, Ev. lia.
Qed.

Lemma alloc_vector_ok : forall F V st cells, stok F V st -> Forall (vok F V) cells ->
  step_ok F V st F (ext V (length (vectors st)) (S (length (vectors st)))) (snd (alloc_vector st cells)) /\
  ext V (length (vectors st)) (S (length (vectors st))) (fst (alloc_vector st cells)).
Proof.
  intros F V st cells Hst Hc. cbn [alloc_vector fst snd]. split; [|unfold ext; right; lia].
  unfold step_ok. split; [intros a Ha; exact Ha|]. split; [intros a Ha; now left|].
  split; [intros a Ha; now left|]. split; [intros a [Ha|Ha]; [now left|right; lia]|]. split; [|split].
  - split; cbn.
    + intros a Ha. destruct (proj1 Hst a Ha) as [fr [Efr [H1 H2]]]. exists fr. split; [exact Efr|].
      split; [exact H1|]. eapply Forall_impl; [|exact H2].
      intros d Hd. eapply vok_mono; [| |exact Hd]; unfold incl_set, ext; auto.
    + intros x [Hx|Hx].
      * destruct (proj2 Hst x Hx) as [cs [E H]]. exists cs. split.
        -- rewrite nth_error_app1; [exact E|]. apply nth_error_Some. congruence.
        -- eapply Forall_vok_mono; [| |exact H]; unfold incl_set, ext; auto.
      * assert (x = length (vectors st)) by lia. subst x. exists cells. split.
        -- rewrite nth_error_app2 by lia. now rewrite Nat.sub_diag.
        -- eapply Forall_vok_mono; [| |exact Hc]; unfold incl_set, ext; auto.
  - split; cbn.
    + intros; reflexivity.
    + intros x Lx Nx. now rewrite nth_error_app1.
  - unfold grows. cbn. rewrite app_length. cbn. lia.
Qed.

Definition lit_ok (d : datum) : Prop := forall F V st r st', stok F V st -> read_literal d st = (r, st') ->
  exists V', step_ok F V st F V' st' /\ forall v, r = Ok v -> vok F V' v.

Lemma step_ok_V : forall F V st F' V' st', step_ok F V st F' V' st' -> stok F' V' st'.
Proof. intros. apply H. Qed.
Lemma step_ok_inclF : forall F V st F' V' st', step_ok F V st F' V' st' -> incl_set F F'.
Proof. intros. apply H. Qed.
Lemma step_ok_inclV : forall F V st F' V' st', step_ok F V st F' V' st' -> incl_set V V'.
Proof. intros. apply H. Qed.

Lemma incl_refl_set : forall A, incl_set A A.
Proof. intros A a H. exact H. Qed.

Lemma read_literal_ok : forall d, lit_ok d.
Proof.
  induction d as [p l|s l|l|a b l IHa IHb|v l IHv] using datum_rect'; intros F V st r st' Hst H; cbn in H.
  - injection H as <- <-. exists V. split; [now apply step_ok_refl|]. intros v E.
    destruct p as [x|c|b|z|n1 n2|lit]; cbn in E; try (injection E as <-; exact I).
    destruct (eval_real_literal lit) as [n| | |]; cbn in E; try discriminate. injection E as <-. exact I.
  - injection H as <- <-. exists V. split; [now apply step_ok_refl|]. intros v E. injection E as <-. exact I.
  - injection H as <- <-. exists V. split; [now apply step_ok_refl|]. intros v E. injection E as <-. exact I.
  - destruct (read_literal a st) as [ra st1] eqn:Ea. destruct (IHa _ _ _ _ _ Hst Ea) as [V1 [S1 R1]].
    destruct ra as [va|k ll|s|]; cbn in H; try (injection H as <- <-; exists V1; split; [exact S1|intros v E; discriminate]).
    destruct (read_literal b st1) as [rb st2] eqn:Eb.
    destruct (IHb _ _ _ _ _ (step_ok_V _ _ _ _ _ _ S1) Eb) as [V2 [S2 R2]].
    assert (S12 : step_ok F V st F V2 st2) by (eapply step_ok_trans; eassumption).
    destruct rb as [vb|k ll|s|]; cbn in H; injection H as <- <-; exists V2; (split; [exact S12|]);
      intros v E; try discriminate.
    injection E as <-. cbn. split; [|now apply R2].
    eapply vok_mono; [apply incl_refl_set|eapply step_ok_inclV; exact S2|now apply R1].
  - match type of H with
    | ebind (?elems v st) _ = _ =>
        assert (G : forall v, Forall lit_ok v ->
                   forall F V st r st', stok F V st -> elems v st = (r, st') ->
                   exists V', step_ok F V st F V' st' /\ forall vs, r = Ok vs -> Forall (vok F V') vs)
    end.
    { clear. induction v as [|x xs IH]; intros HF F V st r st' Hst H.
      - injection H as <- <-. exists V. split; [now apply step_ok_refl|]. intros vs E. injection E as <-. constructor.
      - inversion HF as [|? ? Hx Hxs]; subst. simpl in H.
        destruct (read_literal x st) as [rx st1] eqn:Ex. destruct (Hx _ _ _ _ _ Hst Ex) as [V1 [S1 R1]].
        destruct rx as [vx|k ll|s|]; cbn in H; try (injection H as <- <-; exists V1; split; [exact S1|intros vs E; discriminate]).
        match type of H with ebind (?e xs st1) _ = _ => destruct (e xs st1) as [rr st2] eqn:Er end.
        destruct (IH Hxs _ _ _ _ _ (step_ok_V _ _ _ _ _ _ S1) Er) as [V2 [S2 R2]].
        assert (S12 : step_ok F V st F V2 st2) by (eapply step_ok_trans; eassumption).
        destruct rr as [vr|k ll|s|]; cbn in H; injection H as <- <-; exists V2; (split; [exact S12|]);
          intros vs E; try discriminate.
        injection E as <-. constructor; [|now apply R2].
        eapply vok_mono; [apply incl_refl_set|eapply step_ok_inclV; exact S2|now apply R1]. }
    match type of H with ebind (?elems v st) _ = _ => destruct (elems v st) as [rc st1] eqn:Ec end.
    destruct (G v IHv _ _ _ _ _ Hst Ec) as [V1 [S1 R1]].
    destruct rc as [cells|k ll|s|]; cbn in H; try (injection H as <- <-; exists V1; split; [exact S1|intros w E; discriminate]).
    destruct (alloc_vector_ok F V1 st1 cells (step_ok_V _ _ _ _ _ _ S1) (R1 _ eq_refl)) as [S2 Hin].
    unfold alloc_vector in H, S2, Hin. cbn [fst snd] in S2, Hin. injection H as <- <-.
    eexists. split; [eapply step_ok_trans; [exact S1|exact S2]|]. intros w E. injection E as <-. exact Hin.
Qed.

Lemma Forall_repeat : forall {A} (P : A -> Prop) x n, P x -> Forall P (repeat x n).
Proof. intros A P x n H. induction n; cbn; constructor; auto. Qed.

Lemma Forall_nth_error : forall {A} (P : A -> Prop) l k x, Forall P l -> nth_error l k = Some x -> P x.
Proof. intros A P l k x H E. rewrite Forall_forall in H. apply H. eapply nth_error_In; eassumption. Qed.

Lemma Forall_update : forall {A} (P : A -> Prop) l k x, Forall P l -> P x -> Forall P (list_update l k x).
Proof.
  intros A P l. induction l as [|y r IH]; intros k x H Hx; cbn; [destruct k; constructor|].
  inversion H; subst. destruct k; constructor; auto.
Qed.

Lemma vector_set_ok : forall F V st a cells k obj, stok F V st -> V a ->
  nth_error (vectors st) a = Some cells -> vok F V obj ->
  step_ok F V st F V (set_vectors st (list_update (vectors st) a (list_update cells k obj))).
Proof.
  intros F V st a cells k obj Hst Ha E Ho. unfold step_ok.
  split; [intros b Hb; exact Hb|]. split; [intros b Hb; now left|].
  split; [intros b Hb; exact Hb|]. split; [intros b Hb; now left|]. split; [|split].
  - split; cbn.
    + apply (proj1 Hst).
    + intros x Hx. destruct (Nat.eq_dec a x) as [<-|N].
      * rewrite nth_error_update_same by (apply nth_error_Some; congruence).
        eexists. split; [reflexivity|]. apply Forall_update; [|exact Ho].
        destruct (proj2 Hst a Ha) as [c2 [E2 H2]]. congruence.
      * rewrite nth_error_update_other by assumption. now apply (proj2 Hst).
  - split; cbn.
    + intros; reflexivity.
    + intros x Lx Nx. apply nth_error_update_other. intros ->. contradiction.
  - unfold grows. cbn. rewrite list_update_length. lia.
Qed.

Ltac inv_args :=
  repeat match goal with
         | H : Forall _ (_ :: _) |- _ => inversion H; clear H; subst
         end.

(** the value of a successful computation in the result monad: peel binds and matches *)
Ltac peel E :=
  repeat first
    [ progress (apply bind_Ok_inv in E; let a := fresh "a" in let Ha := fresh "Ha" in destruct E as [a [Ha E]])
    | match type of E with
      | (let '(_, _) := ?x in _) = _ => destruct x
      | match ?x with _ => _ end = _ => destruct x eqn:?; try discriminate E
      | (if ?b then _ else _) = _ => destruct b; try discriminate E
      end ].

Ltac peel_ctx :=
  repeat match goal with
         | H : bind _ _ = Ok _ |- _ => peel H
         | H : match ?x with _ => _ end = Ok _ |- _ => destruct x eqn:?; try discriminate H
         | H : Ok _ = Ok _ |- _ => injection H; clear H; intros; subst
         | H : Err _ _ = Ok _ |- _ => discriminate H
         | H : Panic _ = Ok _ |- _ => discriminate H
         end.

Lemma builtin_call_ok : forall name args F V st r st', stok F V st -> Forall (vok F V) args ->
  builtin_call name args st = (r, st') ->
  exists V', step_ok F V st F V' st' /\ forall v, r = Ok v -> vok F V' v.
Proof.
  intros name args F V st r st' Hst Ha H. unfold builtin_call in H.
  repeat match type of H with
  | (if ?b then _ else _) = _ => destruct b
  end.
  all: try (injection H as <- <-; exists V; split; [now apply step_ok_refl|]; intros v E;
            unfold test1, num1, unmodelled1, unmodelled2, num_compare, arg1, arg2, arg3, type_err, err, expect_number,
              expect_integer, expect_boolean in *;
            peel E; peel_ctx; try discriminate; inv_args; cbn in *; tauto).
  - (* newline *)
    injection H as <- <-. exists V. split; [now apply stok_same_store|]. intros v E. injection E as <-. exact I.
  - (* display *)
    destruct (arg1 args) as [v0|k l|x|]; try (injection H as <- <-; exists V; split; [now apply step_ok_refl|intros v E; discriminate]).
    destruct (display display_fuel st v0); injection H as <- <-; exists V.
    + split; [now apply stok_same_store|]. intros v E. injection E as <-. exact I.
    + split; [now apply step_ok_refl|intros v E; discriminate].
  - (* vector *)
    destruct (alloc_vector_ok F V st args Hst Ha) as [S1 Hin]. unfold alloc_vector in H, S1, Hin. cbn [fst snd] in S1, Hin.
    injection H as <- <-. eexists. split; [exact S1|]. intros v E. injection E as <-. exact Hin.
  - (* make-vector *)
    destruct (do p <- arg2 args;; let '(kv, fill) := p in do k <- expect_integer kv;; Ok (k, fill)) as [[k fill]|k l|x|] eqn:EA;
      try (injection H as <- <-; exists V; split; [now apply step_ok_refl|intros v E; discriminate]).
    destruct (k <? 0)%Z; [injection H as <- <-; exists V; split; [now apply step_ok_refl|intros v E; discriminate]|].
    destruct (1000000 <? k)%Z; [injection H as <- <-; exists V; split; [now apply step_ok_refl|intros v E; discriminate]|].
    assert (Hf : vok F V fill).
    { unfold arg2, expect_integer, type_err, err in EA. peel EA. peel_ctx. inv_args. cbn in *. tauto. }
    destruct (alloc_vector_ok F V st (repeat fill (Z.to_nat k)) Hst (Forall_repeat _ _ _ Hf)) as [S1 Hin].
    unfold alloc_vector in H, S1, Hin. cbn [fst snd] in S1, Hin.
    injection H as <- <-. eexists. split; [exact S1|]. intros v E. injection E as <-. exact Hin.
  - (* vector-ref *)
    injection H as <- <-. exists V. split; [now apply step_ok_refl|]. intros v E.
    unfold arg2, expect_integer, type_err, err in E. peel E. peel_ctx. inv_args. cbn in *.
    match goal with
    | Hn : nth_error (vectors st) ?a = Some ?cells, Hk : nth_error ?cells _ = Some ?x |- _ =>
        assert (Hv : V a) by tauto;
        destruct (proj2 Hst a Hv) as [c2 [E2 H2]]; rewrite Hn in E2; injection E2 as <-;
        eapply Forall_nth_error; eassumption
    end.
  - (* vector-set! *)
    destruct (arg3 args) as [[[v0 kv] obj]|k l|x|] eqn:EA;
      try (injection H as <- <-; exists V; split; [now apply step_ok_refl|intros v E; discriminate]).
    assert (Hargs : vok F V v0 /\ vok F V obj).
    { unfold arg3 in EA. destruct args as [|a1 [|a2 [|a3 rest]]]; try discriminate. injection EA as <- <- <-.
      inv_args. tauto. }
    destruct v0; try (injection H as <- <-; exists V; split; [now apply step_ok_refl|intros v E; discriminate]).
    destruct (expect_integer kv) as [k|k l|x|];
      try (injection H as <- <-; exists V; split; [now apply step_ok_refl|intros v E; discriminate]).
    destruct (negb mutable); [injection H as <- <-; exists V; split; [now apply step_ok_refl|intros v E; discriminate]|].
    destruct (nth_error (vectors st) addr) as [cells|] eqn:EN;
      [|injection H as <- <-; exists V; split; [now apply step_ok_refl|intros v E; discriminate]].
    destruct ((k <? 0)%Z || (Z.of_nat (length cells) <=? k)%Z);
      [injection H as <- <-; exists V; split; [now apply step_ok_refl|intros v E; discriminate]|].
    injection H as <- <-. exists V. split; [|intros v E; injection E as <-; exact I].
    cbn in Hargs. apply vector_set_ok with (cells := cells); tauto.
  - (* tick *)
    destruct (arg2 args) as [[v1 v2]|k l|x|] eqn:EA;
      try (injection H as <- <-; exists V; split; [now apply step_ok_refl|intros v E; discriminate]).
    assert (Hv2 : vok F V v2).
    { unfold arg2 in EA. destruct args as [|a1 [|a2 rest]]; try discriminate. injection EA as <- <-. inv_args. tauto. }
    destruct v1 as [n| | | | | | | | | | |];
      try (injection H as <- <-; exists V; split; [now apply step_ok_refl|intros v E; discriminate]).
    destruct n; try (injection H as <- <-; exists V; split; [now apply step_ok_refl|intros v E; discriminate]).
    injection H as <- <-. exists V. split; [now apply stok_same_store|]. intros v E. injection E as <-. exact Hv2.
Qed.

(** ** evaluation stays inside its region *)

Lemma vok_vlist : forall F V l, Forall (vok F V) l -> vok F V (vlist l).
Proof. intros F V l H. induction H; cbn; auto. Qed.

Lemma vok_vitems : forall F V v, vok F V v -> Forall (vok F V) (vitems v).
Proof.
  intros F V v. induction v; cbn; intros H; try constructor.
  destruct H as [H1 H2]. destruct v2; try (constructor; [exact H1|constructor; [exact H2|constructor]]).
  - constructor; [exact H1|]. now apply IHv2.
  - constructor; [exact H1|constructor].
Qed.

Lemma refail_not_ok : forall {A B} (r : res A) (v : B), failed r -> refail r = Ok v -> False.
Proof. intros A B [a|k l|x|] v F E; cbn in *; try contradiction; discriminate. Qed.

Lemma eval_primitive_vok : forall F V p v, eval_primitive p = Ok v -> vok F V v.
Proof.
  intros F V p v E. destruct p as [x|c|b|z|n1 n2|lit]; cbn in E; try (injection E as <-; exact I).
  destruct (eval_real_literal lit) as [n| | |]; cbn in E; try discriminate. injection E as <-. exact I.
Qed.

Definition R_val (st : state) (r : res value) (st' : state) (F V : nset) : Prop :=
  exists F' V', step_ok F V st F' V' st' /\ forall v, r = Ok v -> vok F' V' v.

Definition R_ev (st : state) (env : nat) (e : expr) (r : res value) (st' : state) : Prop :=
  forall F V, stok F V st -> F env -> R_val st r st' F V.
Definition R_evs (st : state) (env : nat) (es : list expr) (r : res (list value)) (st' : state) : Prop :=
  forall F V, stok F V st -> F env ->
  exists F' V', step_ok F V st F' V' st' /\ forall vs, r = Ok vs -> Forall (vok F' V') vs.
Definition R_app (st : state) (p : value) (args : list value) (r : res value) (st' : state) : Prop :=
  forall F V, stok F V st -> vok F V p -> Forall (vok F V) args -> R_val st r st' F V.
Definition R_evproc (st : state) (fm : formals) (defs : list (str * expr * loc)) (body : list expr) (closure : nat)
  (args : list value) (r : res value) (st' : state) : Prop :=
  forall F V, stok F V st -> F closure -> Forall (vok F V) args -> R_val st r st' F V.
Definition R_evdefs (st : state) (env : nat) (defs : list (str * expr * loc)) (r : res unit) (st' : state) : Prop :=
  forall F V, stok F V st -> F env -> exists F' V', step_ok F V st F' V' st'.
Definition R_evbody (st : state) (env : nat) (body : list expr) (r : res value) (st' : state) : Prop :=
  forall F V, stok F V st -> F env -> R_val st r st' F V.

Ltac use_step S := pose proof (step_ok_V _ _ _ _ _ _ S); pose proof (step_ok_inclF _ _ _ _ _ _ S);
                   pose proof (step_ok_inclV _ _ _ _ _ _ S).

Theorem region_all :
  (forall st env e r st', ev st env e r st' -> R_ev st env e r st') /\
  (forall st env es r st', evs st env es r st' -> R_evs st env es r st') /\
  (forall st p args r st', app st p args r st' -> R_app st p args r st') /\
  (forall st fm defs body closure args r st',
      evproc st fm defs body closure args r st' -> R_evproc st fm defs body closure args r st') /\
  (forall st env defs r st', evdefs st env defs r st' -> R_evdefs st env defs r st') /\
  (forall st env body r st', evbody st env body r st' -> R_evbody st env body r st').
Proof.
  apply ev_mutind.
  - (* ev_prim *)
    intros st env p l F V Hst He. exists F, V. split; [now apply step_ok_refl|]. intros v E. eapply eval_primitive_vok; eassumption.
  - (* ev_datum *)
    intros st env d l r st' H F V Hst He. destruct (read_literal_ok d F V st r st' Hst H) as [V' [S R]]. exists F, V'. now split.
  - (* ev_quote *)
    intros st env d l r st' H F V Hst He. destruct (read_literal_ok d F V st r st' Hst H) as [V' [S R]]. exists F, V'. now split.
  - (* ev_sym *)
    intros st env x l v H F V Hst He. exists F, V. split; [now apply step_ok_refl|]. intros w E. injection E as <-.
    eapply env_get_ok; eassumption.
  - (* ev_sym_unbound *)
    intros st env x l H F V Hst He. exists F, V. split; [now apply step_ok_refl|]. intros w E. discriminate.
  - (* ev_lambda *)
    intros st env fm defs body l F V Hst He. exists F, V. split; [now apply step_ok_refl|]. intros w E. injection E as <-. exact He.
  - (* ev_set *)
    intros st env x e l v st1 st2 _ IH Hs F V Hst He. destruct (IH F V Hst He) as [F1 [V1 [S1 R1]]]. use_step S1.
    pose proof (env_set_ok F1 V1 st1 env x v st2 (step_ok_V _ _ _ _ _ _ S1) ltac:(auto) (R1 v eq_refl) Hs) as S2.
    exists F1, V1. split; [eapply step_ok_trans; eassumption|]. intros w E. injection E as <-. exact I.
  - (* ev_set_unbound *)
    intros st env x e l v st1 _ IH Hs F V Hst He. destruct (IH F V Hst He) as [F1 [V1 [S1 R1]]].
    exists F1, V1. split; [exact S1|]. intros w E. discriminate.
  - (* ev_set_fail *)
    intros st env x e l r st1 _ IH Fr F V Hst He. destruct (IH F V Hst He) as [F1 [V1 [S1 R1]]].
    exists F1, V1. split; [exact S1|]. intros w E. exfalso. eapply refail_not_ok; eassumption.
  - (* ev_if_true *)
    intros st env c t alt l cv st1 r st2 _ IHc Ht _ IHt F V Hst He.
    destruct (IHc F V Hst He) as [F1 [V1 [S1 R1]]]. use_step S1.
    destruct (IHt F1 V1 (step_ok_V _ _ _ _ _ _ S1) ltac:(auto)) as [F2 [V2 [S2 R2]]].
    exists F2, V2. split; [eapply step_ok_trans; eassumption|exact R2].
  - (* ev_if_false *)
    intros st env c t a l cv st1 r st2 _ IHc Ht _ IHt F V Hst He.
    destruct (IHc F V Hst He) as [F1 [V1 [S1 R1]]]. use_step S1.
    destruct (IHt F1 V1 (step_ok_V _ _ _ _ _ _ S1) ltac:(auto)) as [F2 [V2 [S2 R2]]].
    exists F2, V2. split; [eapply step_ok_trans; eassumption|exact R2].
  - (* ev_if_false_none *)
    intros st env c t l cv st1 _ IHc Ht F V Hst He. destruct (IHc F V Hst He) as [F1 [V1 [S1 R1]]].
    exists F1, V1. split; [exact S1|]. intros w E. injection E as <-. exact I.
  - (* ev_if_fail *)
    intros st env c t alt l r st1 _ IH Fr F V Hst He. destruct (IH F V Hst He) as [F1 [V1 [S1 R1]]].
    exists F1, V1. split; [exact S1|]. intros w E. exfalso. eapply refail_not_ok; eassumption.
  - (* ev_call *)
    intros st env fe args l fv st1 vs st2 r st3 _ IHf _ IHa Hp _ IHapp F V Hst He.
    destruct (IHf F V Hst He) as [F1 [V1 [S1 R1]]]. use_step S1.
    destruct (IHa F1 V1 (step_ok_V _ _ _ _ _ _ S1) ltac:(auto)) as [F2 [V2 [S2 R2]]]. use_step S2.
    assert (Hfv : vok F2 V2 fv) by (eapply vok_mono; [| |exact (R1 fv eq_refl)]; assumption).
    destruct (IHapp F2 V2 (step_ok_V _ _ _ _ _ _ S2) Hfv (R2 vs eq_refl)) as [F3 [V3 [S3 R3]]].
    exists F3, V3. split; [|exact R3].
    eapply step_ok_trans; [eapply step_ok_trans; eassumption|exact S3].
  - (* ev_call_fail_operator *)
    intros st env fe args l r st1 _ IH Fr F V Hst He. destruct (IH F V Hst He) as [F1 [V1 [S1 R1]]].
    exists F1, V1. split; [exact S1|]. intros w E. exfalso. eapply refail_not_ok; eassumption.
  - (* ev_call_fail_operand *)
    intros st env fe args l fv st1 r st2 _ IHf _ IHa Fr F V Hst He.
    destruct (IHf F V Hst He) as [F1 [V1 [S1 R1]]]. use_step S1.
    destruct (IHa F1 V1 (step_ok_V _ _ _ _ _ _ S1) ltac:(auto)) as [F2 [V2 [S2 R2]]].
    exists F2, V2. split; [eapply step_ok_trans; eassumption|]. intros w E. exfalso. eapply refail_not_ok; eassumption.
  - (* ev_call_not_procedure *)
    intros st env fe args l fv st1 r st2 l' _ IHf _ IHa Nr Hp Hl F V Hst He.
    destruct (IHf F V Hst He) as [F1 [V1 [S1 R1]]]. use_step S1.
    destruct (IHa F1 V1 (step_ok_V _ _ _ _ _ _ S1) ltac:(auto)) as [F2 [V2 [S2 R2]]].
    exists F2, V2. split; [eapply step_ok_trans; eassumption|]. intros w E. discriminate.
  - (* evs_nil *)
    intros st env F V Hst He. exists F, V. split; [now apply step_ok_refl|]. intros vs E. injection E as <-. constructor.
  - (* evs_cons *)
    intros st env e es v st1 vs st2 _ IHe _ IHes F V Hst He.
    destruct (IHe F V Hst He) as [F1 [V1 [S1 R1]]]. use_step S1.
    destruct (IHes F1 V1 (step_ok_V _ _ _ _ _ _ S1) ltac:(auto)) as [F2 [V2 [S2 R2]]]. use_step S2.
    exists F2, V2. split; [eapply step_ok_trans; eassumption|]. intros ws E. injection E as <-.
    constructor; [|now apply R2]. eapply vok_mono; [| |exact (R1 v eq_refl)]; assumption.
  - (* evs_fail_head *)
    intros st env e es r st1 _ IH Fr F V Hst He. destruct (IH F V Hst He) as [F1 [V1 [S1 R1]]].
    exists F1, V1. split; [exact S1|]. intros w E. exfalso. eapply refail_not_ok; eassumption.
  - (* evs_fail_tail *)
    intros st env e es v st1 r st2 _ IHe _ IHes Fr F V Hst He.
    destruct (IHe F V Hst He) as [F1 [V1 [S1 R1]]]. use_step S1.
    destruct (IHes F1 V1 (step_ok_V _ _ _ _ _ _ S1) ltac:(auto)) as [F2 [V2 [S2 R2]]].
    exists F2, V2. split; [eapply step_ok_trans; eassumption|]. intros w E. exfalso. eapply refail_not_ok; eassumption.
  - (* app_unknown_builtin *)
    intros st name args Ha F V Hst Hp Hargs. exists F, V. split; [now apply step_ok_refl|]. intros w E. discriminate.
  - (* app_arity *)
    intros st p args fixed variadic Ha Hok F V Hst Hp Hargs. exists F, V. split; [now apply step_ok_refl|]. intros w E. discriminate.
  - (* app_builtin *)
    intros st name args fixed variadic r st' Ha Hok Hn Hb F V Hst Hp Hargs.
    destruct (builtin_call_ok name args F V st r st' Hst Hargs Hb) as [V' [S R]]. exists F, V'. now split.
  - (* app_apply_nil *)
    intros st p r st' Hp _ IH F V Hst Hpv Hargs. inversion Hargs; subst. apply IH; auto.
  - (* app_apply *)
    intros st p init last r st' Hp Hl _ IH F V Hst Hpv Hargs. inversion Hargs as [|? ? Hpok Hrest]; subst.
    apply Forall_app in Hrest. destruct Hrest as [Hinit Hlast]. inversion Hlast; subst.
    apply IH; auto. apply Forall_app. split; [exact Hinit|]. now apply vok_vitems.
  - (* app_apply_not_list *)
    intros st p init last Hp Hl F V Hst Hpv Hargs. exists F, V. split; [now apply step_ok_refl|]. intros w E. discriminate.
  - (* app_apply_not_procedure *)
    intros st p rest Hp F V Hst Hpv Hargs. exists F, V. split; [now apply step_ok_refl|]. intros w E. discriminate.
  - (* app_user *)
    intros st fm defs body closure args r st' Hok _ IH F V Hst Hpv Hargs. apply IH; auto.
  - (* evproc_body *)
    intros st fm defs body closure args surplus st1 st2 u st3 r st4 Hb Hst2 _ IHd _ IHb F V Hst Hc Hargs.
    destruct (alloc_frame_ok F V st (Some closure) Hst ltac:(intros q E; injection E as <-; exact Hc)) as [S0 Hloc].
    set (F0 := ext F (length (frames st)) (S (length (frames st)))) in *. use_step S0.
    assert (Hargs0 : Forall (vok F0 V) args) by (eapply Forall_vok_mono; [| |exact Hargs]; assumption).
    destruct (bind_fixed_ok _ F0 V _ _ _ _ _ (step_ok_V _ _ _ _ _ _ S0) Hloc Hargs0 Hb) as [S1 Hsur]. use_step S1.
    assert (S2 : step_ok F0 V st1 F0 V st2).
    { subst st2. destruct (f_rest fm) as [rest|]; [|now apply step_ok_refl].
      apply env_define_ok; auto. now apply vok_vlist. }
    use_step S2.
    destruct (IHd F0 V (step_ok_V _ _ _ _ _ _ S2) Hloc) as [F3 [V3 S3]]. use_step S3.
    destruct (IHb F3 V3 (step_ok_V _ _ _ _ _ _ S3) ltac:(auto)) as [F4 [V4 [S4 R4]]].
    exists F4, V4. split; [|exact R4].
    eapply step_ok_trans; [exact S0|]. eapply step_ok_trans; [exact S1|]. eapply step_ok_trans; [exact S2|].
    eapply step_ok_trans; [exact S3|exact S4].
  - (* evproc_defs_fail *)
    intros st fm defs body closure args surplus st1 st2 rd st3 Hb Hst2 _ IHd Fd F V Hst Hc Hargs.
    destruct (alloc_frame_ok F V st (Some closure) Hst ltac:(intros q E; injection E as <-; exact Hc)) as [S0 Hloc].
    set (F0 := ext F (length (frames st)) (S (length (frames st)))) in *. use_step S0.
    assert (Hargs0 : Forall (vok F0 V) args) by (eapply Forall_vok_mono; [| |exact Hargs]; assumption).
    destruct (bind_fixed_ok _ F0 V _ _ _ _ _ (step_ok_V _ _ _ _ _ _ S0) Hloc Hargs0 Hb) as [S1 Hsur]. use_step S1.
    assert (S2 : step_ok F0 V st1 F0 V st2).
    { subst st2. destruct (f_rest fm) as [rest|]; [|now apply step_ok_refl].
      apply env_define_ok; auto. now apply vok_vlist. }
    use_step S2.
    destruct (IHd F0 V (step_ok_V _ _ _ _ _ _ S2) Hloc) as [F3 [V3 S3]].
    exists F3, V3. split; [|intros w E; exfalso; eapply refail_not_ok; eassumption].
    eapply step_ok_trans; [exact S0|]. eapply step_ok_trans; [exact S1|]. eapply step_ok_trans; [exact S2|exact S3].
  - (* evproc_bind_fail *)
    intros st fm defs body closure args rb Hb Fb F V Hst Hc Hargs.
    destruct (alloc_frame_ok F V st (Some closure) Hst ltac:(intros q E; injection E as <-; exact Hc)) as [S0 Hloc].
    eexists _, V. split; [exact S0|]. intros w E. exfalso. eapply refail_not_ok; eassumption.
  - (* evdefs_nil *)
    intros st env F V Hst He. exists F, V. now apply step_ok_refl.
  - (* evdefs_cons *)
    intros st env x e l ds v st1 r st2 _ IHe _ IHd F V Hst He.
    destruct (IHe F V Hst He) as [F1 [V1 [S1 R1]]]. use_step S1.
    pose proof (env_define_ok F1 V1 st1 env x v (step_ok_V _ _ _ _ _ _ S1) ltac:(auto) (R1 v eq_refl)) as S2. use_step S2.
    destruct (IHd F1 V1 (step_ok_V _ _ _ _ _ _ S2) ltac:(auto)) as [F3 [V3 S3]].
    exists F3, V3. eapply step_ok_trans; [exact S1|]. eapply step_ok_trans; [exact S2|exact S3].
  - (* evdefs_fail *)
    intros st env x e l ds r st1 _ IH Fr F V Hst He. destruct (IH F V Hst He) as [F1 [V1 [S1 R1]]].
    exists F1, V1. exact S1.
  - (* evbody_empty *)
    intros st env F V Hst He. exists F, V. split; [now apply step_ok_refl|]. intros w E. discriminate.
  - (* evbody_last *)
    intros st env e r st' _ IH F V Hst He. now apply IH.
  - (* evbody_cons *)
    intros st env e e2 es v st1 r st2 _ IHe _ IHb F V Hst He.
    destruct (IHe F V Hst He) as [F1 [V1 [S1 R1]]]. use_step S1.
    destruct (IHb F1 V1 (step_ok_V _ _ _ _ _ _ S1) ltac:(auto)) as [F2 [V2 [S2 R2]]].
    exists F2, V2. split; [eapply step_ok_trans; eassumption|exact R2].
  - (* evbody_fail *)
    intros st env e e2 es r st1 _ IH Fr F V Hst He. destruct (IH F V Hst He) as [F1 [V1 [S1 R1]]].
    exists F1, V1. split; [exact S1|]. intros w E. exfalso. eapply refail_not_ok; eassumption.
Qed.

(** * consequences *)

Definition disjoint (A B : nset) : Prop := forall a, A a -> B a -> False.

(** whatever an evaluation started inside a region does, every frame and vector outside the region is
    exactly as before *)
Theorem outside_untouched : forall st env e r st' F V,
  ev st env e r st' -> stok F V st -> F env -> untouched F V st st'.
Proof.
  intros st env e r st' F V D Hst He. destruct (proj1 region_all _ _ _ _ _ D F V Hst He) as [F' [V' [S _]]]. apply S.
Qed.

(** the same for an application of a procedure value of the region to arguments of the region *)
Theorem outside_untouched_app : forall st p args r st' F V,
  app st p args r st' -> stok F V st -> vok F V p -> Forall (vok F V) args -> untouched F V st st'.
Proof.
  intros st p args r st' F V D Hst Hp Ha.
  destruct (proj1 (proj2 (proj2 region_all)) _ _ _ _ _ D F V Hst Hp Ha) as [F' [V' [S _]]]. apply S.
Qed.

(** two regions that are disjoint stay disjoint and well-formed when one of them evaluates: the other
    one's frames and vectors are bit for bit what they were, and the evaluating one's growth is made of
    new frames and vectors only. This is an invariant of every interleaving of evaluations through two
    interpreter instances. *)
Theorem two_regions : forall st env e r st' F1 V1 F2 V2,
  ev st env e r st' ->
  stok F1 V1 st -> stok F2 V2 st -> disjoint F1 F2 -> disjoint V1 V2 -> F1 env ->
  exists F1' V1',
    stok F1' V1' st' /\ stok F2 V2 st' /\ disjoint F1' F2 /\ disjoint V1' V2 /\
    incl_set F1 F1' /\ incl_set V1 V1' /\
    (forall a, F2 a -> nth_error (frames st') a = nth_error (frames st) a) /\
    (forall x, V2 x -> nth_error (vectors st') x = nth_error (vectors st) x) /\
    (forall v, r = Ok v -> vok F1' V1' v).
Proof.
  intros st env e r st' F1 V1 F2 V2 D H1 H2 DF DV He.
  destruct (proj1 region_all _ _ _ _ _ D F1 V1 H1 He) as [F1' [V1' [[IF [NF [IV [NV [Hst' [[UF UV] G]]]]]] R]]].
  assert (KF : forall a, F2 a -> nth_error (frames st') a = nth_error (frames st) a).
  { intros a Ha. apply UF; [eapply F_lt; eassumption|]. intro Hb. exact (DF a Hb Ha). }
  assert (KV : forall x, V2 x -> nth_error (vectors st') x = nth_error (vectors st) x).
  { intros x Hx. apply UV; [eapply V_lt; eassumption|]. intro Hb. exact (DV x Hb Hx). }
  exists F1', V1'.
  split; [exact Hst'|]. split.
  { split.
    - intros a Ha. rewrite (KF a Ha). exact (proj1 H2 a Ha).
    - intros x Hx. rewrite (KV x Hx). exact (proj2 H2 x Hx). }
  split.
  { intros a Ha Hb. destruct (NF a Ha) as [H|H]; [exact (DF a H Hb)|].
    pose proof (F_lt _ _ _ _ H2 Hb). lia. }
  split.
  { intros x Hx Hb. destruct (NV x Hx) as [H|H]; [exact (DV x H Hb)|].
    pose proof (V_lt _ _ _ _ H2 Hb). lia. }
  repeat (split; [assumption|]). exact R.
Qed.

(** a definition at top level (eval_expression_or_definition) keeps the invariant as well *)
Theorem define_in_region : forall st env x v F V,
  stok F V st -> F env -> vok F V v -> stok F V (env_define st env x v) /\ untouched F V st (env_define st env x v).
Proof.
  intros st env x v F V Hst He Hv. pose proof (env_define_ok F V st env x v Hst He Hv) as S. split; apply S.
Qed.

(** a new interpreter instance: its root frame is a region of its own, disjoint from every existing one *)
Theorem new_root_region : forall st F V,
  stok F V st ->
  let a := fst (alloc_frame st None) in let st' := snd (alloc_frame st None) in
  stok (fun b => b = a) (fun _ => False) st' /\ disjoint F (fun b => b = a) /\ stok F V st'.
Proof.
  intros st F V Hst a st'. subst a st'. cbn [alloc_frame fst snd]. split; [|split].
  - split.
    + intros b ->. eexists. split; [cbn; rewrite nth_error_app2 by lia; rewrite Nat.sub_diag; reflexivity|].
      split; cbn; [intros p E; discriminate|constructor].
    + intros x [].
  - intros b Hb ->. pose proof (F_lt _ _ _ _ Hst Hb). lia.
  - split.
    + intros b Hb. destruct (proj1 Hst b Hb) as [fr [E H]]. exists fr. split; [|exact H].
      cbn. rewrite nth_error_app1; [exact E|]. apply nth_error_Some. congruence.
    + exact (proj2 Hst).
Qed.

(** the same for the evaluator of the model (through its soundness, Proofs/EvalProofs.v) *)
Theorem eval_outside_untouched : forall fuel e env st r st' F V,
  eval_expr fuel e env st = (r, st') -> noF r -> stok F V st -> F env -> untouched F V st st'.
Proof.
  intros fuel e env st r st' F V H N Hst He. eapply outside_untouched; [|exact Hst|exact He].
  exact (s_expr fuel (sound_all fuel) _ _ _ _ _ H N).
Qed.
