(** C04: the matcher against a structural specification, for the supported class of patterns (proper
    lists and vectors nested to any depth, an ellipsis only in final position of a (sub)list after a
    sub-pattern that contains no ellipsis itself): [M lits p d s s'] says that pattern [p] matches form [d]
    and extends the table [s] to [s'] - element by element, a final `q ...` matching a run of one or more
    forms, the first into the table, each further one into a fresh table whose bindings are appended.
    The index-driven, backtracking, fuel-bounded matcher of macros.rs (Model/Macro.v) answers [true] with
    table [s'] exactly when [M] holds, and [false] exactly when no table is related. *)
From Coq Require Import ZArith NArith List Bool Lia.
From RV Require Import Model.Common Model.Datum Model.Macro Proofs.Basics Proofs.MacroProofs.
Import ListNotations.

Section Spec.
Variable lits : list str.

(** no ellipsis anywhere *)
Inductive flatp : pattern -> Prop :=
  | fl_us : forall l, flatp (PUnderscore l)
  | fl_nil : forall l, flatp (PNil l)
  | fl_cons : forall a b l, flatp a -> flatp b -> flatp (PCons a b l)
  | fl_vec : forall v l, Forall flatp v -> flatp (PVec v l)
  | fl_id : forall x l, flatp (PIdent x l)
  | fl_lit : forall q l, flatp (PLit q l).

Definition not_literal (q : pattern) : Prop := forall x l, q = PIdent x l -> str_in x lits = false.

(** the supported class *)
Inductive wfp : pattern -> Prop :=
  | wf_us : forall l, wfp (PUnderscore l)
  | wf_id : forall x l, wfp (PIdent x l)
  | wf_lit : forall q l, wfp (PLit q l)
  | wf_list : forall p, is_pair_pattern p = true -> pat_last_cdr p = None -> wfl (pat_iter p) -> wfp p
  | wf_vec : forall v l, wfl v -> wfp (PVec v l)
with wfl : list pattern -> Prop :=
  | wfl_nil : wfl []
  | wfl_ell : forall q l, wfp q -> flatp q -> not_literal q -> wfl [q; PEllipsis l]
  | wfl_cons : forall p r, wfp p -> wfl r -> wfl (p :: r).

(** the specification *)
Inductive M : pattern -> datum -> subst -> subst -> Prop :=
  | M_us : forall l d s, M (PUnderscore l) d s s
  | M_var : forall x l d s, str_in x lits = false -> M (PIdent x l) d s (subst_insert s x (d, []))
  | M_litid : forall x l l' s, str_in x lits = true -> M (PIdent x l) (DSym x l') s s
  | M_lit : forall q l l' s, M (PLit q l) (DPrim q l') s s
  | M_list : forall p d s s', is_pair_pattern p = true -> pat_last_cdr p = None -> is_pair_datum d = true -> datum_last_cdr d = None ->
      MS (pat_iter p) (datum_iter d) s s' -> M p d s s'
  | M_vec : forall v l dv l' s s', MS v dv s s' -> M (PVec v l) (DVec dv l') s s'
with MS : list pattern -> list datum -> subst -> subst -> Prop :=
  | MS_nil : forall s, MS [] [] s s
  | MS_ell : forall q l e rest s s1 s2, M q e s s1 -> RUN q rest s1 s2 -> MS [q; PEllipsis l] (e :: rest) s s2
  | MS_cons : forall p ps d ds s s1 s2, (forall l, ps <> [PEllipsis l]) ->
      M p d s s1 -> MS ps ds s1 s2 -> MS (p :: ps) (d :: ds) s s2
with RUN : pattern -> list datum -> subst -> subst -> Prop :=
  | RUN_nil : forall q s, RUN q [] s s
  | RUN_cons : forall q e rest s fresh s1 s2, M q e [] fresh -> subst_push_all s fresh = Ok s1 -> RUN q rest s1 s2 ->
      RUN q (e :: rest) s s2.

Scheme M_ind' := Minimality for M Sort Prop
  with MS_ind' := Minimality for MS Sort Prop
  with RUN_ind' := Minimality for RUN Sort Prop.

(** what the matcher's answer means *)
Definition agrees {P : Type} (rel : subst -> Prop) (b : bool) (s' : subst) : Prop :=
  (b = true -> rel s') /\ (forall s2, rel s2 -> b = true /\ s2 = s').

Record spec_claims (f : nat) : Prop := {
  sp_datum : forall p d s b s', wfp p -> match_datum f lits p d s = Ok (b, s') -> @agrees unit (M p d s) b s';
  sp_stream : forall ps ds s multi b s', wfl ps -> match_stream f lits ps ds s multi = Ok (b, s') ->
      @agrees unit (MS ps ds s) b s';
  sp_run : forall q l ds s b s', wfp q -> flatp q ->
      match_stream f lits [PEllipsis l] ds s (Some q) = Ok (b, s') -> @agrees unit (RUN q ds s) b s'
}.

Lemma spec_0 : spec_claims 0.
Proof. split; intros; cbn in *; discriminate. Qed.

Lemma wfl_head_not_ellipsis : forall p r, wfl (p :: r) -> forall l, p <> PEllipsis l.
Proof.
  intros p r H l E. subst p. inversion H as [|q l0 Hq _ _|p0 r0 Hp _]; subst.
  - inversion Hq; subst. discriminate.
  - inversion Hp; subst. discriminate.
Qed.

Lemma wfp_list_inv : forall p, wfp p -> is_pair_pattern p = true -> pat_last_cdr p = None /\ wfl (pat_iter p).
Proof. intros p H Hp. inversion H; subst; try discriminate. now split. Qed.

Lemma M_pair_inv : forall p d s s2, M p d s s2 -> is_pair_pattern p = true ->
  is_pair_datum d = true /\ datum_last_cdr d = None /\ MS (pat_iter p) (datum_iter d) s s2.
Proof. intros p d s s2 H Hp. inversion H; subst; try discriminate. auto. Qed.

Lemma spec_step : forall f, spec_claims f -> spec_claims (S f).
Proof.
  intros f IH. split.
  - (* match_datum *)
    intros p d s b s' Hw H. cbn [match_datum] in H.
    destruct p as [l|l|l|a b0 l|v l|y l|q l].
    + injection H as <- <-. split; [intros _; constructor|]. intros s2 Hm. inversion Hm; subst; try discriminate. now split.
    + inversion Hw; subst; discriminate.
    + (* PNil *)
      destruct (wfp_list_inv _ Hw eq_refl) as [Ht Hl].
      destruct (is_pair_datum d) eqn:Ed.
      * apply bind_Ok_inv in H. destruct H as [[b1 s1] [Hm H]].
        destruct (sp_stream f IH _ _ _ _ _ _ Hl Hm) as [A1 A2].
        destruct b1.
        -- rewrite Ht in H. destruct (datum_last_cdr d) eqn:Et; injection H as <- <-.
           ++ split; [discriminate|]. intros s2 Hs. destruct (M_pair_inv _ _ _ _ Hs eq_refl) as [_ [E _]]. congruence.
           ++ split; [intros _; apply M_list; auto|]. intros s2 Hs. destruct (M_pair_inv _ _ _ _ Hs eq_refl) as [_ [_ Hms]].
              destruct (A2 _ Hms) as [_ ->]. now split.
        -- injection H as <- <-. split; [discriminate|]. intros s2 Hs.
           destruct (M_pair_inv _ _ _ _ Hs eq_refl) as [_ [_ Hms]]. destruct (A2 _ Hms) as [E _]. discriminate.
      * injection H as <- <-. split; [discriminate|]. intros s2 Hs.
        destruct (M_pair_inv _ _ _ _ Hs eq_refl) as [E _]. congruence.
    + (* PCons *)
      destruct (wfp_list_inv _ Hw eq_refl) as [Ht Hl].
      destruct (is_pair_datum d) eqn:Ed.
      * apply bind_Ok_inv in H. destruct H as [[b1 s1] [Hm H]].
        destruct (sp_stream f IH _ _ _ _ _ _ Hl Hm) as [A1 A2].
        destruct b1.
        -- rewrite Ht in H. destruct (datum_last_cdr d) eqn:Et; injection H as <- <-.
           ++ split; [discriminate|]. intros s2 Hs. destruct (M_pair_inv _ _ _ _ Hs eq_refl) as [_ [E _]]. congruence.
           ++ split; [intros _; apply M_list; auto|]. intros s2 Hs. destruct (M_pair_inv _ _ _ _ Hs eq_refl) as [_ [_ Hms]].
              destruct (A2 _ Hms) as [_ ->]. now split.
        -- injection H as <- <-. split; [discriminate|]. intros s2 Hs.
           destruct (M_pair_inv _ _ _ _ Hs eq_refl) as [_ [_ Hms]]. destruct (A2 _ Hms) as [E _]. discriminate.
      * injection H as <- <-. split; [discriminate|]. intros s2 Hs.
        destruct (M_pair_inv _ _ _ _ Hs eq_refl) as [E _]. congruence.
    + (* PVec *)
      assert (Hl : wfl v) by (inversion Hw; subst; [discriminate|assumption]).
      destruct d as [q0 l0|y0 l0|l0|a0 b1 l0|v0 l0];
        try (injection H as <- <-; split; [discriminate|]; intros s2 Hs; inversion Hs; subst; discriminate).
      destruct (sp_stream f IH _ _ _ _ _ _ Hl H) as [A1 A2]. split.
      * intros Hb. apply M_vec. now apply A1.
      * intros s2 Hs. inversion Hs; subst; [discriminate|]. now apply A2.
    + (* PIdent *)
      destruct (str_in y lits) eqn:EL.
      * injection H as <- <-. split.
        -- intros Hb. destruct d; try discriminate. apply str_eqb_eq in Hb. subst s0. now apply M_litid.
        -- intros s2 Hs. inversion Hs; subst; try congruence; try discriminate. split; [apply str_eqb_refl|reflexivity].
      * injection H as <- <-. split; [intros _; now apply M_var|].
        intros s2 Hs. inversion Hs; subst; try congruence; try discriminate. now split.
    + (* PLit *)
      destruct d; injection H as <- <-; try (split; [discriminate|]; intros s2 Hs; inversion Hs; subst; discriminate).
      split.
      * intros Hb. apply prim_eqb_eq in Hb. subst p. apply M_lit.
      * intros s2 Hs. inversion Hs; subst; try discriminate. split; [now apply prim_eqb_eq|reflexivity].
  - (* match_stream, well-formed element lists *)
    intros ps ds s multi b s' Hw H. rewrite match_stream_S in H.
    destruct ps as [|sp ps']; destruct ds as [|sd ds'].
    + injection H as <- <-. split; [intros _; constructor|]. intros s2 Hs. inversion Hs; subst. now split.
    + injection H as <- <-. split; [discriminate|]. intros s2 Hs. inversion Hs.
    + assert (R : Ok (false, s) = Ok (b, s') -> @agrees unit (MS (sp :: ps') [] s) b s').
      { intros E. injection E as <- <-. split; [discriminate|]. intros s2 Hs. inversion Hs. }
      destruct sp; try (apply R; exact H). exfalso. exact (wfl_head_not_ellipsis _ _ Hw l eq_refl).
    + apply bind_Ok_inv in H. destruct H as [[b1 s1] [Hm H]].
      assert (Hsp : wfp sp) by (inversion Hw; subst; assumption).
      destruct (sp_datum f IH _ _ _ _ _ Hsp Hm) as [A1 A2].
      destruct b1.
      2:{ injection H as <- <-. split; [discriminate|]. intros s2 Hs.
          inversion Hs; subst; match goal with Hx : M sp sd s _ |- _ => destruct (A2 _ Hx) as [E _]; discriminate end. }
      (* the rest of the list, whatever is handed on as the repeatable pattern *)
      assert (REST : forall multi', (forall l, ps' = [PEllipsis l] -> multi' = Some sp) ->
                match_stream f lits ps' ds' s1 multi' = Ok (b, s') -> @agrees unit (MS (sp :: ps') (sd :: ds') s) b s').
      { intros multi' Hmu E. inversion Hw as [|q l Hq Hf Hn|p0 r0 Hp Hr]; subst.
        - (* q ... *)
          rewrite (Hmu l eq_refl) in E.
          destruct (sp_run f IH _ _ _ _ _ _ Hq Hf E) as [B1 B2]. split.
          + intros Hb. eapply MS_ell; [now apply A1|now apply B1].
          + intros s2 Hs. inversion Hs; subst.
            * match goal with Hx : M sp sd s _ |- _ => destruct (A2 _ Hx) as [_ ->] end. now apply B2.
            * match goal with Hx : forall l0, [PEllipsis l] <> [PEllipsis l0] |- _ => exfalso; exact (Hx l eq_refl) end.
        - destruct (sp_stream f IH _ _ _ _ _ _ Hr E) as [B1 B2]. split.
          + intros Hb. destruct ps' as [|r1 r2].
            * apply MS_cons with (s1 := s1); [intros l; discriminate|now apply A1|now apply B1].
            * apply MS_cons with (s1 := s1); [|now apply A1|now apply B1].
              intros l E2. injection E2 as -> ->. exact (wfl_head_not_ellipsis _ _ Hr l eq_refl).
          + intros s2 Hs. inversion Hs; subst.
            * exfalso. exact (wfl_head_not_ellipsis _ _ Hr _ eq_refl).
            * match goal with Hx : M sp sd s _ |- _ => destruct (A2 _ Hx) as [_ ->] end. now apply B2. }
      destruct sp as [l|l|l|a b0 l|v l|y l|q l];
        try (eapply REST; [intros; reflexivity|exact H]).
      * inversion Hsp; subst; discriminate.
      * destruct (str_in y lits) eqn:EL.
        -- apply (REST None); [|exact H]. intros l0 E. exfalso. subst ps'.
           inversion Hw as [|q l1 Hq Hf Hn|p0 r0 Hp Hr]; subst.
           ++ rewrite (Hn y l eq_refl) in EL. discriminate.
           ++ exact (wfl_head_not_ellipsis _ _ Hr _ eq_refl).
        -- apply (REST (Some (PIdent y l))); [intros; reflexivity|exact H].
  - (* the run of forms matched by `q ...` after its first item *)
    intros q l ds s b s' Hq Hf H. rewrite match_stream_S in H.
    destruct ds as [|e rest].
    + (* [PEllipsis], [] *)
      destruct f as [|f']; [discriminate|]. cbn in H. injection H as <- <-.
      split; [intros _; constructor|]. intros s2 Hs. inversion Hs; subst. now split.
    + apply bind_Ok_inv in H. destruct H as [[b1 s1] [Hm H]].
      destruct f as [|f']; [discriminate|]. cbn in Hm. injection Hm as <- <-.
      apply bind_Ok_inv in H. destruct H as [[b2 fresh] [Hfm H]].
      destruct (sp_datum (S f') IH _ _ _ _ _ Hq Hfm) as [A1 A2].
      destruct b2.
      2:{ injection H as <- <-. split; [discriminate|]. intros s2 Hs. inversion Hs; subst.
          match goal with Hx : M q e [] _ |- _ => destruct (A2 _ Hx) as [E _]; discriminate end. }
      apply bind_Ok_inv in H. destruct H as [s2 [Hp H]].
      apply bind_Ok_inv in H. destruct H as [[b3 s3] [Hr H]].
      destruct (sp_run (S f') IH _ _ _ _ _ _ Hq Hf Hr) as [B1 B2].
      destruct b3.
      * injection H as <- <-. split.
        -- intros _. eapply RUN_cons; [now apply A1|exact Hp|now apply B1].
        -- intros s4 Hs. inversion Hs; subst.
           match goal with Hx : M q e [] _ |- _ => destruct (A2 _ Hx) as [_ ->] end.
           match goal with Hx : subst_push_all s fresh = Ok _ |- _ => rewrite Hp in Hx; injection Hx as <- end.
           now apply B2.
      * (* the remaining forms do not all match q: the final attempt with an empty pattern list fails too *)
        assert (b = false).
        { rewrite match_stream_S in H. destruct rest; [|now injection H as <- _].
          exfalso. destruct (B2 s2 (RUN_nil q s2)) as [E _]. discriminate. }
        subst b. split; [discriminate|]. intros s4 Hs. inversion Hs; subst.
        match goal with Hx : M q e [] _ |- _ => destruct (A2 _ Hx) as [_ ->] end.
        match goal with Hx : subst_push_all s fresh = Ok _ |- _ => rewrite Hp in Hx; injection Hx as <- end.
        match goal with Hx : RUN q rest s2 _ |- _ => destruct (B2 _ Hx) as [E _]; discriminate end.
Qed.

Theorem spec_claims_all : forall f, spec_claims f.
Proof. induction f; [exact spec_0|now apply spec_step]. Qed.

(** the statements for users *)
Theorem matcher_says_yes_iff_specified : forall fuel p d s s', wfp p ->
  match_datum fuel lits p d s = Ok (true, s') -> M p d s s'.
Proof. intros fuel p d s s' Hw H. exact (proj1 (sp_datum fuel (spec_claims_all fuel) _ _ _ _ _ Hw H) eq_refl). Qed.

Theorem matcher_says_no_iff_nothing_specified : forall fuel p d s s', wfp p ->
  match_datum fuel lits p d s = Ok (false, s') -> forall s2, ~ M p d s s2.
Proof.
  intros fuel p d s s' Hw H s2 Hm. destruct (proj2 (sp_datum fuel (spec_claims_all fuel) _ _ _ _ _ Hw H) s2 Hm) as [E _]. discriminate.
Qed.

Theorem specified_match_is_what_the_matcher_finds : forall fuel p d s b s' s2, wfp p ->
  match_datum fuel lits p d s = Ok (b, s') -> M p d s s2 -> b = true /\ s' = s2.
Proof.
  intros fuel p d s b s' s2 Hw H Hm. destruct (proj2 (sp_datum fuel (spec_claims_all fuel) _ _ _ _ _ Hw H) s2 Hm) as [E ->]. now split.
Qed.

End Spec.

(** not vacuous: the pattern (_ a b ...) is in the supported class and, by the specification, matches the
    use (m 1 2 3) binding a to 1 and b to the run 2 3 *)
Definition ex_a : str := [97]%N.
Definition ex_b : str := [98]%N.
Definition ex_pattern : pattern :=
  PCons (PUnderscore None) (PCons (PIdent ex_a None) (PCons (PIdent ex_b None) (PCons (PEllipsis None) (PNil None) None) None) None) None.
Definition ex_int (z : Z) : datum := DPrim (PInt z) None.
Definition ex_use : datum :=
  DCons (DSym [109]%N None) (DCons (ex_int 1) (DCons (ex_int 2) (DCons (ex_int 3) (DNil None) None) None) None) None.

Example ex_pattern_supported : wfp [] ex_pattern.
Proof.
  apply wf_list; [reflexivity|reflexivity|]. cbn.
  apply wfl_cons; [constructor|]. apply wfl_cons; [constructor|].
  apply wfl_ell; [constructor|constructor|]. intros x l E. reflexivity.
Qed.

Example ex_pattern_matches :
  M [] ex_pattern ex_use [] [(ex_a, (ex_int 1, [])); (ex_b, (ex_int 2, [ex_int 3]))].
Proof.
  apply (matcher_says_yes_iff_specified [] (match_fuel ex_pattern ex_use)); [exact ex_pattern_supported|].
  vm_compute. reflexivity.
Qed.
