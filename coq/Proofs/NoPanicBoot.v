(** C07: the invariant of Proofs/NoPanicEval.v holds of the state after start-up (computed). *)
From Coq Require Import ZArith NArith List Bool Lia PeanoNat.
From RV Require Import Model.Common Model.Real32 Model.Num Model.Datum Model.Macro Model.Ast
  Model.Value Model.Print Model.Builtins Model.Eval Model.Interp Spec.EvalSpec Proofs.Basics Proofs.StoreProofs
  Proofs.EvalProofs Proofs.LibBase Proofs.LibBoot.
From RV Require Import Model.Transform Proofs.NoPanicEval Proofs.TransformNB.
Import ListNotations.

Fixpoint nbeb (e : expr) : bool :=
  match e with
  | ESet _ e _ => nbeb e
  | ELambda _ defs body _ =>
      match body with [] => false | _ => true end &&
      forallb (fun d => nbeb (snd (fst d))) defs && forallb nbeb body
  | ECall f args _ => nbeb f && forallb nbeb args
  | EIf c t e _ => nbeb c && nbeb t && match e with Some a => nbeb a | None => true end
  | _ => true
  end.

Lemma nbeb_nbe : forall e, nbeb e = true -> nbe e.
Proof.
  fix IH 1. intros e H. destruct e as [x l|p l|x e l|fm defs body l|f args l|c t alt l|d l|d l]; cbn in H.
  - constructor.
  - constructor.
  - constructor. now apply IH.
  - apply andb_true_iff in H. destruct H as [H Hb]. apply andb_true_iff in H. destruct H as [Hne Hd].
    constructor.
    + destruct body; [discriminate|discriminate].
    + clear Hne Hb. induction defs as [|d r IHr]; [constructor|].
      cbn in Hd. apply andb_true_iff in Hd. destruct Hd as [H1 H2]. constructor; [now apply IH|now apply IHr].
    + clear Hne Hd. induction body as [|b r IHr]; [constructor|].
      cbn in Hb. apply andb_true_iff in Hb. destruct Hb as [H1 H2]. constructor; [now apply IH|now apply IHr].
  - apply andb_true_iff in H. destruct H as [Hf Ha]. constructor; [now apply IH|].
    induction args as [|b r IHr]; [constructor|].
    cbn in Ha. apply andb_true_iff in Ha. destruct Ha as [H1 H2]. constructor; [now apply IH|now apply IHr].
  - apply andb_true_iff in H. destruct H as [H Ha]. apply andb_true_iff in H. destruct H as [Hc Ht].
    destruct alt as [a|].
    + assert (Hn : nbe a) by now apply IH.
      constructor; [now apply IH|now apply IH|]. intros a' E. injection E as <-. exact Hn.
    + constructor; [now apply IH|now apply IH|]. intros a' E. discriminate.
  - constructor.
  - constructor.
Qed.

Fixpoint vnbb (v : value) : bool :=
  match v with
  | VProcU _ defs body _ =>
      match body with [] => false | _ => true end &&
      forallb (fun d => nbeb (snd (fst d))) defs && forallb nbeb body
  | VPair a b => vnbb a && vnbb b
  | _ => true
  end.

Lemma vnbb_vnb : forall v, vnbb v = true -> vnb v.
Proof.
  induction v; cbn; intros H; auto.
  - apply andb_true_iff in H. destruct H as [H Hb]. apply andb_true_iff in H. destruct H as [Hne Hd].
    split; [destruct body; discriminate|]. rewrite forallb_forall in Hd, Hb. split; apply Forall_forall; intros x Hx.
    + apply nbeb_nbe. now apply Hd.
    + apply nbeb_nbe. now apply Hb.
  - apply andb_true_iff in H. destruct H. split; auto.
Qed.

Definition snbb (st : state) : bool :=
  forallb (fun fr => forallb (fun d => vnbb (snd d)) (f_defs fr)) (frames st) &&
  forallb (forallb vnbb) (vectors st).

Lemma snbb_snb : forall st, snbb st = true -> snb st.
Proof.
  intros st H. apply andb_true_iff in H. destruct H as [HF HV]. rewrite forallb_forall in HF, HV. split.
  - apply Forall_forall. intros fr Hfr. specialize (HF fr Hfr). rewrite forallb_forall in HF.
    apply Forall_forall. intros d Hd. apply vnbb_vnb. now apply HF.
  - apply Forall_forall. intros cells Hc. specialize (HV cells Hc). rewrite forallb_forall in HV.
    apply Forall_forall. intros v Hv. apply vnbb_vnb. now apply HV.
Qed.

(** the state after start-up (both bundled libraries loaded and imported) *)
Theorem boot_state_bodies_non_empty : snb boot_state.
Proof. apply snbb_snb. vm_compute. reflexivity. Qed.

(** a whole top-level form that is an expression or a definition, evaluated in the start-up state or
    any state reached from it: the transformer's output meets the invariant, so no panic site *)
Theorem transformed_form_reaches_no_panic_site : forall tf d senv e senv' fuel env st x st',
  transform_stmt tf d senv = (Ok (SExpr e), senv') -> snb st ->
  eval_expr fuel e env st = (Panic x, st') -> x = PUnmodelled.
Proof.
  intros tf d senv e senv' fuel env st x st' HT Hs H.
  eapply evaluator_reaches_no_panic_site; [exact H|exact Hs|].
  exact (transform_bodies_non_empty tf d senv (SExpr e) senv' HT).
Qed.
