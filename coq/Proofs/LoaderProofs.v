(** C14 / C13: the library loader of Model/Interp.v. Whatever an import does - succeed, fail,
    run out of fuel - the set of libraries "being imported" is afterwards what it was before, and
    the interpreter's root frame address and program directory are untouched. Hence the cyclic
    import test never sees leftovers of earlier attempts: the outcome of an import does not
    depend on the history of the interpreter. *)
From Coq Require Import ZArith NArith List Bool Lia Setoid.
From RV Require Import Model.Common Model.Datum Model.Lexer Model.Reader Model.Macro Model.Ast Model.Transform
  Model.Value Model.Eval Model.Interp Proofs.Basics Proofs.ImportProofs.
Import ListNotations.

(** what an operation must leave alone in the interpreter instance *)
Definition keeps (c c' : ictx) : Prop :=
  i_in_progress (c_inst c') = i_in_progress (c_inst c) /\
  i_progdir (c_inst c') = i_progdir (c_inst c) /\
  i_env (c_inst c') = i_env (c_inst c) /\
  i_import_end (c_inst c') = i_import_end (c_inst c).

Lemma keeps_refl : forall c, keeps c c.
Proof. intros; repeat split. Qed.
Lemma keeps_trans : forall a b c, keeps a b -> keeps b c -> keeps a c.
Proof. unfold keeps. intros a b c [A1 [A2 [A3 A4]]] [B1 [B2 [B3 B4]]]. repeat split; congruence. Qed.
Lemma keeps_with_st : forall c st, keeps c (with_st c st).
Proof. intros; repeat split. Qed.
Lemma keeps_with_syn : forall c s, keeps c (with_syn c s).
Proof. intros; repeat split. Qed.

Lemma keeps_ibind : forall {A B} c (m : ires A) (k : A -> ictx -> ires B),
  keeps c (snd m) -> (forall a c1, keeps c1 (snd (k a c1))) -> keeps c (snd (ibind m k)).
Proof.
  intros A B c [[a|kk l|s|] c1] k H K; cbn in *; try exact H.
  eapply keeps_trans; [exact H|apply K].
Qed.

Lemma keeps_lift_e : forall {A} (r : eres A) c, keeps c (snd (lift_e r c)).
Proof. intros A [x st] c. apply keeps_with_st. Qed.

Lemma keeps_parse_next : forall c s, keeps c (snd (parse_next c s)).
Proof.
  intros c s. unfold parse_next. destruct (read_next s) as [[[d|] s1]|k l|x|]; try apply keeps_refl.
  destruct (transform_stmt _ d [c_syn c]) as [r e']. destruct r; apply keeps_with_syn.
Qed.

Lemma keeps_find_library : forall fuel n s c, keeps c (snd (find_library fuel n s c)).
Proof.
  induction fuel as [|f IH]; intros n s c; cbn [find_library]; [apply keeps_refl|].
  apply keeps_ibind; [apply keeps_parse_next|]. intros [o s1] c1.
  destruct o as [stm|]; [|apply keeps_refl].
  destruct stm; try apply IH. destruct (libname_eqb n0 n); [apply keeps_refl|apply IH].
Qed.

Lemma keeps_eval_expr_or_def : forall fuel stm env c, keeps c (snd (eval_expr_or_def fuel stm env c)).
Proof.
  intros fuel stm env c. unfold eval_expr_or_def. destruct stm; try apply keeps_refl.
  - apply keeps_ibind; [apply keeps_lift_e|]. intros v c1. apply keeps_with_st.
  - apply keeps_with_st.
  - apply keeps_ibind; [apply keeps_lift_e|]. intros v c1. apply keeps_refl.
Qed.

(** one-step unfoldings *)
Lemma eval_library_definition_S : forall fs cwd f efuel decls c,
  eval_library_definition fs cwd (S f) efuel decls c =
  (let '(lib_env, st0) := alloc_frame (c_st c) None in
   let c0 := with_st c st0 in
   let fix stmts (l : list stmt) (c : ictx) : ires unit :=
     match l with
     | [] => (Ok tt, c)
     | x :: r => doi (_, c1) <- eval_expr_or_def efuel x lib_env c ;; stmts r c1
     end in
   let fix run (ds : list libdecl) (exports : list export_spec) (c : ictx) : ires (list export_spec) :=
     match ds with
     | [] => (Ok exports, c)
     | LDImport sets _ :: r =>
         doi (_, c1) <- eval_import fs cwd f efuel sets lib_env c ;; run r exports c1
     | LDExport specs _ :: r => run r (exports ++ specs) c
     | LDBegin body _ :: r => doi (_, c1) <- stmts body c ;; run r exports c1
     end in
   doi (exports, c1) <- run decls [] c0 ;;
   let fix export (xs : list export_spec) (acc : library) : res library :=
     match xs with
     | [] => Ok acc
     | x :: r =>
         let '(from, to, l) := match x with XDirect a l => (a, a, l) | XRename a b l => (a, b, l) end in
         match env_get (c_st c1) lib_env from with
         | Some v => export r (alist_set acc to v)
         | None => lerr UnboundedSymbol l
         end
     end in
   (export exports [], c1)).
Proof. reflexivity. Qed.

Record loader_keeps (f : nat) : Prop := {
  k_set : forall fs cwd efuel s c, keeps c (snd (eval_import_set fs cwd f efuel s c));
  k_get : forall fs cwd efuel n l c, keeps c (snd (get_library fs cwd f efuel n l c));
  k_imp : forall fs cwd efuel sets env c, keeps c (snd (eval_import fs cwd f efuel sets env c));
  k_lib : forall fs cwd efuel decls c, keeps c (snd (eval_library_definition fs cwd f efuel decls c))
}.

Lemma loader_keeps_0 : loader_keeps 0.
Proof. split; intros; apply keeps_refl. Qed.

Lemma remove_progress_head : forall p n, in_progress p n = false -> remove_progress (n :: p) n = p.
Proof.
  intros p n H. unfold remove_progress. cbn [filter]. rewrite libname_eqb_refl. cbn.
  fold (remove_progress p n). now apply remove_progress_notin.
Qed.

Lemma loader_keeps_step : forall f, loader_keeps f -> loader_keeps (S f).
Proof.
  intros f IH. split.
  - (* eval_import_set *)
    intros fs cwd efuel s c. rewrite eval_import_set_S.
    destruct s as [n l|sub ids l|sub ids l|sub p l|sub rn l];
      try (apply keeps_ibind; [apply (k_set f IH)|]; intros; apply keeps_refl).
    destruct (lib_get (i_libraries (c_inst c)) n); [apply keeps_refl|].
    destruct (in_progress (i_in_progress (c_inst c)) n) eqn:EP; [apply keeps_refl|].
    cbv zeta.
    pose proof (k_get f IH fs cwd efuel n l
                 (with_inst c (set_progress (c_inst c) (n :: i_in_progress (c_inst c))))) as K.
    destruct (get_library fs cwd f efuel n l _) as [r c1]. cbn [snd] in K.
    destruct K as [K1 [K2 [K3 K4]]]. cbn in K1, K2, K3, K4.
    assert (G : keeps c (with_inst c1 (set_progress (c_inst c1) (remove_progress (i_in_progress (c_inst c1)) n)))).
    { unfold keeps. cbn. rewrite K1. rewrite (remove_progress_head _ _ EP). auto. }
    destruct r; cbn [snd]; exact G.
  - (* get_library *)
    intros fs cwd efuel n l c. rewrite get_library_S. cbv zeta.
    assert (WF : forall fa c0, keeps c0 (snd (match fa with
                                            | FNative defs => (Ok defs, c0)
                                            | FAst decls => eval_library_definition fs cwd f efuel decls c0
                                            end))).
    { intros [defs|decls] c0; [apply keeps_refl|apply (k_lib f IH)]. }
    destruct (lib_get (i_factories (c_inst c)) n) as [fa|]; [apply WF|].
    destruct (fs_get fs _); [|apply keeps_refl].
    destruct (read_file fs _) as [text|kk ll|x|]; try apply keeps_refl.
    apply keeps_ibind; [apply keeps_find_library|]. intros fa c1.
    eapply keeps_trans; [|apply WF]. repeat split.
  - (* eval_import *)
    intros fs cwd efuel sets env c. rewrite eval_import_S. cbv zeta.
    apply keeps_ibind.
    + generalize (@nil (str * value)) as acc. revert c.
      induction sets as [|x r IHs]; intros c acc; [apply keeps_refl|].
      apply keeps_ibind; [apply (k_set f IH)|]. intros defs c1. apply IHs.
    + intros defs c1. apply keeps_with_st.
  - (* eval_library_definition *)
    intros fs cwd efuel decls c. rewrite eval_library_definition_S.
    destruct (alloc_frame (c_st c) None) as [lib_env st0]. cbv zeta.
    apply keeps_ibind.
    + eapply keeps_trans; [apply (keeps_with_st c st0)|].
      generalize (@nil export_spec) as exports. generalize (with_st c st0) as c0.
      induction decls as [|d r IHd]; intros c0 exports; [apply keeps_refl|].
      destruct d as [sets l|specs l|body l].
      * apply keeps_ibind; [apply (k_imp f IH)|]. intros u c1. apply IHd.
      * apply IHd.
      * apply keeps_ibind; [|intros u c1; apply IHd].
        clear IHd. revert c0. induction body as [|x b IHb]; intros c0; [apply keeps_refl|].
        apply keeps_ibind; [apply keeps_eval_expr_or_def|]. intros u c1. apply IHb.
    + intros exports c1. apply keeps_refl.
Qed.

Theorem loader_keeps_all : forall f, loader_keeps f.
Proof. induction f; [exact loader_keeps_0|now apply loader_keeps_step]. Qed.

(** after any import attempt, whatever its outcome, nothing is left marked as being imported *)
Theorem in_progress_restored : forall fs cwd fuel efuel s c r c',
  eval_import_set fs cwd fuel efuel s c = (r, c') ->
  i_in_progress (c_inst c') = i_in_progress (c_inst c).
Proof.
  intros fs cwd fuel efuel s c r c' H.
  pose proof (k_set fuel (loader_keeps_all fuel) fs cwd efuel s c) as K. rewrite H in K. apply K.
Qed.

Theorem import_keeps_instance : forall fs cwd fuel efuel sets env c r c',
  eval_import fs cwd fuel efuel sets env c = (r, c') -> keeps c c'.
Proof.
  intros fs cwd fuel efuel sets env c r c' H.
  pose proof (k_imp fuel (loader_keeps_all fuel) fs cwd efuel sets env c) as K. now rewrite H in K.
Qed.

(** a cyclic import is reported exactly when the library is reached again while it is being imported *)
Theorem cyclic_iff_in_progress : forall fs cwd f efuel n l c,
  lib_get (i_libraries (c_inst c)) n = None ->
  (in_progress (i_in_progress (c_inst c)) n = true ->
     eval_import_set fs cwd (S f) efuel (IDirect n l) c = (Err LibraryImportCyclic l, c)) /\
  (in_progress (i_in_progress (c_inst c)) n = false ->
     exists r c1, get_library fs cwd f efuel n l
                    (with_inst c (set_progress (c_inst c) (n :: i_in_progress (c_inst c)))) = (r, c1) /\
       fst (eval_import_set fs cwd (S f) efuel (IDirect n l) c) = r).
Proof.
  intros fs cwd f efuel n l c Hc. rewrite eval_import_set_S, Hc. split; intro Hp; rewrite Hp.
  - reflexivity.
  - cbv zeta. destruct (get_library fs cwd f efuel n l _) as [r c1]. exists r, c1. split; [reflexivity|].
    destruct r; reflexivity.
Qed.

(** a library that failed to load is not cached: a later import attempts it again *)
Theorem failed_load_not_cached : forall fs cwd f efuel n l c r c',
  lib_get (i_libraries (c_inst c)) n = None ->
  eval_import_set fs cwd (S f) efuel (IDirect n l) c = (r, c') ->
  (forall lib, r <> Ok lib) ->
  exists c1, i_libraries (c_inst c') = i_libraries (c_inst c1) /\
    (in_progress (i_in_progress (c_inst c)) n = true -> c' = c).
Proof.
  intros fs cwd f efuel n l c r c' Hc H Hr. rewrite eval_import_set_S, Hc in H.
  destruct (in_progress (i_in_progress (c_inst c)) n) eqn:EP.
  - injection H as <- <-. exists c. auto.
  - cbv zeta in H. destruct (get_library fs cwd f efuel n l _) as [r1 c1].
    destruct r1 as [lib|kk ll|x|]; injection H as <- <-.
    + exfalso. now apply (Hr lib).
    + exists c1. split; [reflexivity|discriminate].
    + exists c1. split; [reflexivity|discriminate].
    + exists c1. split; [reflexivity|discriminate].
Qed.

(** library files are looked up in the program's directory when there is one *)
Theorem file_lookup_relative_to_program : forall fs cwd f efuel n l c d,
  lib_get (i_factories (c_inst c)) n = None -> i_progdir (c_inst c) = Some d ->
  fs_get fs (d, map libname_elem_str n) = None ->
  get_library fs cwd (S f) efuel n l c = (Err LibraryNotFound l, c).
Proof. intros fs cwd f efuel n l c d Hf Hd Hfs. rewrite get_library_S, Hf, Hd. cbv zeta. now rewrite Hfs. Qed.

(** ** C13: encapsulation and single instance *)

(** every import of a library that is already instantiated returns that instance, without
    evaluating anything and without changing the interpreter *)
Theorem single_instance : forall fs cwd f efuel n l c lib,
  lib_get (i_libraries (c_inst c)) n = Some lib ->
  eval_import_set fs cwd (S f) efuel (IDirect n l) c = (Ok lib, c).
Proof. intros. rewrite eval_import_set_S. now rewrite H. Qed.

(** the first successful import records the instance *)
Theorem first_import_records_instance : forall fs cwd f efuel n l c lib c',
  lib_get (i_libraries (c_inst c)) n = None ->
  eval_import_set fs cwd (S f) efuel (IDirect n l) c = (Ok lib, c') ->
  lib_get (i_libraries (c_inst c')) n = Some lib.
Proof.
  intros fs cwd f efuel n l c lib c' Hc H. rewrite eval_import_set_S, Hc in H.
  destruct (in_progress (i_in_progress (c_inst c)) n); [discriminate|].
  cbv zeta in H. destruct (get_library fs cwd f efuel n l _) as [r c1].
  destruct r as [lib0|kk ll|x|]; try discriminate. injection H as <- <-. cbn. apply lib_get_set_same.
Qed.

(** the frame a library body runs in has no parent: a lookup from it can only find the
    library's own imports and definitions, never a binding of the importing program *)
Lemma env_get_no_parent : forall st a x fr,
  nth_error (frames st) a = Some fr -> f_parent fr = None ->
  env_get st a x = alist_get (f_defs fr) x.
Proof.
  intros st a x fr H HP. unfold env_get. cbn [env_get_fuel]. rewrite H, HP.
  destruct (alist_get (f_defs fr) x); reflexivity.
Qed.

Theorem library_frame_closed : forall st,
  let '(lib_env, st0) := alloc_frame st None in
  nth_error (frames st0) lib_env = Some {| f_parent := None; f_defs := [] |} /\
  (forall x, env_get st0 lib_env x = None).
Proof.
  intros st. unfold alloc_frame.
  assert (H : nth_error (frames st ++ [{| f_parent := None; f_defs := [] |}]) (length (frames st)) =
              Some {| f_parent := None; f_defs := [] |})
    by (rewrite nth_error_app2 by lia; now rewrite Nat.sub_diag).
  split; [exact H|]. intros x. erewrite env_get_no_parent; [|cbn; exact H|reflexivity]. reflexivity.
Qed.

(** defining or assigning in one frame never changes the parent link of any frame: a library
    frame stays closed, an importer frame never becomes reachable from it *)
Lemma env_define_parent : forall st a x v b,
  option_map f_parent (nth_error (frames (env_define st a x v)) b) = option_map f_parent (nth_error (frames st) b).
Proof.
  intros st a x v b. unfold env_define. destruct (nth_error (frames st) a) as [fr|] eqn:E; [|reflexivity].
  cbn. destruct (Nat.eq_dec a b) as [->|Hne].
  - rewrite nth_error_update_same by (apply nth_error_Some; congruence). now rewrite E.
  - now rewrite nth_error_update_other.
Qed.

(** a definition in the importer's frame leaves every binding of every other frame alone: what a
    library's own procedures see is not affected by redefinitions in the importer *)
Theorem importer_definition_is_local : forall st a x v b y,
  a <> b -> local_get (env_define st a x v) b y = local_get st b y.
Proof. intros. apply local_get_define_other. now left. Qed.

(** the exports: exactly the listed external names, bound to the values of the internal names *)
Fixpoint do_exports (st : state) (lib_env : nat) (xs : list export_spec) (acc : library) : res library :=
  match xs with
  | [] => Ok acc
  | x :: r =>
      let '(from, to, l) := match x with XDirect a l => (a, a, l) | XRename a b l => (a, b, l) end in
      match env_get st lib_env from with
      | Some v => do_exports st lib_env r (alist_set acc to v)
      | None => lerr UnboundedSymbol l
      end
  end.

Definition spec_from (x : export_spec) : str := match x with XDirect a _ => a | XRename a _ _ => a end.
Definition spec_to (x : export_spec) : str := match x with XDirect a _ => a | XRename _ b _ => b end.

Lemma do_exports_names : forall st env xs acc lib,
  do_exports st env xs acc = Ok lib ->
  forall y, In y (map fst lib) <-> In y (map fst acc) \/ In y (map spec_to xs).
Proof.
  intros st env xs. induction xs as [|x r IH]; intros acc lib H y; cbn [do_exports] in H.
  - injection H as <-. cbn. tauto.
  - destruct x as [a l|a b l]; cbn [spec_to map].
    + destruct (env_get st env a) as [v|]; [|unfold lerr in *; discriminate]. rewrite (IH _ _ H y).
      assert (K : In y (map fst (alist_set acc a v)) <-> In y (map fst acc) \/ a = y).
      { clear. induction acc as [|[z w] acc IHa]; cbn.
        - tauto.
        - destruct (str_eqb a z) eqn:E; cbn.
          + apply str_eqb_eq in E. subst. tauto.
          + rewrite IHa. tauto. }
      rewrite K. cbn. tauto.
    + destruct (env_get st env a) as [v|]; [|unfold lerr in *; discriminate]. rewrite (IH _ _ H y).
      assert (K : In y (map fst (alist_set acc b v)) <-> In y (map fst acc) \/ b = y).
      { clear. induction acc as [|[z w] acc IHa]; cbn.
        - tauto.
        - destruct (str_eqb b z) eqn:E; cbn.
          + apply str_eqb_eq in E. subst. tauto.
          + rewrite IHa. tauto. }
      rewrite K. cbn. tauto.
Qed.

(** a library exposes exactly the external names of its export specs *)
Theorem exports_exact_names : forall st env xs lib,
  do_exports st env xs [] = Ok lib ->
  forall y, In y (map fst lib) <-> In y (map spec_to xs).
Proof. intros st env xs lib H y. rewrite (do_exports_names _ _ _ _ _ H y). cbn. tauto. Qed.

Lemma do_exports_value : forall st env xs acc lib y,
  do_exports st env xs acc = Ok lib -> ~ In y (map spec_to xs) -> alist_get lib y = alist_get acc y.
Proof.
  intros st env xs. induction xs as [|x r IH]; intros acc lib y H Hn; cbn [do_exports] in H.
  - now injection H as <-.
  - destruct x as [a l|a b l]; cbn [spec_to map] in Hn; destruct (env_get st env a) as [v|]; try (unfold lerr in *; discriminate).
    + rewrite (IH _ _ y H) by (cbn in Hn; tauto). apply alist_get_set_other. cbn in Hn. tauto.
    + rewrite (IH _ _ y H) by (cbn in Hn; tauto). apply alist_get_set_other. cbn in Hn. tauto.
Qed.

(** each bound to the value of the internal name (when external names are distinct) *)
Theorem exports_exact_values : forall st env xs lib,
  do_exports st env xs [] = Ok lib -> NoDup (map spec_to xs) ->
  forall x, In x xs -> alist_get lib (spec_to x) = env_get st env (spec_from x).
Proof.
  intros st env xs. generalize (@nil (str * value)) as acc.
  induction xs as [|x0 r IH]; intros acc lib H ND x HI; [contradiction|].
  inversion ND as [|? ? Hn ND']; subst. cbn [do_exports] in H.
  destruct HI as [->|HI].
  - destruct x as [a l|a b l]; cbn [spec_to spec_from] in *; destruct (env_get st env a) as [v|]; try (unfold lerr in *; discriminate);
      rewrite (do_exports_value _ _ _ _ _ _ H Hn); apply alist_get_set_same.
  - destruct x0 as [a l|a b l]; destruct (env_get st env a) as [v|]; try (unfold lerr in *; discriminate); eapply IH; eassumption.
Qed.

(** an export whose internal name is not defined in the library is an error, not a binding *)
Theorem export_of_undefined_name : forall st env x r acc,
  env_get st env (spec_from x) = None ->
  do_exports st env (x :: r) acc = Err UnboundedSymbol (match x with XDirect _ l | XRename _ _ l => l end).
Proof. intros st env [a l|a b l] r acc H; cbn in *; now rewrite H. Qed.

(** the model's library evaluation ends with [do_exports] on the library's own frame: whenever a
    library definition evaluates to a library, that library is [do_exports] of its export specs *)
Theorem library_is_its_exports : forall fs cwd f efuel decls c lib c',
  eval_library_definition fs cwd (S f) efuel decls c = (Ok lib, c') ->
  exists exports, do_exports (c_st c') (fst (alloc_frame (c_st c) None)) exports [] = Ok lib.
Proof.
  intros fs cwd f efuel decls c lib c' H. rewrite eval_library_definition_S in H.
  destruct (alloc_frame (c_st c) None) as [lib_env st0] eqn:EA. cbv zeta in H. cbn [fst].
  match type of H with ibind ?m _ = _ => destruct m as [[exports|kk ll|x|] c1] end; cbn [ibind] in H;
    try discriminate.
  exists exports. injection H as H <-. rewrite <- H. clear H.
  generalize (@nil (str * value)) as acc. induction exports as [|x r IH]; intros acc; [reflexivity|].
  cbn [do_exports]. destruct x as [a l|a b l]; destruct (env_get (c_st c1) lib_env a); try reflexivity; apply IH.
Qed.
