(** Proofs for C12: the list computed by [eval_import_set] denotes the import-set algebra. *)
From Coq Require Import ZArith NArith List Bool Lia Permutation.
From RV Require Import Model.Common Model.Datum Model.Macro Model.Ast Model.Value Model.Eval Model.Interp
  Spec.ImportSpec Proofs.Basics.
Import ListNotations.

(** the pure part of eval_import_set: what it does to the definitions of the sub-set *)
Fixpoint import_list (libs : libname -> option library) (s : import_set) : option library :=
  match s with
  | IDirect n _ => libs n
  | IOnly sub ids _ => option_map (filter (fun d => str_in (fst d) ids)) (import_list libs sub)
  | IExcept sub ids _ => option_map (filter (fun d => negb (str_in (fst d) ids))) (import_list libs sub)
  | IPrefix sub p _ => option_map (map (fun d => (p ++ fst d, snd d))) (import_list libs sub)
  | IRename sub rn _ =>
      option_map (map (fun d => match alist_get (rev rn) (fst d) with
                                | Some to => (to, snd d)
                                | None => d
                                end)) (import_list libs sub)
  end.

Lemma alist_get_rev_NoDup : forall (rn : list (str * str)) x y,
  NoDup (map fst rn) -> (alist_get (rev rn) x = Some y <-> In (x, y) rn).
Proof.
  intros rn x y ND. split; intro H.
  - apply alist_get_In in H. now apply in_rev.
  - apply alist_get_NoDup.
    + rewrite map_rev. apply NoDup_rev. exact ND.
    + now apply in_rev in H.
Qed.

Lemma alist_get_rev_None : forall (rn : list (str * str)) x,
  alist_get (rev rn) x = None <-> ~ In x (map fst rn).
Proof.
  intros rn x. rewrite alist_get_None, map_rev. split; intros H HI; apply H.
  - now apply in_rev in HI.
  - now apply in_rev.
Qed.

(** the list is exactly the denotation *)
Lemma import_list_denotes : forall libs s l,
  admissible libs s -> import_list libs s = Some l ->
  forall x v, In (x, v) l <-> denotes libs s x v.
Proof.
  intros libs s. induction s as [n lo|sub IH ids lo|sub IH ids lo|sub IH p lo|sub IH rn lo];
    intros l Hadm Hl x v; cbn in Hl, Hadm.
  - split; intro H.
    + now apply D_direct with (lib := l).
    + inversion H as [? ? lib ? ? Hlib HI| | | | |]; subst. congruence.
  - destruct (import_list libs sub) as [l0|] eqn:E; [|discriminate]. injection Hl as <-.
    rewrite filter_In. cbn [fst]. rewrite str_in_In, (IH l0 Hadm eq_refl). split.
    + intros [H1 H2]. now constructor.
    + intro H. inversion H; subst. tauto.
  - destruct (import_list libs sub) as [l0|] eqn:E; [|discriminate]. injection Hl as <-.
    rewrite filter_In. cbn [fst]. rewrite negb_true_iff, str_in_not_In, (IH l0 Hadm eq_refl). split.
    + intros [H1 H2]. now constructor.
    + intro H. inversion H; subst. tauto.
  - destruct (import_list libs sub) as [l0|] eqn:E; [|discriminate]. injection Hl as <-.
    rewrite in_map_iff. split.
    + intros [[y w] [Heq HI]]. cbn in Heq. injection Heq as <- <-.
      constructor. now apply (IH l0 Hadm eq_refl).
    + intro H. inversion H as [| | |? ? ? y ? Hd| |]; subst. exists (y, v). split; [reflexivity|].
      now apply (IH l0 Hadm eq_refl).
  - destruct Hadm as [Hadm ND].
    destruct (import_list libs sub) as [l0|] eqn:E; [|discriminate]. injection Hl as <-.
    rewrite in_map_iff. split.
    + intros [[y w] [Heq HI]]. cbn [fst snd] in Heq.
      apply (IH l0 Hadm eq_refl) in HI.
      destruct (alist_get (rev rn) y) as [to|] eqn:Eg.
      * injection Heq as <- <-. apply D_rename_hit with (x := y); [assumption|].
        now apply alist_get_rev_NoDup.
      * injection Heq as <- <-. apply D_rename_miss; [assumption|]. now apply alist_get_rev_None.
    + intro H. inversion H as [| | | |? ? ? y ? ? Hd Hin|? ? ? ? ? Hd Hnin]; subst.
      * exists (y, v). split; [|now apply (IH l0 Hadm eq_refl)]. cbn [fst snd].
        apply alist_get_rev_NoDup in Hin; [|assumption]. now rewrite Hin.
      * exists (x, v). split; [|now apply (IH l0 Hadm eq_refl)]. cbn [fst snd].
        apply alist_get_rev_None in Hnin. now rewrite Hnin.
Qed.

Lemma import_list_total : forall libs s, admissible libs s -> exists l, import_list libs s = Some l.
Proof.
  intros libs s. induction s as [n lo|sub IH ids lo|sub IH ids lo|sub IH p lo|sub IH rn lo]; cbn; intro H.
  - exact H.
  - destruct (IH H) as [l ->]. eexists; reflexivity.
  - destruct (IH H) as [l ->]. eexists; reflexivity.
  - destruct (IH H) as [l ->]. eexists; reflexivity.
  - destruct H as [H _]. destruct (IH H) as [l ->]. eexists; reflexivity.
Qed.

(** determinism with respect to the order in which a library lists its exports (the
    iteration order of the HashMap): the result is a permutation *)
Lemma import_list_perm : forall libs libs' s l l',
  (forall n a b, libs n = Some a -> libs' n = Some b -> Permutation a b) ->
  import_list libs s = Some l -> import_list libs' s = Some l' -> Permutation l l'.
Proof.
  intros libs libs' s. induction s as [n lo|sub IH ids lo|sub IH ids lo|sub IH p lo|sub IH rn lo];
    intros l l' HP Hl Hl'; cbn in Hl, Hl'.
  - eapply HP; eassumption.
  - destruct (import_list libs sub) as [a|]; [|discriminate].
    destruct (import_list libs' sub) as [b|]; [|discriminate].
    injection Hl as <-. injection Hl' as <-.
    specialize (IH a b HP eq_refl eq_refl).
    clear -IH. induction IH; cbn.
    + constructor.
    + destruct (str_in (fst x) ids); [constructor|]; assumption.
    + destruct (str_in (fst x) ids); destruct (str_in (fst y) ids); try apply Permutation_refl; constructor;
        apply Permutation_refl.
    + eapply Permutation_trans; eassumption.
  - destruct (import_list libs sub) as [a|]; [|discriminate].
    destruct (import_list libs' sub) as [b|]; [|discriminate].
    injection Hl as <-. injection Hl' as <-.
    specialize (IH a b HP eq_refl eq_refl).
    clear -IH. induction IH; cbn.
    + constructor.
    + destruct (negb (str_in (fst x) ids)); [constructor|]; assumption.
    + destruct (negb (str_in (fst x) ids)); destruct (negb (str_in (fst y) ids)); try apply Permutation_refl;
        constructor; apply Permutation_refl.
    + eapply Permutation_trans; eassumption.
  - destruct (import_list libs sub) as [a|]; [|discriminate].
    destruct (import_list libs' sub) as [b|]; [|discriminate].
    injection Hl as <-. injection Hl' as <-. apply Permutation_map. now apply IH.
  - destruct (import_list libs sub) as [a|]; [|discriminate].
    destruct (import_list libs' sub) as [b|]; [|discriminate].
    injection Hl as <-. injection Hl' as <-. apply Permutation_map. now apply IH.
Qed.

(** ** the interpreter computes [import_list] *)

(** the libraries an interpreter instance has already instantiated *)
Definition cached (c : ictx) : libname -> option library := lib_get (i_libraries (c_inst c)).

Fixpoint iset_depth (s : import_set) : nat :=
  match s with
  | IDirect _ _ => 1
  | IOnly s _ _ | IExcept s _ _ | IPrefix s _ _ | IRename s _ _ => S (iset_depth s)
  end.

Lemma eval_import_set_S : forall fs cwd f efuel s c,
  eval_import_set fs cwd (S f) efuel s c =
  match s with
  | IDirect n l =>
      match lib_get (i_libraries (c_inst c)) n with
      | Some lib => (Ok lib, c)
      | None =>
          if in_progress (i_in_progress (c_inst c)) n then (lerr LibraryImportCyclic l, c)
          else
            let c0 := with_inst c (set_progress (c_inst c) (n :: i_in_progress (c_inst c))) in
            let '(r, c1) := get_library fs cwd f efuel n l c0 in
            let c2 := with_inst c1 (set_progress (c_inst c1) (remove_progress (i_in_progress (c_inst c1)) n)) in
            match r with
            | Ok lib => (Ok lib, with_inst c2 (set_libraries (c_inst c2) (lib_set (i_libraries (c_inst c2)) n lib)))
            | other => (other, c2)
            end
      end
  | IOnly sub ids _ =>
      doi (defs, c1) <- eval_import_set fs cwd f efuel sub c ;;
      (Ok (filter (fun d => str_in (fst d) ids) defs), c1)
  | IExcept sub ids _ =>
      doi (defs, c1) <- eval_import_set fs cwd f efuel sub c ;;
      (Ok (filter (fun d => negb (str_in (fst d) ids)) defs), c1)
  | IPrefix sub p _ =>
      doi (defs, c1) <- eval_import_set fs cwd f efuel sub c ;;
      (Ok (map (fun d => (p ++ fst d, snd d)) defs), c1)
  | IRename sub rn _ =>
      doi (defs, c1) <- eval_import_set fs cwd f efuel sub c ;;
      (Ok (map (fun d => match alist_get (rev rn) (fst d) with
                         | Some to => (to, snd d)
                         | None => d
                         end) defs), c1)
  end.
Proof. reflexivity. Qed.

(** on an interpreter that has instantiated every library the term names, evaluating the
    import set returns [import_list] and changes nothing *)
Lemma eval_import_set_cached : forall fs cwd efuel s c fuel l,
  import_list (cached c) s = Some l -> iset_depth s <= fuel ->
  eval_import_set fs cwd fuel efuel s c = (Ok l, c).
Proof.
  intros fs cwd efuel s c. induction s as [n lo|sub IH ids lo|sub IH ids lo|sub IH p lo|sub IH rn lo];
    intros fuel l Hl Hf; (destruct fuel as [|f]; [cbn in Hf; lia|]); rewrite eval_import_set_S; cbn in Hl, Hf.
  - unfold cached in Hl. now rewrite Hl.
  - destruct (import_list (cached c) sub) as [l0|] eqn:E; [|discriminate]. injection Hl as <-.
    rewrite (IH f l0 eq_refl) by lia. reflexivity.
  - destruct (import_list (cached c) sub) as [l0|] eqn:E; [|discriminate]. injection Hl as <-.
    rewrite (IH f l0 eq_refl) by lia. reflexivity.
  - destruct (import_list (cached c) sub) as [l0|] eqn:E; [|discriminate]. injection Hl as <-.
    rewrite (IH f l0 eq_refl) by lia. reflexivity.
  - destruct (import_list (cached c) sub) as [l0|] eqn:E; [|discriminate]. injection Hl as <-.
    rewrite (IH f l0 eq_refl) by lia. reflexivity.
Qed.

(** main statement for one import set *)
Lemma import_set_denotes : forall fs cwd efuel s c fuel,
  admissible (cached c) s -> iset_depth s <= fuel ->
  exists l, eval_import_set fs cwd fuel efuel s c = (Ok l, c) /\
            forall x v, In (x, v) l <-> denotes (cached c) s x v.
Proof.
  intros fs cwd efuel s c fuel Hadm Hf.
  destruct (import_list_total _ _ Hadm) as [l Hl].
  exists l. split.
  - now apply eval_import_set_cached.
  - now apply import_list_denotes.
Qed.

(** ** the effect of an import declaration on the environment *)

Lemma env_define_frames_length : forall st a x v, length (frames (env_define st a x v)) = length (frames st).
Proof.
  intros st a x v. unfold env_define. destruct (nth_error (frames st) a); [|reflexivity].
  cbn. apply list_update_length.
Qed.

(** lookup of a name in the frame itself *)
Definition local_get (st : state) (a : nat) (x : str) : option value :=
  match nth_error (frames st) a with
  | Some fr => alist_get (f_defs fr) x
  | None => None
  end.

Lemma local_get_define_same : forall st a x v,
  a < length (frames st) -> local_get (env_define st a x v) a x = Some v.
Proof.
  intros st a x v Ha. unfold local_get, env_define.
  destruct (nth_error (frames st) a) as [fr|] eqn:E.
  - cbn. rewrite nth_error_update_same by assumption. cbn. apply alist_get_set_same.
  - apply nth_error_None in E. lia.
Qed.

Lemma local_get_define_other : forall st a b x y v,
  (a <> b \/ x <> y) -> local_get (env_define st a x v) b y = local_get st b y.
Proof.
  intros st a b x y v H. unfold local_get, env_define.
  destruct (nth_error (frames st) a) as [fr|] eqn:E; [|reflexivity]. cbn.
  destruct (Nat.eq_dec a b) as [->|Hab].
  - destruct H as [H|H]; [congruence|].
    assert (b < length (frames st)) by (apply nth_error_Some; congruence).
    rewrite nth_error_update_same by assumption. rewrite E. cbn. now apply alist_get_set_other.
  - now rewrite nth_error_update_other.
Qed.

Definition define_all (st : state) (env : nat) (defs : library) : state :=
  fold_left (fun st d => env_define st env (fst d) (snd d)) defs st.

Lemma define_all_length : forall defs st env, length (frames (define_all st env defs)) = length (frames st).
Proof.
  induction defs as [|d r IH]; intros st env; cbn; [reflexivity|].
  unfold define_all in IH. rewrite IH. apply env_define_frames_length.
Qed.

Lemma define_all_other : forall defs st env b y,
  (env <> b \/ ~ In y (map fst defs)) -> local_get (define_all st env defs) b y = local_get st b y.
Proof.
  induction defs as [|d r IH]; intros st env b y H; cbn; [reflexivity|].
  unfold define_all in IH. rewrite IH.
  - apply local_get_define_other. cbn in H. tauto.
  - cbn in H. tauto.
Qed.

Lemma define_all_In : forall defs st env x v,
  env < length (frames st) -> NoDup (map fst defs) -> In (x, v) defs ->
  local_get (define_all st env defs) env x = Some v.
Proof.
  induction defs as [|d r IH]; intros st env x v Hl ND HI; cbn in *; [contradiction|].
  inversion ND as [|? ? Hn ND']; subst.
  destruct HI as [->|HI].
  - cbn. fold (define_all (env_define st env x v) env r).
    rewrite define_all_other by (right; exact Hn).
    now apply local_get_define_same.
  - fold (define_all (env_define st env (fst d) (snd d)) env r).
    apply IH; [now rewrite env_define_frames_length|assumption|assumption].
Qed.

(** the list collected from several import sets: insertion into a map, later sets override *)
Definition merge_defs (acc defs : library) : library :=
  fold_left (fun a d => alist_set a (fst d) (snd d)) defs acc.

Lemma alist_set_keys_NoDup : forall {A} (l : list (str * A)) x v,
  NoDup (map fst l) -> NoDup (map fst (alist_set l x v)).
Proof.
  induction l as [|[y w] r IH]; cbn; intros x v ND.
  - constructor; [tauto|constructor].
  - inversion ND as [|? ? Hn ND']; subst.
    destruct (str_eqb x y) eqn:E; cbn.
    + constructor; assumption.
    + constructor; [|now apply IH].
      intro HI. apply Hn. clear -HI E. induction r as [|[z u] r IHr]; cbn in *; [|].
      * destruct HI as [HI|[]]. apply str_eqb_neq in E. congruence.
      * destruct (str_eqb x z) eqn:Ez; cbn in HI; tauto.
Qed.

Lemma merge_defs_NoDup : forall defs acc, NoDup (map fst acc) -> NoDup (map fst (merge_defs acc defs)).
Proof.
  induction defs as [|d r IH]; intros acc ND; cbn; [assumption|].
  apply IH. now apply alist_set_keys_NoDup.
Qed.

Lemma alist_set_In_other : forall {A} (l : list (str * A)) x v y w,
  x <> y -> (In (y, w) (alist_set l x v) <-> In (y, w) l).
Proof.
  induction l as [|[z u] r IH]; cbn; intros x v y w Hne.
  - split; [intros [H|[]]; congruence|tauto].
  - destruct (str_eqb x z) eqn:E; cbn.
    + apply str_eqb_eq in E. subst. split; intros [H|H]; try tauto; left; congruence.
    + rewrite IH by assumption. tauto.
Qed.

Lemma merge_defs_get : forall defs acc x,
  alist_get (merge_defs acc defs) x =
  match alist_get (rev defs) x with Some v => Some v | None => alist_get acc x end.
Proof.
  induction defs as [|[y w] r IH]; intros acc x; cbn; [reflexivity|].
  unfold merge_defs in IH. rewrite IH. cbn [fst snd].
  destruct (alist_get (rev r) x) as [v|] eqn:E.
  - assert (alist_get (rev r ++ [(y, w)]) x = Some v) as ->; [|reflexivity].
    clear -E. induction (rev r) as [|[a b] t IHt]; cbn in *; [discriminate|].
    destruct (str_eqb x a); [assumption|auto].
  - assert (alist_get (rev r ++ [(y, w)]) x = if str_eqb x y then Some w else None) as ->.
    { clear -E. induction (rev r) as [|[a b] t IHt]; cbn in *; [reflexivity|].
      destruct (str_eqb x a); [discriminate|auto]. }
    destruct (str_eqb x y) eqn:Exy.
    + apply str_eqb_eq in Exy. subst. apply alist_get_set_same.
    + apply alist_get_set_other. apply str_eqb_neq in Exy. congruence.
Qed.

Lemma eval_import_S : forall fs cwd f efuel sets env c,
  eval_import fs cwd (S f) efuel sets env c =
  (let fix collect (sets : list import_set) (acc : library) (c : ictx) : ires library :=
     match sets with
     | [] => (Ok acc, c)
     | x :: r =>
         doi (defs, c1) <- eval_import_set fs cwd f efuel x c ;;
         collect r (fold_left (fun a d => alist_set a (fst d) (snd d)) defs acc) c1
     end in
   doi (defs, c1) <- collect sets [] c ;;
   (Ok tt, with_st c1 (fold_left (fun st d => env_define st env (fst d) (snd d)) defs (c_st c1)))).
Proof. reflexivity. Qed.

(** all the import sets of a declaration, on an interpreter where the libraries are cached *)
Fixpoint merged (libs : libname -> option library) (sets : list import_set) (acc : library) : option library :=
  match sets with
  | [] => Some acc
  | s :: r => match import_list libs s with
              | Some defs => merged libs r (merge_defs acc defs)
              | None => None
              end
  end.

Lemma eval_import_cached : forall fs cwd efuel sets env c f defs,
  merged (cached c) sets [] = Some defs ->
  (forall s, In s sets -> iset_depth s <= f) ->
  eval_import fs cwd (S f) efuel sets env c = (Ok tt, with_st c (define_all (c_st c) env defs)).
Proof.
  intros fs cwd efuel sets env c f defs Hm Hf.
  rewrite eval_import_S. cbv zeta.
  match goal with
  | |- ibind (?coll sets [] c) _ = _ =>
      assert (Hc : forall sets acc defs, merged (cached c) sets acc = Some defs ->
                (forall s, In s sets -> iset_depth s <= f) -> coll sets acc c = (Ok defs, c))
  end.
  { clear. induction sets as [|s r IH]; intros acc defs Hm Hf; cbn in Hm.
    - injection Hm as <-. reflexivity.
    - destruct (import_list (cached c) s) as [d0|] eqn:E; [|discriminate].
      cbn. rewrite (eval_import_set_cached fs cwd efuel s c f d0 E) by (apply Hf; now left).
      cbn. apply IH; [exact Hm|]. intros s' Hs'. apply Hf. now right. }
  rewrite (Hc sets [] defs Hm Hf). reflexivity.
Qed.

Lemma merged_NoDup : forall libs sets acc defs,
  NoDup (map fst acc) -> merged libs sets acc = Some defs -> NoDup (map fst defs).
Proof.
  induction sets as [|s r IH]; intros acc defs ND Hm; cbn in Hm.
  - now injection Hm as <-.
  - destruct (import_list libs s); [|discriminate]. eapply IH; [|exact Hm]. now apply merge_defs_NoDup.
Qed.

Lemma env_define_vectors : forall st a x v,
  vectors (env_define st a x v) = vectors st /\ out (env_define st a x v) = out st /\
  ticks (env_define st a x v) = ticks st.
Proof. intros. unfold env_define. destruct (nth_error (frames st) a); cbn; auto. Qed.

Lemma define_all_vectors : forall defs st env,
  vectors (define_all st env defs) = vectors st /\ out (define_all st env defs) = out st /\
  ticks (define_all st env defs) = ticks st.
Proof.
  induction defs as [|d r IH]; intros st env; cbn; [auto|].
  unfold define_all in IH.
  destruct (IH (env_define st env (fst d) (snd d)) env) as [H1 [H2 H3]].
  destruct (env_define_vectors st env (fst d) (snd d)) as [G1 [G2 G3]].
  rewrite H1, H2, H3. auto.
Qed.

(** what an import declaration does to the importing environment: exactly the merged
    bindings are (re)defined in the frame [env]; every other binding of every frame, the
    vectors, the output and the interpreter instance are unchanged *)
Lemma eval_import_adds_exactly : forall fs cwd efuel sets env c f defs,
  merged (cached c) sets [] = Some defs ->
  (forall s, In s sets -> iset_depth s <= f) ->
  env < length (frames (c_st c)) ->
  exists c', eval_import fs cwd (S f) efuel sets env c = (Ok tt, c') /\
    c_inst c' = c_inst c /\ c_syn c' = c_syn c /\
    vectors (c_st c') = vectors (c_st c) /\ out (c_st c') = out (c_st c) /\
    (forall x v, In (x, v) defs -> local_get (c_st c') env x = Some v) /\
    (forall b y, (env <> b \/ ~ In y (map fst defs)) -> local_get (c_st c') b y = local_get (c_st c) b y).
Proof.
  intros fs cwd efuel sets env c f defs Hm Hf Henv.
  exists (with_st c (define_all (c_st c) env defs)). split; [now apply eval_import_cached|].
  assert (ND : NoDup (map fst defs)) by (eapply (merged_NoDup _ sets []); [constructor|exact Hm]).
  destruct (define_all_vectors defs (c_st c) env) as [V1 [V2 _]].
  cbn. repeat split; try assumption.
  - intros x v HI. now apply define_all_In.
  - intros b y H. now apply define_all_other.
Qed.

(** which bindings those are: a name is bound by the declaration iff some import set binds
    it; when several sets bind it, the last one in the declaration wins (the property asks
    for the union, which presupposes that the sets agree) *)
Lemma merged_get : forall libs sets acc defs x,
  merged libs sets acc = Some defs ->
  (exists lists, Forall2 (fun s l => import_list libs s = Some l) sets lists /\
     alist_get defs x =
       match alist_get (rev (concat lists)) x with Some v => Some v | None => alist_get acc x end).
Proof.
  induction sets as [|s r IH]; intros acc defs x Hm; cbn in Hm.
  - injection Hm as <-. exists []. split; [constructor|reflexivity].
  - destruct (import_list libs s) as [d0|] eqn:E; [|discriminate].
    destruct (IH _ _ x Hm) as [lists [HF Hg]].
    exists (d0 :: lists). split; [now constructor|].
    rewrite Hg. cbn [concat]. rewrite rev_app_distr, merge_defs_get.
    destruct (alist_get (rev (concat lists)) x) as [v|] eqn:E1.
    + assert (alist_get (rev (concat lists) ++ rev d0) x = Some v) as ->; [|reflexivity].
      clear -E1. induction (rev (concat lists)) as [|[a b] t IHt]; cbn in *; [discriminate|].
      destruct (str_eqb x a); auto.
    + assert (alist_get (rev (concat lists) ++ rev d0) x = alist_get (rev d0) x) as ->; [|reflexivity].
      clear -E1. induction (rev (concat lists)) as [|[a b] t IHt]; cbn in *; [reflexivity|].
      destruct (str_eqb x a); [discriminate|auto].
Qed.

(** the outcome does not depend on the order in which the libraries' export tables are
    enumerated (hash seed): two interpreters whose instantiated libraries agree up to order
    compute the same bindings up to order *)
Lemma import_deterministic : forall fs cwd efuel s c c' fuel,
  (forall n a b, cached c n = Some a -> cached c' n = Some b -> Permutation a b) ->
  admissible (cached c) s -> admissible (cached c') s -> iset_depth s <= fuel ->
  exists l l', eval_import_set fs cwd fuel efuel s c = (Ok l, c) /\
               eval_import_set fs cwd fuel efuel s c' = (Ok l', c') /\ Permutation l l'.
Proof.
  intros fs cwd efuel s c c' fuel HP Ha Ha' Hf.
  destruct (import_list_total _ _ Ha) as [l Hl]. destruct (import_list_total _ _ Ha') as [l' Hl'].
  exists l, l'. repeat split; try now apply eval_import_set_cached.
  eapply import_list_perm; eassumption.
Qed.

(** the first import of a library provided by a native factory instantiates and caches it *)
Lemma get_library_S : forall fs cwd f efuel n l c,
  get_library fs cwd (S f) efuel n l c =
  (let with_factory (fa : factory) (c : ictx) : ires library :=
     match fa with
     | FNative defs => (Ok defs, c)
     | FAst decls => eval_library_definition fs cwd f efuel decls c
     end in
   match lib_get (i_factories (c_inst c)) n with
   | Some fa => with_factory fa c
   | None =>
       let base := match i_progdir (c_inst c) with Some d => d | None => cwd end in
       let key := (base, map libname_elem_str n) in
       match fs_get fs key with
       | None => (lerr LibraryNotFound l, c)
       | Some _ =>
           match read_file fs key with
           | Ok text =>
               doi (fa, c1) <- factory_from_text n text c ;;
               let c2 := with_inst c1 (set_factories (c_inst c1) (lib_set (i_factories (c_inst c1)) n fa)) in
               with_factory fa c2
           | Err k l0 => (Err k l0, c)
           | Panic x => (Panic x, c)
           | OutOfFuel => (OutOfFuel, c)
           end
       end
   end).
Proof. reflexivity. Qed.

Lemma libname_eqb_refl : forall n, libname_eqb n n = true.
Proof.
  induction n as [|e n IH]; cbn; [reflexivity|]. rewrite IH.
  destruct e; cbn; [rewrite str_eqb_refl|rewrite Z.eqb_refl]; reflexivity.
Qed.

Lemma lib_get_set_same : forall {A} (l : list (libname * A)) n v, lib_get (lib_set l n v) n = Some v.
Proof.
  induction l as [|[m w] r IH]; cbn; intros n v.
  - now rewrite libname_eqb_refl.
  - destruct (libname_eqb n m) eqn:E; cbn; rewrite E; [reflexivity|apply IH].
Qed.

Lemma remove_progress_notin : forall p n, in_progress p n = false -> remove_progress p n = p.
Proof.
  induction p as [|m p IH]; cbn; intros n H; [reflexivity|].
  apply orb_false_iff in H as [H1 H2]. rewrite H1. cbn.
  fold (remove_progress p n). now rewrite IH.
Qed.

Lemma first_import_native : forall fs cwd efuel n l c f defs,
  cached c n = None -> in_progress (i_in_progress (c_inst c)) n = false ->
  lib_get (i_factories (c_inst c)) n = Some (FNative defs) ->
  exists c', eval_import_set fs cwd (S (S f)) efuel (IDirect n l) c = (Ok defs, c') /\
    cached c' n = Some defs /\ c_st c' = c_st c /\ c_syn c' = c_syn c /\
    i_in_progress (c_inst c') = i_in_progress (c_inst c) /\
    i_factories (c_inst c') = i_factories (c_inst c) /\ i_env (c_inst c') = i_env (c_inst c).
Proof.
  intros fs cwd efuel n l c f defs Hc Hp Hf.
  rewrite eval_import_set_S. unfold cached in Hc. rewrite Hc, Hp. cbv zeta.
  rewrite get_library_S. cbn [c_inst with_inst set_progress i_factories]. rewrite Hf.
  eexists. split; [reflexivity|]. unfold cached. cbn.
  rewrite lib_get_set_same, libname_eqb_refl. cbn.
  fold (remove_progress (i_in_progress (c_inst c)) n). rewrite (remove_progress_notin _ _ Hp). auto 10.
Qed.
