(** C04 / C07: the fuel the model gives the matcher always suffices: [match_datum] with more than
    2 * (size of the pattern + size of the form) units never answers [OutOfFuel], and [match_fuel] is larger.
    Together with Proofs/MacroNoPanic.v (never a panic) the matcher always ends in a verdict or a reported
    error, and with Proofs/MacroSpec.v the verdict is the specified one: matching is decided. *)
From Coq Require Import ZArith NArith List Bool Lia.
From RV Require Import Model.Common Model.Datum Model.Macro Proofs.Basics Proofs.MacroProofs.
From RV Require Import Proofs.StoreProofs Proofs.MacroNoPanic Proofs.MacroSpec.
Import ListNotations.

Definition psum (ps : list pattern) : nat := fold_right (fun x n => pattern_size x + n) 0 ps.
Definition dsum (ds : list datum) : nat := fold_right (fun x n => datum_size x + n) 0 ds.

Lemma pattern_size_pos : forall p, 1 <= pattern_size p.
Proof. destruct p; cbn; lia. Qed.
Lemma datum_size_pos : forall d, 1 <= datum_size d.
Proof. destruct d; cbn; lia. Qed.

Lemma psum_iter : forall p, psum (pat_iter p) + 1 <= pattern_size p.
Proof.
  induction p; cbn [pat_iter psum fold_right pattern_size]; try lia.
  fold (psum (pat_iter p2)). pose proof (pattern_size_pos p2). lia.
Qed.
Lemma dsum_iter : forall d, dsum (datum_iter d) + 1 <= datum_size d.
Proof.
  induction d as [p l|s l|l|a b l IHa IHb|v l IHv] using datum_rect'; cbn [datum_iter dsum fold_right datum_size]; try lia.
  all: try (fold (dsum (datum_iter b)); lia).
Qed.
Lemma pat_last_cdr_size : forall p lp, pat_last_cdr p = Some lp -> pattern_size lp < pattern_size p.
Proof.
  induction p; intros lp H; cbn in H; try discriminate.
  destruct p2; try (injection H as <-; cbn; lia); try discriminate.
  specialize (IHp2 lp H). cbn [pattern_size] in *. lia.
Qed.
Lemma datum_last_cdr_size : forall d ld, datum_last_cdr d = Some ld -> datum_size ld < datum_size d.
Proof.
  induction d as [p l|s l|l|a b l IHa IHb|v l IHv] using datum_rect'; intros ld H; cbn in H; try discriminate.
  destruct b; try (injection H as <-; cbn; lia); try discriminate.
  specialize (IHb ld H). cbn [datum_size] in *. lia.
Qed.

Definition msize (multi : option pattern) : nat := match multi with Some q => pattern_size q | None => 0 end.

Record fuel_claims (f : nat) : Prop := {
  fu_datum : forall lits p d s, 2 * (pattern_size p + datum_size d) < f -> match_datum f lits p d s <> OutOfFuel;
  fu_stream : forall lits ps ds s multi, 2 * (psum ps + dsum ds + msize multi) + 1 < f ->
      match_stream f lits ps ds s multi <> OutOfFuel
}.

Lemma bind_oof : forall {A B} (r : res A) (k : A -> res B), bind r k = OutOfFuel ->
  r = OutOfFuel \/ exists a, r = Ok a /\ k a = OutOfFuel.
Proof. intros A B [a|kk l|x|] k H; cbn in H; try discriminate; [right; eauto|now left]. Qed.

Lemma fuel_0 : fuel_claims 0.
Proof. split; intros; lia. Qed.

Lemma fuel_step : forall f, fuel_claims f -> fuel_claims (S f).
Proof.
  intros f IH. split.
  - intros lits p d s Hf H. cbn [match_datum] in H.
    pose proof (psum_iter p) as Pp. pose proof (dsum_iter d) as Pd.
    destruct p as [l|l|l|a b l|v l|y l|q l]; try discriminate.
    + destruct (is_pair_datum d); [|discriminate].
      apply bind_oof in H. destruct H as [H|[[b1 s1] [Hm H]]].
      * revert H. apply (fu_stream f IH). cbn [msize]. lia.
      * destruct b1; [|discriminate]. cbn [pat_last_cdr] in H. destruct (datum_last_cdr d); discriminate.
    + destruct (is_pair_datum d); [|discriminate].
      apply bind_oof in H. destruct H as [H|[[b1 s1] [Hm H]]].
      * revert H. apply (fu_stream f IH). cbn [msize]. lia.
      * destruct b1; [|discriminate].
        destruct (pat_last_cdr (PCons a b l)) as [lp|] eqn:E1; destruct (datum_last_cdr d) as [ld|] eqn:E2; try discriminate.
        revert H. apply (fu_datum f IH). pose proof (pat_last_cdr_size _ _ E1). pose proof (datum_last_cdr_size _ _ E2). lia.
    + destruct d as [q0 l0|y0 l0|l0|a0 b1 l0|v0 l0]; try discriminate.
      revert H. apply (fu_stream f IH). cbn [msize pattern_size datum_size] in *. unfold psum, dsum. lia.
    + destruct (str_in y lits); discriminate.
    + destruct d; discriminate.
  - intros lits ps ds s multi Hf H. rewrite match_stream_S in H.
    destruct ps as [|sp ps']; destruct ds as [|sd ds']; try discriminate.
    + destruct sp; try discriminate. destruct multi as [mmp|]; [|discriminate].
      revert H. apply (fu_stream f IH). cbn [psum dsum fold_right msize pattern_size] in *. fold (psum ps') in *. lia.
    + cbn [psum dsum fold_right] in Hf. fold (psum ps') in Hf. fold (dsum ds') in Hf.
      pose proof (pattern_size_pos sp) as Psp. pose proof (datum_size_pos sd) as Psd.
      apply bind_oof in H. destruct H as [H|[[b1 s1] [Hm H]]].
      * revert H. apply (fu_datum f IH). lia.
      * destruct b1; [|discriminate].
        assert (REST : forall multi', msize multi' <= pattern_size sp -> match_stream f lits ps' ds' s1 multi' <> OutOfFuel).
        { intros multi' Hm'. apply (fu_stream f IH). lia. }
        destruct sp as [l|l|l|a b0 l|v l|y l|q l];
          try (revert H; apply REST; cbn [msize]; lia).
        -- (* ellipsis *)
           destruct multi as [mmp|]; [|discriminate]. cbn [msize] in Hf.
           apply bind_oof in H. destruct H as [H|[[b2 fresh] [Hfm H]]].
           ++ revert H. apply (fu_datum f IH). lia.
           ++ destruct b2; [|discriminate].
              apply bind_oof in H. destruct H as [H|[s2 [Hp H]]].
              ** clear - H. revert s1 H. induction fresh as [|[x [d0 w]] r IHr]; intros s1 H; cbn in H; [discriminate|].
                 destruct (subst_push s1 x d0); [eapply IHr; exact H|discriminate].
              ** apply bind_oof in H. destruct H as [H|[[b3 s3] [Hr H]]].
                 --- revert H. apply (fu_stream f IH). cbn [psum dsum fold_right msize pattern_size]. fold (psum ps'). fold (dsum ds'). lia.
                 --- destruct b3; [discriminate|]. revert H. apply (fu_stream f IH). cbn [msize]. lia.
        -- destruct (str_in y lits); revert H; apply REST; cbn [msize pattern_size]; lia.
Qed.

Theorem fuel_claims_all : forall f, fuel_claims f.
Proof. induction f; [exact fuel_0|now apply fuel_step]. Qed.

Theorem match_fuel_suffices : forall lits p d s, match_datum (match_fuel p d) lits p d s <> OutOfFuel.
Proof. intros. apply (fu_datum _ (fuel_claims_all _)). unfold match_fuel. lia. Qed.

(** matching is decided: with the model's fuel the matcher always ends in a verdict or a reported error *)
Theorem matcher_always_answers : forall lits p d s,
  (exists b s', match_datum (match_fuel p d) lits p d s = Ok (b, s')) \/
  (exists k l, match_datum (match_fuel p d) lits p d s = Err k l).
Proof.
  intros lits p d s. destruct (match_datum (match_fuel p d) lits p d s) as [[b s']|k l|x|] eqn:E; eauto.
  - exfalso. exact (matcher_never_misses_a_key _ _ _ _ _ _ E).
  - exfalso. exact (match_fuel_suffices _ _ _ _ E).
Qed.

(** for the supported class the matcher reports no error either: it answers yes or no *)
Section NoErr.
Variable lits : list str.

Lemma bind_err : forall {A B} (r : res A) (k : A -> res B) kk l, bind r k = Err kk l ->
  r = Err kk l \/ exists a, r = Ok a /\ k a = Err kk l.
Proof. intros A B [a|k0 l0|x|] k kk l H; cbn in H; try discriminate; [right; eauto|left; now injection H as -> ->]. Qed.

Record noerr_claims (f : nat) : Prop := {
  ne_datum : forall p d s k l, wfp lits p -> match_datum f lits p d s <> Err k l;
  ne_stream : forall ps ds s multi k l, wfl lits ps -> match_stream f lits ps ds s multi <> Err k l;
  ne_run : forall q l0 ds s k l, wfp lits q -> match_stream f lits [PEllipsis l0] ds s (Some q) <> Err k l
}.

Lemma push_all_no_err : forall fresh s k l, subst_push_all s fresh <> Err k l.
Proof.
  induction fresh as [|[x [d w]] r IH]; intros s k l H; cbn in H; [discriminate|].
  destruct (subst_push s x d); [eapply IH; exact H|discriminate].
Qed.

Lemma noerr_step : forall f, noerr_claims f -> noerr_claims (S f).
Proof.
  intros f IH. split.
  - intros p d s k l Hw H. cbn [match_datum] in H.
    destruct p as [l1|l1|l1|a b l1|v l1|y l1|q l1]; try discriminate.
    + destruct (wfp_list_inv _ _ Hw eq_refl) as [Ht Hl]. destruct (is_pair_datum d); [|discriminate].
      apply bind_err in H. destruct H as [H|[[b1 s1] [Hm H]]]; [exact (ne_stream f IH _ _ _ _ _ _ Hl H)|].
      destruct b1; [|discriminate]. rewrite Ht in H. destruct (datum_last_cdr d); discriminate.
    + destruct (wfp_list_inv _ _ Hw eq_refl) as [Ht Hl]. destruct (is_pair_datum d); [|discriminate].
      apply bind_err in H. destruct H as [H|[[b1 s1] [Hm H]]]; [exact (ne_stream f IH _ _ _ _ _ _ Hl H)|].
      destruct b1; [|discriminate]. rewrite Ht in H. destruct (datum_last_cdr d); discriminate.
    + assert (Hl : wfl lits v) by (inversion Hw; subst; [discriminate|assumption]).
      destruct d; try discriminate. exact (ne_stream f IH _ _ _ _ _ _ Hl H).
    + destruct (str_in y lits); discriminate.
    + destruct d; discriminate.
  - intros ps ds s multi k l Hw H. rewrite match_stream_S in H.
    destruct ps as [|sp ps']; destruct ds as [|sd ds']; try discriminate.
    + destruct sp; try discriminate. exfalso. exact (wfl_head_not_ellipsis _ _ _ Hw _ eq_refl).
    + assert (Hsp : wfp lits sp) by (inversion Hw; subst; assumption).
      apply bind_err in H. destruct H as [H|[[b1 s1] [Hm H]]]; [exact (ne_datum f IH _ _ _ _ _ Hsp H)|].
      destruct b1; [|discriminate].
      assert (REST : forall multi', (forall l0, ps' = [PEllipsis l0] -> multi' = Some sp) ->
                match_stream f lits ps' ds' s1 multi' <> Err k l).
      { intros multi' Hmu E. inversion Hw as [|q l0 Hq Hf Hn|p0 r0 Hp Hr]; subst.
        - rewrite (Hmu l0 eq_refl) in E. exact (ne_run f IH _ _ _ _ _ _ Hq E).
        - exact (ne_stream f IH _ _ _ _ _ _ Hr E). }
      destruct sp as [l1|l1|l1|a b l1|v l1|y l1|q l1];
        try (revert H; apply REST; intros; reflexivity).
      * inversion Hsp; subst; discriminate.
      * destruct (str_in y lits) eqn:EL; revert H; apply REST; [|intros; reflexivity].
        intros l0 E. exfalso. subst ps'. inversion Hw as [|q l2 Hq Hf Hn|p0 r0 Hp Hr]; subst.
        -- rewrite (Hn y l1 eq_refl) in EL. discriminate.
        -- exact (wfl_head_not_ellipsis _ _ _ Hr _ eq_refl).
  - intros q l0 ds s k l Hq H. rewrite match_stream_S in H.
    destruct ds as [|e rest].
    + destruct f as [|f']; [discriminate|]. cbn in H. discriminate.
    + apply bind_err in H. destruct H as [H|[[b1 s1] [Hm H]]].
      * destruct f as [|f']; [discriminate|]. cbn in H. discriminate.
      * destruct b1; [|discriminate].
        apply bind_err in H. destruct H as [H|[[b2 fresh] [Hfm H]]]; [exact (ne_datum f IH _ _ _ _ _ Hq H)|].
        destruct b2; [|discriminate].
        apply bind_err in H. destruct H as [H|[s2 [Hp H]]]; [exact (push_all_no_err _ _ _ _ H)|].
        apply bind_err in H. destruct H as [H|[[b3 s3] [Hr H]]]; [exact (ne_run f IH _ _ _ _ _ _ Hq H)|].
        destruct b3; [discriminate|].
        destruct f as [|f']; [discriminate|]. rewrite match_stream_S in H. destruct rest; discriminate.
Qed.

Lemma noerr_0 : noerr_claims 0.
Proof. split; intros; cbn; discriminate. Qed.

Theorem noerr_all : forall f, noerr_claims f.
Proof. induction f; [exact noerr_0|now apply noerr_step]. Qed.

(** Matching is decided and is what the specification says: for every pattern of the supported class, every
    form and every table the matcher - with the fuel the model gives it - answers yes or no; yes with table s'
    exactly when the specification relates pattern, form and s'; no exactly when it relates no table *)
Theorem matching_is_decided_by_the_specification : forall p d s, wfp lits p ->
  exists b s', match_datum (match_fuel p d) lits p d s = Ok (b, s') /\
    (b = true -> M lits p d s s') /\ (forall s2, M lits p d s s2 -> b = true /\ s2 = s').
Proof.
  intros p d s Hw. destruct (matcher_always_answers lits p d s) as [[b [s' E]]|[k [l E]]].
  - exists b, s'. split; [exact E|]. exact (sp_datum lits _ (spec_claims_all lits _) _ _ _ _ _ Hw E).
  - exfalso. exact (ne_datum _ (noerr_all _) _ _ _ _ _ Hw E).
Qed.
End NoErr.
