(** C15: the locations the reader writes into a datum lie in the text of that datum. The lexer's cursor only
    moves forward, through every token class ([lex_next_forward]); a token's location is the cursor position
    just after it; the reader gives every node of a datum the location of one of the tokens it consumed for
    that datum (or none). Hence: when [read_next] reads a form starting with the cursor at [p] and leaves
    it at [p'], every location written anywhere in the form lies between [p] and [p'] (in reading order). *)
From Coq Require Import ZArith NArith List Bool Lia.
From RV Require Import Model.Common Model.Datum Model.Lexer Model.Reader Proofs.Basics Proofs.LexProofs Proofs.LocProofs
  Proofs.ReaderProofs.
Import ListNotations.
Local Open Scope N_scope.

(** ** the lexer's cursor moves forward *)
Definition fw {A} (p : pos) (x : res (A * list char * pos)) : Prop :=
  forall a r p', x = Ok (a, r, p') -> pos_le p p'.

Lemma fw_ok : forall {A} p (a : A) r p', pos_le p p' -> fw p (Ok (a, r, p')).
Proof. intros A p a r p' H a' r' q E. injection E as <- <- <-. exact H. Qed.
Lemma fw_err : forall {A} p k l, fw p (@Err (A * list char * pos) k l).
Proof. intros A p k l a r q E. discriminate. Qed.
Lemma fw_from : forall {A} p q (x : res (A * list char * pos)), pos_le p q -> fw q x -> fw p x.
Proof. intros A p q x L H a r p' E. eapply pos_le_trans; [exact L|exact (H a r p' E)]. Qed.

Lemma take_while_pos : forall f l p a r p', take_while f l p = (a, r, p') -> pos_le p p'.
Proof.
  intros f l. induction l as [|c l IH]; intros p a r p' H; cbn in H.
  - injection H as _ _ <-. apply pos_le_refl.
  - destruct (f c).
    + destruct (take_while f l (adv c p)) as [[a0 r0] p0] eqn:E. injection H as _ _ <-.
      eapply pos_le_trans; [apply adv_forward|exact (IH _ _ _ _ E)].
    + injection H as _ _ <-. apply pos_le_refl.
Qed.

Lemma fw_test_delimiter : forall {A} q p c (k : res (A * list char * pos)), fw q k -> fw q (test_delimiter p c k).
Proof. intros A q p c k H. unfold test_delimiter. destruct (is_delimiter c); [exact H|apply fw_err]. Qed.
Lemma fw_peek_delim : forall {A} q l p (k : res (A * list char * pos)), fw q k -> fw q (peek_delim l p k).
Proof. intros A q l p k H. unfold peek_delim. destruct l; [exact H|now apply fw_test_delimiter]. Qed.

Lemma fw_number_suffix : forall lit l p, fw p (number_suffix lit l p).
Proof.
  intros lit l p. unfold number_suffix. destruct l as [|e r]; [apply fw_ok, pos_le_refl|].
  apply (fw_from p (adv e p)); [apply adv_forward|].
  destruct r as [|s0 r'].
  - cbn. apply fw_ok, pos_le_refl.
  - destruct ((s0 =? c_plus) || (s0 =? c_minus)).
    + destruct (take_while is_digit r' (adv s0 (adv e p))) as [[ds r2] p2] eqn:ET.
      apply take_while_pos in ET. apply fw_peek_delim, fw_ok.
      eapply pos_le_trans; [apply adv_forward|exact ET].
    + destruct (take_while is_digit (s0 :: r') (adv e p)) as [[ds r2] p2] eqn:ET.
      apply take_while_pos in ET. apply fw_peek_delim, fw_ok. exact ET.
Qed.

Lemma fw_real_tail : forall lit l p, fw p (real_tail lit l p).
Proof.
  intros lit l p. unfold real_tail. destruct l as [|d r]; [apply fw_ok, pos_le_refl|].
  apply (fw_from p (adv d p)); [apply adv_forward|].
  destruct r as [|nc r']; [apply fw_ok, pos_le_refl|].
  destruct (nc =? c_e); [apply fw_number_suffix|].
  destruct (is_digit nc).
  - destruct (take_while is_digit (nc :: r') (adv d p)) as [[ds r2] p2] eqn:ET.
    apply take_while_pos in ET. destruct r2 as [|nnc r3]; [apply fw_ok; exact ET|].
    destruct (nnc =? c_e); [eapply fw_from; [exact ET|apply fw_number_suffix]|].
    apply fw_test_delimiter, fw_ok. exact ET.
  - apply fw_test_delimiter, fw_ok, pos_le_refl.
Qed.

Lemma fw_bind_tok : forall q (x : res (list char * list char * pos)) (g : list char -> pos -> res token),
  fw q x -> fw q (do y <- x ;; let '(lit, r, p) := y in do t <- g lit p ;; Ok (t, r, p)).
Proof.
  intros q [[[lit r] p]|k l|s|] g H; cbn; try (intros a r0 p0 E; discriminate).
  destruct (g lit p) as [t|k l|s|]; cbn; try (intros a r0 p0 E; discriminate).
  apply fw_ok. exact (H lit r p eq_refl).
Qed.

Lemma fw_lex_number : forall c l p, fw p (lex_number c l p).
Proof.
  intros c l p. unfold lex_number.
  destruct (take_while is_digit l p) as [[ds r] p1] eqn:ET. apply take_while_pos in ET.
  destruct r as [|nc r'].
  - destruct (parse_i32 (c :: ds)); [apply fw_ok; exact ET|apply fw_err].
  - destruct (nc =? c_e).
    { apply fw_bind_tok. eapply fw_from; [exact ET|apply fw_number_suffix]. }
    destruct (nc =? c_dot).
    { apply fw_bind_tok. eapply fw_from; [exact ET|apply fw_real_tail]. }
    destruct (nc =? c_slash).
    { destruct (take_while is_digit r' (adv nc p1)) as [[den r2] p2] eqn:ET2. apply take_while_pos in ET2.
      apply fw_peek_delim. destruct (parse_i32 (c :: ds)); [|apply fw_err].
      destruct (parse_i32 den) as [[| |]|]; try apply fw_err; apply fw_ok;
        (eapply pos_le_trans; [exact ET|]; eapply pos_le_trans; [apply adv_forward|exact ET2]). }
    apply fw_test_delimiter. destruct (parse_i32 (c :: ds)); [apply fw_ok; exact ET|apply fw_err].
Qed.

Lemma fw_lex_normal_ident : forall c l p, fw p (lex_normal_ident c l p).
Proof.
  intros c l p. unfold lex_normal_ident, ident_tail.
  destruct (take_while is_subsequent l p) as [[cs r] p1] eqn:ET. apply take_while_pos in ET.
  now apply fw_peek_delim, fw_ok.
Qed.

Lemma fw_dot_subsequent : forall id l p, fw p (dot_subsequent id l p).
Proof.
  intros id l p. unfold dot_subsequent, ident_tail. destruct l as [|c r]; [apply fw_ok, pos_le_refl|].
  destruct ((c =? c_plus) || (c =? c_minus) || (c =? c_dot) || (c =? c_at) || is_initial c).
  - destruct (take_while is_subsequent (c :: r) p) as [[cs r1] p1] eqn:ET. apply take_while_pos in ET.
    destruct r1; [apply fw_err|]. now apply fw_test_delimiter, fw_ok.
  - apply fw_test_delimiter, fw_ok, pos_le_refl.
Qed.

Lemma fw_lex_peculiar : forall c l p, fw p (lex_peculiar c l p).
Proof.
  intros c l p. unfold lex_peculiar. pose proof (fw_dot_subsequent [c] l p) as H.
  destruct (dot_subsequent [c] l p) as [[[id r] p1]|k ll|s|]; cbn; try (intros a r0 p0 E; discriminate).
  apply fw_ok. exact (H id r p1 eq_refl).
Qed.

Lemma fw_lex_quoted_ident : forall l p acc, fw p (lex_quoted_ident l p acc).
Proof.
  induction l as [|c l IH]; intros p acc; cbn [lex_quoted_ident]; [apply fw_err|].
  destruct (c =? c_bar); [apply fw_ok, adv_forward|]. eapply fw_from; [apply adv_forward|apply IH].
Qed.

Lemma fw_lex_string : forall fuel l p acc, fw p (lex_string fuel l p acc).
Proof.
  induction fuel as [|f IH]; intros l p acc; [intros a r p0 E; discriminate|]. cbn [lex_string].
  destruct l as [|c l]; [apply fw_err|].
  destruct (c =? c_dquote); [apply fw_ok, adv_forward|].
  destruct (c =? c_backslash).
  - destruct l as [|ec l']; [apply fw_err|].
    repeat match goal with |- fw _ (if ?b then _ else _) => destruct b end;
      try apply fw_err;
      (eapply fw_from; [|apply IH]; eapply pos_le_trans; [apply adv_forward|apply adv_forward]).
  - eapply fw_from; [apply adv_forward|apply IH].
Qed.

Lemma fw_sub : forall q (x : res (token * list char * pos)) (o : option (token * pos)) r p,
  fw q x -> (do y <- x ;; let '(t, r', p') := y in Ok (Some (t, p'), r', p')) = Ok (o, r, p) ->
  pos_le q p /\ forall t tp, o = Some (t, tp) -> tp = p.
Proof.
  intros q [[[t r0] p0]|k l|s|] o r p H E; cbn in E; try discriminate. injection E as <- <- <-.
  split; [exact (H t r0 p0 eq_refl)|]. intros t0 tp E. now injection E as _ <-.
Qed.

(** the cursor after a token is at or after the cursor before it, and it is the token's location *)
Theorem lex_next_forward : forall fuel l p o r p',
  lex_next fuel l p = Ok (o, r, p') -> pos_le p p' /\ forall t tp, o = Some (t, tp) -> tp = p'.
Proof.
  induction fuel as [|f IH]; intros l p o r p' H; [discriminate|]. rewrite lex_next_S in H.
  destruct l as [|c l0]; [injection H as <- <- <-; split; [apply pos_le_refl|intros t tp E; discriminate]|].
  cbv zeta in H.
  destruct (is_ws c).
  { destruct (take_while is_ws l0 (adv c p)) as [[a r'] p1] eqn:ET. apply take_while_pos in ET.
    destruct (IH _ _ _ _ _ H) as [L T]. split; [|exact T].
    eapply pos_le_trans; [apply adv_forward|]. eapply pos_le_trans; [exact ET|exact L]. }
  destruct (c =? c_semi).
  { destruct (take_while not_eol l0 (adv c p)) as [[a r'] p1] eqn:ET. apply take_while_pos in ET.
    destruct (IH _ _ _ _ _ H) as [L T]. split; [|exact T].
    eapply pos_le_trans; [apply adv_forward|]. eapply pos_le_trans; [exact ET|exact L]. }
  assert (A1 : pos_le p (adv c p)) by apply adv_forward.
  repeat match type of H with
         | (if ?b then _ else _) = _ => destruct b
         | match ?x with _ => _ end = _ => destruct x eqn:?
         end;
    try discriminate;
    try (unfold lerr in H; discriminate);
    try (injection H as <- <- <-; split;
         [ repeat first [ exact A1 | apply pos_le_refl | (eapply pos_le_trans; [exact A1|]) | apply adv_forward
                        | (eapply pos_le_trans; [apply adv_forward|]) ]
         | intros t0 tp E; first [discriminate | now injection E as _ <-] ]; fail);
    try (match type of H with
         | (do y <- ?x ;; _) = _ =>
             let K := fresh in
             assert (K : fw (adv c p) x) by
               first [ apply fw_lex_peculiar | apply fw_lex_number | apply fw_lex_normal_ident
                     | apply fw_lex_quoted_ident | apply fw_lex_string ];
             destruct (fw_sub _ _ _ _ _ K H) as [L T]; split; [eapply pos_le_trans; [exact A1|exact L]|exact T]
         end).
Qed.

Local Close Scope N_scope.

(** ** the reader *)
Definition between (p q : pos) (l : loc) : Prop :=
  match l with None => True | Some x => pos_le p x /\ pos_le x q end.

Lemma between_weaken : forall p q q' l, pos_le q q' -> between p q l -> between p q' l.
Proof. intros p q q' [x|] L H; [|exact I]. destruct H as [A B]. split; [exact A|eapply pos_le_trans; eassumption]. Qed.

(** every location written in the datum satisfies [P] *)
Fixpoint din (P : loc -> Prop) (d : datum) : Prop :=
  match d with
  | DPrim _ l | DSym _ l | DNil l => P l
  | DCons a b l => P l /\ din P a /\ din P b
  | DVec v l => P l /\ (fix go (v : list datum) : Prop := match v with [] => True | x :: r => din P x /\ go r end) v
  end.
Definition dins (P : loc -> Prop) (v : list datum) : Prop :=
  (fix go (v : list datum) : Prop := match v with [] => True | x :: r => din P x /\ go r end) v.

Lemma din_vec : forall (P : loc -> Prop) v l, din P (DVec v l) <-> P l /\ dins P v.
Proof. reflexivity. Qed.

Section DatumInd.
  Variable P : datum -> Prop.
  Hypothesis H_prim : forall p l, P (DPrim p l).
  Hypothesis H_sym : forall s l, P (DSym s l).
  Hypothesis H_nil : forall l, P (DNil l).
  Hypothesis H_cons : forall a b l, P a -> P b -> P (DCons a b l).
  Hypothesis H_vec : forall v l, Forall P v -> P (DVec v l).
  Fixpoint datum_ind2 (d : datum) : P d :=
    match d with
    | DPrim p l => H_prim p l
    | DSym s l => H_sym s l
    | DNil l => H_nil l
    | DCons a b l => H_cons a b l (datum_ind2 a) (datum_ind2 b)
    | DVec v l => H_vec v l ((fix go (v : list datum) : Forall P v :=
                                match v with [] => Forall_nil _ | x :: r => Forall_cons x (datum_ind2 x) (go r) end) v)
    end.
End DatumInd.

Lemma din_impl : forall (P Q : loc -> Prop) d, (forall l, P l -> Q l) -> din P d -> din Q d.
Proof.
  intros P Q d H. induction d as [p l|s l|l|a b l IHa IHb|v l IHv] using datum_ind2; cbn [din].
  - apply H.
  - apply H.
  - apply H.
  - intros [A [B C]]. split; [now apply H|]. split; [now apply IHa|now apply IHb].
  - intros [A B]. split; [now apply H|]. clear A. induction IHv as [|x r Hx Hr IHr]; [exact I|].
    destruct B as [B1 B2]. split; [now apply Hx|now apply IHr].
Qed.

Lemma dins_impl : forall (P Q : loc -> Prop) v, (forall l, P l -> Q l) -> dins P v -> dins Q v.
Proof.
  intros P Q v H. induction v as [|x r IH]; [auto|]. intros [A B]. split; [eapply din_impl; eassumption|now apply IH].
Qed.

Lemma dins_app : forall (P : loc -> Prop) a b, dins P (a ++ b) <-> dins P a /\ dins P b.
Proof.
  intros P a b. induction a as [|x r IH]; cbn.
  - split; [intros H; split; [exact I|exact H]|intros [_ H]; exact H].
  - unfold dins in IH. rewrite IH. split; [intros [A [B C]]; repeat split; assumption|intros [[A B] C]; repeat split; assumption].
Qed.

Lemma dins_rev : forall (P : loc -> Prop) v, dins P v -> dins P (rev v).
Proof. intros P v. induction v as [|x r IH]; [auto|]. intros [A B]. cbn [rev]. apply dins_app. split; [now apply IH|split; [exact A|exact I]]. Qed.

Lemma din_build_cdr : forall (P : loc -> Prop) els tail, P None -> dins P els -> (forall t, tail = Some t -> din P t) -> din P (build_cdr els tail).
Proof.
  intros P els tail HN. induction els as [|x r IH]; intros He Ht; cbn [build_cdr].
  - destruct tail as [t|]; [now apply Ht|exact HN].
  - destruct He as [A B]. cbn [din]. split; [exact HN|]. split; [exact A|now apply IH].
Qed.

Lemma din_build_list : forall (P : loc -> Prop) els tail l, P None -> P l -> dins P els -> (forall t, tail = Some t -> din P t) ->
  din P (build_list els tail l).
Proof.
  intros P els tail l HN Hl He Ht. unfold build_list. destruct els as [|x r]; [exact Hl|].
  destruct He as [A B]. cbn [din]. split; [exact Hl|]. split; [exact A|now apply din_build_cdr].
Qed.

(** a reader state all of whose locations lie between [p] and its cursor *)
Definition sok (p : pos) (s : pst) : Prop :=
  pos_le p (lpos s) /\ between p (lpos s) (ploc s) /\ (forall t tl, pcur s = Some (t, tl) -> between p (lpos s) (Some tl)).

Lemma p_advance_sok : forall p s s1, p_advance s = Ok s1 -> pos_le p (lpos s) -> sok p s1 /\ pos_le (lpos s) (lpos s1).
Proof.
  intros p s s1 H Hp. unfold p_advance in H.
  destruct (lex_next (lex_fuel (lrest s)) (lrest s) (lpos s)) as [[[o r] q]|k l|x|] eqn:E; cbn in H; try discriminate.
  injection H as <-. destruct (lex_next_forward _ _ _ _ _ _ E) as [L T]. cbn [lpos ploc pcur].
  assert (Hq : pos_le p q) by (eapply pos_le_trans; eassumption).
  split; [|exact L]. split; [exact Hq|]. split.
  - destruct o as [[t tl]|]; [|exact I]. rewrite (T t tl eq_refl). split; [exact Hq|apply pos_le_refl].
  - intros t tl E1. rewrite (T t tl E1). split; [exact Hq|apply pos_le_refl].
Qed.

Lemma p_unwrap_sok : forall p s t tl s1, p_advance_unwrap s = Ok (t, tl, s1) -> pos_le p (lpos s) ->
  sok p s1 /\ pos_le (lpos s) (lpos s1) /\ between p (lpos s1) (Some tl).
Proof.
  intros p s t tl s1 H Hp. unfold p_advance_unwrap in H.
  destruct (p_advance s) as [s'|k l|x|] eqn:E; cbn in H; try discriminate.
  destruct (pcur s') as [[t0 tl0]|] eqn:EC; [|unfold lerr in H; discriminate]. injection H as <- <- <-.
  destruct (p_advance_sok p s s' E Hp) as [S L]. split; [exact S|]. split; [exact L|]. destruct S as [_ [_ C]]. now apply (C t0 tl0).
Qed.

Lemma take_cur_sok : forall p s, sok p s -> sok p (take_cur s).
Proof. intros p s [A [B C]]. split; [exact A|]. split; [exact B|]. intros t tl E. discriminate. Qed.

Definition good_d (p : pos) (s : pst) (x : res (datum * pst)) : Prop :=
  forall d s', x = Ok (d, s') -> sok p s' /\ pos_le (lpos s) (lpos s') /\ din (between p (lpos s')) d.
Definition good_o (p : pos) (s : pst) (x : res (option datum * pst)) : Prop :=
  forall o s', x = Ok (o, s') -> sok p s' /\ pos_le (lpos s) (lpos s') /\ forall d, o = Some d -> din (between p (lpos s')) d.

Record ext_claims (f : nat) : Prop := {
  e_current : forall p s, sok p s -> good_o p s (read_current f s);
  e_quoted : forall p s, sok p s -> good_d p s (read_quoted f s);
  e_datum : forall p s, sok p s -> good_d p s (read_datum f s);
  e_list : forall p s ll els period, sok p s -> between p (lpos s) ll -> dins (between p (lpos s)) els ->
      good_d p s (read_list f s ll els period);
  e_vec : forall p s els, sok p s -> dins (between p (lpos s)) els ->
      forall v s', read_vec f s els = Ok (v, s') -> sok p s' /\ pos_le (lpos s) (lpos s') /\ dins (between p (lpos s')) v
}.

Lemma ext_0 : ext_claims 0.
Proof. split; intros; first [intros ? ? E; cbn in E; discriminate | cbn in *; discriminate]. Qed.

Lemma sok_le : forall p s, sok p s -> pos_le p (lpos s).
Proof. intros p s [A _]. exact A. Qed.

Lemma between_none : forall p q, between p q None.
Proof. intros. exact I. Qed.

Lemma ext_step : forall f, ext_claims f -> ext_claims (S f).
Proof.
  intros f IH. split.
  - (* read_current *)
    intros p s Hs o s' H. cbn [read_current] in H.
    destruct (pcur s) as [[t tl]|] eqn:EC.
    2:{ injection H as <- <-. split; [exact Hs|]. split; [apply pos_le_refl|intros d E; discriminate]. }
    pose proof (take_cur_sok p s Hs) as Hs0.
    assert (Htl : between p (lpos s) (Some tl)) by (destruct Hs as [_ [_ C]]; now apply (C t tl)).
    destruct t; try (unfold lerr in H; discriminate).
    + (* identifier *) injection H as <- <-. split; [exact Hs0|]. split; [apply pos_le_refl|]. intros d E. injection E as <-. exact Htl.
    + (* primitive *) injection H as <- <-. split; [exact Hs0|]. split; [apply pos_le_refl|]. intros d E. injection E as <-. exact Htl.
    + (* ( *)
      apply bind_Ok_inv in H. destruct H as [[d s1] [Hl H]]. injection H as <- <-.
      destruct (e_list f IH p (take_cur s) (ploc (take_cur s)) [] false Hs0 ltac:(apply Hs0) I d s1 Hl) as [A [B C]].
      split; [exact A|]. split; [exact B|]. intros d0 E. injection E as <-. exact C.
    + (* #( *)
      apply bind_Ok_inv in H. destruct H as [[v s1] [Hv H]]. injection H as <- <-.
      destruct (e_vec f IH p (take_cur s) [] Hs0 I v s1 Hv) as [A [B C]].
      split; [exact A|]. split; [exact B|]. intros d0 E. injection E as <-. apply din_vec. split; [apply A|exact C].
    + (* quote *)
      apply bind_Ok_inv in H. destruct H as [s1 [Ha H]]. apply bind_Ok_inv in H. destruct H as [[d s2] [Hq H]]. injection H as <- <-.
      destruct (p_advance_sok p (take_cur s) s1 Ha (sok_le _ _ Hs0)) as [S1 L1].
      destruct (e_quoted f IH p s1 S1 d s2 Hq) as [A [B C]].
      split; [exact A|]. split; [eapply pos_le_trans; [exact L1|exact B]|]. intros d0 E. injection E as <-. exact C.
  - (* read_quoted *)
    intros p s Hs d s' H. cbn [read_quoted] in H.
    apply bind_Ok_inv in H. destruct H as [[inner s1] [Hd H]]. injection H as <- <-.
    destruct (e_datum f IH p s Hs inner s1 Hd) as [A [B C]].
    split; [exact A|]. split; [exact B|].
    assert (Q : between p (lpos s1) (ploc s)) by (eapply between_weaken; [exact B|apply Hs]).
    unfold quote_form. cbn [din]. repeat split; auto.
  - (* read_datum *)
    intros p s Hs d s' H. cbn [read_datum] in H.
    destruct (pcur s) as [[t tl]|] eqn:EC; [|unfold lerr in H; discriminate].
    assert (Q : between p (lpos s) (ploc s)) by apply Hs.
    destruct t; try (unfold lerr in H; discriminate).
    + injection H as <- <-. split; [exact Hs|]. split; [apply pos_le_refl|exact Q].
    + injection H as <- <-. split; [exact Hs|]. split; [apply pos_le_refl|exact Q].
    + exact (e_list f IH p s (ploc s) [] false Hs Q I d s' H).
    + apply bind_Ok_inv in H. destruct H as [[v s1] [Hv H]]. injection H as <- <-.
      destruct (e_vec f IH p s [] Hs I v s1 Hv) as [A [B C]].
      split; [exact A|]. split; [exact B|]. apply din_vec. split; [eapply between_weaken; [exact B|exact Q]|exact C].
    + apply bind_Ok_inv in H. destruct H as [s1 [Ha H]].
      destruct (p_advance_sok p s s1 Ha (sok_le _ _ Hs)) as [S1 L1].
      destruct (e_quoted f IH p s1 S1 d s' H) as [A [B C]].
      split; [exact A|]. split; [eapply pos_le_trans; [exact L1|exact B]|exact C].
  - (* read_list *)
    intros p s ll els period Hs Hll Hels d s' H. cbn [read_list] in H.
    apply bind_Ok_inv in H. destruct H as [[[t tl] s1] [Hu H]].
    destruct (p_unwrap_sok p s t tl s1 Hu (sok_le _ _ Hs)) as [S1 [L1 T1]].
    assert (Hll1 : between p (lpos s1) ll) by (eapply between_weaken; [exact L1|exact Hll]).
    assert (Hels1 : dins (between p (lpos s1)) els).
    { eapply dins_impl; [|exact Hels]. intros l0. now apply between_weaken. }
    assert (ELEM : forall s2 (element : datum) els2 per2, sok p s2 -> pos_le (lpos s1) (lpos s2) ->
               dins (between p (lpos s2)) els2 ->
               read_list f s2 ll els2 per2 = Ok (d, s') ->
               sok p s' /\ pos_le (lpos s) (lpos s') /\ din (between p (lpos s')) d).
    { intros s2 element els2 per2 S2 L2 He2 E.
      assert (Hll2 : between p (lpos s2) ll) by (eapply between_weaken; [exact L2|exact Hll1]).
      destruct (e_list f IH p s2 ll els2 per2 S2 Hll2 He2 d s' E) as [A [B C]].
      split; [exact A|]. split; [|exact C]. eapply pos_le_trans; [exact L1|]. eapply pos_le_trans; [exact L2|exact B]. }
    assert (OTHER : (do y <- read_current f s1 ;;
          let '(o, s2) := y in
          match o with
          | None => err UnexpectedEnd
          | Some element =>
              match els with
              | [] => read_list f s2 ll [element] period
              | _ :: _ =>
                  if period then
                    do z <- p_advance_unwrap s2 ;;
                    let '(t2, _, s3) := z in
                    if token_eqb t2 TRParen
                    then Ok (build_list (rev els) (Some element) ll, s3)
                    else lerr TokenMisMatch (ploc s3)
                  else read_list f s2 ll (element :: els) period
              end
          end) = Ok (d, s') -> sok p s' /\ pos_le (lpos s) (lpos s') /\ din (between p (lpos s')) d).
    { intros E. apply bind_Ok_inv in E. destruct E as [[o s2] [Hc E]].
      destruct (e_current f IH p s1 S1 o s2 Hc) as [S2 [L2 D2]].
      destruct o as [element|]; [|discriminate]. specialize (D2 element eq_refl).
      assert (Hels2 : dins (between p (lpos s2)) els).
      { eapply dins_impl; [|exact Hels1]. intros l0. now apply between_weaken. }
      destruct els as [|e0 er].
      - eapply (ELEM s2 element [element] period S2 L2); [split; [exact D2|exact I]|exact E].
      - destruct period.
        + apply bind_Ok_inv in E. destruct E as [[[t2 tl2] s3] [Hu2 E]].
          destruct (p_unwrap_sok p s2 t2 tl2 s3 Hu2 (sok_le _ _ S2)) as [S3 [L3 _]].
          destruct (token_eqb t2 TRParen); [|unfold lerr in E; discriminate]. injection E as <- <-.
          split; [exact S3|]. split; [eapply pos_le_trans; [exact L1|]; eapply pos_le_trans; [exact L2|exact L3]|].
          apply din_build_list; [exact I| | |].
          * eapply between_weaken; [exact L3|]. eapply between_weaken; [exact L2|exact Hll1].
          * change (rev er ++ [e0]) with (rev (e0 :: er)). apply dins_rev. eapply dins_impl; [|exact Hels2]. intros l0. now apply between_weaken.
          * intros t0 E0. injection E0 as <-. eapply din_impl; [|exact D2]. intros l0. now apply between_weaken.
        + eapply (ELEM s2 element (element :: e0 :: er) false S2 L2); [split; [exact D2|exact Hels2]|exact E]. }
    destruct t; try (apply OTHER; exact H).
    + (* ) *) injection H as <- <-. split; [exact S1|]. split; [exact L1|].
      apply din_build_list; [exact I|exact Hll1|now apply dins_rev|intros t0 E0; discriminate].
    + (* . *) destruct period; [unfold lerr in H; discriminate|].
      destruct (e_list f IH p s1 ll els true S1 Hll1 Hels1 d s' H) as [A [B C]].
      split; [exact A|]. split; [eapply pos_le_trans; [exact L1|exact B]|exact C].
  - (* read_vec *)
    intros p s els Hs Hels v s' H. cbn [read_vec] in H.
    apply bind_Ok_inv in H. destruct H as [o [Hp H]].
    destruct o as [t|]; [|unfold lerr in H; discriminate].
    assert (STEP : (do s1 <- p_advance s ;; do x <- read_datum f s1 ;; let '(d, s2) := x in read_vec f s2 (d :: els)) = Ok (v, s') ->
              sok p s' /\ pos_le (lpos s) (lpos s') /\ dins (between p (lpos s')) v).
    { intros E. apply bind_Ok_inv in E. destruct E as [s1 [Ha E]]. apply bind_Ok_inv in E. destruct E as [[d s2] [Hd E]].
      destruct (p_advance_sok p s s1 Ha (sok_le _ _ Hs)) as [S1 L1].
      destruct (e_datum f IH p s1 S1 d s2 Hd) as [S2 [L2 D2]].
      assert (He2 : dins (between p (lpos s2)) (d :: els)).
      { split; [exact D2|]. eapply dins_impl; [|exact Hels]. intros l0. apply between_weaken. eapply pos_le_trans; eassumption. }
      destruct (e_vec f IH p s2 (d :: els) S2 He2 v s' E) as [A [B C]].
      split; [exact A|]. split; [|exact C]. eapply pos_le_trans; [exact L1|]. eapply pos_le_trans; [exact L2|exact B]. }
    destruct t; try (apply STEP; exact H).
    apply bind_Ok_inv in H. destruct H as [s1 [Ha H]]. injection H as <- <-.
    destruct (p_advance_sok p s s1 Ha (sok_le _ _ Hs)) as [S1 L1].
    split; [exact S1|]. split; [exact L1|]. apply dins_rev. eapply dins_impl; [|exact Hels]. intros l0. now apply between_weaken.
Qed.

Theorem ext_all : forall f, ext_claims f.
Proof. induction f; [exact ext_0|now apply ext_step]. Qed.

(** the statement for users: a form read from a text with the cursor at [lpos s] carries, at every node, no location
    or a location between that position and the cursor after the form *)
Theorem locations_of_a_form_lie_in_its_text : forall s d s',
  read_next s = Ok (Some d, s') ->
  pos_le (lpos s) (lpos s') /\ din (between (lpos s) (lpos s')) d.
Proof.
  intros s d s' H. unfold read_next in H. apply bind_Ok_inv in H. destruct H as [s1 [Ha H]].
  destruct (p_advance_sok (lpos s) s s1 Ha (pos_le_refl _)) as [S1 L1].
  destruct (e_current _ (ext_all _) (lpos s) s1 S1 (Some d) s' H) as [A [B C]].
  split; [eapply pos_le_trans; eassumption|]. now apply C.
Qed.
