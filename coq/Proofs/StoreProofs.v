(** Facts about the store (frames and vectors): what each primitive operation changes and what
    it must not change. Used by C03 (locality, sharing), C08 (states only grow), C13. *)
From Coq Require Import ZArith NArith List Bool Lia.
From RV Require Import Model.Common Model.Real32 Model.Num Model.Datum Model.Macro Model.Ast
  Model.Value Model.Print Model.Builtins Model.Eval Proofs.Basics.
Import ListNotations.

Definition grows (st st' : state) : Prop :=
  length (frames st) <= length (frames st') /\ length (vectors st) <= length (vectors st').

Lemma grows_refl : forall st, grows st st.
Proof. intros; split; lia. Qed.
Lemma grows_trans : forall a b c, grows a b -> grows b c -> grows a c.
Proof. unfold grows; intros; lia. Qed.

Lemma env_define_lengths : forall st a x v,
  length (frames (env_define st a x v)) = length (frames st) /\
  vectors (env_define st a x v) = vectors st /\ out (env_define st a x v) = out st /\
  ticks (env_define st a x v) = ticks st.
Proof.
  intros. unfold env_define. destruct (nth_error (frames st) a); cbn; auto.
  rewrite list_update_length. auto.
Qed.

Lemma env_define_grows : forall st a x v, grows st (env_define st a x v).
Proof.
  intros. destruct (env_define_lengths st a x v) as [H1 [H2 _]]. unfold grows. rewrite H1, H2. lia.
Qed.

Lemma env_set_grows : forall st a x v st', env_set st a x v = Some st' -> grows st st'.
Proof.
  intros st a x v st' H. unfold env_set in H. destruct (defining_frame st a x); [|discriminate].
  injection H as <-. apply env_define_grows.
Qed.

Lemma alloc_frame_grows : forall st p, grows st (snd (alloc_frame st p)).
Proof. intros. unfold alloc_frame, grows. cbn. rewrite app_length. cbn. lia. Qed.

Lemma alloc_vector_grows : forall st c, grows st (snd (alloc_vector st c)).
Proof. intros. unfold alloc_vector, grows. cbn. rewrite app_length. cbn. lia. Qed.

Lemma bind_fixed_grows : forall names st env args rest st',
  bind_fixed st env names args = Ok (rest, st') -> grows st st'.
Proof.
  induction names as [|x xs IH]; intros st env args rest st' H; cbn in H.
  - injection H as <- <-. apply grows_refl.
  - destruct args as [|v vs]; [discriminate|].
    eapply grows_trans; [apply env_define_grows|]. eapply IH; eassumption.
Qed.

(** a structural induction principle for data (vectors nest lists of data) *)
Section DatumInd.
  Variable P : datum -> Prop.
  Hypothesis Hprim : forall p l, P (DPrim p l).
  Hypothesis Hsym : forall s l, P (DSym s l).
  Hypothesis Hnil : forall l, P (DNil l).
  Hypothesis Hcons : forall a b l, P a -> P b -> P (DCons a b l).
  Hypothesis Hvec : forall v l, Forall P v -> P (DVec v l).
  Fixpoint datum_rect' (d : datum) : P d :=
    match d with
    | DPrim p l => Hprim p l
    | DSym s l => Hsym s l
    | DNil l => Hnil l
    | DCons a b l => Hcons a b l (datum_rect' a) (datum_rect' b)
    | DVec v l => Hvec v l ((fix go (v : list datum) : Forall P v :=
                               match v with
                               | [] => Forall_nil P
                               | x :: r => Forall_cons x (datum_rect' x) (go r)
                               end) v)
    end.
End DatumInd.

Lemma read_literal_grows : forall d st r st', read_literal d st = (r, st') ->
  frames st' = frames st /\ length (vectors st) <= length (vectors st') /\
  out st' = out st /\ ticks st' = ticks st.
Proof.
  induction d as [p l|s l|l|a b l IHa IHb|v l IHv] using datum_rect'; intros st r st' H; cbn in H.
  - injection H as <- <-. auto.
  - injection H as <- <-. auto.
  - injection H as <- <-. auto.
  - destruct (read_literal a st) as [ra st1] eqn:Ea. specialize (IHa _ _ _ Ea).
    destruct ra as [va|k ll|s|]; cbn in H; try (injection H as <- <-; exact IHa).
    destruct (read_literal b st1) as [rb st2] eqn:Eb. specialize (IHb _ _ _ Eb).
    destruct IHa as [A1 [A2 [A3 A4]]]. destruct IHb as [B1 [B2 [B3 B4]]].
    destruct rb as [vb|k ll|s|]; cbn in H; injection H as <- <-; repeat split; try congruence; lia.
  - match type of H with
    | ebind (?elems v st) _ = _ =>
        assert (G : forall v, Forall (fun d => forall st r st', read_literal d st = (r, st') ->
                     frames st' = frames st /\ length (vectors st) <= length (vectors st') /\
                     out st' = out st /\ ticks st' = ticks st) v ->
                   forall st r st', elems v st = (r, st') ->
                     frames st' = frames st /\ length (vectors st) <= length (vectors st') /\
                     out st' = out st /\ ticks st' = ticks st)
    end.
    { clear. induction v as [|x xs IH]; intros HF st r st' H.
      - injection H as <- <-. auto.
      - inversion HF as [|? ? Hx Hxs]; subst. simpl in H.
        destruct (read_literal x st) as [rx st1] eqn:Ex. specialize (Hx _ _ _ Ex).
        destruct rx as [vx|k ll|s|]; cbn in H; try (injection H as <- <-; exact Hx).
        match type of H with ebind (?e xs st1) _ = _ => destruct (e xs st1) as [rr st2] eqn:Er end.
        specialize (IH Hxs _ _ _ Er).
        destruct Hx as [A1 [A2 [A3 A4]]]. destruct IH as [B1 [B2 [B3 B4]]].
        destruct rr as [vr|k ll|s|]; cbn in H; injection H as <- <-; repeat split; try congruence; lia. }
    match type of H with ebind (?elems v st) _ = _ => destruct (elems v st) as [rc st1] eqn:Ec end.
    specialize (G v IHv _ _ _ Ec). destruct G as [A1 [A2 [A3 A4]]].
    destruct rc as [cells|k ll|s|]; cbn in H; try (injection H as <- <-; auto).
    cbn. rewrite app_length. cbn. repeat split; try assumption. lia.
Qed.

(** what a primitive procedure can do to the store: it never touches a frame; it may append
    a vector, or change cells of existing vectors ([vector-set!]) without changing their number *)
Lemma builtin_call_frames : forall name args st r st', builtin_call name args st = (r, st') ->
  frames st' = frames st /\ length (vectors st) <= length (vectors st').
Proof.
  intros name args st r st' H. unfold builtin_call in H.
  repeat match type of H with
  | (if ?b then _ else _) = _ => destruct b
  end;
  try (injection H as <- <-; split; [reflexivity|lia]).
  all: repeat match type of H with
  | (let '(_, _) := ?x in _) = _ => destruct x eqn:?
  | match ?x with _ => _ end = _ => destruct x eqn:?
  end; try (injection H as <- <-); try (split; [reflexivity|lia]); try discriminate.
  all: try match goal with
  | E : alloc_vector ?s ?c = (_, ?s') |- _ =>
      unfold alloc_vector in E; injection E as <- <-; cbn; rewrite app_length; cbn; split; [reflexivity|lia]
  end.
  all: cbn; try rewrite list_update_length; try (split; [reflexivity|lia]).
Qed.
