(** Facts about the store (frames and vectors): what each primitive operation changes and what
    it must not change. Used by C03 (locality, sharing), C08 (states only grow), C13. *)
From Coq Require Import ZArith NArith List Bool Lia.
From RV Require Import Model.Common Model.Real32 Model.Num Model.Datum Model.Macro Model.Ast
  Model.Value Model.Print Model.Builtins Model.Eval Proofs.Basics.
Import ListNotations.

Definition grows (st st' : state) : Prop :=
  length (frames st) <= length (frames st') /\ length (vectors st) <= length (vectors st').

Lemma grows_refl : forall st, grows st st.
Proof. intros; split; lia. Qed.
Lemma grows_trans : forall a b c, grows a b -> grows b c -> grows a c.
Proof. unfold grows; intros; lia. Qed.

Lemma env_define_lengths : forall st a x v,
  length (frames (env_define st a x v)) = length (frames st) /\
  vectors (env_define st a x v) = vectors st /\ out (env_define st a x v) = out st /\
  ticks (env_define st a x v) = ticks st.
Proof.
  intros. unfold env_define. destruct (nth_error (frames st) a); cbn; auto.
  rewrite list_update_length. auto.
Qed.

Lemma env_define_grows : forall st a x v, grows st (env_define st a x v).
Proof.
  intros. destruct (env_define_lengths st a x v) as [H1 [H2 _]]. unfold grows. rewrite H1, H2. lia.
Qed.

Lemma env_set_grows : forall st a x v st', env_set st a x v = Some st' -> grows st st'.
Proof.
  intros st a x v st' H. unfold env_set in H. destruct (defining_frame st a x); [|discriminate].
  injection H as <-. apply env_define_grows.
Qed.

Lemma alloc_frame_grows : forall st p, grows st (snd (alloc_frame st p)).
Proof. intros. unfold alloc_frame, grows. cbn. rewrite app_length. cbn. lia. Qed.

Lemma alloc_vector_grows : forall st c, grows st (snd (alloc_vector st c)).
Proof. intros. unfold alloc_vector, grows. cbn. rewrite app_length. cbn. lia. Qed.

Lemma bind_fixed_grows : forall names st env args rest st',
  bind_fixed st env names args = Ok (rest, st') -> grows st st'.
Proof.
  induction names as [|x xs IH]; intros st env args rest st' H; cbn in H.
  - injection H as <- <-. apply grows_refl.
  - destruct args as [|v vs]; [discriminate|].
    eapply grows_trans; [apply env_define_grows|]. eapply IH; eassumption.
Qed.

(** a structural induction principle for data (vectors nest lists of data) *)
Section DatumInd.
  Variable P : datum -> Prop.
  Hypothesis Hprim : forall p l, P (DPrim p l).
  Hypothesis Hsym : forall s l, P (DSym s l).
  Hypothesis Hnil : forall l, P (DNil l).
  Hypothesis Hcons : forall a b l, P a -> P b -> P (DCons a b l).
  Hypothesis Hvec : forall v l, Forall P v -> P (DVec v l).
  Fixpoint datum_rect' (d : datum) : P d :=
    match d with
    | DPrim p l => Hprim p l
    | DSym s l => Hsym s l
    | DNil l => Hnil l
    | DCons a b l => Hcons a b l (datum_rect' a) (datum_rect' b)
    | DVec v l => Hvec v l ((fix go (v : list datum) : Forall P v :=
                               match v with
                               | [] => Forall_nil P
                               | x :: r => Forall_cons x (datum_rect' x) (go r)
                               end) v)
    end.
End DatumInd.

Lemma read_literal_grows : forall d st r st', read_literal d st = (r, st') ->
  frames st' = frames st /\ length (vectors st) <= length (vectors st') /\
  out st' = out st /\ ticks st' = ticks st.
Proof.
  induction d as [p l|s l|l|a b l IHa IHb|v l IHv] using datum_rect'; intros st r st' H; cbn in H.
  - injection H as <- <-. auto.
  - injection H as <- <-. auto.
  - injection H as <- <-. auto.
  - destruct (read_literal a st) as [ra st1] eqn:Ea. specialize (IHa _ _ _ Ea).
    destruct ra as [va|k ll|s|]; cbn in H; try (injection H as <- <-; exact IHa).
    destruct (read_literal b st1) as [rb st2] eqn:Eb. specialize (IHb _ _ _ Eb).
    destruct IHa as [A1 [A2 [A3 A4]]]. destruct IHb as [B1 [B2 [B3 B4]]].
    destruct rb as [vb|k ll|s|]; cbn in H; injection H as <- <-; repeat split; try congruence; lia.
  - match type of H with
    | ebind (?elems v st) _ = _ =>
        assert (G : forall v, Forall (fun d => forall st r st', read_literal d st = (r, st') ->
                     frames st' = frames st /\ length (vectors st) <= length (vectors st') /\
                     out st' = out st /\ ticks st' = ticks st) v ->
                   forall st r st', elems v st = (r, st') ->
                     frames st' = frames st /\ length (vectors st) <= length (vectors st') /\
                     out st' = out st /\ ticks st' = ticks st)
    end.
    { clear. induction v as [|x xs IH]; intros HF st r st' H.
      - injection H as <- <-. auto.
      - inversion HF as [|? ? Hx Hxs]; subst. simpl in H.
        destruct (read_literal x st) as [rx st1] eqn:Ex. specialize (Hx _ _ _ Ex).
        destruct rx as [vx|k ll|s|]; cbn in H; try (injection H as <- <-; exact Hx).
        match type of H with ebind (?e xs st1) _ = _ => destruct (e xs st1) as [rr st2] eqn:Er end.
        specialize (IH Hxs _ _ _ Er).
        destruct Hx as [A1 [A2 [A3 A4]]]. destruct IH as [B1 [B2 [B3 B4]]].
        destruct rr as [vr|k ll|s|]; cbn in H; injection H as <- <-; repeat split; try congruence; lia. }
    match type of H with ebind (?elems v st) _ = _ => destruct (elems v st) as [rc st1] eqn:Ec end.
    specialize (G v IHv _ _ _ Ec). destruct G as [A1 [A2 [A3 A4]]].
    destruct rc as [cells|k ll|s|]; cbn in H; try (injection H as <- <-; auto).
    cbn. rewrite app_length. cbn. repeat split; try assumption. lia.
Qed.

(** what a primitive procedure can do to the store: it never touches a frame; it may append
    a vector, or change cells of existing vectors ([vector-set!]) without changing their number *)
Lemma builtin_call_frames : forall name args st r st', builtin_call name args st = (r, st') ->
  frames st' = frames st /\ length (vectors st) <= length (vectors st').
Proof.
  intros name args st r st' H. unfold builtin_call in H.
  repeat match type of H with
  | (if ?b then _ else _) = _ => destruct b
  end;
  try (injection H as <- <-; split; [reflexivity|lia]).
  all: repeat match type of H with
  | (let '(_, _) := ?x in _) = _ => destruct x eqn:?
  | match ?x with _ => _ end = _ => destruct x eqn:?
  end; try (injection H as <- <-); try (split; [reflexivity|lia]); try discriminate.
  all: try match goal with
  | E : alloc_vector ?s ?c = (_, ?s') |- _ =>
      unfold alloc_vector in E; injection E as <- <-; cbn; rewrite app_length; cbn; split; [reflexivity|lia]
  end.
  all: cbn; try rewrite list_update_length; try (split; [reflexivity|lia]).
Qed.

(** ** C03: bindings *)

Definition local_get (st : state) (a : nat) (x : str) : option value :=
  match nth_error (frames st) a with
  | Some fr => alist_get (f_defs fr) x
  | None => None
  end.

Definition parent_of (st : state) (a : nat) : option (option nat) :=
  option_map f_parent (nth_error (frames st) a).

(** lookup is: find the innermost frame of the chain that binds x, read it there *)
Lemma env_get_fuel_defining : forall fuel fs a x,
  env_get_fuel fuel fs a x =
  match defining_frame_fuel fuel fs a x with
  | Some d => match nth_error fs d with Some fr => alist_get (f_defs fr) x | None => None end
  | None => None
  end.
Proof.
  induction fuel as [|f IH]; intros fs a x; cbn; [reflexivity|].
  destruct (nth_error fs a) as [fr|] eqn:E; [|reflexivity].
  destruct (alist_get (f_defs fr) x) as [v|] eqn:G.
  - rewrite E. now rewrite G.
  - destruct (f_parent fr); [apply IH|reflexivity].
Qed.

Lemma env_get_defining : forall st a x,
  env_get st a x = match defining_frame st a x with Some d => local_get st d x | None => None end.
Proof. intros. unfold env_get, defining_frame, local_get. apply env_get_fuel_defining. Qed.

Lemma defining_frame_fuel_binds : forall fuel fs a x d,
  defining_frame_fuel fuel fs a x = Some d ->
  exists fr v, nth_error fs d = Some fr /\ alist_get (f_defs fr) x = Some v.
Proof.
  induction fuel as [|f IH]; intros fs a x d H; cbn in H; [discriminate|].
  destruct (nth_error fs a) as [fr|] eqn:E; [|discriminate].
  destruct (alist_get (f_defs fr) x) as [v|] eqn:G.
  - injection H as <-. eauto.
  - destruct (f_parent fr); [eapply IH; eassumption|discriminate].
Qed.

Lemma alist_get_set_isSome : forall {A} (l : list (str * A)) x v y,
  alist_get l x <> None ->
  (alist_get (alist_set l x v) y = None <-> alist_get l y = None).
Proof.
  intros A l x v y Hx. destruct (str_eqb x y) eqn:E.
  - apply str_eqb_eq in E. subst y. rewrite alist_get_set_same. split; [discriminate|]. intro; contradiction.
  - apply str_eqb_neq in E. rewrite alist_get_set_other by assumption. tauto.
Qed.

(** assigning an existing binding changes neither the shape of any frame chain nor which
    names a frame binds *)
Lemma defining_frame_fuel_update : forall fuel fs d fr x v a y,
  nth_error fs d = Some fr -> alist_get (f_defs fr) x <> None ->
  defining_frame_fuel fuel (list_update fs d {| f_parent := f_parent fr; f_defs := alist_set (f_defs fr) x v |}) a y
  = defining_frame_fuel fuel fs a y.
Proof.
  induction fuel as [|f IH]; intros fs d fr x v a y Hd Hx; cbn; [reflexivity|].
  destruct (Nat.eq_dec d a) as [->|Hne].
  - rewrite nth_error_update_same by (apply nth_error_Some; congruence). rewrite Hd. cbn.
    destruct (alist_get (alist_set (f_defs fr) x v) y) eqn:G1; destruct (alist_get (f_defs fr) y) eqn:G2;
      try reflexivity.
    + exfalso. apply (alist_get_set_isSome (f_defs fr) x v y Hx) in G2. congruence.
    + exfalso. apply (alist_get_set_isSome (f_defs fr) x v y Hx) in G1. congruence.
    + destruct (f_parent fr) as [pp|] eqn:EP; [|reflexivity]. rewrite <- EP. now apply IH.
  - rewrite nth_error_update_other by assumption.
    destruct (nth_error fs a) as [fa|]; [|reflexivity].
    destruct (alist_get (f_defs fa) y); [reflexivity|].
    destruct (f_parent fa); [now apply IH|reflexivity].
Qed.

Theorem set_locality : forall st env x v st',
  env_set st env x v = Some st' ->
  exists d, defining_frame st env x = Some d /\
    local_get st' d x = Some v /\
    (forall b y, (b, y) <> (d, x) -> local_get st' b y = local_get st b y) /\
    (forall b, parent_of st' b = parent_of st b) /\
    (forall a y, defining_frame st' a y = defining_frame st a y) /\
    vectors st' = vectors st /\ out st' = out st /\ ticks st' = ticks st.
Proof.
  intros st env x v st' H. unfold env_set in H.
  destruct (defining_frame st env x) as [d|] eqn:ED; [|discriminate]. injection H as <-.
  exists d. split; [reflexivity|].
  destruct (defining_frame_fuel_binds _ _ _ _ _ ED) as [fr [w [Hfr Hw]]].
  assert (Hlt : d < length (frames st)) by (apply nth_error_Some; congruence).
  unfold env_define. rewrite Hfr.
  repeat split.
  - unfold local_get. cbn. rewrite nth_error_update_same by assumption. cbn. apply alist_get_set_same.
  - intros b y Hne. unfold local_get. cbn.
    destruct (Nat.eq_dec d b) as [->|Hdb].
    + rewrite nth_error_update_same by assumption. rewrite Hfr. cbn.
      apply alist_get_set_other. intro. subst. now apply Hne.
    + now rewrite nth_error_update_other.
  - intros b. unfold parent_of. cbn.
    destruct (Nat.eq_dec d b) as [->|Hdb].
    + rewrite nth_error_update_same by assumption. now rewrite Hfr.
    + now rewrite nth_error_update_other.
  - intros a y. unfold defining_frame. cbn [frames set_frames]. rewrite list_update_length.
    apply defining_frame_fuel_update; [assumption|congruence].
Qed.

(** an assignment made through one environment is seen through another exactly when both
    chains reach the same defining frame for the name *)
Theorem share_iff_same_frame : forall st e1 e2 x v st',
  env_set st e1 x v = Some st' ->
  (defining_frame st e2 x = defining_frame st e1 x -> env_get st' e2 x = Some v) /\
  (defining_frame st e2 x <> defining_frame st e1 x -> env_get st' e2 x = env_get st e2 x).
Proof.
  intros st e1 e2 x v st' H.
  destruct (set_locality _ _ _ _ _ H) as [d [Hd [Hv [Hother [_ [Hdef _]]]]]].
  rewrite !env_get_defining, Hdef, Hd. split; intro HH.
  - rewrite HH. exact Hv.
  - destruct (defining_frame st e2 x) as [d2|] eqn:E2; [|reflexivity].
    apply Hother. intro Hc. injection Hc as ->. now apply HH.
Qed.

(** other names are never affected *)
Theorem set_other_name : forall st e1 e2 x y v st',
  env_set st e1 x v = Some st' -> x <> y -> env_get st' e2 y = env_get st e2 y.
Proof.
  intros st e1 e2 x y v st' H Hne.
  destruct (set_locality _ _ _ _ _ H) as [d [Hd [Hv [Hother [_ [Hdef _]]]]]].
  rewrite !env_get_defining, Hdef. destruct (defining_frame st e2 y) as [d2|]; [|reflexivity].
  apply Hother. intro Hc. injection Hc as _ Hc. congruence.
Qed.

(** an unbound name cannot be assigned, and the failed attempt changes nothing *)
Theorem set_unbound : forall st env x v, env_set st env x v = None <-> env_get st env x = None.
Proof.
  intros. unfold env_set. rewrite env_get_defining.
  destruct (defining_frame st env x) as [d|] eqn:E.
  - split; [discriminate|]. intro H.
    destruct (defining_frame_fuel_binds _ _ _ _ _ E) as [fr [w [Hfr Hw]]].
    unfold local_get in H. rewrite Hfr, Hw in H. discriminate.
  - tauto.
Qed.

(** every procedure call binds its parameters in a frame that did not exist before *)
Theorem call_fresh_frame : forall st closure,
  nth_error (frames st) (fst (alloc_frame st (Some closure))) = None /\
  parent_of (snd (alloc_frame st (Some closure))) (fst (alloc_frame st (Some closure))) = Some (Some closure) /\
  (forall b, b < length (frames st) ->
     nth_error (frames (snd (alloc_frame st (Some closure)))) b = nth_error (frames st) b).
Proof.
  intros. unfold alloc_frame, parent_of. cbn. repeat split.
  - apply nth_error_None. lia.
  - rewrite nth_error_app2 by lia. rewrite Nat.sub_diag. reflexivity.
  - intros b Hb. now rewrite nth_error_app1.
Qed.

(** ** C03: vectors *)

Definition n_vector_set : str := s [118;101;99;116;111;114;45;115;101;116;33]%Z.
Definition n_vector_ref : str := s [118;101;99;116;111;114;45;114;101;102]%Z.
Definition n_vector : str := s [118;101;99;116;111;114]%Z.
Definition n_make_vector : str := s [109;97;107;101;45;118;101;99;116;111;114]%Z.

(** vector-set! changes exactly one cell of exactly the addressed vector, and nothing else *)
Theorem vector_set_locality : forall st m a k obj r st',
  builtin_call n_vector_set [VVec m a; VNum (NInt k); obj] st = (r, st') ->
  match nth_error (vectors st) a with
  | Some cells =>
      if negb m then r = Err RequiresMutable None /\ st' = st
      else if ((k <? 0) || (Z.of_nat (length cells) <=? k))%Z
           then r = Err VectorIndexOutOfBounds None /\ st' = st
           else r = Ok VVoid /\ frames st' = frames st /\ out st' = out st /\ ticks st' = ticks st /\
                vectors st' = list_update (vectors st) a (list_update cells (Z.to_nat k) obj)
  | None => if negb m then r = Err RequiresMutable None /\ st' = st else st' = st
  end.
Proof.
  intros st m a k obj r st' H. unfold builtin_call in H. cbn in H.
  destruct m; cbn in *.
  - destruct (nth_error (vectors st) a) as [cells|] eqn:E.
    + destruct ((k <? 0) || (Z.of_nat (length cells) <=? k))%Z; injection H as <- <-; auto 10.
    + injection H as <- <-. reflexivity.
  - destruct (nth_error (vectors st) a); injection H as <- <-; auto.
Qed.

(** a literal vector rejects mutation whatever the index and the value *)
Theorem literal_vector_immutable : forall st a k obj,
  builtin_call n_vector_set [VVec false a; VNum (NInt k); obj] st = (Err RequiresMutable None, st).
Proof. intros. reflexivity. Qed.

(** reading a cell returns the stored value itself: a vector stored in a vector, a list or a
    variable is the same object (same address) when read back *)
Theorem vector_ref_returns_stored : forall st m a k cells v,
  nth_error (vectors st) a = Some cells -> (0 <= k)%Z -> nth_error cells (Z.to_nat k) = Some v ->
  builtin_call n_vector_ref [VVec m a; VNum (NInt k)] st = (Ok v, st).
Proof.
  intros st m a k cells v H1 Hk H2. unfold builtin_call. cbn. rewrite H1.
  destruct (k <? 0)%Z eqn:E; [apply Z.ltb_lt in E; lia|]. now rewrite H2.
Qed.

(** vector and make-vector return a vector that did not exist before; existing vectors keep
    their contents *)
Theorem vector_alloc_fresh : forall st args,
  builtin_call n_vector args st =
    (Ok (VVec true (length (vectors st))), set_vectors st (vectors st ++ [args])).
Proof. intros. reflexivity. Qed.

