(** Proofs about the numeric tower model (C09, C10). *)
From Coq Require Import ZArith QArith Qround Qabs Qminmax Bool Lia Psatz.
From RV Require Import Model.Common Model.Real32 Model.Num Spec.NumSpec.
Local Open Scope Z_scope.

Lemma fits_i32_spec z : fits_i32 z = true <-> in_i32 z.
Proof. unfold fits_i32, in_i32, i32_min, i32_max. rewrite andb_true_iff, !Z.leb_le. tauto. Qed.

Lemma quot_exact a g : g <> 0 -> (g | a) -> Z.quot a g = a / g.
Proof.
  intros Hg [k ->]. rewrite Z.quot_mul, Z.div_mul by assumption. reflexivity.
Qed.

(** the sign-normalised, reduced pair computed by exact_ratio *)
Lemma exact_ratio_some n d r :
  exact_ratio n d = Some r ->
  d <> 0 /\ is_exact r = true /\ normal r /\
  (qval r == Qmake (n * Z.sgn d) (Z.to_pos (Z.abs d)))%Q.
Proof.
  unfold exact_ratio. destruct (d =? 0) eqn:Hd0; [discriminate|].
  apply Z.eqb_neq in Hd0.
  set (n1 := if d <? 0 then - n else n).
  set (d1 := if d <? 0 then - d else d).
  assert (Hd1 : 0 < d1) by (unfold d1; destruct (Z.ltb_spec d 0); lia).
  assert (Hn1 : n1 = n * Z.sgn d) by (unfold n1; destruct (Z.ltb_spec d 0); lia).
  assert (Hd1' : d1 = Z.abs d) by (unfold d1; destruct (Z.ltb_spec d 0); lia).
  set (g := Z.gcd n1 d1).
  assert (Hg : 0 < g).
  { assert (0 <= g) by apply Z.gcd_nonneg.
    assert (g <> 0) by (unfold g; intro E; apply Z.gcd_eq_0_r in E; lia). lia. }
  assert (Hgn : (g | n1)) by apply Z.gcd_divide_l.
  assert (Hgd : (g | d1)) by apply Z.gcd_divide_r.
  rewrite !quot_exact by (try lia; assumption).
  destruct Hgn as [n2 Hn2]. destruct Hgd as [d2 Hd2].
  rewrite Hn2, Hd2, !Z.div_mul by lia.
  assert (Hd2pos : 0 < d2) by nia.
  assert (Hcop : Z.gcd n2 d2 = 1).
  { assert (E : g = Z.gcd (n2 * g) (d2 * g)) by (rewrite <- Hn2, <- Hd2; reflexivity).
    rewrite Z.gcd_mul_mono_r_nonneg in E by lia. nia. }
  destruct (fits_i32 n2 && fits_i32 d2) eqn:Hfit; [|discriminate].
  apply andb_true_iff in Hfit. destruct Hfit as [Hf1 Hf2].
  apply fits_i32_spec in Hf1. apply fits_i32_spec in Hf2.
  destruct (d2 =? 1) eqn:Hone; intros E; inversion E; subst r; clear E.
  - apply Z.eqb_eq in Hone. subst d2.
    split; [assumption|]. split; [reflexivity|]. split; [exact Hf1|].
    unfold qval, Qeq, inject_Z. cbn [Qnum Qden].
    rewrite Z2Pos.id by lia. lia.
  - apply Z.eqb_neq in Hone.
    split; [assumption|]. split; [reflexivity|]. split.
    + cbn [normal]. split; [exact Hf1|]. split; [exact Hf2|]. split; [lia|exact Hcop].
    + unfold qval, Qeq. cbn [Qnum Qden].
      rewrite !Z2Pos.id by lia.
      replace (Z.sgn d2) with 1 by lia. replace (Z.abs d2) with d2 by lia. nia.
Qed.

Lemma exact_ratio_none_iff n d :
  d <> 0 ->
  (exact_ratio n d = None <->
   ~ (in_i32 (n * Z.sgn d / Z.gcd n d) /\ in_i32 (Z.abs d / Z.gcd n d))).
Proof.
  intros Hd0. unfold exact_ratio.
  destruct (d =? 0) eqn:E; [apply Z.eqb_eq in E; contradiction|]. clear E.
  set (n1 := if d <? 0 then - n else n).
  set (d1 := if d <? 0 then - d else d).
  assert (Hn1 : n1 = n * Z.sgn d) by (unfold n1; destruct (Z.ltb_spec d 0); lia).
  assert (Hd1' : d1 = Z.abs d) by (unfold d1; destruct (Z.ltb_spec d 0); lia).
  assert (Hgg : Z.gcd n1 d1 = Z.gcd n d).
  { unfold n1, d1. destruct (Z.ltb_spec d 0).
    - rewrite Z.gcd_opp_l, Z.gcd_opp_r. reflexivity.
    - reflexivity. }
  assert (Hg : 0 < Z.gcd n d).
  { assert (0 <= Z.gcd n d) by apply Z.gcd_nonneg.
    assert (Z.gcd n d <> 0) by (intro E; apply Z.gcd_eq_0_r in E; lia). lia. }
  rewrite Hgg.
  rewrite !quot_exact; try lia.
  2:{ rewrite Hd1'. apply Z.divide_abs_r. apply Z.gcd_divide_r. }
  2:{ rewrite Hn1. apply Z.divide_mul_l. apply Z.gcd_divide_l. }
  rewrite <- Hn1, <- Hd1'.
  destruct (fits_i32 (n1 / Z.gcd n d)) eqn:F1; destruct (fits_i32 (d1 / Z.gcd n d)) eqn:F2; cbn [andb].
  - apply fits_i32_spec in F1. apply fits_i32_spec in F2.
    split; [destruct (_ =? 1); discriminate | tauto].
  - split; [intros _ [_ H]; apply fits_i32_spec in H; congruence | reflexivity].
  - split; [intros _ [H _]; apply fits_i32_spec in H; congruence | reflexivity].
  - split; [intros _ [H _]; apply fits_i32_spec in H; congruence | reflexivity].
Qed.

(** * Exact arithmetic in Q *)

Definition qfrac (n d : Z) : Q := Qmake (n * Z.sgn d) (Z.to_pos (Z.abs d)).

Lemma qval_rat n d : qval (NRat n d) = qfrac n d.
Proof. reflexivity. Qed.

Lemma qval_int z : (qval (NInt z) == qfrac z 1)%Q.
Proof. unfold qval, qfrac, Qeq, inject_Z. cbn. lia. Qed.

Lemma sgn_abs_cases d : d <> 0 ->
  (0 < d /\ Z.sgn d = 1 /\ Z.abs d = d) \/ (d < 0 /\ Z.sgn d = -1 /\ Z.abs d = - d).
Proof. intros. destruct (Z.lt_trichotomy d 0) as [H0|[H0|H0]]; [right|contradiction|left]; lia. Qed.

Ltac sgncase d H :=
  let Hp := fresh "Hp" in let Hs := fresh "Hs" in let Ha := fresh "Ha" in
  destruct (sgn_abs_cases d H) as [[Hp [Hs Ha]]|[Hp [Hs Ha]]]; rewrite ?Hs, ?Ha in *.

Lemma pos_abs d : d <> 0 -> Z.pos (Z.to_pos (Z.abs d)) = Z.abs d.
Proof. intros. apply Z2Pos.id. lia. Qed.

Lemma qfrac_add a1 a2 b1 b2 : a2 <> 0 -> b2 <> 0 ->
  (qfrac (a1 * b2 + a2 * b1) (a2 * b2) == qfrac a1 a2 + qfrac b1 b2)%Q.
Proof.
  intros Ha Hb. assert (Hab : a2 * b2 <> 0) by nia.
  unfold qfrac, Qeq, Qplus. cbn [Qnum Qden].
  rewrite Pos2Z.inj_mul, !pos_abs by assumption.
  rewrite Z.sgn_mul, Z.abs_mul.
  sgncase a2 Ha; sgncase b2 Hb; ring.
Qed.

Lemma qfrac_sub a1 a2 b1 b2 : a2 <> 0 -> b2 <> 0 ->
  (qfrac (a1 * b2 - a2 * b1) (a2 * b2) == qfrac a1 a2 - qfrac b1 b2)%Q.
Proof.
  intros Ha Hb. assert (Hab : a2 * b2 <> 0) by nia.
  unfold qfrac, Qeq, Qminus, Qplus, Qopp. cbn [Qnum Qden].
  rewrite Pos2Z.inj_mul, !pos_abs by assumption.
  rewrite Z.sgn_mul, Z.abs_mul.
  sgncase a2 Ha; sgncase b2 Hb; ring.
Qed.

Lemma qfrac_mul a1 a2 b1 b2 : a2 <> 0 -> b2 <> 0 ->
  (qfrac (a1 * b1) (a2 * b2) == qfrac a1 a2 * qfrac b1 b2)%Q.
Proof.
  intros Ha Hb. assert (Hab : a2 * b2 <> 0) by nia.
  unfold qfrac, Qeq, Qmult. cbn [Qnum Qden].
  rewrite Pos2Z.inj_mul, !pos_abs by assumption.
  rewrite Z.sgn_mul, Z.abs_mul.
  sgncase a2 Ha; sgncase b2 Hb; ring.
Qed.

Lemma qfrac_zero n d : d <> 0 -> ((qfrac n d == 0)%Q <-> n = 0).
Proof.
  intros Hd. unfold qfrac, Qeq. cbn [Qnum Qden]. sgncase d Hd; lia.
Qed.

Lemma qfrac_div a1 a2 b1 b2 : a2 <> 0 -> b2 <> 0 -> b1 <> 0 ->
  (qfrac (a1 * b2) (a2 * b1) == qfrac a1 a2 / qfrac b1 b2)%Q.
Proof.
  intros Ha Hb Hb1. assert (Hab : a2 * b1 <> 0) by nia.
  assert (Hnz : ~ (qfrac b1 b2 == 0)%Q) by (rewrite qfrac_zero by assumption; assumption).
  apply Qmult_inj_r with (z := qfrac b1 b2); [assumption|].
  unfold Qdiv. rewrite <- Qmult_assoc, (Qmult_comm (/ _)), Qmult_inv_r, Qmult_1_r by assumption.
  unfold qfrac, Qeq, Qmult. cbn [Qnum Qden].
  rewrite Pos2Z.inj_mul, !pos_abs by assumption.
  rewrite Z.sgn_mul, Z.abs_mul.
  sgncase a2 Ha; sgncase b2 Hb; sgncase b1 Hb1; ring.
Qed.

Lemma qfrac_abs n d : d <> 0 -> (qfrac (Z.abs n) (Z.abs d) == Qabs (qfrac n d))%Q.
Proof.
  intros Hd. unfold qfrac, Qabs, Qeq. cbn [Qnum Qden].
  assert (Z.abs d <> 0) by lia.
  rewrite !pos_abs by assumption. rewrite Z.abs_mul, Z.abs_involutive.
  sgncase d Hd; rewrite ?Z.sgn_pos, ?Z.abs_eq by lia; cbn; lia.
Qed.

Lemma qfrac_ext n d n' d' : d <> 0 -> d' <> 0 -> n * d' = n' * d ->
  (qfrac n d == qfrac n' d')%Q.
Proof.
  intros Hd Hd' E. unfold qfrac, Qeq. cbn [Qnum Qden].
  rewrite !pos_abs by assumption.
  sgncase d Hd; sgncase d' Hd'; nia.
Qed.

Lemma exact_ratio_q n d r : exact_ratio n d = Some r -> (qval r == qfrac n d)%Q.
Proof. intros H. apply exact_ratio_some in H. apply H. Qed.

Lemma or_real_exact o r x : or_real o r = x -> is_exact x = true -> o = Some x.
Proof. destruct o; cbn; intros <-; [reflexivity|discriminate]. Qed.

(** the operands of an exact/exact operation, as two fractions *)
Definition frac_of (x : number) : Z * Z :=
  match x with NInt z => (z, 1) | NRat n d => (n, d) | NReal _ => (0, 1) end.

Lemma qval_frac x : is_exact x = true ->
  (qval x == qfrac (fst (frac_of x)) (snd (frac_of x)))%Q.
Proof. destruct x; cbn [frac_of fst snd]; intros; try discriminate; [apply qval_int|reflexivity]. Qed.

Lemma wf_frac x : wf x -> snd (frac_of x) <> 0.
Proof. destruct x; cbn; intros; lia. Qed.

Ltac exact_cases a b :=
  destruct a as [za|na da|ra]; destruct b as [zb|nb db|rb];
  cbn [is_exact upcast wf] in *; try discriminate.

(** ** never a wrong exact number: + - * *)
Theorem add_exact_correct a b : wf a -> wf b ->
  is_exact (num_add a b) = true ->
  is_exact a = true /\ is_exact b = true /\ (qval (num_add a b) == qval a + qval b)%Q.
Proof.
  intros Wa Wb He. unfold num_add in *.
  exact_cases a b; (split; [reflexivity|split; [reflexivity|]]);
  match goal with |- (qval (or_real ?o ?r) == _)%Q =>
    pose proof (or_real_exact o r _ eq_refl He) as Ho end;
  rewrite (exact_ratio_q _ _ _ Ho).
  - rewrite !qval_int. rewrite <- qfrac_add by lia. apply qfrac_ext; [lia|lia|ring].
  - rewrite qval_int, qval_rat. rewrite <- qfrac_add by lia. reflexivity.
  - rewrite qval_int, qval_rat. rewrite <- qfrac_add by lia. apply qfrac_ext; [lia|lia|ring].
  - rewrite !qval_rat. apply qfrac_add; assumption.
Qed.

Theorem sub_exact_correct a b : wf a -> wf b ->
  is_exact (num_sub a b) = true ->
  is_exact a = true /\ is_exact b = true /\ (qval (num_sub a b) == qval a - qval b)%Q.
Proof.
  intros Wa Wb He. unfold num_sub in *.
  exact_cases a b; (split; [reflexivity|split; [reflexivity|]]);
  match goal with |- (qval (or_real ?o ?r) == _)%Q =>
    pose proof (or_real_exact o r _ eq_refl He) as Ho end;
  rewrite (exact_ratio_q _ _ _ Ho).
  - rewrite !qval_int. rewrite <- qfrac_sub by lia. apply qfrac_ext; [lia|lia|ring].
  - rewrite qval_int, qval_rat. rewrite <- qfrac_sub by lia. reflexivity.
  - rewrite qval_int, qval_rat. rewrite <- qfrac_sub by lia. apply qfrac_ext; [lia|lia|ring].
  - rewrite !qval_rat. apply qfrac_sub; assumption.
Qed.

Theorem mul_exact_correct a b : wf a -> wf b ->
  is_exact (num_mul a b) = true ->
  is_exact a = true /\ is_exact b = true /\ (qval (num_mul a b) == qval a * qval b)%Q.
Proof.
  intros Wa Wb He. unfold num_mul in *.
  exact_cases a b; (split; [reflexivity|split; [reflexivity|]]);
  match goal with |- (qval (or_real ?o ?r) == _)%Q =>
    pose proof (or_real_exact o r _ eq_refl He) as Ho end;
  rewrite (exact_ratio_q _ _ _ Ho).
  - rewrite !qval_int. rewrite <- qfrac_mul by lia. apply qfrac_ext; [lia|lia|ring].
  - rewrite qval_int, qval_rat. rewrite <- qfrac_mul by lia. reflexivity.
  - rewrite qval_int, qval_rat. rewrite <- qfrac_mul by lia. apply qfrac_ext; [lia|lia|ring].
  - rewrite !qval_rat. apply qfrac_mul; assumption.
Qed.

(** ** division *)
Theorem div_by_zero_iff a b : wf a -> wf b -> is_exact a = true -> is_exact b = true ->
  (num_div a b = Err DivisionByZero None <-> (qval b == 0)%Q).
Proof.
  intros Wa Wb Ea Eb. unfold num_div.
  exact_cases a b.
  - destruct (Z.eqb_spec zb 0) as [->|Hz].
    + split; [reflexivity|reflexivity].
    + split; [discriminate|]. intros H. unfold qval, Qeq, inject_Z in H. cbn in H. lia.
  - rewrite qval_rat, qfrac_zero by assumption.
    destruct (Z.eqb_spec nb 0) as [->|Hz]; [tauto|].
    cbn. destruct (Z.eqb_spec db 0); [contradiction|]. split; [discriminate|contradiction].
  - destruct (Z.eqb_spec zb 0) as [->|Hz].
    + split; reflexivity.
    + destruct (Z.eqb_spec da 0); [contradiction|]. cbn.
      split; [discriminate|]. intros H. unfold qval, Qeq, inject_Z in H. cbn in H. lia.
  - rewrite qval_rat, qfrac_zero by assumption.
    destruct (Z.eqb_spec nb 0) as [->|Hz]; [tauto|].
    destruct (Z.eqb_spec da 0); [contradiction|]. destruct (Z.eqb_spec db 0); [contradiction|].
    split; [discriminate|contradiction].
Qed.

Theorem div_exact_correct a b r : wf a -> wf b ->
  num_div a b = Ok r -> is_exact r = true ->
  is_exact a = true /\ is_exact b = true /\ ~ (qval b == 0)%Q /\ (qval r == qval a / qval b)%Q.
Proof.
  intros Wa Wb Hd He. unfold num_div in Hd.
  exact_cases a b; try (inversion Hd; subst r; discriminate).
  - destruct (Z.eqb_spec zb 0) as [->|Hz]; [discriminate|]. inversion Hd; subst r; clear Hd.
    apply or_real_exact with (1 := eq_refl) in He. apply exact_ratio_q in He.
    assert (Hnz : ~ (qval (NInt zb) == 0)%Q) by (rewrite qval_int, qfrac_zero; lia).
    repeat split; try assumption.
    rewrite He, !qval_int, <- qfrac_div by lia. apply qfrac_ext; lia.
  - destruct (Z.eqb_spec nb 0) as [->|Hz]; [discriminate|]. cbn in Hd.
    destruct (Z.eqb_spec db 0); [contradiction|]. inversion Hd; subst r; clear Hd.
    apply or_real_exact with (1 := eq_refl) in He. apply exact_ratio_q in He.
    assert (Hnz : ~ (qval (NRat nb db) == 0)%Q) by (rewrite qval_rat, qfrac_zero; lia).
    repeat split; try assumption.
    rewrite He, qval_int, qval_rat, <- qfrac_div by lia. reflexivity.
  - destruct (Z.eqb_spec zb 0) as [->|Hz]; [discriminate|].
    destruct (Z.eqb_spec da 0); [contradiction|]. cbn in Hd. inversion Hd; subst r; clear Hd.
    apply or_real_exact with (1 := eq_refl) in He. apply exact_ratio_q in He.
    assert (Hnz : ~ (qval (NInt zb) == 0)%Q) by (rewrite qval_int, qfrac_zero; lia).
    repeat split; try assumption.
    rewrite He, qval_int, qval_rat, <- qfrac_div by lia. reflexivity.
  - destruct (Z.eqb_spec nb 0) as [->|Hz]; [discriminate|].
    destruct (Z.eqb_spec da 0); [contradiction|]. destruct (Z.eqb_spec db 0); [contradiction|].
    inversion Hd; subst r; clear Hd.
    apply or_real_exact with (1 := eq_refl) in He. apply exact_ratio_q in He.
    assert (Hnz : ~ (qval (NRat nb db) == 0)%Q) by (rewrite qval_rat, qfrac_zero; lia).
    repeat split; try assumption.
    rewrite He, !qval_rat. apply qfrac_div; assumption.
Qed.

(** an operation with an inexact operand never reports division by zero *)
Theorem div_inexact_total a b : is_exact a = false \/ is_exact b = false ->
  num_div a b = Ok (NReal (fdiv (as_real a) (as_real b))).
Proof. intros [H|H]; destruct a, b; cbn in *; try discriminate; reflexivity. Qed.

Theorem abs_exact_correct a : wf a -> is_exact (num_abs a) = true ->
  is_exact a = true /\ (qval (num_abs a) == Qabs (qval a))%Q.
Proof.
  intros Wa He. unfold num_abs in *. destruct a as [z|n d|r]; cbn [is_exact wf] in *; try discriminate;
  (split; [reflexivity|]);
  match goal with |- (qval (or_real ?o ?r) == _)%Q =>
    pose proof (or_real_exact o r _ eq_refl He) as Ho end;
  rewrite (exact_ratio_q _ _ _ Ho).
  - rewrite qval_int. rewrite <- qfrac_abs by lia. reflexivity.
  - rewrite qval_rat. apply qfrac_abs. assumption.
Qed.

(** ** floor, ceiling *)
Lemma qfloor_frac n d : d <> 0 -> Qfloor (qfrac n d) = (n * Z.sgn d) / (d * Z.sgn d).
Proof.
  intros Hd. unfold qfrac, Qfloor. rewrite pos_abs by assumption.
  f_equal. sgncase d Hd; lia.
Qed.

Lemma qceiling_frac n d : d <> 0 -> Qceiling (qfrac n d) = - ((- (n * Z.sgn d)) / (d * Z.sgn d)).
Proof.
  intros Hd. unfold Qceiling, Qopp, qfrac. cbn [Qnum Qden Qfloor]. rewrite pos_abs by assumption.
  do 2 f_equal. sgncase d Hd; lia.
Qed.

Lemma exact_ratio_int z r : exact_ratio z 1 = Some r -> r = NInt z.
Proof.
  unfold exact_ratio. cbn. rewrite Z.gcd_1_r, !Z.quot_1_r. cbn.
  destruct (fits_i32 z && true); [|discriminate]. congruence.
Qed.

Theorem floor_correct a : wf a -> is_exact (num_floor a) = true ->
  is_exact a = true /\ num_floor a = NInt (Qfloor (qval a)).
Proof.
  intros Wa He. destruct a as [z|n d|r]; cbn [is_exact wf num_floor] in *; try discriminate.
  - split; [reflexivity|]. unfold qval. rewrite Qfloor_Z. reflexivity.
  - split; [reflexivity|]. destruct (Z.eqb_spec d 0); [contradiction|].
    pose proof (or_real_exact _ _ _ eq_refl He) as Ho.
    rewrite (exact_ratio_int _ _ Ho) at 1. rewrite qval_rat, qfloor_frac by assumption. reflexivity.
Qed.

Theorem ceiling_correct a : wf a -> is_exact (num_ceiling a) = true ->
  is_exact a = true /\ num_ceiling a = NInt (Qceiling (qval a)).
Proof.
  intros Wa He. destruct a as [z|n d|r]; cbn [is_exact wf num_ceiling] in *; try discriminate.
  - split; [reflexivity|]. unfold qval. rewrite Qceiling_Z. reflexivity.
  - split; [reflexivity|]. destruct (Z.eqb_spec d 0); [contradiction|].
    pose proof (or_real_exact _ _ _ eq_refl He) as Ho.
    rewrite (exact_ratio_int _ _ Ho) at 1. rewrite qval_rat, qceiling_frac by assumption. reflexivity.
Qed.

Lemma div_abs_le n d : 0 < d -> Z.abs (n / d) <= Z.abs n.
Proof.
  intros Hd. pose proof (Z.div_mod n d ltac:(lia)) as E.
  pose proof (Z.mod_pos_bound n d Hd) as B. nia.
Qed.

(** floor of an exact number is exact, except for the one quotient that does not fit i32 *)
Theorem floor_exact_total a : wf32 a -> is_exact a = true ->
  a <> NRat (-2147483648) (-1) -> is_exact (num_floor a) = true.
Proof.
  intros W E Hne. destruct a as [z|n d|r]; cbn [is_exact wf32 num_floor] in *; try discriminate; [reflexivity|].
  destruct W as (Hn & Hd & Hd0). destruct (Z.eqb_spec d 0); [contradiction|].
  unfold or_real.
  destruct (exact_ratio (n * Z.sgn d / (d * Z.sgn d)) 1) eqn:Ex.
  - apply exact_ratio_some in Ex. apply Ex.
  - exfalso. apply exact_ratio_none_iff in Ex; [|lia]. apply Ex; clear Ex.
    rewrite Z.gcd_1_r, !Z.div_1_r. split; [|unfold in_i32; cbn; lia].
    replace (Z.sgn 1) with 1 by reflexivity. rewrite Z.mul_1_r.
    unfold in_i32 in *.
    sgncase d Hd0.
    + rewrite !Z.mul_1_r. pose proof (div_abs_le n d Hp).
      assert (n / d <= 0 \/ 0 <= n) by (destruct (Z.le_gt_cases 0 n); [right; lia|left; apply Z.div_le_upper_bound; lia]).
      lia.
    + replace (n * -1) with (- n) by lia. replace (d * -1) with (- d) by lia.
      pose proof (div_abs_le (- n) (- d) ltac:(lia)).
      destruct (Z.eq_dec n (-2147483648)) as [->|Hn'].
      * assert (d <> -1) by (intro; subst d; apply Hne; reflexivity).
        replace (- -2147483648) with 2147483648 in * by lia.
        assert (2147483648 / - d <= 1073741824) by (apply Z.div_le_upper_bound; lia).
        assert (0 <= 2147483648 / - d) by (apply Z.div_pos; lia). lia.
      * lia.
Qed.

(** ** every result is in normal form *)
Lemma normal_wf x : normal x -> wf x.
Proof. destruct x; cbn; intros; lia. Qed.

Lemma exact_ratio_normal n d y : exact_ratio n d = Some y -> normal y.
Proof. intros H. apply exact_ratio_some in H. apply H. Qed.

Ltac normal_or_real :=
  unfold or_real;
  match goal with
  | |- normal (match ?o with Some _ => _ | None => _ end) =>
      let E := fresh "E" in destruct o as [?y|] eqn:E; [|exact I];
      repeat match type of E with
             | match ?u with _ => _ end = _ => destruct u; try (inversion E; subst; exact I)
             end;
      try (inversion E; subst; exact I);
      eapply exact_ratio_normal; eassumption
  end.

Theorem add_normal a b : normal (num_add a b).
Proof. unfold num_add. normal_or_real. Qed.
Theorem sub_normal a b : normal (num_sub a b).
Proof. unfold num_sub. normal_or_real. Qed.
Theorem mul_normal a b : normal (num_mul a b).
Proof. unfold num_mul. normal_or_real. Qed.
Theorem abs_normal a : normal (num_abs a).
Proof. unfold num_abs. normal_or_real. Qed.
Theorem div_normal a b r : num_div a b = Ok r -> normal r.
Proof.
  unfold num_div. destruct (upcast a b);
  repeat match goal with |- context [if ?c then _ else _] => destruct c; try discriminate end;
  intros H; inversion H; subst r; try exact I; normal_or_real.
Qed.
Theorem floor_normal a : normal a -> normal (num_floor a).
Proof.
  destruct a; cbn [num_floor]; intros H; try assumption; try exact I.
  destruct (d =? 0); [exact I|]. normal_or_real.
Qed.
Theorem ceiling_normal a : normal a -> normal (num_ceiling a).
Proof.
  destruct a; cbn [num_ceiling]; intros H; try assumption; try exact I.
  destruct (d =? 0); [exact I|]. normal_or_real.
Qed.

(** ** floor-quotient, floor-remainder : n = d*q + r with q = floor (n/d) *)
Theorem floor_quotient_correct n d q : wf n -> wf d ->
  num_floor_quotient n d = Ok q -> is_exact q = true ->
  is_exact n = true /\ is_exact d = true /\ ~ (qval d == 0)%Q /\
  q = NInt (Qfloor (qval n / qval d)).
Proof.
  intros Wn Wd H Eq. unfold num_floor_quotient in H.
  destruct (num_div n d) as [x| | |] eqn:Hdiv; cbn [bind] in H; try discriminate.
  inversion H; subst q; clear H.
  assert (Ex : is_exact x = true).
  { destruct x; try reflexivity. cbn in Eq. discriminate. }
  destruct (div_exact_correct n d x Wn Wd Hdiv Ex) as (En & Ed & Hnz & Hv).
  assert (Wx : wf x) by (apply normal_wf; eapply div_normal; eassumption).
  destruct (floor_correct x Wx Eq) as [_ Hf].
  repeat split; try assumption. rewrite Hf. f_equal. apply Qfloor_comp. exact Hv.
Qed.

Theorem floor_remainder_correct n d r : wf n -> wf d ->
  num_floor_remainder n d = Ok r -> is_exact r = true ->
  exists q : Z, num_floor_quotient n d = Ok (NInt q) /\
    q = Qfloor (qval n / qval d) /\ (qval n == qval d * inject_Z q + qval r)%Q.
Proof.
  intros Wn Wd H Er. unfold num_floor_remainder in H.
  destruct (num_floor_quotient n d) as [q| | |] eqn:Hq; cbn [bind] in H; try discriminate.
  inversion H; subst r; clear H.
  destruct (sub_exact_correct n (num_mul q d) Wn (normal_wf _ (mul_normal q d)) Er) as (En & Em & Hs).
  assert (Wq : wf q).
  { unfold num_floor_quotient in Hq. destruct (num_div n d) eqn:Hd; cbn [bind] in Hq; try discriminate.
    inversion Hq. apply normal_wf, floor_normal. eapply div_normal; eassumption. }
  destruct (mul_exact_correct q d Wq Wd Em) as (Eq & Ed & Hm).
  destruct (floor_quotient_correct n d q Wn Wd Hq Eq) as (_ & _ & Hnz & Hqv).
  exists (Qfloor (qval n / qval d)). subst q. split; [reflexivity|]. split; [reflexivity|].
  rewrite Hs, Hm. cbn [qval]. ring.
Qed.

(** ** inexactness is contagious: the result is the binary32 operation on the converted operands *)
Theorem add_contagion a b : is_exact a = false \/ is_exact b = false ->
  num_add a b = NReal (fadd (as_real a) (as_real b)).
Proof. intros [H|H]; destruct a, b; cbn in *; try discriminate; reflexivity. Qed.
Theorem sub_contagion a b : is_exact a = false \/ is_exact b = false ->
  num_sub a b = NReal (fsub (as_real a) (as_real b)).
Proof. intros [H|H]; destruct a, b; cbn in *; try discriminate; reflexivity. Qed.
Theorem mul_contagion a b : is_exact a = false \/ is_exact b = false ->
  num_mul a b = NReal (fmul (as_real a) (as_real b)).
Proof. intros [H|H]; destruct a, b; cbn in *; try discriminate; reflexivity. Qed.
Theorem abs_contagion r : num_abs (NReal r) = NReal (fabs r).
Proof. reflexivity. Qed.
Theorem floor_contagion r : num_floor (NReal r) = NReal (ffloor r).
Proof. reflexivity. Qed.
Theorem ceiling_contagion r : num_ceiling (NReal r) = NReal (fceil r).
Proof. reflexivity. Qed.

(** an exact result that does not fit is replaced by the inexact result of the same
    operation, never by another exact number *)
Theorem add_fallback a b : is_exact (num_add a b) = false ->
  num_add a b = NReal (fadd (as_real a) (as_real b)).
Proof.
  unfold num_add. destruct (upcast a b) eqn:U; unfold or_real;
  try (destruct (exact_ratio _ _) as [y|] eqn:E; [apply exact_ratio_some in E; destruct E as (_ & E & _); congruence|reflexivity]).
  intros _. destruct a, b; cbn in *; inversion U; subst; reflexivity.
Qed.

(** ** operands below 2^15 always give exact results *)
Lemma small_fits n d : d <> 0 -> Z.abs n <= 2147483647 -> Z.abs d <= 2147483647 ->
  exists r, exact_ratio n d = Some r.
Proof.
  intros Hd Hn Hd'. destruct (exact_ratio n d) eqn:E; [eexists; reflexivity|exfalso].
  apply exact_ratio_none_iff in E; [|assumption]. apply E; clear E.
  assert (Hg : 0 < Z.gcd n d).
  { assert (0 <= Z.gcd n d) by apply Z.gcd_nonneg.
    assert (Z.gcd n d <> 0) by (intro E; apply Z.gcd_eq_0_r in E; lia). lia. }
  pose proof (div_abs_le (n * Z.sgn d) _ Hg). pose proof (div_abs_le (Z.abs d) _ Hg).
  assert (Z.abs (n * Z.sgn d) = Z.abs n) by (sgncase d Hd; lia).
  unfold in_i32. lia.
Qed.

Lemma small_frac x : small x ->
  Z.abs (fst (frac_of x)) < 32768 /\ 0 < Z.abs (snd (frac_of x)) < 32768.
Proof. destruct x; cbn; intros; lia. Qed.

Ltac small_tac a b :=
  destruct a as [za|na da|ra]; destruct b as [zb|nb db|rb]; cbn [small upcast] in *; try contradiction;
  unfold or_real;
  match goal with |- is_exact (match exact_ratio ?n ?d with _ => _ end) = true =>
    let E := fresh in destruct (small_fits n d) as [r E]; [nia|nia|nia|];
    rewrite E; apply exact_ratio_some in E; apply E end.

Theorem add_small_exact a b : small a -> small b -> is_exact (num_add a b) = true.
Proof. intros Ha Hb. unfold num_add. small_tac a b. Qed.
Theorem sub_small_exact a b : small a -> small b -> is_exact (num_sub a b) = true.
Proof. intros Ha Hb. unfold num_sub. small_tac a b. Qed.
Theorem mul_small_exact a b : small a -> small b -> is_exact (num_mul a b) = true.
Proof. intros Ha Hb. unfold num_mul. small_tac a b. Qed.
Theorem div_small_exact a b : small a -> small b -> ~ (qval b == 0)%Q ->
  exists r, num_div a b = Ok r /\ is_exact r = true.
Proof.
  intros Ha Hb Hnz. unfold num_div.
  destruct a as [za|na da|ra]; destruct b as [zb|nb db|rb]; cbn [small upcast] in *; try contradiction.
  - destruct (Z.eqb_spec zb 0) as [->|Hz]; [exfalso; apply Hnz; reflexivity|].
    eexists; split; [reflexivity|]. unfold or_real.
    destruct (small_fits za zb) as [r E]; [lia|lia|lia|]. rewrite E. apply exact_ratio_some in E; apply E.
  - destruct (Z.eqb_spec nb 0) as [->|Hz]; [exfalso; apply Hnz; apply qfrac_zero; [lia|reflexivity]|].
    change (1 =? 0) with false. cbv iota. destruct (Z.eqb_spec db 0); [lia|].
    eexists; split; [reflexivity|]. unfold or_real.
    destruct (small_fits (za * db) (1 * nb)) as [r E]; [nia|nia|nia|]. rewrite E. apply exact_ratio_some in E; apply E.
  - destruct (Z.eqb_spec zb 0) as [->|Hz]; [exfalso; apply Hnz; reflexivity|].
    destruct (Z.eqb_spec da 0); [lia|]. change (1 =? 0) with false. cbv iota.
    eexists; split; [reflexivity|]. unfold or_real.
    destruct (small_fits (na * 1) (da * zb)) as [r E]; [nia|nia|nia|]. rewrite E. apply exact_ratio_some in E; apply E.
  - destruct (Z.eqb_spec nb 0) as [->|Hz]; [exfalso; apply Hnz; apply qfrac_zero; [lia|reflexivity]|].
    destruct (Z.eqb_spec da 0); [lia|]. destruct (Z.eqb_spec db 0); [lia|].
    eexists; split; [reflexivity|]. unfold or_real.
    destruct (small_fits (na * db) (da * nb)) as [r E]; [nia|nia|nia|]. rewrite E. apply exact_ratio_some in E; apply E.
Qed.
Theorem abs_small_exact a : small a -> is_exact (num_abs a) = true.
Proof.
  intros Ha. unfold num_abs. destruct a as [z|n d|r]; cbn [small] in *; try contradiction; unfold or_real.
  - destruct (small_fits (Z.abs z) 1) as [r E]; [lia|lia|lia|]. rewrite E. apply exact_ratio_some in E; apply E.
  - destruct (small_fits (Z.abs n) (Z.abs d)) as [r E]; [lia|lia|lia|]. rewrite E. apply exact_ratio_some in E; apply E.
Qed.

(** * C10: comparison is the mathematical order *)
Lemma qcompare_frac a1 a2 b1 b2 : a2 <> 0 -> b2 <> 0 ->
  (qfrac a1 a2 ?= qfrac b1 b2)%Q = (a1 * b2 * Z.sgn (a2 * b2) ?= b1 * a2 * Z.sgn (a2 * b2)).
Proof.
  intros Ha Hb. unfold Qcompare, qfrac. cbn [Qnum Qden]. rewrite !pos_abs by assumption.
  rewrite Z.sgn_mul. f_equal; sgncase a2 Ha; sgncase b2 Hb; ring.
Qed.

Theorem cmp_exact a b : wf a -> wf b -> is_exact a = true -> is_exact b = true ->
  num_cmp a b = Some (qval a ?= qval b)%Q.
Proof.
  intros Wa Wb Ea Eb. unfold num_cmp. exact_cases a b.
  - unfold qval, Qcompare, inject_Z. cbn [Qnum Qden]. rewrite !Z.mul_1_r. reflexivity.
  - rewrite (Qcompare_comp _ _ (qval_int za) _ _ (Qeq_refl _)), qval_rat, qcompare_frac by lia. reflexivity.
  - rewrite (Qcompare_comp _ _ (Qeq_refl _) _ _ (qval_int zb)), qval_rat, qcompare_frac by lia. reflexivity.
  - rewrite !qval_rat, qcompare_frac by assumption. reflexivity.
Qed.

Theorem lt_exact a b : wf a -> wf b -> is_exact a = true -> is_exact b = true ->
  (num_ltb a b = true <-> (qval a < qval b)%Q).
Proof. intros. unfold num_ltb. rewrite cmp_exact by assumption. rewrite Qlt_alt. destruct (_ ?= _)%Q; split; congruence. Qed.
Theorem gt_exact a b : wf a -> wf b -> is_exact a = true -> is_exact b = true ->
  (num_gtb a b = true <-> (qval b < qval a)%Q).
Proof. intros. unfold num_gtb. rewrite cmp_exact by assumption. rewrite Qgt_alt. destruct (_ ?= _)%Q; split; congruence. Qed.
Theorem le_exact a b : wf a -> wf b -> is_exact a = true -> is_exact b = true ->
  (num_leb a b = true <-> (qval a <= qval b)%Q).
Proof. intros. unfold num_leb. rewrite cmp_exact by assumption. rewrite Qle_alt. destruct (_ ?= _)%Q; split; congruence. Qed.
Theorem ge_exact a b : wf a -> wf b -> is_exact a = true -> is_exact b = true ->
  (num_geb a b = true <-> (qval b <= qval a)%Q).
Proof. intros. unfold num_geb. rewrite cmp_exact by assumption. rewrite Qge_alt. destruct (_ ?= _)%Q; split; congruence. Qed.

Lemma qeq_frac a1 a2 b1 b2 : a2 <> 0 -> b2 <> 0 ->
  ((qfrac a1 a2 == qfrac b1 b2)%Q <-> a1 * b2 = b1 * a2).
Proof.
  intros Ha Hb. unfold qfrac, Qeq. cbn [Qnum Qden]. rewrite !pos_abs by assumption.
  sgncase a2 Ha; sgncase b2 Hb; nia.
Qed.

Theorem eq_exact a b : wf a -> wf b -> is_exact a = true -> is_exact b = true ->
  (num_eqb a b = true <-> (qval a == qval b)%Q).
Proof.
  intros Wa Wb Ea Eb. unfold num_eqb. exact_cases a b; rewrite Z.eqb_eq.
  - unfold qval, Qeq, inject_Z. cbn [Qnum Qden]. lia.
  - rewrite qval_int, qval_rat, qeq_frac by lia. lia.
  - rewrite qval_int, qval_rat, qeq_frac by lia. lia.
  - rewrite !qval_rat, qeq_frac by assumption. lia.
Qed.

(** exact/inexact and inexact/inexact pairs are compared as binary32 numbers *)
Theorem cmp_inexact a b : is_exact a = false \/ is_exact b = false ->
  num_cmp a b = fcompare (as_real a) (as_real b) /\ num_eqb a b = feqb (as_real a) (as_real b).
Proof. intros [H|H]; destruct a, b; cbn in *; try discriminate; split; reflexivity. Qed.

(** eqv? on numbers in normal form: same exactness and numerically equal *)
Theorem eqv_normal a b : normal a -> normal b ->
  (num_eqv a b = true <-> (is_exact a = is_exact b /\ num_eqb a b = true)).
Proof.
  intros Na Nb. destruct a as [za|na da|ra]; destruct b as [zb|nb db|rb]; cbn [num_eqv is_exact num_eqb upcast normal] in *;
  try tauto; try (split; [discriminate|intros [? ?]; discriminate]).
  - split; [discriminate|]. intros [_ H]. apply Z.eqb_eq in H.
    destruct Nb as (_ & _ & Hd & Hg). assert (Hdiv : (db | nb)) by (exists za; lia).
    assert (Z.gcd nb db = db) by (apply Z.gcd_unique; try lia; [assumption|apply Z.divide_refl|auto]).
    lia.
  - split; [discriminate|]. intros [_ H]. apply Z.eqb_eq in H.
    destruct Na as (_ & _ & Hd & Hg). assert (Hdiv : (da | na)) by (exists zb; lia).
    assert (Z.gcd na da = da) by (apply Z.gcd_unique; try lia; [assumption|apply Z.divide_refl|auto]).
    lia.
  - rewrite (Z.mul_comm da nb). tauto.
Qed.

(** ** max / min *)
Lemma norm_rat_q n d : d <> 0 -> is_exact (norm_rat n d) = true /\ (qval (norm_rat n d) == qfrac n d)%Q.
Proof.
  intros Hd. unfold norm_rat. destruct (exact_ratio n d) eqn:E.
  - apply exact_ratio_some in E. split; apply E.
  - split; reflexivity.
Qed.

Theorem max2_exact a b : wf a -> wf b -> is_exact a = true -> is_exact b = true ->
  is_exact (num_max2 a b) = true /\ (qval (num_max2 a b) == Qmax (qval a) (qval b))%Q.
Proof.
  intros Wa Wb Ea Eb. unfold num_max2.
  pose proof (gt_exact a b Wa Wb Ea Eb) as Hgt.
  assert (Hl : is_exact (op_lhs (upcast a b)) = true /\ (qval (op_lhs (upcast a b)) == qval a)%Q).
  { exact_cases a b; cbn [op_lhs]; first [split; reflexivity | rewrite qval_int; apply norm_rat_q; lia | rewrite qval_rat; apply norm_rat_q; assumption]. }
  assert (Hr : is_exact (op_rhs (upcast a b)) = true /\ (qval (op_rhs (upcast a b)) == qval b)%Q).
  { exact_cases a b; cbn [op_rhs]; first [split; reflexivity | rewrite qval_int; apply norm_rat_q; lia | rewrite qval_rat; apply norm_rat_q; assumption]. }
  destruct (num_gtb a b).
  - split; [apply Hl|]. destruct Hl as [_ ->]. symmetry. apply Q.max_l. apply Qlt_le_weak. apply Hgt. reflexivity.
  - split; [apply Hr|]. destruct Hr as [_ ->]. symmetry. apply Q.max_r.
    apply Qnot_lt_le. intros H. apply Hgt in H. discriminate.
Qed.

Theorem min2_exact a b : wf a -> wf b -> is_exact a = true -> is_exact b = true ->
  is_exact (num_min2 a b) = true /\ (qval (num_min2 a b) == Qmin (qval a) (qval b))%Q.
Proof.
  intros Wa Wb Ea Eb. unfold num_min2.
  pose proof (lt_exact a b Wa Wb Ea Eb) as Hlt.
  assert (Hl : is_exact (op_lhs (upcast a b)) = true /\ (qval (op_lhs (upcast a b)) == qval a)%Q).
  { exact_cases a b; cbn [op_lhs]; first [split; reflexivity | rewrite qval_int; apply norm_rat_q; lia | rewrite qval_rat; apply norm_rat_q; assumption]. }
  assert (Hr : is_exact (op_rhs (upcast a b)) = true /\ (qval (op_rhs (upcast a b)) == qval b)%Q).
  { exact_cases a b; cbn [op_rhs]; first [split; reflexivity | rewrite qval_int; apply norm_rat_q; lia | rewrite qval_rat; apply norm_rat_q; assumption]. }
  destruct (num_ltb a b).
  - split; [apply Hl|]. destruct Hl as [_ ->]. symmetry. apply Q.min_l. apply Qlt_le_weak. apply Hlt. reflexivity.
  - split; [apply Hr|]. destruct Hr as [_ ->]. symmetry. apply Q.min_r.
    apply Qnot_lt_le. intros H. apply Hlt in H. discriminate.
Qed.

(** with an inexact argument the result is inexact: the binary32 extreme of the converted operands *)
Theorem max2_inexact a b : is_exact a = false \/ is_exact b = false ->
  num_max2 a b = NReal (if num_gtb a b then as_real a else as_real b).
Proof. intros [H|H]; destruct a, b; cbn [is_exact] in *; try discriminate; unfold num_max2; destruct (num_gtb _ _); reflexivity. Qed.
Theorem min2_inexact a b : is_exact a = false \/ is_exact b = false ->
  num_min2 a b = NReal (if num_ltb a b then as_real a else as_real b).
Proof. intros [H|H]; destruct a, b; cbn [is_exact] in *; try discriminate; unfold num_min2; destruct (num_ltb _ _); reflexivity. Qed.
