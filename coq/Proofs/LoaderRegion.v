(** C19 / C13: the region invariant for the interpreter level: imports, library instantiation,
    top-level definitions. An instance belongs to a region when its root frame is in it and every value
    it holds outside the store - the exports of the libraries it has instantiated, the tables of its
    native factories - refers only to the region. Every operation of the loader and every top-level
    form keeps the instance inside its (growing) region and writes nothing outside it. *)
From Coq Require Import ZArith NArith List Bool Lia PeanoNat.
From RV Require Import Model.Common Model.Real32 Model.Num Model.Datum Model.Lexer Model.Reader Model.Macro Model.Ast
  Model.Transform Model.Value Model.Print Model.Builtins Model.Eval Model.Interp Spec.EvalSpec Proofs.Basics
  Proofs.StoreProofs Proofs.EvalProofs Proofs.ImportProofs Proofs.LoaderProofs Proofs.WorldProofs Proofs.RegionProofs.
Import ListNotations.

Definition lib_ok (F V : nset) (lib : library) : Prop := Forall (fun d => vok F V (snd d)) lib.
Definition factory_ok (F V : nset) (fa : factory) : Prop :=
  match fa with FNative defs => lib_ok F V defs | FAst _ => True end.
Definition inst_ok (F V : nset) (i : instance) : Prop :=
  F (i_env i) /\ Forall (fun nl => lib_ok F V (snd nl)) (i_libraries i) /\
  Forall (fun nf => factory_ok F V (snd nf)) (i_factories i).

(** the transition from context [c] to context [c']: the store makes a region step, the instance is in
    the new region *)
Definition T (F V : nset) (c c' : ictx) (F' V' : nset) : Prop :=
  step_ok F V (c_st c) F' V' (c_st c') /\ inst_ok F' V' (c_inst c').

Lemma lib_ok_mono : forall F V F' V' l, incl_set F F' -> incl_set V V' -> lib_ok F V l -> lib_ok F' V' l.
Proof. intros. eapply Forall_impl; [|eassumption]. intros d. now apply vok_mono. Qed.

Lemma inst_ok_mono : forall F V F' V' i, incl_set F F' -> incl_set V V' -> inst_ok F V i -> inst_ok F' V' i.
Proof.
  intros F V F' V' i HF HV [H1 [H2 H3]]. split; [now apply HF|]. split.
  - eapply Forall_impl; [|exact H2]. intros nl. now apply lib_ok_mono.
  - eapply Forall_impl; [|exact H3]. intros [n [d|d]]; cbn; auto. now apply lib_ok_mono.
Qed.

Lemma T_refl : forall F V c, stok F V (c_st c) -> inst_ok F V (c_inst c) -> T F V c c F V.
Proof. intros. split; [now apply step_ok_refl|assumption]. Qed.

Lemma T_trans : forall F V c F1 V1 c1 F2 V2 c2, T F V c c1 F1 V1 -> T F1 V1 c1 c2 F2 V2 -> T F V c c2 F2 V2.
Proof. intros F V c F1 V1 c1 F2 V2 c2 [S1 I1] [S2 I2]. split; [eapply step_ok_trans; eassumption|exact I2]. Qed.

Lemma ibind_inv : forall {A B} (m : ires A) (k : A -> ictx -> ires B) r c',
  ibind m k = (r, c') -> noF r ->
  (exists a c1, m = (Ok a, c1) /\ k a c1 = (r, c')) \/
  (exists ra c1, m = (ra, c1) /\ failed ra /\ c' = c1 /\ forall b, r <> Ok b).
Proof.
  intros A B [ra c1] k r c' H N. destruct ra as [a|kk l|x|]; cbn in H.
  - left. now exists a, c1.
  - right. exists (Err kk l), c1. injection H as <- <-. repeat split; auto. intros b E; discriminate.
  - right. exists (Panic x), c1. injection H as <- <-. repeat split; auto. intros b E; discriminate.
  - injection H as <- <-. exfalso. now apply N.
Qed.

(** reading forms does not touch store or instance *)
Lemma find_library_same : forall fuel n s c r c', find_library fuel n s c = (r, c') ->
  c_st c' = c_st c /\ c_inst c' = c_inst c.
Proof.
  induction fuel as [|f IH]; intros n s c r c' H; cbn [find_library] in H; [injection H as <- <-; auto|].
  pose proof (parsing_touches_only_syntax c s) as [P1 P2].
  destruct (parse_next c s) as [[[o s1]|k l|x|] c1]; cbn [snd] in P1, P2; cbn in H;
    try (injection H as <- <-; auto).
  destruct o as [stm|]; [|injection H as <- <-; auto].
  destruct stm; try (destruct (IH _ _ _ _ _ H) as [A B]; split; congruence).
  destruct (libname_eqb n0 n); [injection H as <- <-; auto|].
  destruct (IH _ _ _ _ _ H) as [A B]; split; congruence.
Qed.

Lemma find_library_ast : forall fuel n s c fa c', find_library fuel n s c = (Ok fa, c') -> exists decls, fa = FAst decls.
Proof.
  induction fuel as [|f IH]; intros n s c fa c' H; cbn [find_library] in H; [discriminate|].
  destruct (parse_next c s) as [[[o s1]|k l|x|] c1]; cbn in H; try discriminate.
  destruct o as [stm|]; [|discriminate].
  destruct stm as [sets l|x e l|kw t l|e|m decls l]; try (eapply IH; eassumption).
  destruct (libname_eqb m n); [injection H as <- <-; eauto|eapply IH; eassumption].
Qed.

(** a top-level expression, definition or syntax definition *)
Lemma eval_expr_or_def_region : forall efuel stm env c r c' F V,
  eval_expr_or_def efuel stm env c = (r, c') -> noF r ->
  stok F V (c_st c) -> inst_ok F V (c_inst c) -> F env ->
  exists F' V', T F V c c' F' V' /\ forall v, r = Ok (Some v) -> vok F' V' v.
Proof.
  intros efuel stm env c r c' F V H N Hst Hi He. unfold eval_expr_or_def in H.
  destruct stm as [sets l|x e l|kw t l|e|n decls l].
  - injection H as <- <-. exists F, V. split; [now apply T_refl|]. intros v E; discriminate.
  - (* definition *)
    destruct (eval_expr efuel e env (c_st c)) as [re st1] eqn:EE. cbn in H.
    destruct re as [v|k ll|xx|]; cbn in H; injection H as <- <-.
    + pose proof (s_expr efuel (sound_all efuel) _ _ _ _ _ EE ltac:(discriminate)) as D.
      destruct (proj1 region_all _ _ _ _ _ D F V Hst He) as [F1 [V1 [S1 R1]]].
      pose proof (env_define_ok F1 V1 st1 env x v (step_ok_V _ _ _ _ _ _ S1)
                    (step_ok_inclF _ _ _ _ _ _ S1 _ He) (R1 v eq_refl)) as S2.
      exists F1, V1. split; [|intros w E; discriminate]. split; cbn.
      * eapply step_ok_trans; eassumption.
      * eapply inst_ok_mono; [eapply step_ok_inclF; exact S1|eapply step_ok_inclV; exact S1|exact Hi].
    + pose proof (s_expr efuel (sound_all efuel) _ _ _ _ _ EE ltac:(discriminate)) as D.
      destruct (proj1 region_all _ _ _ _ _ D F V Hst He) as [F1 [V1 [S1 R1]]].
      exists F1, V1. split; [|intros w E; discriminate]. split; cbn; [exact S1|].
      eapply inst_ok_mono; [eapply step_ok_inclF; exact S1|eapply step_ok_inclV; exact S1|exact Hi].
    + pose proof (s_expr efuel (sound_all efuel) _ _ _ _ _ EE ltac:(discriminate)) as D.
      destruct (proj1 region_all _ _ _ _ _ D F V Hst He) as [F1 [V1 [S1 R1]]].
      exists F1, V1. split; [|intros w E; discriminate]. split; cbn; [exact S1|].
      eapply inst_ok_mono; [eapply step_ok_inclF; exact S1|eapply step_ok_inclV; exact S1|exact Hi].
    + exfalso. now apply N.
  - (* syntax definition *)
    injection H as <- <-. exists F, V. split; [|intros v E; discriminate]. split; cbn; [|exact Hi].
    apply env_define_ok; auto. exact I.
  - (* expression *)
    destruct (eval_expr efuel e env (c_st c)) as [re st1] eqn:EE. cbn in H.
    destruct re as [v|k ll|xx|]; cbn in H; injection H as <- <-; try (exfalso; now apply N);
      pose proof (s_expr efuel (sound_all efuel) _ _ _ _ _ EE ltac:(discriminate)) as D;
      destruct (proj1 region_all _ _ _ _ _ D F V Hst He) as [F1 [V1 [S1 R1]]];
      exists F1, V1; (split; [split; cbn; [exact S1|
        eapply inst_ok_mono; [eapply step_ok_inclF; exact S1|eapply step_ok_inclV; exact S1|exact Hi]]|]);
      intros w E; try discriminate.
    injection E as <-. now apply R1.
  - injection H as <- <-. exists F, V. split; [now apply T_refl|]. intros v E; discriminate.
Qed.

(** ** the loader *)

Lemma lib_get_ok : forall F V (l : list (libname * library)) n lib,
  Forall (fun nl => lib_ok F V (snd nl)) l -> lib_get l n = Some lib -> lib_ok F V lib.
Proof.
  intros F V l n lib H. induction H as [|[m x] r Hx Hr IH]; cbn; [discriminate|].
  destruct (libname_eqb n m); [intros E; injection E as <-; exact Hx|exact IH].
Qed.

Lemma fac_get_ok : forall F V (l : list (libname * factory)) n fa,
  Forall (fun nf => factory_ok F V (snd nf)) l -> lib_get l n = Some fa -> factory_ok F V fa.
Proof.
  intros F V l n fa H. induction H as [|[m x] r Hx Hr IH]; cbn; [discriminate|].
  destruct (libname_eqb n m); [intros E; injection E as <-; exact Hx|exact IH].
Qed.

Lemma lib_set_Forall : forall {A} (P : A -> Prop) (l : list (libname * A)) n v,
  Forall (fun x => P (snd x)) l -> P v -> Forall (fun x => P (snd x)) (lib_set l n v).
Proof.
  intros A P l n v H Hv. induction H as [|[m x] r Hx Hr IH]; cbn.
  - constructor; [exact Hv|constructor].
  - destruct (libname_eqb n m); constructor; auto.
Qed.

Lemma lib_ok_filter : forall F V (f : str * value -> bool) l, lib_ok F V l -> lib_ok F V (filter f l).
Proof.
  intros F V f l H. unfold lib_ok in *. rewrite Forall_forall in *. intros d Hd. apply filter_In in Hd. apply H, Hd.
Qed.

Lemma lib_ok_map : forall F V (g : str * value -> str * value) l,
  (forall d, snd (g d) = snd d) -> lib_ok F V l -> lib_ok F V (map g l).
Proof.
  intros F V g l Hg H. unfold lib_ok in *. rewrite Forall_forall in *. intros d Hd.
  apply in_map_iff in Hd. destruct Hd as [d0 [<- Hin]]. rewrite Hg. now apply H.
Qed.

Lemma fold_alist_set_ok : forall F V defs acc, lib_ok F V defs -> lib_ok F V acc ->
  lib_ok F V (fold_left (fun a d => alist_set a (fst d) (snd d)) defs acc).
Proof.
  intros F V defs. induction defs as [|d r IH]; intros acc Hd Ha; cbn; [exact Ha|].
  inversion Hd; subst. apply IH; [assumption|]. now apply alist_set_Forall.
Qed.

Lemma fold_define_ok : forall F V env defs st, stok F V st -> F env -> lib_ok F V defs ->
  step_ok F V st F V (fold_left (fun st d => env_define st env (fst d) (snd d)) defs st).
Proof.
  intros F V env defs. induction defs as [|d r IH]; intros st Hst He Hd; cbn; [now apply step_ok_refl|].
  inversion Hd; subst.
  pose proof (env_define_ok F V st env (fst d) (snd d) Hst He H1) as S1.
  eapply step_ok_trans; [exact S1|]. apply IH; [exact (step_ok_V _ _ _ _ _ _ S1)|exact He|assumption].
Qed.

(** the claims about the four mutually recursive loader functions, for results that are not a timeout *)
Definition lib_result (F V : nset) (c : ictx) (r : res library) (c' : ictx) : Prop :=
  exists F' V', T F V c c' F' V' /\ forall lib, r = Ok lib -> lib_ok F' V' lib.

Lemma lib_result_same_st : forall F V c d r c', c_st c = c_st d -> lib_result F V d r c' -> lib_result F V c r c'.
Proof.
  intros F V c d r c' E [F' [V' [[S I] R]]]. exists F', V'. split; [|exact R]. split; [rewrite E; exact S|exact I].
Qed.

Record loader_region (f : nat) : Prop := {
  g_set : forall fs cwd efuel s c r c' F V, eval_import_set fs cwd f efuel s c = (r, c') -> noF r ->
      stok F V (c_st c) -> inst_ok F V (c_inst c) -> lib_result F V c r c';
  g_get : forall fs cwd efuel n l c r c' F V, get_library fs cwd f efuel n l c = (r, c') -> noF r ->
      stok F V (c_st c) -> inst_ok F V (c_inst c) -> lib_result F V c r c';
  g_imp : forall fs cwd efuel sets env c r c' F V, eval_import fs cwd f efuel sets env c = (r, c') -> noF r ->
      stok F V (c_st c) -> inst_ok F V (c_inst c) -> F env -> exists F' V', T F V c c' F' V';
  g_lib : forall fs cwd efuel decls c r c' F V, eval_library_definition fs cwd f efuel decls c = (r, c') -> noF r ->
      stok F V (c_st c) -> inst_ok F V (c_inst c) -> lib_result F V c r c'
}.

Lemma loader_region_0 : loader_region 0.
Proof.
  split; intros; cbn in *;
    match goal with
    | H : (OutOfFuel, _) = (?r, _), N : noF ?r |- _ => injection H as <- <-; exfalso; now apply N
    end.
Qed.

Lemma inst_ok_progress : forall F V i p, inst_ok F V i -> inst_ok F V (set_progress i p).
Proof. intros F V i p H. exact H. Qed.

Lemma T_inst : forall F V c c' F' V' i, T F V c c' F' V' -> inst_ok F' V' i -> T F V c (with_inst c' i) F' V'.
Proof. intros F V c c' F' V' i [S I] Hi. split; [exact S|exact Hi]. Qed.

Opaque env_get.
Lemma loader_region_step : forall f, loader_region f -> loader_region (S f).
Proof.
  intros f IH. split.
  - (* eval_import_set *)
    intros fs cwd efuel s c r c' F V H N Hst Hi. rewrite eval_import_set_S in H.
    destruct s as [n l|sub ids l|sub ids l|sub p l|sub rn l].
    + (* direct *)
      destruct (lib_get (i_libraries (c_inst c)) n) as [lib|] eqn:EL.
      * injection H as <- <-. exists F, V. split; [now apply T_refl|]. intros lib0 E. injection E as <-.
        eapply lib_get_ok; [apply Hi|exact EL].
      * destruct (in_progress (i_in_progress (c_inst c)) n).
        -- injection H as <- <-. exists F, V. split; [now apply T_refl|]. intros lib0 E. discriminate.
        -- cbv zeta in H.
           destruct (get_library fs cwd f efuel n l (with_inst c (set_progress (c_inst c) (n :: i_in_progress (c_inst c)))))
             as [r1 c1] eqn:EG.
           assert (N1 : noF r1) by (intros ->; injection H as <- <-; now apply N).
           destruct (g_get f IH _ _ _ _ _ _ _ _ F V EG N1 Hst Hi) as [F1 [V1 [[S1 I1] R1]]].
           destruct r1 as [lib|k ll|x|]; injection H as <- <-; exists F1, V1.
           ++ split; [|intros lib0 E; injection E as <-; now apply R1].
              split; [exact S1|]. destruct I1 as [A [B C]]. split; [exact A|]. split; [|exact C].
              cbn. apply (lib_set_Forall (lib_ok F1 V1)); [exact B|now apply R1].
           ++ split; [split; [exact S1|exact I1]|intros lib0 E; discriminate].
           ++ split; [split; [exact S1|exact I1]|intros lib0 E; discriminate].
           ++ exfalso. now apply N1.
    + apply ibind_inv in H; [|exact N]. destruct H as [[defs [c1 [Hm Hk]]]|[ra [c1 [Hm [Fa [-> Hno]]]]]].
      * destruct (g_set f IH _ _ _ _ _ _ _ F V Hm ltac:(discriminate) Hst Hi) as [F1 [V1 [T1 R1]]].
        injection Hk as <- <-. exists F1, V1. split; [exact T1|]. intros lib E. injection E as <-.
        apply lib_ok_filter. now apply R1.
      * destruct (g_set f IH _ _ _ _ _ _ _ F V Hm (failed_noF _ Fa) Hst Hi) as [F1 [V1 [T1 R1]]].
        exists F1, V1. split; [exact T1|]. intros lib E. exfalso. exact (Hno lib E).
    + apply ibind_inv in H; [|exact N]. destruct H as [[defs [c1 [Hm Hk]]]|[ra [c1 [Hm [Fa [-> Hno]]]]]].
      * destruct (g_set f IH _ _ _ _ _ _ _ F V Hm ltac:(discriminate) Hst Hi) as [F1 [V1 [T1 R1]]].
        injection Hk as <- <-. exists F1, V1. split; [exact T1|]. intros lib E. injection E as <-.
        apply lib_ok_filter. now apply R1.
      * destruct (g_set f IH _ _ _ _ _ _ _ F V Hm (failed_noF _ Fa) Hst Hi) as [F1 [V1 [T1 R1]]].
        exists F1, V1. split; [exact T1|]. intros lib E. exfalso. exact (Hno lib E).
    + apply ibind_inv in H; [|exact N]. destruct H as [[defs [c1 [Hm Hk]]]|[ra [c1 [Hm [Fa [-> Hno]]]]]].
      * destruct (g_set f IH _ _ _ _ _ _ _ F V Hm ltac:(discriminate) Hst Hi) as [F1 [V1 [T1 R1]]].
        injection Hk as <- <-. exists F1, V1. split; [exact T1|]. intros lib E. injection E as <-.
        apply lib_ok_map; [reflexivity|]. now apply R1.
      * destruct (g_set f IH _ _ _ _ _ _ _ F V Hm (failed_noF _ Fa) Hst Hi) as [F1 [V1 [T1 R1]]].
        exists F1, V1. split; [exact T1|]. intros lib E. exfalso. exact (Hno lib E).
    + apply ibind_inv in H; [|exact N]. destruct H as [[defs [c1 [Hm Hk]]]|[ra [c1 [Hm [Fa [-> Hno]]]]]].
      * destruct (g_set f IH _ _ _ _ _ _ _ F V Hm ltac:(discriminate) Hst Hi) as [F1 [V1 [T1 R1]]].
        injection Hk as <- <-. exists F1, V1. split; [exact T1|]. intros lib E. injection E as <-.
        apply lib_ok_map; [intros d; destruct (alist_get (rev rn) (fst d)); reflexivity|]. now apply R1.
      * destruct (g_set f IH _ _ _ _ _ _ _ F V Hm (failed_noF _ Fa) Hst Hi) as [F1 [V1 [T1 R1]]].
        exists F1, V1. split; [exact T1|]. intros lib E. exfalso. exact (Hno lib E).
  - (* get_library *)
    intros fs cwd efuel n l c r c' F V H N Hst Hi. rewrite get_library_S in H. cbv zeta in H.
    assert (WF : forall fa c0 r0 c0' F0 V0,
               match fa with
               | FNative defs => (Ok defs, c0)
               | FAst decls => eval_library_definition fs cwd f efuel decls c0
               end = (r0, c0') -> noF r0 -> factory_ok F0 V0 fa ->
               stok F0 V0 (c_st c0) -> inst_ok F0 V0 (c_inst c0) -> lib_result F0 V0 c0 r0 c0').
    { intros [defs|decls] c0 r0 c0' F0 V0 E N0 Hfa Hst0 Hi0.
      - injection E as <- <-. exists F0, V0. split; [now apply T_refl|]. intros lib E. injection E as <-. exact Hfa.
      - eapply (g_lib f IH); eassumption. }
    destruct (lib_get (i_factories (c_inst c)) n) as [fa|] eqn:EF.
    + eapply WF; try eassumption. eapply fac_get_ok; [apply Hi|exact EF].
    + destruct (fs_get fs _); [|injection H as <- <-; exists F, V; split; [now apply T_refl|intros lib E; discriminate]].
      destruct (read_file fs _) as [text|kk ll|x|];
        try (injection H as <- <-; exists F, V; split; [now apply T_refl|intros lib E; discriminate]).
      apply ibind_inv in H; [|exact N]. destruct H as [[fa [c1 [Hm Hk]]]|[ra [c1 [Hm [Fa [-> Hno]]]]]].
      * unfold factory_from_text in Hm. pose proof (find_library_same _ _ _ _ _ _ Hm) as [E1 E2].
        assert (Hfa : factory_ok F V fa) by (destruct (find_library_ast _ _ _ _ _ _ Hm) as [decls ->]; exact I).
        eapply (lib_result_same_st F V c (with_inst c1 (set_factories (c_inst c1) (lib_set (i_factories (c_inst c1)) n fa))));
          [cbn; now rewrite E1|].
        eapply WF; [exact Hk|exact N|exact Hfa|cbn; rewrite E1; exact Hst|].
        cbn. rewrite E2. destruct Hi as [A [B C]]. split; [exact A|]. split; [exact B|].
        cbn. apply (lib_set_Forall (factory_ok F V)); assumption.
      * unfold factory_from_text in Hm. pose proof (find_library_same _ _ _ _ _ _ Hm) as [E1 E2].
        exists F, V. split; [|intros lib E; exfalso; exact (Hno lib E)].
        split; [rewrite E1; now apply step_ok_refl|rewrite E2; exact Hi].
  - (* eval_import *)
    intros fs cwd efuel sets env c r c' F V H N Hst Hi He. rewrite eval_import_S in H. cbv zeta in H.
    match type of H with
    | ibind (?collect sets [] c) _ = _ =>
        assert (G : forall ss acc c0 r0 c0' F0 V0, collect ss acc c0 = (r0, c0') -> noF r0 ->
                   stok F0 V0 (c_st c0) -> inst_ok F0 V0 (c_inst c0) -> lib_ok F0 V0 acc ->
                   lib_result F0 V0 c0 r0 c0')
    end.
    { clear H. induction ss as [|x rest IHs]; intros acc c0 r0 c0' F0 V0 E N0 Hst0 Hi0 Hacc; cbn in E.
      - injection E as <- <-. exists F0, V0. split; [now apply T_refl|]. intros lib E. injection E as <-. exact Hacc.
      - apply ibind_inv in E; [|exact N0]. destruct E as [[defs [c1 [Hm Hk]]]|[ra [c1 [Hm [Fa [-> Hno]]]]]].
        + destruct (g_set f IH _ _ _ _ _ _ _ F0 V0 Hm ltac:(discriminate) Hst0 Hi0) as [F1 [V1 [[S1 I1] R1]]].
          assert (Hacc1 : lib_ok F1 V1 acc).
          { eapply lib_ok_mono; [eapply step_ok_inclF; exact S1|eapply step_ok_inclV; exact S1|exact Hacc]. }
          destruct (IHs _ _ _ _ F1 V1 Hk N0 (step_ok_V _ _ _ _ _ _ S1) I1
                      (fold_alist_set_ok F1 V1 defs acc (R1 defs eq_refl) Hacc1)) as [F2 [V2 [T2 R2]]].
          exists F2, V2. split; [eapply T_trans; [split; eassumption|exact T2]|exact R2].
        + destruct (g_set f IH _ _ _ _ _ _ _ F0 V0 Hm (failed_noF _ Fa) Hst0 Hi0) as [F1 [V1 [T1 R1]]].
          exists F1, V1. split; [exact T1|]. intros lib E. exfalso. exact (Hno lib E). }
    apply ibind_inv in H; [|exact N]. destruct H as [[defs [c1 [Hm Hk]]]|[ra [c1 [Hm [Fa [-> Hno]]]]]].
    + destruct (G _ _ _ _ _ F V Hm ltac:(discriminate) Hst Hi ltac:(constructor)) as [F1 [V1 [[S1 I1] R1]]].
      injection Hk as <- <-. exists F1, V1. split; cbn; [|exact I1].
      eapply step_ok_trans; [exact S1|].
      apply fold_define_ok; [exact (step_ok_V _ _ _ _ _ _ S1)|eapply step_ok_inclF; [exact S1|exact He]|now apply R1].
    + destruct (G _ _ _ _ _ F V Hm (failed_noF _ Fa) Hst Hi ltac:(constructor)) as [F1 [V1 [T1 R1]]].
      exists F1, V1. exact T1.
  - (* eval_library_definition *)
    intros fs cwd efuel decls c r c' F V H N Hst Hi. rewrite eval_library_definition_S in H.
    destruct (alloc_frame_ok F V (c_st c) None Hst ltac:(intros q E; discriminate)) as [S0 Hloc].
    destruct (alloc_frame (c_st c) None) as [lib_env st0] eqn:EA. cbn [fst snd] in S0, Hloc. cbv zeta in H.
    set (F0 := ext F (length (frames (c_st c))) (S (length (frames (c_st c))))) in *.
    assert (Hi0 : inst_ok F0 V (c_inst c)).
    { eapply inst_ok_mono; [eapply step_ok_inclF; exact S0|eapply step_ok_inclV; exact S0|exact Hi]. }
    (* the statements of a begin block *)
    assert (GS : forall body c0 r0 c0' F1 V1,
               (fix stmts (l : list stmt) (c : ictx) {struct l} : ires unit :=
                  match l with
                  | [] => (Ok tt, c)
                  | x :: r => doi (_, c1) <- eval_expr_or_def efuel x lib_env c ;; stmts r c1
                  end) body c0 = (r0, c0') -> noF r0 ->
               stok F1 V1 (c_st c0) -> inst_ok F1 V1 (c_inst c0) -> F1 lib_env ->
               exists F2 V2, T F1 V1 c0 c0' F2 V2).
    { induction body as [|x b IHb]; intros c0 r0 c0' F1 V1 E N0 Hst1 Hi1 He1; cbn in E.
      - injection E as <- <-. exists F1, V1. now apply T_refl.
      - apply ibind_inv in E; [|exact N0]. destruct E as [[u [c1 [Hm Hk]]]|[ra [c1 [Hm [Fa [-> Hno]]]]]].
        + destruct (eval_expr_or_def_region _ _ _ _ _ _ F1 V1 Hm ltac:(discriminate) Hst1 Hi1 He1) as [F2 [V2 [[S2 I2] _]]].
          destruct (IHb _ _ _ F2 V2 Hk N0 (step_ok_V _ _ _ _ _ _ S2) I2 (step_ok_inclF _ _ _ _ _ _ S2 _ He1)) as [F3 [V3 T3]].
          exists F3, V3. eapply T_trans; [split; eassumption|exact T3].
        + destruct (eval_expr_or_def_region _ _ _ _ _ _ F1 V1 Hm (failed_noF _ Fa) Hst1 Hi1 He1) as [F2 [V2 [T2 _]]].
          exists F2, V2. exact T2. }
    (* the declarations *)
    match type of H with
    | ibind (?run decls [] ?c0) _ = _ =>
        assert (GR : forall ds exports c1 r1 c1' F1 V1, run ds exports c1 = (r1, c1') -> noF r1 ->
                   stok F1 V1 (c_st c1) -> inst_ok F1 V1 (c_inst c1) -> F1 lib_env ->
                   exists F2 V2, T F1 V1 c1 c1' F2 V2 /\ F2 lib_env)
    end.
    { induction ds as [|d rest IHd]; intros exports c1 r1 c1' F1 V1 E N1 Hst1 Hi1 He1; cbn in E.
      - injection E as <- <-. exists F1, V1. split; [now apply T_refl|exact He1].
      - destruct d as [sets l|specs l|body l].
        + apply ibind_inv in E; [|exact N1]. destruct E as [[u [c2 [Hm Hk]]]|[ra [c2 [Hm [Fa [-> Hno]]]]]].
          * destruct (g_imp f IH _ _ _ _ _ _ _ _ F1 V1 Hm ltac:(discriminate) Hst1 Hi1 He1) as [F2 [V2 [S2 I2]]].
            destruct (IHd _ _ _ _ F2 V2 Hk N1 (step_ok_V _ _ _ _ _ _ S2) I2 (step_ok_inclF _ _ _ _ _ _ S2 _ He1))
              as [F3 [V3 [T3 He3]]].
            exists F3, V3. split; [eapply T_trans; [split; eassumption|exact T3]|exact He3].
          * destruct (g_imp f IH _ _ _ _ _ _ _ _ F1 V1 Hm (failed_noF _ Fa) Hst1 Hi1 He1) as [F2 [V2 [S2 I2]]].
            exists F2, V2. split; [split; assumption|exact (step_ok_inclF _ _ _ _ _ _ S2 _ He1)].
        + eapply IHd; eassumption.
        + apply ibind_inv in E; [|exact N1]. destruct E as [[u [c2 [Hm Hk]]]|[ra [c2 [Hm [Fa [-> Hno]]]]]].
          * destruct (GS _ _ _ _ F1 V1 Hm ltac:(discriminate) Hst1 Hi1 He1) as [F2 [V2 [S2 I2]]].
            destruct (IHd _ _ _ _ F2 V2 Hk N1 (step_ok_V _ _ _ _ _ _ S2) I2 (step_ok_inclF _ _ _ _ _ _ S2 _ He1))
              as [F3 [V3 [T3 He3]]].
            exists F3, V3. split; [eapply T_trans; [split; eassumption|exact T3]|exact He3].
          * destruct (GS _ _ _ _ F1 V1 Hm (failed_noF _ Fa) Hst1 Hi1 He1) as [F2 [V2 [S2 I2]]].
            exists F2, V2. split; [split; assumption|exact (step_ok_inclF _ _ _ _ _ _ S2 _ He1)]. }
    apply ibind_inv in H; [|exact N]. destruct H as [[exports [c1 [Hm Hk]]]|[ra [c1 [Hm [Fa [-> Hno]]]]]].
    + destruct (GR _ _ _ _ _ F0 V Hm ltac:(discriminate) (step_ok_V _ _ _ _ _ _ S0) Hi0 Hloc) as [F2 [V2 [[S2 I2] He2]]].
      injection Hk as <- <-. exists F2, V2. split; [split; [eapply step_ok_trans; [exact S0|exact S2]|exact I2]|].
      (* the exports are values read from the library frame *)
      assert (GE : forall xs acc lib, lib_ok F2 V2 acc ->
                 (fix export (xs : list export_spec) (acc : library) {struct xs} : res library :=
                    match xs with
                    | [] => Ok acc
                    | x :: r =>
                        let '(from, to, l) := match x with XDirect a l => (a, a, l) | XRename a b l => (a, b, l) end in
                        match env_get (c_st c1) lib_env from with
                        | Some v => export r (alist_set acc to v)
                        | None => lerr UnboundedSymbol l
                        end
                    end) xs acc = Ok lib -> lib_ok F2 V2 lib).
      { induction xs as [|x r0 IHx]; intros acc lib Hacc E.
        - cbn in E. injection E as <-. exact Hacc.
        - destruct x as [a l|a b l]; cbn in E.
          + destruct (env_get (c_st c1) lib_env a) as [v|] eqn:EG; [|unfold lerr in E; discriminate].
            eapply IHx; [|exact E]. apply alist_set_Forall; [exact Hacc|].
            eapply env_get_ok; [exact (step_ok_V _ _ _ _ _ _ S2)|exact He2|exact EG].
          + destruct (env_get (c_st c1) lib_env a) as [v|] eqn:EG; [|unfold lerr in E; discriminate].
            eapply IHx; [|exact E]. apply alist_set_Forall; [exact Hacc|].
            eapply env_get_ok; [exact (step_ok_V _ _ _ _ _ _ S2)|exact He2|exact EG]. }
      intros lib E. eapply GE; [constructor|exact E].
    + destruct (GR _ _ _ _ _ F0 V Hm (failed_noF _ Fa) (step_ok_V _ _ _ _ _ _ S0) Hi0 Hloc) as [F2 [V2 [[S2 I2] He2]]].
      exists F2, V2. split; [split; [eapply step_ok_trans; [exact S0|exact S2]|exact I2]|].
      intros lib E. exfalso. exact (Hno lib E).
Qed.

Transparent env_get.

Theorem loader_region_all : forall f, loader_region f.
Proof. induction f; [exact loader_region_0|now apply loader_region_step]. Qed.

(** * a top-level form through an instance *)

Lemma relocate_noF : forall {A} (r : res A) l, noF (relocate r l) -> noF r.
Proof. intros A [a|k l0|x|] l N; cbn in *; try discriminate. exact N. Qed.

Theorem eval_ast_region : forall fs cwd efuel stm c r c' F V,
  eval_ast fs cwd efuel stm (i_env (c_inst c)) c = (r, c') -> noF r ->
  stok F V (c_st c) -> inst_ok F V (c_inst c) ->
  exists F' V', T F V c c' F' V'.
Proof.
  intros fs cwd efuel stm c r c' F V H N Hst Hi. unfold eval_ast in H.
  assert (He : F (i_env (c_inst c))) by apply Hi.
  destruct (negb (i_import_end (c_inst c))).
  - destruct stm as [sets l|x e l|kw t l|e|n decls l].
    + (* import *)
      destruct (eval_import fs cwd (import_fuel c) efuel sets (i_env (c_inst c)) c) as [r1 c1] eqn:EI.
      cbn in H.
      assert (N1 : noF r1).
      { destruct r1; cbn in H; injection H as <- <-; try discriminate. exfalso. now apply N. }
      destruct (g_imp _ (loader_region_all _) _ _ _ _ _ _ _ _ F V EI N1 Hst Hi He) as [F1 [V1 T1]].
      exists F1, V1. destruct r1; cbn in H; injection H as <- <-; exact T1.
    + destruct (eval_expr_or_def efuel (SDef x e l) (i_env (c_inst c)) (with_inst c (set_import_end (c_inst c) true)))
        as [r1 c1] eqn:EE. injection H as <- <-.
      destruct (eval_expr_or_def_region _ _ _ _ _ _ F V EE (relocate_noF _ _ N) Hst Hi He) as [F1 [V1 [T1 _]]].
      exists F1, V1. exact T1.
    + destruct (eval_expr_or_def efuel (SSyntaxDef kw t l) (i_env (c_inst c)) (with_inst c (set_import_end (c_inst c) true)))
        as [r1 c1] eqn:EE. injection H as <- <-.
      destruct (eval_expr_or_def_region _ _ _ _ _ _ F V EE (relocate_noF _ _ N) Hst Hi He) as [F1 [V1 [T1 _]]].
      exists F1, V1. exact T1.
    + destruct (eval_expr_or_def efuel (SExpr e) (i_env (c_inst c)) (with_inst c (set_import_end (c_inst c) true)))
        as [r1 c1] eqn:EE. injection H as <- <-.
      destruct (eval_expr_or_def_region _ _ _ _ _ _ F V EE (relocate_noF _ _ N) Hst Hi He) as [F1 [V1 [T1 _]]].
      exists F1, V1. exact T1.
    + injection H as <- <-. exists F, V. now apply T_refl.
  - destruct (eval_expr_or_def efuel stm (i_env (c_inst c)) c) as [r1 c1] eqn:EE. injection H as <- <-.
    destruct (eval_expr_or_def_region _ _ _ _ _ _ F V EE (relocate_noF _ _ N) Hst Hi He) as [F1 [V1 [T1 _]]].
    exists F1, V1. exact T1.
Qed.

(** two instances with disjoint regions over one store: a top-level form - an import, a definition, an
    expression - evaluated through the first leaves the second instance's region exactly as it was,
    and both remain well-formed and disjoint *)
Theorem two_instances : forall fs cwd efuel stm c r c' F1 V1 i2 F2 V2,
  eval_ast fs cwd efuel stm (i_env (c_inst c)) c = (r, c') -> noF r ->
  stok F1 V1 (c_st c) -> inst_ok F1 V1 (c_inst c) ->
  stok F2 V2 (c_st c) -> inst_ok F2 V2 i2 -> disjoint F1 F2 -> disjoint V1 V2 ->
  exists F1' V1',
    stok F1' V1' (c_st c') /\ inst_ok F1' V1' (c_inst c') /\
    stok F2 V2 (c_st c') /\ inst_ok F2 V2 i2 /\ disjoint F1' F2 /\ disjoint V1' V2 /\
    (forall a, F2 a -> nth_error (frames (c_st c')) a = nth_error (frames (c_st c)) a) /\
    (forall x, V2 x -> nth_error (vectors (c_st c')) x = nth_error (vectors (c_st c)) x).
Proof.
  intros fs cwd efuel stm c r c' F1 V1 i2 F2 V2 H N H1 I1 H2 I2 DF DV.
  destruct (eval_ast_region _ _ _ _ _ _ _ F1 V1 H N H1 I1) as [F1' [V1' [[IF [NF [IV [NV [Hst' [[UF UV] G]]]]]] I1']]].
  assert (KF : forall a, F2 a -> nth_error (frames (c_st c')) a = nth_error (frames (c_st c)) a).
  { intros a Ha. apply UF; [eapply F_lt; eassumption|]. intro Hb. exact (DF a Hb Ha). }
  assert (KV : forall x, V2 x -> nth_error (vectors (c_st c')) x = nth_error (vectors (c_st c)) x).
  { intros x Hx. apply UV; [eapply V_lt; eassumption|]. intro Hb. exact (DV x Hb Hx). }
  exists F1', V1'.
  split; [exact Hst'|]. split; [exact I1'|]. split.
  { split.
    - intros a Ha. rewrite (KF a Ha). exact (proj1 H2 a Ha).
    - intros x Hx. rewrite (KV x Hx). exact (proj2 H2 x Hx). }
  split; [exact I2|]. split.
  { intros a Ha Hb. destruct (NF a Ha) as [Hx|Hx]; [exact (DF a Hx Hb)|].
    pose proof (F_lt _ _ _ _ H2 Hb). lia. }
  split.
  { intros x Hx Hb. destruct (NV x Hx) as [Hy|Hy]; [exact (DV x Hy Hb)|].
    pose proof (V_lt _ _ _ _ H2 Hb). lia. }
  split; assumption.
Qed.
