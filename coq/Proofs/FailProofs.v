(** C08: completeness of the evaluator for failures. Whenever the rules of Spec/EvalSpec.v assign a
    failure (an error, or a panic where the code would panic) to an expression, the trampolined
    evaluator answers, for every sufficiently large fuel, with a failure and reaches exactly the
    state the rules give: a faulting program is stopped, never continued with an invented value,
    and the effects completed before the fault are exactly those of the rules. (Which of two errors
    is reported when an operand faults AND the operator is not a procedure is left open by the rules;
    therefore "a failure", not "the failure".)  Consequence: the rules never assign both a value and
    a failure to the same expression. *)
From Coq Require Import ZArith NArith List Bool Lia PeanoNat.
From RV Require Import Model.Common Model.Real32 Model.Num Model.Datum Model.Macro Model.Ast
  Model.Value Model.Builtins Model.Eval Spec.EvalSpec Proofs.Basics Proofs.StoreProofs Proofs.EvalProofs
  Proofs.FuelProofs.
Import ListNotations.

Definition fstable {A} (g : nat -> eres A) (st' : state) : Prop :=
  exists r', failed r' /\ stable g (r', st').

(** what the trampoline does with a deferred call *)
Definition call_k (f : nat) (fe : expr) (aes : list expr) (last_env env0 : nat) (st1 : state) : eres value :=
  doe (first, st2) <- eval_expr f fe last_env st1 ;;
  doe (vs, st3) <- eval_args f aes last_env st2 ;;
  match first with
  | VProcU _ _ _ _ | VProcB _ => tramp f first vs env0 st3
  | _ => (lerr TypeMisMatch (eloc fe), st3)
  end.

Definition tail_fails (g : nat -> eres tailres) (st' : state) : Prop :=
  fstable g st' \/
  exists fe aes env1 st1, stable g (Ok (TRCall fe aes env1), st1) /\
    forall env0, fstable (fun f => call_k f fe aes env1 env0 st1) st'.

Definition F_ev (st : state) (env : nat) (e : expr) (r : res value) (st' : state) : Prop :=
  failed r -> fstable (fun f => eval_expr f e env st) st' /\ tail_fails (fun f => eval_tail f e env st) st'.
Definition F_evs (st : state) (env : nat) (es : list expr) (r : res (list value)) (st' : state) : Prop :=
  failed r -> fstable (fun f => eval_args f es env st) st'.
Definition F_app (st : state) (p : value) (args : list value) (r : res value) (st' : state) : Prop :=
  failed r -> forall env0, fstable (fun f => tramp f p args env0 st) st'.
Definition F_evproc (st : state) fm defs body closure args (r : res value) (st' : state) : Prop :=
  failed r -> tail_fails (fun f => apply_scheme f fm defs body closure args st) st'.
Definition F_evdefs (st : state) (env : nat) defs (r : res unit) (st' : state) : Prop :=
  failed r -> fstable (fun f => eval_defs f defs env st) st'.
Definition F_evbody (st : state) (env : nat) body (r : res value) (st' : state) : Prop :=
  failed r -> tail_fails (fun f => eval_body f body env st) st'.

Lemma ebind_failed : forall {A B} (r : res A) st (k : A -> state -> eres B),
  failed r -> exists r', failed r' /\ ebind (r, st) k = (r', st).
Proof.
  intros A B [a|kk l|x|] st k F; cbn in *; try contradiction.
  - exists (Err kk l). now split.
  - exists (Panic x). now split.
Qed.

Lemma failed_refail_inv : forall {A B} (r : res A), failed (@refail A B r) -> r <> OutOfFuel.
Proof. intros A B [a|k l|x|] F; cbn in *; try discriminate. contradiction. Qed.

(** a failing evaluation of an expression that is neither a call nor a conditional fails as a tail expression *)
Lemma tail_fails_of_expr : forall e env st st',
  (forall fe args l, e <> ECall fe args l) -> (forall c t a l, e <> EIf c t a l) ->
  fstable (fun f => eval_expr f e env st) st' ->
  tail_fails (fun f => eval_tail f e env st) st'.
Proof.
  intros e env st st' NC NI [r' [F [n H]]]. left.
  destruct (ebind_failed r' st' (fun v st1 => (Ok (TRValue v), st1)) F) as [r2 [F2 E2]].
  exists r2. split; [exact F2|]. apply (stable_step _ _ n). intros f L.
  rewrite eval_tail_S. destruct e; try (rewrite (H f L); exact E2).
  - exfalso. eapply NC; reflexivity.
  - exfalso. eapply NI; reflexivity.
Qed.

Lemma stable_max : forall {A} (g : nat -> eres A) x n, stable g x -> exists m, n <= m /\ forall f, m <= f -> g f = x.
Proof. intros A g x n [m H]. exists (Nat.max n m). split; [lia|]. intros f L. apply H. lia. Qed.

Ltac complete_ev D n H :=
  let S1 := fresh in
  destruct (proj1 complete_all _ _ _ _ _ D _ eq_refl) as [[n H] _].
Ltac complete_evs D n H :=
  destruct (proj1 (proj2 complete_all) _ _ _ _ _ D _ eq_refl) as [n H].
Ltac complete_evdefs D n H :=
  destruct (proj1 (proj2 (proj2 (proj2 (proj2 complete_all)))) _ _ _ _ _ D _ eq_refl) as [n H].

Theorem fail_complete_all :
  (forall st env e r st', ev st env e r st' -> F_ev st env e r st') /\
  (forall st env es r st', evs st env es r st' -> F_evs st env es r st') /\
  (forall st p args r st', app st p args r st' -> F_app st p args r st') /\
  (forall st fm defs body closure args r st',
      evproc st fm defs body closure args r st' -> F_evproc st fm defs body closure args r st') /\
  (forall st env defs r st', evdefs st env defs r st' -> F_evdefs st env defs r st') /\
  (forall st env body r st', evbody st env body r st' -> F_evbody st env body r st').
Proof.
  apply ev_mutind.
  - (* ev_prim *)
    intros st env p l F.
    assert (S1 : fstable (fun f => eval_expr f (EPrim p l) env st) st).
    { exists (eval_primitive p). split; [exact F|]. apply (stable_step _ _ 0). intros f _. now rewrite eval_expr_S. }
    split; [exact S1|]. apply tail_fails_of_expr; [discriminate|discriminate|exact S1].
  - (* ev_datum *)
    intros st env d l r st' H F.
    assert (S1 : fstable (fun f => eval_expr f (EDatum d l) env st) st').
    { exists r. split; [exact F|]. apply (stable_step _ _ 0). intros f _. now rewrite eval_expr_S. }
    split; [exact S1|]. apply tail_fails_of_expr; [discriminate|discriminate|exact S1].
  - (* ev_quote *)
    intros st env d l r st' H F.
    assert (S1 : fstable (fun f => eval_expr f (EQuote d l) env st) st').
    { exists r. split; [exact F|]. apply (stable_step _ _ 0). intros f _. now rewrite eval_expr_S. }
    split; [exact S1|]. apply tail_fails_of_expr; [discriminate|discriminate|exact S1].
  - (* ev_sym *) intros; intros F; contradiction.
  - (* ev_sym_unbound *)
    intros st env x l H F.
    assert (S1 : fstable (fun f => eval_expr f (ESym x l) env st) st).
    { exists (Err UnboundedSymbol l). split; [exact I|]. apply (stable_step _ _ 0). intros f _.
      rewrite eval_expr_S. now rewrite H. }
    split; [exact S1|]. apply tail_fails_of_expr; [discriminate|discriminate|exact S1].
  - (* ev_lambda *) intros; intros F; contradiction.
  - (* ev_set *) intros; intros F; contradiction.
  - (* ev_set_unbound *)
    intros st env x e l v st1 D _ Hs F. complete_ev D n Hn.
    assert (S1 : fstable (fun f => eval_expr f (ESet x e l) env st) st1).
    { exists (Err UnboundedSymbol None). split; [exact I|]. apply (stable_step _ _ n). intros f L.
      rewrite eval_expr_S, (Hn f L). cbn. now rewrite Hs. }
    split; [exact S1|]. apply tail_fails_of_expr; [discriminate|discriminate|exact S1].
  - (* ev_set_fail *)
    intros st env x e l r st1 _ IH Fr _. destruct (IH Fr) as [[r' [F' [n Hn]]] _].
    assert (S1 : fstable (fun f => eval_expr f (ESet x e l) env st) st1).
    { destruct (ebind_failed r' st1 (fun v st1 => match env_set st1 env x v with
                                                   | Some st2 => (Ok VVoid, st2)
                                                   | None => (err UnboundedSymbol, st1) end) F') as [r2 [F2 E2]].
      exists r2. split; [exact F2|]. apply (stable_step _ _ n). intros f L. rewrite eval_expr_S, (Hn f L). exact E2. }
    split; [exact S1|]. apply tail_fails_of_expr; [discriminate|discriminate|exact S1].
  - (* ev_if_true *)
    intros st env c t alt l cv st1 r st2 Dc _ Ht _ IHt F. complete_ev Dc n1 H1.
    destruct (IHt F) as [[r' [F' [n2 H2]]] T]. split.
    + exists r'. split; [exact F'|]. apply (stable_step _ _ (Nat.max n1 n2)). intros f L.
      rewrite eval_expr_S, (H1 f ltac:(lia)). cbn. rewrite Ht. apply H2. lia.
    + destruct T as [[r2 [F2 [n3 H3]]]|[fe [aes [env1 [st3 [[n3 H3] D]]]]]].
      * left. exists r2. split; [exact F2|]. apply (stable_step _ _ (Nat.max n1 n3)). intros f L.
        rewrite eval_tail_S, (H1 f ltac:(lia)). cbn. rewrite Ht. apply H3. lia.
      * right. exists fe, aes, env1, st3. split; [|exact D].
        apply (stable_step _ _ (Nat.max n1 n3)). intros f L.
        rewrite eval_tail_S, (H1 f ltac:(lia)). cbn. rewrite Ht. apply H3. lia.
  - (* ev_if_false *)
    intros st env c t a l cv st1 r st2 Dc _ Ht _ IHt F. complete_ev Dc n1 H1.
    destruct (IHt F) as [[r' [F' [n2 H2]]] T]. split.
    + exists r'. split; [exact F'|]. apply (stable_step _ _ (Nat.max n1 n2)). intros f L.
      rewrite eval_expr_S, (H1 f ltac:(lia)). cbn. rewrite Ht. apply H2. lia.
    + destruct T as [[r2 [F2 [n3 H3]]]|[fe [aes [env1 [st3 [[n3 H3] D]]]]]].
      * left. exists r2. split; [exact F2|]. apply (stable_step _ _ (Nat.max n1 n3)). intros f L.
        rewrite eval_tail_S, (H1 f ltac:(lia)). cbn. rewrite Ht. apply H3. lia.
      * right. exists fe, aes, env1, st3. split; [|exact D].
        apply (stable_step _ _ (Nat.max n1 n3)). intros f L.
        rewrite eval_tail_S, (H1 f ltac:(lia)). cbn. rewrite Ht. apply H3. lia.
  - (* ev_if_false_none *) intros; intros F; contradiction.
  - (* ev_if_fail *)
    intros st env c t alt l r st1 _ IH Fr _. destruct (IH Fr) as [[r' [F' [n Hn]]] _]. split.
    + destruct (ebind_failed r' st1 (fun cv st1 => if truthy cv then eval_expr 0 t env st1 else (Ok VVoid, st1)) F')
        as [r2 [F2 _]].
      exists (match r' with Err k l0 => Err k l0 | Panic x => Panic x | _ => Panic PUnmodelled end).
      split; [destruct r'; cbn in *; auto|].
      apply (stable_step _ _ n). intros f L. rewrite eval_expr_S, (Hn f L).
      destruct r'; cbn in *; try contradiction; reflexivity.
    + left. exists (match r' with Err k l0 => Err k l0 | Panic x => Panic x | _ => Panic PUnmodelled end).
      split; [destruct r'; cbn in *; auto|].
      apply (stable_step _ _ n). intros f L. rewrite eval_tail_S, (Hn f L).
      destruct r'; cbn in *; try contradiction; reflexivity.
  - (* ev_call *)
    intros st env fe args l fv st1 vs st2 r st3 Df _ Da _ Hp _ IHapp F.
    complete_ev Df n1 H1. complete_evs Da n2 H2. pose proof (IHapp F) as HT. split.
    + destruct (HT env) as [r' [F' [n3 H3]]]. exists r'. split; [exact F'|].
      apply (stable_step _ _ (S (Nat.max n1 (Nat.max n2 n3)))). intros f L.
      rewrite eval_expr_S, (H1 f ltac:(lia)). cbn. rewrite (H2 f ltac:(lia)).
      destruct f; [lia|].
      destruct fv; try discriminate Hp; cbn [ebind]; rewrite apply_proc_S; apply H3; lia.
    + right. exists fe, args, env, st. split.
      * apply (stable_step _ _ 0). intros f _. now rewrite eval_tail_S.
      * intros env0. destruct (HT env0) as [r' [F' [n3 H3]]]. exists r'. split; [exact F'|].
        exists (Nat.max n1 (Nat.max n2 n3)). intros f L. unfold call_k.
        rewrite (H1 f ltac:(lia)). cbn. rewrite (H2 f ltac:(lia)). cbn.
        destruct fv; try discriminate Hp; apply H3; lia.
  - (* ev_call_fail_operator *)
    intros st env fe args l r st1 _ IH Fr _. destruct (IH Fr) as [[r' [F' [n Hn]]] _].
    set (r2 := match r' with Err k l0 => @Err value k l0 | Panic x => Panic x | _ => Panic PUnmodelled end).
    assert (F2 : failed r2) by (destruct r'; cbn in *; auto).
    split.
    + exists r2. split; [exact F2|]. apply (stable_step _ _ n). intros f L. rewrite eval_expr_S, (Hn f L).
      destruct r'; cbn in *; try contradiction; reflexivity.
    + right. exists fe, args, env, st. split.
      * apply (stable_step _ _ 0). intros f _. now rewrite eval_tail_S.
      * intros env0. exists r2. split; [exact F2|]. exists n. intros f L. unfold call_k. rewrite (Hn f L).
        destruct r'; cbn in *; try contradiction; reflexivity.
  - (* ev_call_fail_operand *)
    intros st env fe args l fv st1 r st2 Df _ _ IHa Fr _. complete_ev Df n1 H1.
    destruct (IHa Fr) as [ra [Fa [n2 H2]]].
    split.
    + exists (match fv with
              | VProcU _ _ _ _ | VProcB _ => match ra with Err k l0 => Err k l0 | Panic x => Panic x | _ => Panic PUnmodelled end
              | _ => Err TypeMisMatch (eloc fe)
              end).
      split; [destruct fv; destruct ra; cbn in *; auto|].
      apply (stable_step _ _ (Nat.max n1 n2)). intros f L.
      rewrite eval_expr_S, (H1 f ltac:(lia)). cbn. rewrite (H2 f ltac:(lia)).
      destruct fv; destruct ra; cbn in *; try contradiction; reflexivity.
    + right. exists fe, args, env, st. split.
      * apply (stable_step _ _ 0). intros f _. now rewrite eval_tail_S.
      * intros env0.
        exists (match ra with Err k l0 => @Err value k l0 | Panic x => Panic x | _ => Panic PUnmodelled end).
        split; [destruct ra; cbn in *; auto|].
        exists (Nat.max n1 n2). intros f L. unfold call_k.
        rewrite (H1 f ltac:(lia)). cbn. rewrite (H2 f ltac:(lia)).
        destruct ra; cbn in *; try contradiction; reflexivity.
  - (* ev_call_not_procedure *)
    intros st env fe args l fv st1 r st2 l' Df _ Da IHa Nr Hp _ _. complete_ev Df n1 H1.
    assert (HA : exists ra n2, (forall f, n2 <= f -> eval_args f args env st1 = (ra, st2)) /\ ra <> OutOfFuel).
    { destruct r as [vs|k l0|x|].
      - complete_evs Da n2 H2. exists (Ok vs), n2. split; [exact H2|discriminate].
      - destruct (IHa I) as [ra [Fa [n2 H2]]]. exists ra, n2. split; [exact H2|]. now apply failed_noF.
      - destruct (IHa I) as [ra [Fa [n2 H2]]]. exists ra, n2. split; [exact H2|]. now apply failed_noF.
      - now elim Nr. }
    destruct HA as [ra [n2 [H2 Nra]]].
    split.
    + exists (Err TypeMisMatch (eloc fe)). split; [exact I|].
      apply (stable_step _ _ (Nat.max n1 n2)). intros f L.
      rewrite eval_expr_S, (H1 f ltac:(lia)). cbn. rewrite (H2 f ltac:(lia)).
      destruct fv; try discriminate Hp; destruct ra; try reflexivity; now elim Nra.
    + right. exists fe, args, env, st. split.
      * apply (stable_step _ _ 0). intros f _. now rewrite eval_tail_S.
      * intros env0.
        exists (match ra with Ok _ => Err TypeMisMatch (eloc fe) | Err k l0 => Err k l0 | Panic x => Panic x | _ => Panic PUnmodelled end).
        split; [destruct ra; cbn; auto; now elim Nra|].
        exists (Nat.max n1 n2). intros f L. unfold call_k.
        rewrite (H1 f ltac:(lia)). cbn. rewrite (H2 f ltac:(lia)).
        destruct ra; cbn; try reflexivity; [|now elim Nra].
        destruct fv; try discriminate Hp; reflexivity.
  - (* evs_nil *) intros; intros F; contradiction.
  - (* evs_cons *) intros; intros F; contradiction.
  - (* evs_fail_head *)
    intros st env e es r st1 _ IH Fr _. destruct (IH Fr) as [[r' [F' [n Hn]]] _].
    exists (match r' with Err k l0 => Err k l0 | Panic x => Panic x | _ => Panic PUnmodelled end).
    split; [destruct r'; cbn in *; auto|].
    apply (stable_step _ _ n). intros f L. rewrite eval_args_S, (Hn f L).
    destruct r'; cbn in *; try contradiction; reflexivity.
  - (* evs_fail_tail *)
    intros st env e es v st1 r st2 De _ _ IH Fr _. complete_ev De n1 H1.
    destruct (IH Fr) as [r' [F' [n2 H2]]].
    exists (match r' with Err k l0 => Err k l0 | Panic x => Panic x | _ => Panic PUnmodelled end).
    split; [destruct r'; cbn in *; auto|].
    apply (stable_step _ _ (Nat.max n1 n2)). intros f L. rewrite eval_args_S, (H1 f ltac:(lia)). cbn.
    rewrite (H2 f ltac:(lia)). destruct r'; cbn in *; try contradiction; reflexivity.
  - (* app_unknown_builtin *)
    intros st name args Ha _ env0. exists (Panic PUnmodelled). split; [exact I|].
    apply (stable_step _ _ 0). intros f _. now rewrite tramp_S, Ha.
  - (* app_arity *)
    intros st p args fixed variadic Ha Hok _ env0. exists (Err ArgumentMissMatch None). split; [exact I|].
    apply (stable_step _ _ 0). intros f _. rewrite tramp_S, Ha, Hok. reflexivity.
  - (* app_builtin *)
    intros st name args fixed variadic r st' Ha Hok Hn Hb F env0. exists r. split; [exact F|].
    apply (stable_step _ _ 0). intros f _. rewrite tramp_S, Ha, Hok. cbn [negb]. now rewrite Hn.
  - (* app_apply_nil *)
    intros st p r st' Hp _ IH F env0. destruct (IH F env0) as [r' [F' [n Hn]]]. exists r'. split; [exact F'|].
    apply (stable_step _ _ (S (S n))). intros f L.
    rewrite tramp_S. cbn [proc_arity]. rewrite apply_arity. cbn. try rewrite str_eqb_refl.
    destruct f; [lia|]. rewrite builtin_apply_S.
    destruct f; [lia|].
    destruct p; try discriminate Hp; cbn [rev]; rewrite apply_proc_S; apply Hn; lia.
  - (* app_apply *)
    intros st p init last r st' Hp Hl _ IH F env0. destruct (IH F env0) as [r' [F' [n Hn]]].
    exists r'. split; [exact F'|].
    apply (stable_step _ _ (S (S n))). intros f L.
    rewrite tramp_S. cbn [proc_arity]. rewrite apply_arity.
    assert (HA : arity_ok (length (p :: init ++ [last])) 1 true = true).
    { unfold arity_ok. cbn [length]. rewrite orb_true_r, andb_true_r. reflexivity. }
    rewrite HA. cbn [negb]. rewrite str_eqb_refl.
    destruct f; [lia|]. rewrite builtin_apply_S.
    destruct f; [lia|].
    rewrite rev_app_distr. cbn [rev List.app].
    destruct p; try discriminate Hp;
      (destruct last; try discriminate Hl; rewrite rev_involutive, apply_proc_S; apply Hn; lia).
  - (* app_apply_not_list *)
    intros st p init last Hp Hl _ env0. exists (Err TypeMisMatch None). split; [exact I|].
    apply (stable_step _ _ 1). intros f L.
    rewrite tramp_S. cbn [proc_arity]. rewrite apply_arity.
    assert (HA : arity_ok (length (p :: init ++ [last])) 1 true = true).
    { unfold arity_ok. cbn [length]. rewrite orb_true_r, andb_true_r. reflexivity. }
    rewrite HA. cbn [negb]. rewrite str_eqb_refl.
    destruct f; [lia|]. rewrite builtin_apply_S.
    rewrite rev_app_distr. cbn [rev List.app].
    destruct p; try discriminate Hp; (destruct last; try discriminate Hl; reflexivity).
  - (* app_apply_not_procedure *)
    intros st p rest Hp _ env0. exists (Err TypeMisMatch None). split; [exact I|].
    apply (stable_step _ _ 1). intros f L.
    rewrite tramp_S. cbn [proc_arity]. rewrite apply_arity.
    assert (HA : arity_ok (length (p :: rest)) 1 true = true).
    { unfold arity_ok. cbn [length]. rewrite orb_true_r, andb_true_r. reflexivity. }
    rewrite HA. cbn [negb]. rewrite str_eqb_refl.
    destruct f; [lia|]. rewrite builtin_apply_S.
    destruct p; try reflexivity; discriminate Hp.
  - (* app_user *)
    intros st fm defs body closure args r st' Hok _ IH F env0.
    destruct (IH F) as [[r' [F' [n1 H1]]]|[fe [aes [env1 [st1 [[n1 H1] D]]]]]].
    + exists (match r' with Err k l0 => Err k l0 | Panic x => Panic x | _ => Panic PUnmodelled end).
      split; [destruct r'; cbn in *; auto|].
      apply (stable_step _ _ n1). intros f L. rewrite tramp_S. cbn [proc_arity]. rewrite Hok. cbn [negb].
      rewrite (H1 f L). destruct r'; cbn in *; try contradiction; reflexivity.
    + destruct (D env0) as [r' [F' [n2 H2]]]. exists r'. split; [exact F'|].
      apply (stable_step _ _ (Nat.max n1 n2)). intros f L.
      rewrite tramp_S. cbn [proc_arity]. rewrite Hok. cbn [negb].
      rewrite (H1 f ltac:(lia)). cbn [ebind]. apply (H2 f). lia.
  - (* evproc_body *)
    intros st fm defs body closure args surplus st1 st2 u st3 r st4 Hb Hst2 Dd _ _ IHb F.
    complete_evdefs Dd n1 H1.
    assert (Step : forall f, n1 <= f -> apply_scheme (S f) fm defs body closure args st = eval_body f body (fst (alloc_frame st (Some closure))) st3).
    { intros f L. rewrite apply_scheme_S.
      destruct (alloc_frame st (Some closure)) as [local st0] eqn:EA. cbn [fst snd] in *.
      rewrite Hb. rewrite <- Hst2. now rewrite (H1 f L). }
    destruct (IHb F) as [[r' [F' [n2 H2]]]|[fe [aes [env1 [st5 [[n2 H2] D]]]]]].
    + left. exists r'. split; [exact F'|]. apply (stable_step _ _ (Nat.max n1 n2)). intros f L.
      rewrite Step by lia. apply H2. lia.
    + right. exists fe, aes, env1, st5. split; [|exact D].
      apply (stable_step _ _ (Nat.max n1 n2)). intros f L. rewrite Step by lia. apply H2. lia.
  - (* evproc_defs_fail *)
    intros st fm defs body closure args surplus st1 st2 rd st3 Hb Hst2 _ IHd Fd _.
    destruct (IHd Fd) as [r' [F' [n1 H1]]]. left.
    exists (match r' with Err k l0 => Err k l0 | Panic x => Panic x | _ => Panic PUnmodelled end).
    split; [destruct r'; cbn in *; auto|].
    apply (stable_step _ _ n1). intros f L. rewrite apply_scheme_S.
    destruct (alloc_frame st (Some closure)) as [local st0] eqn:EA. cbn [fst snd] in *.
    rewrite Hb. rewrite <- Hst2. rewrite (H1 f L). destruct r'; cbn in *; try contradiction; reflexivity.
  - (* evproc_bind_fail *)
    intros st fm defs body closure args rb Hb Fb _. left.
    exists (match rb with Err k l0 => Err k l0 | Panic x => Panic x | _ => Panic PUnmodelled end).
    split; [destruct rb; cbn in *; auto|].
    apply (stable_step _ _ 0). intros f _. rewrite apply_scheme_S.
    destruct (alloc_frame st (Some closure)) as [local st0] eqn:EA. cbn [fst snd] in *.
    rewrite Hb. destruct rb as [[a b]|k l0|x|]; cbn in *; try contradiction; reflexivity.
  - (* evdefs_nil *) intros; intros F; contradiction.
  - (* evdefs_cons *)
    intros st env x e l ds v st1 r st2 De _ _ IHd F. complete_ev De n1 H1.
    destruct (IHd F) as [r' [F' [n2 H2]]]. exists r'. split; [exact F'|].
    apply (stable_step _ _ (Nat.max n1 n2)). intros f L. rewrite eval_defs_S, (H1 f ltac:(lia)). cbn. apply H2. lia.
  - (* evdefs_fail *)
    intros st env x e l ds r st1 _ IH Fr _. destruct (IH Fr) as [[r' [F' [n Hn]]] _].
    exists (match r' with Err k l0 => Err k l0 | Panic x => Panic x | _ => Panic PUnmodelled end).
    split; [destruct r'; cbn in *; auto|].
    apply (stable_step _ _ n). intros f L. rewrite eval_defs_S, (Hn f L).
    destruct r'; cbn in *; try contradiction; reflexivity.
  - (* evbody_empty *)
    intros st env _. left. exists (Panic PEmptyBody). split; [exact I|].
    apply (stable_step _ _ 0). intros f _. now rewrite eval_body_S.
  - (* evbody_last *)
    intros st env e r st' _ IH F. destruct (IH F) as [_ T].
    destruct T as [[r' [F' [n H]]]|[fe [aes [env1 [st1 [[n H] D]]]]]].
    + left. exists r'. split; [exact F'|]. apply (stable_step _ _ n). intros f L. rewrite eval_body_S. now apply H.
    + right. exists fe, aes, env1, st1. split; [|exact D].
      apply (stable_step _ _ n). intros f L. rewrite eval_body_S. now apply H.
  - (* evbody_cons *)
    intros st env e e2 es v st1 r st2 De _ _ IHb F. complete_ev De n1 H1.
    destruct (IHb F) as [[r' [F' [n2 H2]]]|[fe [aes [env1 [st3 [[n2 H2] D]]]]]].
    + left. exists r'. split; [exact F'|]. apply (stable_step _ _ (Nat.max n1 n2)). intros f L.
      rewrite eval_body_S, (H1 f ltac:(lia)). cbn. apply H2. lia.
    + right. exists fe, aes, env1, st3. split; [|exact D].
      apply (stable_step _ _ (Nat.max n1 n2)). intros f L.
      rewrite eval_body_S, (H1 f ltac:(lia)). cbn. apply H2. lia.
  - (* evbody_fail *)
    intros st env e e2 es r st1 _ IH Fr _. destruct (IH Fr) as [[r' [F' [n Hn]]] _]. left.
    exists (match r' with Err k l0 => Err k l0 | Panic x => Panic x | _ => Panic PUnmodelled end).
    split; [destruct r'; cbn in *; auto|].
    apply (stable_step _ _ n). intros f L. rewrite eval_body_S, (Hn f L).
    destruct r'; cbn in *; try contradiction; reflexivity.
Qed.

(** * consequences *)

(** a faulting expression is stopped: for every sufficiently large fuel the evaluator answers with a
    failure in exactly the state the rules give *)
Theorem ev_failure_complete : forall st env e r st', ev st env e r st' -> failed r ->
  exists r', failed r' /\ exists n, forall f, n <= f -> eval_expr f e env st = (r', st').
Proof.
  intros st env e r st' D F. destruct (proj1 fail_complete_all _ _ _ _ _ D F) as [[r' [F' S1]] _].
  exists r'. split; [exact F'|exact S1].
Qed.

(** whatever the evaluator answers (short of a timeout) for an expression the rules fault is a
    failure, with the state of the rules: never an invented value *)
Theorem failure_detected : forall fuel e env st r1 st1 r st',
  eval_expr fuel e env st = (r1, st1) -> noF r1 -> ev st env e r st' -> failed r ->
  failed r1 /\ st1 = st'.
Proof.
  intros fuel e env st r1 st1 r st' H N D F.
  destruct (ev_failure_complete _ _ _ _ _ D F) as [r' [F' [n Hn]]].
  pose proof (eval_expr_mono fuel (Nat.max fuel n) e env st r1 st1 ltac:(lia) H N) as H1.
  rewrite (Hn (Nat.max fuel n) ltac:(lia)) in H1. injection H1 as <- <-. now split.
Qed.

(** the rules never assign both a value and a failure to an expression, and all failures they
    assign reach the same state *)
Theorem ev_value_excludes_failure : forall st env e v st1 r st2,
  ev st env e (Ok v) st1 -> ev st env e r st2 -> failed r -> False.
Proof.
  intros st env e v st1 r st2 D1 D2 F.
  destruct (ev_complete _ _ _ _ _ D1) as [n1 H1]. destruct (ev_failure_complete _ _ _ _ _ D2 F) as [r' [F' [n2 H2]]].
  pose proof (H1 (Nat.max n1 n2) ltac:(lia)) as E. rewrite (H2 (Nat.max n1 n2) ltac:(lia)) in E.
  injection E as -> _. exact F'.
Qed.

Theorem ev_failure_state_unique : forall st env e r1 st1 r2 st2,
  ev st env e r1 st1 -> failed r1 -> ev st env e r2 st2 -> failed r2 -> st1 = st2.
Proof.
  intros st env e r1 st1 r2 st2 D1 F1 D2 F2.
  destruct (ev_failure_complete _ _ _ _ _ D1 F1) as [a [_ [n1 H1]]].
  destruct (ev_failure_complete _ _ _ _ _ D2 F2) as [b [_ [n2 H2]]].
  pose proof (H1 (Nat.max n1 n2) ltac:(lia)) as E. rewrite (H2 (Nat.max n1 n2) ltac:(lia)) in E.
  now injection E.
Qed.
