(** C01/C08: the trampolined evaluator of Model/Eval.v is sound for the direct-style
    big-step semantics of Spec/EvalSpec.v: whatever it returns (a value, an error or a panic,
    together with the state reached) is what the R7RS rules assign. *)
From Coq Require Import ZArith NArith List Bool Lia.
From RV Require Import Model.Common Model.Real32 Model.Num Model.Datum Model.Macro Model.Ast
  Model.Value Model.Builtins Model.Eval Spec.EvalSpec Proofs.Basics Proofs.StoreProofs.
Import ListNotations.

(** one-step unfoldings *)
Lemma eval_expr_S : forall f e env st, eval_expr (S f) e env st =
  match e with
  | EPrim p _ => (eval_primitive p, st)
  | EDatum d _ => read_literal d st
  | EQuote d _ => read_literal d st
  | ECall fe args _ =>
      doe (first, st1) <- eval_expr f fe env st ;;
      let '(rargs, st2) := eval_args f args env st1 in
      match first with
      | VProcU _ _ _ _ | VProcB _ =>
          doe (vs, st3) <- (rargs, st2) ;; apply_proc f first vs env st3
      | _ => match rargs with
             | OutOfFuel => (OutOfFuel, st2)
             | _ => (lerr TypeMisMatch (eloc fe), st2)
             end
      end
  | ESet x ve _ =>
      doe (v, st1) <- eval_expr f ve env st ;;
      match env_set st1 env x v with
      | Some st2 => (Ok VVoid, st2)
      | None => (err UnboundedSymbol, st1)
      end
  | ELambda fm defs body _ => (Ok (VProcU fm defs body env), st)
  | EIf c t alt _ =>
      doe (cv, st1) <- eval_expr f c env st ;;
      if truthy cv then eval_expr f t env st1
      else match alt with
           | Some a => eval_expr f a env st1
           | None => (Ok VVoid, st1)
           end
  | ESym x l =>
      match env_get st env x with
      | Some v => (Ok v, st)
      | None => (lerr UnboundedSymbol l, st)
      end
  end.
Proof. reflexivity. Qed.

Lemma eval_args_S : forall f args env st, eval_args (S f) args env st =
  match args with
  | [] => (Ok [], st)
  | a :: r =>
      doe (v, st1) <- eval_expr f a env st ;;
      doe (vs, st2) <- eval_args f r env st1 ;;
      (Ok (v :: vs), st2)
  end.
Proof. reflexivity. Qed.

Lemma eval_tail_S : forall f e env st, eval_tail (S f) e env st =
  match e with
  | ECall fe args _ => (Ok (TRCall fe args env), st)
  | EIf c t alt _ =>
      doe (cv, st1) <- eval_expr f c env st ;;
      if truthy cv then eval_tail f t env st1
      else match alt with
           | Some a => eval_tail f a env st1
           | None => (Ok (TRValue VVoid), st1)
           end
  | _ => doe (v, st1) <- eval_expr f e env st ;; (Ok (TRValue v), st1)
  end.
Proof. reflexivity. Qed.

Lemma apply_scheme_S : forall f fm defs body closure args st,
  apply_scheme (S f) fm defs body closure args st =
  (let '(local, st0) := alloc_frame st (Some closure) in
   match bind_fixed st0 local (f_fixed fm) args with
   | Ok (surplus, st1) =>
       let st2 := match f_rest fm with
                  | Some r => env_define st1 local r (vlist surplus)
                  | None => st1
                  end in
       doe (_, st3) <- eval_defs f defs local st2 ;;
       eval_body f body local st3
   | Err k l => (Err k l, st0)
   | Panic x => (Panic x, st0)
   | OutOfFuel => (OutOfFuel, st0)
   end).
Proof. reflexivity. Qed.

Lemma eval_defs_S : forall f defs env st, eval_defs (S f) defs env st =
  match defs with
  | [] => (Ok tt, st)
  | (x, e, _) :: r =>
      doe (v, st1) <- eval_expr f e env st ;;
      eval_defs f r env (env_define st1 env x v)
  end.
Proof. reflexivity. Qed.

Lemma eval_body_S : forall f body env st, eval_body (S f) body env st =
  match body with
  | [] => (Panic PEmptyBody, st)
  | [last] => eval_tail f last env st
  | e :: r => doe (_, st1) <- eval_expr f e env st ;; eval_body f r env st1
  end.
Proof. reflexivity. Qed.

Lemma apply_proc_S : forall f p args env st, apply_proc (S f) p args env st = tramp f p args env st.
Proof. reflexivity. Qed.

Lemma tramp_S : forall f p args env st, tramp (S f) p args env st =
  match proc_arity p with
  | None => (Panic PUnmodelled, st)
  | Some (fixed, variadic) =>
      if negb (arity_ok (length args) fixed variadic) then (err ArgumentMissMatch, st)
      else
        match p with
        | VProcB name =>
            if str_eqb name apply_name then builtin_apply f args env st
            else builtin_call name args st
        | VProcU fm defs body closure =>
            doe (tr, st1) <- apply_scheme f fm defs body closure args st ;;
            match tr with
            | TRValue v => (Ok v, st1)
            | TRCall fe aes last_env =>
                doe (first, st2) <- eval_expr f fe last_env st1 ;;
                doe (vs, st3) <- eval_args f aes last_env st2 ;;
                match first with
                | VProcU _ _ _ _ | VProcB _ => tramp f first vs env st3
                | _ => (lerr TypeMisMatch (eloc fe), st3)
                end
            end
        | _ => (Panic PUnmodelled, st)
        end
  end.
Proof. reflexivity. Qed.

Lemma builtin_apply_S : forall f args env st, builtin_apply (S f) args env st =
  match args with
  | [] => (Panic PBuiltinArg, st)
  | p :: rest =>
      match p with
      | VProcU _ _ _ _ | VProcB _ =>
          match rev rest with
          | [] => apply_proc f p [] env st
          | last :: init_rev =>
              match last with
              | VNil | VPair _ _ => apply_proc f p (rev init_rev ++ vitems last) env st
              | _ => (err TypeMisMatch, st)
              end
          end
      | _ => (err TypeMisMatch, st)
      end
  end.
Proof. reflexivity. Qed.

Definition noF {A} (r : res A) : Prop := r <> OutOfFuel.

(** inversion of a bind whose result is not a timeout *)
Lemma ebind_inv : forall {A B} (m : eres A) (k : A -> state -> eres B) r st',
  ebind m k = (r, st') -> noF r ->
  (exists a st1, m = (Ok a, st1) /\ k a st1 = (r, st')) \/
  (exists ra st1, m = (ra, st1) /\ failed ra /\ r = refail ra /\ st' = st1).
Proof.
  intros A B [ra st1] k r st' H N. destruct ra as [a|kk l|s|]; cbn in H.
  - left. now exists a, st1.
  - right. exists (Err kk l), st1. injection H as <- <-. cbn. auto.
  - right. exists (Panic s), st1. injection H as <- <-. cbn. auto.
  - injection H as <- <-. exfalso. now apply N.
Qed.

Lemma failed_noF : forall {A} (r : res A), failed r -> noF r.
Proof. intros A [a|k l|s|]; cbn; intros H; try contradiction; discriminate. Qed.

Lemma refail_refail : forall {A B C} (r : res A), failed r -> @refail B C (@refail A B r) = @refail A C r.
Proof. intros A B C [a|k l|s|]; cbn; intros H; try contradiction; reflexivity. Qed.

Lemma failed_refail : forall {A B} (r : res A), failed r -> failed (@refail A B r).
Proof. intros A B [a|k l|s|]; cbn; auto. Qed.

(** the location of a call expression plays no role in its evaluation *)
Lemma ev_call_loc : forall st env fe args l l' r st',
  ev st env (ECall fe args l) r st' -> ev st env (ECall fe args l') r st'.
Proof.
  intros st env fe args l l' r st' H. inversion H; subst.
  - eapply ev_call; eassumption.
  - now apply ev_call_fail_operator.
  - eapply ev_call_fail_operand; eassumption.
  - eapply ev_call_not_procedure; eassumption.
Qed.

(** what the trampolined pieces mean in direct style *)
Definition tail_ok (e : expr) (env : nat) (st : state) (r : res tailres) (st' : state) : Prop :=
  match r with
  | Ok (TRValue v) => ev st env e (Ok v) st'
  | Ok (TRCall fe args env') =>
      env' = env /\ forall r1 st1, ev st' env (ECall fe args None) r1 st1 -> ev st env e r1 st1
  | OutOfFuel => False
  | other => ev st env e (refail other) st'
  end.

Definition body_ok (body : list expr) (env : nat) (st : state) (r : res tailres) (st' : state) : Prop :=
  match r with
  | Ok (TRValue v) => evbody st env body (Ok v) st'
  | Ok (TRCall fe args env') =>
      env' = env /\ forall r1 st1, ev st' env (ECall fe args None) r1 st1 -> evbody st env body r1 st1
  | OutOfFuel => False
  | other => evbody st env body (refail other) st'
  end.

Definition proc_ok (st : state) fm defs body closure args (r : res tailres) (st' : state) : Prop :=
  match r with
  | Ok (TRValue v) => evproc st fm defs body closure args (Ok v) st'
  | Ok (TRCall fe aes env') =>
      forall r1 st1, ev st' env' (ECall fe aes None) r1 st1 -> evproc st fm defs body closure args r1 st1
  | OutOfFuel => False
  | other => evproc st fm defs body closure args (refail other) st'
  end.

Record sound_at (f : nat) : Prop := {
  s_expr : forall e env st r st', eval_expr f e env st = (r, st') -> noF r -> ev st env e r st';
  s_args : forall es env st r st', eval_args f es env st = (r, st') -> noF r -> evs st env es r st';
  s_tail : forall e env st r st', eval_tail f e env st = (r, st') -> noF r -> tail_ok e env st r st';
  s_scheme : forall fm defs body closure args st r st',
      apply_scheme f fm defs body closure args st = (r, st') -> noF r ->
      proc_ok st fm defs body closure args r st';
  s_defs : forall defs env st r st', eval_defs f defs env st = (r, st') -> noF r -> evdefs st env defs r st';
  s_body : forall body env st r st', eval_body f body env st = (r, st') -> noF r -> body_ok body env st r st';
  s_proc : forall p args env st r st', is_proc p = true ->
      apply_proc f p args env st = (r, st') -> noF r -> app st p args r st';
  s_tramp : forall p args env st r st', is_proc p = true ->
      tramp f p args env st = (r, st') -> noF r -> app st p args r st';
  s_bapply : forall args env st r st', args <> [] ->
      builtin_apply f args env st = (r, st') -> noF r -> app st (VProcB apply_name) args r st'
}.

Lemma sound_0 : sound_at 0.
Proof.
  split; intros; cbn in *;
    match goal with
    | H : (OutOfFuel, _) = (?r, _), N : noF ?r |- _ => injection H as <- <-; exfalso; now apply N
    end.
Qed.

Ltac inv_pair H := injection H as <- <-.

Lemma step_args : forall f, sound_at f ->
  forall es env st r st', eval_args (S f) es env st = (r, st') -> noF r -> evs st env es r st'.
Proof.
  intros f IH es env st r st' H N. rewrite eval_args_S in H. destruct es as [|a es].
  - inv_pair H. constructor.
  - apply ebind_inv in H; [|assumption].
    destruct H as [[v [st1 [Ha Hk]]]|[ra [st1 [Ha [Hf [-> ->]]]]]].
    + pose proof (s_expr f IH _ _ _ _ _ Ha ltac:(discriminate)) as E1.
      apply ebind_inv in Hk; [|assumption].
      destruct Hk as [[vs [st2 [Hb Hk]]]|[rb [st2 [Hb [Hf [-> ->]]]]]].
      * inv_pair Hk. eapply evs_cons; [exact E1|]. apply (s_args f IH _ _ _ _ _ Hb). discriminate.
      * eapply evs_fail_tail; [exact E1| |assumption].
        apply (s_args f IH _ _ _ _ _ Hb). now apply failed_noF.
    + apply evs_fail_head; [|assumption].
      apply (s_expr f IH _ _ _ _ _ Ha). now apply failed_noF.
Qed.

Lemma step_expr : forall f, sound_at f ->
  forall e env st r st', eval_expr (S f) e env st = (r, st') -> noF r -> ev st env e r st'.
Proof.
  intros f IH e env st r st' H N. rewrite eval_expr_S in H. destruct e as [x l|p l|x ve l|fm defs body l|fe args l|c t alt l|d l|d l].
  - (* ESym *) destruct (env_get st env x) as [v|] eqn:E; inv_pair H; now constructor.
  - (* EPrim *) inv_pair H. constructor.
  - (* ESet *)
    apply ebind_inv in H; [|assumption].
    destruct H as [[v [st1 [Ha Hk]]]|[ra [st1 [Ha [Hf [-> ->]]]]]].
    + pose proof (s_expr f IH _ _ _ _ _ Ha ltac:(discriminate)) as E1.
      destruct (env_set st1 env x v) as [st2|] eqn:E; inv_pair Hk.
      * eapply ev_set; eassumption.
      * eapply ev_set_unbound; eassumption.
    + apply ev_set_fail; [|assumption]. apply (s_expr f IH _ _ _ _ _ Ha). now apply failed_noF.
  - (* ELambda *) inv_pair H. constructor.
  - (* ECall *)
    apply ebind_inv in H; [|assumption].
    destruct H as [[fv [st1 [Ha Hk]]]|[ra [st1 [Ha [Hf [-> ->]]]]]].
    + pose proof (s_expr f IH _ _ _ _ _ Ha ltac:(discriminate)) as E1.
      destruct (eval_args f args env st1) as [rargs st2] eqn:EA.
      destruct (is_proc fv) eqn:EP.
      * assert (Hk' : ebind (rargs, st2) (fun vs st3 => apply_proc f fv vs env st3) = (r, st'))
          by (destruct fv; try discriminate EP; exact Hk).
        clear Hk. apply ebind_inv in Hk'; [|assumption].
        destruct Hk' as [[vs [st3 [Hb Hk]]]|[rb [st3 [Hb [Hf [-> ->]]]]]].
        -- injection Hb as -> ->. eapply ev_call; [exact E1| |exact EP|].
           ++ apply (s_args f IH _ _ _ _ _ EA). discriminate.
           ++ eapply (s_proc f IH); eassumption.
        -- injection Hb as -> ->. eapply ev_call_fail_operand; [exact E1| |assumption].
           apply (s_args f IH _ _ _ _ _ EA). now apply failed_noF.
      * assert (Hk' : match rargs with
                     | OutOfFuel => (OutOfFuel, st2)
                     | _ => (lerr TypeMisMatch (eloc fe), st2)
                     end = (r, st'))
          by (destruct fv; try discriminate EP; exact Hk).
        assert (NA : noF rargs) by (intros ->; inv_pair Hk'; now apply N).
        assert (Hk2 : (lerr TypeMisMatch (eloc fe), st2) = (r, st')) by (destruct rargs; try exact Hk'; now elim NA).
        inv_pair Hk2.
        eapply ev_call_not_procedure; [exact E1| |exact NA|exact EP|now left].
        now apply (s_args f IH _ _ _ _ _ EA).
    + apply ev_call_fail_operator; [|assumption]. apply (s_expr f IH _ _ _ _ _ Ha). now apply failed_noF.
  - (* EIf *)
    apply ebind_inv in H; [|assumption].
    destruct H as [[cv [st1 [Ha Hk]]]|[ra [st1 [Ha [Hf [-> ->]]]]]].
    + pose proof (s_expr f IH _ _ _ _ _ Ha ltac:(discriminate)) as E1.
      destruct (truthy cv) eqn:ET.
      * eapply ev_if_true; [exact E1|exact ET|]. now apply (s_expr f IH).
      * destruct alt as [a|].
        -- eapply ev_if_false; [exact E1|exact ET|]. now apply (s_expr f IH).
        -- inv_pair Hk. eapply ev_if_false_none; eassumption.
    + apply ev_if_fail; [|assumption]. apply (s_expr f IH _ _ _ _ _ Ha). now apply failed_noF.
  - (* EQuote *) now constructor.
  - (* EDatum *) now constructor.
Qed.

Lemma tail_ok_of_ev : forall e env st (r : res value) st',
  noF r -> ev st env e r st' ->
  tail_ok e env st (match r with Ok v => Ok (TRValue v) | other => refail other end) st'.
Proof.
  intros e env st r st' N H. destruct r as [v|k l|s|]; cbn; try assumption. now elim N.
Qed.

Lemma step_tail : forall f, sound_at f ->
  forall e env st r st', eval_tail (S f) e env st = (r, st') -> noF r -> tail_ok e env st r st'.
Proof.
  intros f IH e env st r st' H N. rewrite eval_tail_S in H.
  assert (Gen : forall e0, ebind (eval_expr f e0 env st) (fun v st1 => (Ok (TRValue v), st1)) = (r, st') ->
                tail_ok e0 env st r st').
  { intros e0 H0. apply ebind_inv in H0; [|assumption].
    destruct H0 as [[v [st1 [Ha Hk]]]|[ra [st1 [Ha [Hf [-> ->]]]]]].
    - inv_pair Hk. cbn. apply (s_expr f IH _ _ _ _ _ Ha). discriminate.
    - pose proof (s_expr f IH _ _ _ _ _ Ha (failed_noF _ Hf)) as E1.
      destruct ra as [a|k l|s|]; cbn in *; try contradiction; exact E1. }
  destruct e as [x l|p l|x ve l|fm defs body l|fe args l|c t alt l|d l|d l]; try (now apply Gen).
  - (* ECall *) inv_pair H. cbn. split; [reflexivity|]. intros r1 st1 H1. eapply ev_call_loc; exact H1.
  - (* EIf *)
    apply ebind_inv in H; [|assumption].
    destruct H as [[cv [st1 [Ha Hk]]]|[ra [st1 [Ha [Hf [-> ->]]]]]].
    + pose proof (s_expr f IH _ _ _ _ _ Ha ltac:(discriminate)) as E1.
      assert (Lift : forall e1, tail_ok e1 env st1 r st' ->
                (forall r1 st2, ev st1 env e1 r1 st2 -> ev st env (EIf c t alt l) r1 st2) ->
                tail_ok (EIf c t alt l) env st r st').
      { intros e1 T L. unfold tail_ok in *. destruct r as [[v|fe args env']|k ll|s|]; auto.
        destruct T as [-> K]. split; [reflexivity|]. intros r1 st2 H1. apply L. now apply K. }
      destruct (truthy cv) eqn:ET.
      * apply (Lift t); [now apply (s_tail f IH)|].
        intros r1 st2 H1. eapply ev_if_true; eassumption.
      * destruct alt as [a|].
        -- apply (Lift a); [now apply (s_tail f IH)|].
           intros r1 st2 H1. eapply ev_if_false; eassumption.
        -- inv_pair Hk. cbn. eapply ev_if_false_none; eassumption.
    + pose proof (s_expr f IH _ _ _ _ _ Ha (failed_noF _ Hf)) as E1.
      assert (ev st env (EIf c t alt l) (refail ra) st1) by (now apply ev_if_fail).
      destruct ra as [a|k ll|s|]; cbn in *; try contradiction; assumption.
Qed.

Lemma step_defs : forall f, sound_at f ->
  forall defs env st r st', eval_defs (S f) defs env st = (r, st') -> noF r -> evdefs st env defs r st'.
Proof.
  intros f IH defs env st r st' H N. rewrite eval_defs_S in H. destruct defs as [|[[x e] l] ds].
  - inv_pair H. constructor.
  - apply ebind_inv in H; [|assumption].
    destruct H as [[v [st1 [Ha Hk]]]|[ra [st1 [Ha [Hf [-> ->]]]]]].
    + eapply evdefs_cons.
      * apply (s_expr f IH _ _ _ _ _ Ha). discriminate.
      * now apply (s_defs f IH).
    + apply evdefs_fail; [|assumption]. apply (s_expr f IH _ _ _ _ _ Ha). now apply failed_noF.
Qed.

Lemma step_body : forall f, sound_at f ->
  forall body env st r st', eval_body (S f) body env st = (r, st') -> noF r -> body_ok body env st r st'.
Proof.
  intros f IH body env st r st' H N. rewrite eval_body_S in H. destruct body as [|e [|e2 es]].
  - inv_pair H. cbn. constructor.
  - pose proof (s_tail f IH _ _ _ _ _ H N) as T. unfold tail_ok, body_ok in *.
    destruct r as [[v|fe args env']|k l|s|]; try (now constructor); auto.
    destruct T as [-> K]. split; [reflexivity|]. intros r1 st1 H1. constructor. now apply K.
  - apply ebind_inv in H; [|assumption].
    destruct H as [[v [st1 [Ha Hk]]]|[ra [st1 [Ha [Hf [-> ->]]]]]].
    + pose proof (s_expr f IH _ _ _ _ _ Ha ltac:(discriminate)) as E1.
      pose proof (s_body f IH _ _ _ _ _ Hk N) as B. unfold body_ok in *.
      destruct r as [[v'|fe args env']|k l|s|]; auto.
      * eapply evbody_cons; eassumption.
      * destruct B as [-> K]. split; [reflexivity|]. intros r1 st2 H1. eapply evbody_cons; [exact E1|]. now apply K.
      * eapply evbody_cons; eassumption.
      * eapply evbody_cons; eassumption.
    + pose proof (s_expr f IH _ _ _ _ _ Ha (failed_noF _ Hf)) as E1.
      assert (evbody st env (e :: e2 :: es) (refail ra) st1) by (now apply evbody_fail).
      destruct ra as [a|k ll|s|]; cbn in *; try contradiction; assumption.
Qed.

Lemma step_scheme : forall f, sound_at f ->
  forall fm defs body closure args st r st',
    apply_scheme (S f) fm defs body closure args st = (r, st') -> noF r ->
    proc_ok st fm defs body closure args r st'.
Proof.
  intros f IH fm defs body closure args st r st' H N. rewrite apply_scheme_S in H.
  destruct (alloc_frame st (Some closure)) as [local st0] eqn:EA.
  assert (EL : local = fst (alloc_frame st (Some closure))) by (now rewrite EA).
  assert (E0 : st0 = snd (alloc_frame st (Some closure))) by (now rewrite EA).
  destruct (bind_fixed st0 local (f_fixed fm) args) as [[surplus st1]|k l|s|] eqn:EB.
  - apply ebind_inv in H; [|assumption].
    destruct H as [[u [st3 [Ha Hk]]]|[rd [st3 [Ha [Hf [-> ->]]]]]].
    + pose proof (s_defs f IH _ _ _ _ _ Ha ltac:(discriminate)) as D.
      pose proof (s_body f IH _ _ _ _ _ Hk N) as B.
      unfold body_ok, proc_ok in *. rewrite EL, E0 in *.
      destruct r as [[v|fe aes env']|k l|s|]; auto.
      * eapply evproc_body; [exact EB|reflexivity|exact D|exact B].
      * destruct B as [-> K]. intros r1 st4 H1. eapply evproc_body; [exact EB|reflexivity|exact D|]. now apply K.
      * eapply evproc_body; [exact EB|reflexivity|exact D|exact B].
      * eapply evproc_body; [exact EB|reflexivity|exact D|exact B].
    + pose proof (s_defs f IH _ _ _ _ _ Ha (failed_noF _ Hf)) as D.
      rewrite EL, E0 in *.
      assert (G : evproc st fm defs body closure args (refail rd) st3)
        by (eapply evproc_defs_fail; [exact EB|reflexivity|exact D|exact Hf]).
      unfold proc_ok. destruct rd as [a|k l|s|]; cbn in *; try contradiction; exact G.
  - inv_pair H. unfold proc_ok. rewrite E0.
    apply (evproc_bind_fail st fm defs body closure args (Err k l)); [|exact I].
    rewrite <- EL, <- E0. exact EB.
  - inv_pair H. unfold proc_ok. rewrite E0.
    apply (evproc_bind_fail st fm defs body closure args (Panic s)); [|exact I].
    rewrite <- EL, <- E0. exact EB.
  - inv_pair H. now elim N.
Qed.

Lemma apply_arity : builtin_arity apply_name = Some (1, true).
Proof. reflexivity. Qed.

Lemma step_bapply : forall f, sound_at f ->
  forall args env st r st', args <> [] ->
    builtin_apply (S f) args env st = (r, st') -> noF r -> app st (VProcB apply_name) args r st'.
Proof.
  intros f IH args env st r st' NE H N. rewrite builtin_apply_S in H.
  destruct args as [|p rest]; [congruence|].
  destruct (is_proc p) eqn:EP.
  - assert (H' : match rev rest with
                 | [] => apply_proc f p [] env st
                 | last :: init_rev =>
                     match last with
                     | VNil | VPair _ _ => apply_proc f p (rev init_rev ++ vitems last) env st
                     | _ => (err TypeMisMatch, st)
                     end
                 end = (r, st')) by (destruct p; try discriminate EP; exact H).
    clear H. destruct (rev rest) as [|last init_rev] eqn:ER.
    + assert (rest = []) as -> by (rewrite <- (rev_involutive rest), ER; reflexivity).
      apply app_apply_nil; [exact EP|]. eapply (s_proc f IH); eassumption.
    + assert (rest = rev init_rev ++ [last]) as -> by (rewrite <- (rev_involutive rest), ER; reflexivity).
      destruct (is_list_value last) eqn:EL.
      * assert (H2 : apply_proc f p (rev init_rev ++ vitems last) env st = (r, st'))
          by (destruct last; try discriminate EL; exact H').
        apply app_apply; [exact EP|exact EL|]. eapply (s_proc f IH); eassumption.
      * assert (H2 : (err TypeMisMatch, st) = (r, st')) by (destruct last; try discriminate EL; exact H').
        inv_pair H2. now apply app_apply_not_list.
  - assert (H2 : (err TypeMisMatch, st) = (r, st')) by (destruct p; try discriminate EP; exact H).
    inv_pair H2. now apply app_apply_not_procedure.
Qed.

Lemma step_tramp : forall f, sound_at f ->
  forall p args env st r st', is_proc p = true ->
    tramp (S f) p args env st = (r, st') -> noF r -> app st p args r st'.
Proof.
  intros f IH p args env st r st' HP H N. rewrite tramp_S in H.
  destruct (proc_arity p) as [[fixed variadic]|] eqn:EPA.
  2:{ inv_pair H. destruct p; try discriminate HP; try discriminate EPA. now apply app_unknown_builtin. }
  destruct (arity_ok (length args) fixed variadic) eqn:EAR; cbn [negb] in H.
  2:{ inv_pair H. eapply app_arity; eassumption. }
  destruct p as [| | | | |fm defs body closure|name| | | | |]; try discriminate HP.
  - (* user procedure *)
    cbn in EPA. injection EPA as <- <-.
    apply ebind_inv in H; [|assumption].
    destruct H as [[tr [st1 [Ha Hk]]]|[ra [st1 [Ha [Hf [-> ->]]]]]].
    + pose proof (s_scheme f IH _ _ _ _ _ _ _ _ Ha ltac:(discriminate)) as PO. unfold proc_ok in PO.
      destruct tr as [v|fe aes last_env].
      * inv_pair Hk. now apply app_user.
      * apply app_user; [exact EAR|]. apply PO. clear PO Ha.
        apply ebind_inv in Hk; [|assumption].
        destruct Hk as [[first [st2 [Hb Hk]]]|[rb [st2 [Hb [Hf [-> ->]]]]]].
        -- pose proof (s_expr f IH _ _ _ _ _ Hb ltac:(discriminate)) as E1.
           apply ebind_inv in Hk; [|assumption].
           destruct Hk as [[vs [st3 [Hc Hk]]]|[rc [st3 [Hc [Hf [-> ->]]]]]].
           ++ pose proof (s_args f IH _ _ _ _ _ Hc ltac:(discriminate)) as E2.
              destruct (is_proc first) eqn:EF.
              ** assert (Hk' : tramp f first vs env st3 = (r, st')) by (destruct first; try discriminate EF; exact Hk).
                 eapply ev_call; [exact E1|exact E2|exact EF|]. eapply (s_tramp f IH); eassumption.
              ** assert (Hk' : (lerr TypeMisMatch (eloc fe), st3) = (r, st')) by (destruct first; try discriminate EF; exact Hk).
                 inv_pair Hk'. eapply ev_call_not_procedure; [exact E1|exact E2|discriminate|exact EF|now left].
           ++ eapply ev_call_fail_operand; [exact E1| |exact Hf].
              apply (s_args f IH _ _ _ _ _ Hc). now apply failed_noF.
        -- apply ev_call_fail_operator; [|exact Hf]. apply (s_expr f IH _ _ _ _ _ Hb). now apply failed_noF.
    + pose proof (s_scheme f IH _ _ _ _ _ _ _ _ Ha (failed_noF _ Hf)) as PO. unfold proc_ok in PO.
      apply app_user; [exact EAR|].
      destruct ra as [a|k l|s|]; cbn in *; try contradiction; exact PO.
  - (* builtin *)
    destruct (str_eqb name apply_name) eqn:EN.
    + apply str_eqb_eq in EN. subst name.
      assert (NE : args <> []).
      { unfold proc_arity in EPA. rewrite apply_arity in EPA. injection EPA as <- <-.
        destruct args; [discriminate EAR|discriminate]. }
      eapply (s_bapply f IH); eassumption.
    + eapply app_builtin; eassumption.
Qed.

Theorem sound_all : forall f, sound_at f.
Proof.
  induction f as [|f IH]; [exact sound_0|].
  split.
  - now apply step_expr.
  - now apply step_args.
  - now apply step_tail.
  - now apply step_scheme.
  - now apply step_defs.
  - now apply step_body.
  - intros p args env st r st' HP H N. rewrite apply_proc_S in H. eapply (s_tramp f IH); eassumption.
  - now apply step_tramp.
  - now apply step_bapply.
Qed.

(** ** consequences used by C08 *)

Lemma errors_sound : forall fuel e env st k l st',
  eval_expr fuel e env st = (Err k l, st') -> ev st env e (Err k l) st'.
Proof. intros. eapply (s_expr fuel (sound_all fuel)); [eassumption|discriminate]. Qed.

Lemma refail_not_Ok : forall {A B} (r : res A) (v : B), failed r -> @refail A B r <> Ok v.
Proof. intros A B [a|k l|s|] v H; cbn in *; try contradiction; discriminate. Qed.

Lemma app_arity_checked : forall st p args r st' fixed variadic,
  app st p args r st' -> proc_arity p = Some (fixed, variadic) ->
  arity_ok (length args) fixed variadic = false ->
  r = Err ArgumentMissMatch None /\ st' = st.
Proof.
  intros st p args r st' fixed variadic H HP HA. inversion H; subst.
  - congruence.
  - auto.
  - rewrite HP in *. match goal with H1 : Some _ = Some _ |- _ => injection H1 as <- <- end. congruence.
  - unfold proc_arity in HP. rewrite apply_arity in HP. injection HP as <- <-.
    unfold arity_ok in HA. cbn in HA. rewrite ?orb_true_r in HA. discriminate HA.
  - unfold proc_arity in HP. rewrite apply_arity in HP. injection HP as <- <-.
    unfold arity_ok in HA. cbn in HA. rewrite ?orb_true_r in HA. discriminate HA.
  - unfold proc_arity in HP. rewrite apply_arity in HP. injection HP as <- <-.
    unfold arity_ok in HA. cbn in HA. rewrite ?orb_true_r in HA. discriminate HA.
  - unfold proc_arity in HP. rewrite apply_arity in HP. injection HP as <- <-.
    unfold arity_ok in HA. cbn in HA. rewrite ?orb_true_r in HA. discriminate HA.
  - cbn in HP. injection HP as <- <-. congruence.
Qed.

Lemma tramp_arity : forall fuel p args env st fixed variadic,
  proc_arity p = Some (fixed, variadic) -> arity_ok (length args) fixed variadic = false ->
  apply_proc (S (S fuel)) p args env st = (Err ArgumentMissMatch None, st).
Proof. intros. rewrite apply_proc_S, tramp_S, H, H0. reflexivity. Qed.

(** a call yields a value only if its operator evaluated to a procedure, a variable reference
    only if the variable is bound, an assignment only if it is bound *)
Lemma call_value_needs_procedure : forall st env fe args l v st',
  ev st env (ECall fe args l) (Ok v) st' ->
  exists fv st1 vs st2, ev st env fe (Ok fv) st1 /\ is_proc fv = true /\
                        evs st1 env args (Ok vs) st2 /\ app st2 fv vs (Ok v) st'.
Proof.
  intros st env fe args l v st' H. inversion H; subst.
  - eauto 10.
  - exfalso. eapply refail_not_Ok; eauto.
  - exfalso. eapply refail_not_Ok; eauto.
Qed.

Lemma ref_value_needs_binding : forall st env x l v st',
  ev st env (ESym x l) (Ok v) st' -> env_get st env x = Some v /\ st' = st.
Proof. intros st env x l v st' H. inversion H; subst. auto. Qed.

Lemma set_value_needs_binding : forall st env x e l v st',
  ev st env (ESet x e l) (Ok v) st' ->
  exists w st1, ev st env e (Ok w) st1 /\ env_set st1 env x w = Some st' /\ v = VVoid.
Proof.
  intros st env x e l v st' H. inversion H; subst.
  - eauto.
  - exfalso. eapply refail_not_Ok; eauto.
Qed.

Lemma grows_of_eq : forall st st', frames st' = frames st ->
  length (vectors st) <= length (vectors st') -> grows st st'.
Proof. intros st st' H1 H2. unfold grows. rewrite H1. lia. Qed.

(** states only grow along an evaluation: no frame and no vector ever disappears *)
Lemma ev_grows_all :
  (forall st env e r st', ev st env e r st' -> grows st st') /\
  (forall st env es r st', evs st env es r st' -> grows st st') /\
  (forall st p args r st', app st p args r st' -> grows st st') /\
  (forall st fm defs body closure args r st', evproc st fm defs body closure args r st' -> grows st st') /\
  (forall st env defs r st', evdefs st env defs r st' -> grows st st') /\
  (forall st env body r st', evbody st env body r st' -> grows st st').
Proof.
  apply ev_mutind; intros;
    repeat match goal with
    | H : read_literal _ _ = (_, _) |- _ => apply read_literal_grows in H; destruct H as [? [? [? ?]]]
    | H : env_set _ _ _ _ = Some _ |- _ => apply env_set_grows in H
    | H : builtin_call _ _ _ = (_, _) |- _ => apply builtin_call_frames in H; destruct H as [? ?]
    | H : bind_fixed _ _ _ _ = Ok (_, _) |- _ => apply bind_fixed_grows in H
    end;
    subst;
    try (apply grows_refl);
    try (apply grows_of_eq; assumption);
    try (unfold grows in *; intuition (try congruence; try lia); fail).
  - (* evproc_body *)
    match goal with
    | Ha : grows (snd (alloc_frame st (Some closure))) ?s1, Hb : grows ?m ?s3, Hc : grows ?s3 ?s4 |- grows st ?s4 =>
        assert (G : grows s1 m) by (destruct (f_rest fm); [apply env_define_grows|apply grows_refl]);
        eapply grows_trans; [apply (alloc_frame_grows st (Some closure))|];
        eapply grows_trans; [exact Ha|]; eapply grows_trans; [exact G|];
        eapply grows_trans; [exact Hb|exact Hc]
    end.
  - match goal with
    | Ha : grows (snd (alloc_frame st (Some closure))) ?s1, Hb : grows ?m ?s3 |- grows st ?s3 =>
        assert (G : grows s1 m) by (destruct (f_rest fm); [apply env_define_grows|apply grows_refl]);
        eapply grows_trans; [apply (alloc_frame_grows st (Some closure))|];
        eapply grows_trans; [exact Ha|]; eapply grows_trans; [exact G|exact Hb]
    end.
  - apply alloc_frame_grows.
  - eapply grows_trans; [eassumption|]. eapply grows_trans; [apply env_define_grows|eassumption].
Qed.

Lemma ev_state_grows : forall st env e r st',
  ev st env e r st' ->
  length (frames st) <= length (frames st') /\ length (vectors st) <= length (vectors st').
Proof. intros. eapply (proj1 ev_grows_all); eassumption. Qed.
