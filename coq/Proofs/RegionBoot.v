(** C19: the region theorems are not vacuous: the state after start-up is a region (all of its frames
    and vectors), and so is the part of it that belongs to one interpreter. *)
From Coq Require Import ZArith NArith List Bool Lia PeanoNat.
From RV Require Import Model.Common Model.Real32 Model.Num Model.Datum Model.Macro Model.Ast
  Model.Value Model.Print Model.Builtins Model.Eval Model.Interp Spec.EvalSpec Proofs.Basics Proofs.StoreProofs
  Proofs.EvalProofs Proofs.LibBase Proofs.LibBoot Proofs.RegionProofs.
Import ListNotations.

Definition all_frames (st : state) : nset := fun a => a < length (frames st).
Definition all_vectors (st : state) : nset := fun x => x < length (vectors st).

Fixpoint vokb (nf nv : nat) (v : value) : bool :=
  match v with
  | VProcU _ _ _ env => Nat.ltb env nf
  | VVec _ a => Nat.ltb a nv
  | VPair a b => vokb nf nv a && vokb nf nv b
  | _ => true
  end.

Lemma vokb_vok : forall st v, vokb (length (frames st)) (length (vectors st)) v = true ->
  vok (all_frames st) (all_vectors st) v.
Proof.
  intros st v. induction v; cbn; intros H; auto.
  - now apply Nat.ltb_lt.
  - now apply Nat.ltb_lt.
  - apply andb_true_iff in H. destruct H. split; auto.
Qed.

Definition frame_okb (nf nv : nat) (fr : frame) : bool :=
  match f_parent fr with Some p => Nat.ltb p nf | None => true end &&
  forallb (fun d => vokb nf nv (snd d)) (f_defs fr).

Definition stokb (st : state) : bool :=
  forallb (frame_okb (length (frames st)) (length (vectors st))) (frames st) &&
  forallb (forallb (vokb (length (frames st)) (length (vectors st)))) (vectors st).

Lemma stokb_stok : forall st, stokb st = true -> stok (all_frames st) (all_vectors st) st.
Proof.
  intros st H. apply andb_true_iff in H. destruct H as [HF HV]. rewrite forallb_forall in HF, HV. split.
  - intros a Ha. destruct (nth_error (frames st) a) as [fr|] eqn:E; [|apply nth_error_None in E; unfold all_frames in Ha; lia].
    exists fr. split; [reflexivity|]. pose proof (HF fr (nth_error_In _ _ E)) as Hfr.
    unfold frame_okb in Hfr. apply andb_true_iff in Hfr. destruct Hfr as [Hp Hd]. split.
    + intros p Ep. rewrite Ep in Hp. now apply Nat.ltb_lt.
    + rewrite forallb_forall in Hd. apply Forall_forall. intros d Hin. apply vokb_vok. now apply Hd.
  - intros x Hx. destruct (nth_error (vectors st) x) as [cells|] eqn:E; [|apply nth_error_None in E; unfold all_vectors in Hx; lia].
    exists cells. split; [reflexivity|]. pose proof (HV cells (nth_error_In _ _ E)) as Hc.
    rewrite forallb_forall in Hc. apply Forall_forall. intros v Hin. apply vokb_vok. now apply Hc.
Qed.

Theorem boot_state_is_a_region : stok (all_frames boot_state) (all_vectors boot_state) boot_state /\
  all_frames boot_state boot_root /\ 2 <= length (frames boot_state).
Proof.
  split; [apply stokb_stok; vm_compute; reflexivity|]. split; vm_compute; lia.
Qed.
