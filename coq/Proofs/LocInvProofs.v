(** C15: where the locations of evaluator errors come from. Every located error that evaluation
    reports carries the location of an expression node of the expression being evaluated or of the
    body of a procedure that exists in the store (closures created by earlier forms and by the
    libraries) - never an invented position. [L] is any set of locations containing the "no location";
    [eok L e] says all locations written in [e] are in [L]; [slok L st] says the same of every closure
    stored in [st]. *)
From Coq Require Import ZArith NArith List Bool Lia PeanoNat.
From RV Require Import Model.Common Model.Real32 Model.Num Model.Datum Model.Lexer Model.Macro Model.Ast
  Model.Value Model.Print Model.Builtins Model.Eval Spec.EvalSpec Proofs.Basics Proofs.StoreProofs Proofs.EvalProofs
  Proofs.RegionProofs.
Import ListNotations.

Section Loc.
Variable Lc : loc -> Prop.
Hypothesis L_none : Lc None.

Inductive eok : expr -> Prop :=
  | eok_sym : forall x l, Lc l -> eok (ESym x l)
  | eok_prim : forall p l, eok (EPrim p l)
  | eok_set : forall x e l, eok e -> eok (ESet x e l)
  | eok_lambda : forall fm defs body l,
      Forall (fun d => eok (snd (fst d))) defs -> Forall eok body -> eok (ELambda fm defs body l)
  | eok_call : forall f args l, Lc (eloc f) -> eok f -> Forall eok args -> eok (ECall f args l)
  | eok_if : forall c t e l, eok c -> eok t -> (forall a, e = Some a -> eok a) -> eok (EIf c t e l)
  | eok_quote : forall d l, eok (EQuote d l)
  | eok_datum : forall d l, eok (EDatum d l).

Fixpoint vlok (v : value) : Prop :=
  match v with
  | VProcU _ defs body _ => Forall (fun d => eok (snd (fst d))) defs /\ Forall eok body
  | VPair a b => vlok a /\ vlok b
  | _ => True
  end.

Definition slok (st : state) : Prop :=
  Forall (fun fr => Forall (fun d => vlok (snd d)) (f_defs fr)) (frames st) /\
  Forall (Forall vlok) (vectors st).

Definition errloc {A} (r : res A) : Prop := forall k l, r = Err k l -> Lc l.

Lemma errloc_refail : forall {A B} (r : res A), errloc r -> errloc (@refail A B r).
Proof. intros A B [a|k l|x|] H k0 l0 E; cbn in E; try discriminate. injection E as <- <-. now apply (H k l). Qed.

Lemma env_get_fuel_lok : forall fuel st a x v, slok st -> env_get_fuel fuel (frames st) a x = Some v -> vlok v.
Proof.
  induction fuel as [|f IH]; intros st a x v Hs E; cbn in E; [discriminate|].
  destruct (nth_error (frames st) a) as [fr|] eqn:EF; [|discriminate].
  destruct (alist_get (f_defs fr) x) as [w|] eqn:G.
  - injection E as <-. destruct Hs as [H _]. rewrite Forall_forall in H.
    specialize (H fr (nth_error_In _ _ EF)). eapply (alist_get_Forall vlok); eassumption.
  - destruct (f_parent fr); [eapply IH; eassumption|discriminate].
Qed.

Lemma Forall_update_list : forall {A} (P : A -> Prop) l k x, Forall P l -> P x -> Forall P (list_update l k x).
Proof.
  intros A P l. induction l as [|y r IH]; intros k x H Hx; cbn; [destruct k; constructor|].
  inversion H; subst. destruct k; constructor; auto.
Qed.

Lemma env_define_lok : forall st a x v, slok st -> vlok v -> slok (env_define st a x v).
Proof.
  intros st a x v [H1 H2] Hv. unfold env_define. destruct (nth_error (frames st) a) as [fr|] eqn:E; [|now split].
  split; cbn; [|exact H2]. apply Forall_update_list; [exact H1|]. cbn.
  apply (alist_set_Forall vlok); [|exact Hv]. rewrite Forall_forall in H1. exact (H1 fr (nth_error_In _ _ E)).
Qed.

Lemma env_set_lok : forall st a x v st', slok st -> vlok v -> env_set st a x v = Some st' -> slok st'.
Proof.
  intros st a x v st' Hs Hv E. unfold env_set in E. destruct (defining_frame st a x); [|discriminate].
  injection E as <-. now apply env_define_lok.
Qed.

Lemma alloc_frame_lok : forall st p, slok st -> slok (snd (alloc_frame st p)).
Proof.
  intros st p [H1 H2]. split; cbn; [|exact H2]. apply Forall_app. split; [exact H1|]. constructor; [constructor|constructor].
Qed.

Lemma bind_fixed_lok : forall names st env args rest st', slok st -> Forall vlok args ->
  bind_fixed st env names args = Ok (rest, st') -> slok st' /\ Forall vlok rest.
Proof.
  induction names as [|x xs IH]; intros st env args rest st' Hs Ha E; cbn in E.
  - injection E as <- <-. now split.
  - destruct args as [|v vs]; [discriminate|]. inversion Ha; subst.
    eapply IH; [apply env_define_lok; eassumption|eassumption|exact E].
Qed.

Lemma bind_fixed_no_err : forall names st env args k l, bind_fixed st env names args = Err k l -> False.
Proof.
  induction names as [|x xs IH]; intros st env args k l E; cbn in E; [discriminate|].
  destruct args as [|v vs]; [discriminate|]. eapply IH; exact E.
Qed.

Lemma vlok_vlist : forall l, Forall vlok l -> vlok (vlist l).
Proof. intros l H. induction H; cbn; auto. Qed.

Lemma vlok_vitems : forall v, vlok v -> Forall vlok (vitems v).
Proof.
  induction v; cbn; intros H; try constructor.
  destruct H as [H1 H2]. destruct v2; try (constructor; [exact H1|constructor; [exact H2|constructor]]).
  - constructor; [exact H1|]. now apply IHv2.
  - constructor; [exact H1|constructor].
Qed.

Lemma alloc_vector_lok : forall st cells, slok st -> Forall vlok cells -> slok (snd (alloc_vector st cells)).
Proof.
  intros st cells [H1 H2] Hc. split; cbn; [exact H1|]. apply Forall_app. split; [exact H2|]. constructor; [exact Hc|constructor].
Qed.

Definition lit_lok (d : datum) : Prop := forall st r st', slok st -> read_literal d st = (r, st') ->
  slok st' /\ (forall v, r = Ok v -> vlok v) /\ errloc r.

Lemma read_literal_lok : forall d, lit_lok d.
Proof.
  induction d as [p l|s l|l|a b l IHa IHb|v l IHv] using datum_rect'; intros st r st' Hs H; cbn in H.
  - injection H as <- <-. split; [exact Hs|]. split.
    + intros v E. destruct p as [x|c|b|z|n1 n2|lit]; cbn in E; try (injection E as <-; exact I).
      destruct (eval_real_literal lit) as [n| | |]; cbn in E; try discriminate. injection E as <-. exact I.
    + intros k l0 E. destruct p as [x|c|b|z|n1 n2|lit]; cbn in E; try discriminate.
      unfold eval_real_literal in E. destruct (real_parts lit) as [[[[? ?] ?] ?]|]; cbn in E; discriminate.
  - injection H as <- <-. split; [exact Hs|]. split; [intros v E; injection E as <-; exact I|intros k l0 E; discriminate].
  - injection H as <- <-. split; [exact Hs|]. split; [intros v E; injection E as <-; exact I|intros k l0 E; discriminate].
  - destruct (read_literal a st) as [ra st1] eqn:Ea. destruct (IHa _ _ _ Hs Ea) as [S1 [R1 E1]].
    destruct ra as [va|k ll|s|]; cbn in H;
      try (injection H as <- <-; split; [exact S1|]; split; [intros v E; discriminate|]; intros k0 l0 E; try discriminate;
           injection E as <- <-; now apply (E1 k ll)).
    destruct (read_literal b st1) as [rb st2] eqn:Eb. destruct (IHb _ _ _ S1 Eb) as [S2 [R2 E2]].
    destruct rb as [vb|k ll|s|]; cbn in H; injection H as <- <-; (split; [exact S2|]); split;
      try (intros v E; discriminate); try (intros k0 l0 E; discriminate).
    + intros v E. injection E as <-. cbn. split; [now apply R1|now apply R2].
    + intros k0 l0 E. injection E as <- <-. now apply (E2 k ll).
  - match type of H with
    | ebind (?elems v st) _ = _ =>
        assert (G : forall v, Forall lit_lok v ->
                   forall st r st', slok st -> elems v st = (r, st') ->
                   slok st' /\ (forall vs, r = Ok vs -> Forall vlok vs) /\ errloc r)
    end.
    { clear. induction v as [|x xs IH]; intros HF st r st' Hs H.
      - injection H as <- <-. split; [exact Hs|]. split; [intros vs E; injection E as <-; constructor|intros k l0 E; discriminate].
      - inversion HF as [|? ? Hx Hxs]; subst. simpl in H.
        destruct (read_literal x st) as [rx st1] eqn:Ex. destruct (Hx _ _ _ Hs Ex) as [S1 [R1 E1]].
        destruct rx as [vx|k ll|s|]; cbn in H;
          try (injection H as <- <-; split; [exact S1|]; split; [intros vs E; discriminate|]; intros k0 l0 E; try discriminate;
               injection E as <- <-; now apply (E1 k ll)).
        match type of H with ebind (?e xs st1) _ = _ => destruct (e xs st1) as [rr st2] eqn:Er end.
        destruct (IH Hxs _ _ _ S1 Er) as [S2 [R2 E2]].
        destruct rr as [vr|k ll|s|]; cbn in H; injection H as <- <-; (split; [exact S2|]); split;
          try (intros vs E; discriminate); try (intros k0 l0 E; discriminate).
        + intros vs E. injection E as <-. constructor; [now apply R1|now apply R2].
        + intros k0 l0 E. injection E as <- <-. now apply (E2 k ll). }
    match type of H with ebind (?elems v st) _ = _ => destruct (elems v st) as [rc st1] eqn:Ec end.
    destruct (G v IHv _ _ _ Hs Ec) as [S1 [R1 E1]].
    destruct rc as [cells|k ll|s|]; cbn in H;
      try (injection H as <- <-; split; [exact S1|]; split; [intros w E; discriminate|]; intros k0 l0 E; try discriminate;
           injection E as <- <-; now apply (E1 k ll)).
    unfold alloc_vector in H. injection H as <- <-. split.
    + exact (alloc_vector_lok st1 cells S1 (R1 _ eq_refl)).
    + split; [intros w E; injection E as <-; exact I|intros k l0 E; discriminate].
Qed.

Lemma slok_same_store : forall st st', slok st -> frames st' = frames st -> vectors st' = vectors st -> slok st'.
Proof. intros st st' [H1 H2] E1 E2. split; [rewrite E1|rewrite E2]; assumption. Qed.


(** errors of the native procedures never carry a location *)
Definition unloc {A} (r : res A) : Prop := forall k l, r = Err k l -> l = None.
Lemma unloc_ok : forall {A} (a : A), unloc (Ok a).
Proof. intros A a k l E; discriminate. Qed.
Lemma unloc_err : forall {A} k, unloc (@Err A k None).
Proof. intros A k k0 l E. now injection E as _ <-. Qed.
Lemma unloc_panic : forall {A} x, unloc (@Panic A x).
Proof. intros A x k l E; discriminate. Qed.
Lemma unloc_oof : forall {A}, unloc (@OutOfFuel A).
Proof. intros A k l E; discriminate. Qed.
Lemma unloc_bind : forall {A B} (r : res A) (k : A -> res B), unloc r -> (forall a, unloc (k a)) -> unloc (bind r k).
Proof.
  intros A B [a|kk l|x|] k H K; cbn; auto using unloc_panic, unloc_oof.
  intros k0 l0 E. injection E as <- <-. now apply (H kk l).
Qed.

Ltac unloc_tac :=
  repeat first
    [ apply unloc_ok | apply unloc_err | apply unloc_panic | apply unloc_oof
    | progress unfold lerr, err, type_err, okf, test1, num1, unmodelled1, unmodelled2, arg1, arg2, arg3,
        expect_number, expect_integer, expect_boolean, num_div, num_floor_quotient, num_floor_remainder, num_exact
    | match goal with
      | |- unloc (if ?b then _ else _) => destruct b
      | |- unloc (match ?x with _ => _ end) => destruct x
      | |- unloc (let '(_, _) := ?x in _) => destruct x
      | |- unloc (bind _ _) => apply unloc_bind; [|intros]
      end ].

Lemma unloc_fold_num : forall f args acc, (forall a b, unloc (f a b)) -> unloc (fold_num f acc args).
Proof.
  intros f args. induction args as [|v r IH]; intros acc Hf; cbn [fold_num]; [apply unloc_ok|].
  apply unloc_bind; [unloc_tac|]. intros n. apply unloc_bind; [apply Hf|]. intros a. now apply IH.
Qed.
Lemma unloc_cmp_chain : forall op args last acc, unloc (cmp_chain op last args acc).
Proof.
  intros op args. induction args as [|v r IH]; intros last acc; cbn [cmp_chain]; [apply unloc_ok|].
  apply unloc_bind; [unloc_tac|]. intros n. apply IH.
Qed.
Lemma unloc_bool_chain : forall args last acc, unloc (bool_chain last args acc).
Proof.
  induction args as [|v r IH]; intros last acc; cbn [bool_chain]; [apply unloc_ok|].
  apply unloc_bind; [unloc_tac|]. intros n. apply IH.
Qed.
Lemma unloc_num_div : forall a b, unloc (num_div a b).
Proof. intros. unloc_tac. Qed.
Lemma unloc_num_compare : forall op args, unloc (num_compare op args).
Proof.
  intros op args. unfold num_compare. destruct args as [|v r]; [apply unloc_ok|].
  apply unloc_bind; [unloc_tac|]. intros n. apply unloc_bind; [apply unloc_cmp_chain|]. intros; apply unloc_ok.
Qed.

Lemma builtin_errors_unlocated : forall name args st r st', builtin_call name args st = (r, st') -> unloc r.
Proof.
  intros name args st r st' H. unfold builtin_call in H.
  repeat match type of H with
  | (if ?b then _ else _) = _ => destruct b
  end.
  all: try (injection H as <- <-;
            first [ apply unloc_num_compare
                  | repeat (first [ apply unloc_ok | apply unloc_err
                                  | apply unloc_bind; [|intros]
                                  | apply unloc_fold_num; intros
                                  | apply unloc_bool_chain
                                  | apply unloc_num_div
                                  | progress unloc_tac ]) ]; fail).
  - (* display *)
    unfold arg1 in H. destruct args as [|v0 rest]; [injection H as <- <-; apply unloc_panic|].
    destruct (display display_fuel st v0); injection H as <- <-; [apply unloc_ok|apply unloc_panic].
  - (* make-vector *)
    assert (U : unloc (do p <- arg2 args;; let '(kv, fill) := p in do k <- expect_integer kv;; Ok (k, fill))) by unloc_tac.
    destruct (do p <- arg2 args;; let '(kv, fill) := p in do k <- expect_integer kv;; Ok (k, fill)) as [[k fill]|k l|x|].
    + destruct (k <? 0)%Z; [injection H as <- <-; apply unloc_err|].
      destruct (1000000 <? k)%Z; [injection H as <- <-; apply unloc_panic|].
      unfold alloc_vector in H. injection H as <- <-. apply unloc_ok.
    + injection H as <- <-. intros k0 l0 E. injection E as <- <-. exact (U k l eq_refl).
    + injection H as <- <-. apply unloc_panic.
    + injection H as <- <-. apply unloc_oof.
  - (* vector-set! *)
    unfold arg3 in H. destruct args as [|a1 [|a2 [|a3 rest]]]; try (injection H as <- <-; apply unloc_panic).
    destruct a1; try (injection H as <- <-; unloc_tac).
    unfold expect_integer, type_err, err in H. destruct a2 as [n| | | | | | | | | | |]; try (injection H as <- <-; unloc_tac).
    destruct n; try (injection H as <- <-; unloc_tac).
    destruct (negb mutable); [injection H as <- <-; unloc_tac|].
    destruct (nth_error (vectors st) addr); [|injection H as <- <-; unloc_tac].
    destruct ((z <? 0)%Z || (Z.of_nat (length l) <=? z)%Z); injection H as <- <-; unloc_tac.
  - (* tick *)
    unfold arg2 in H. destruct args as [|a1 [|a2 rest]]; try (injection H as <- <-; apply unloc_panic).
    destruct a1 as [n| | | | | | | | | | |]; try (injection H as <- <-; unloc_tac).
    destruct n; injection H as <- <-; unloc_tac.
Qed.

Lemma Forall_repeat' : forall {A} (P : A -> Prop) x n, P x -> Forall P (repeat x n).
Proof. intros A P x n H. induction n; cbn; constructor; auto. Qed.

Lemma builtin_call_lok : forall name args st r st', slok st -> Forall vlok args ->
  builtin_call name args st = (r, st') -> slok st' /\ (forall v, r = Ok v -> vlok v).
Proof.
  intros name args st r st' Hs Ha H. unfold builtin_call in H.
  repeat match type of H with
  | (if ?b then _ else _) = _ => destruct b
  end.
  all: try (injection H as <- <-; split; [exact Hs|]; intros v E;
            unfold test1, num1, unmodelled1, unmodelled2, num_compare, arg1, arg2, arg3, type_err, err, expect_number,
              expect_integer, expect_boolean in *;
            peel E; peel_ctx; try discriminate; inv_args; cbn in *; tauto).
  - (* display *)
    destruct (arg1 args) as [v0|k l|x|]; try (injection H as <- <-; split; [exact Hs|intros v E; discriminate]).
    destruct (display display_fuel st v0); injection H as <- <-.
    + split; [now apply (slok_same_store st)|]. intros v E. injection E as <-. exact I.
    + split; [exact Hs|intros v E; discriminate].
  - (* vector *)
    unfold alloc_vector in H. injection H as <- <-. split; [exact (alloc_vector_lok st args Hs Ha)|].
    intros v E. injection E as <-. exact I.
  - (* make-vector *)
    destruct (do p <- arg2 args;; let '(kv, fill) := p in do k <- expect_integer kv;; Ok (k, fill)) as [[k fill]|k l|x|] eqn:EA;
      try (injection H as <- <-; split; [exact Hs|intros v E; discriminate]).
    destruct (k <? 0)%Z; [injection H as <- <-; split; [exact Hs|intros v E; discriminate]|].
    destruct (1000000 <? k)%Z; [injection H as <- <-; split; [exact Hs|intros v E; discriminate]|].
    assert (Hf : vlok fill).
    { unfold arg2, expect_integer, type_err, err in EA. peel EA. peel_ctx. inv_args. cbn in *. tauto. }
    unfold alloc_vector in H. injection H as <- <-.
    split; [exact (alloc_vector_lok st _ Hs (Forall_repeat' vlok fill _ Hf))|]. intros v E. injection E as <-. exact I.
  - (* vector-ref *)
    injection H as <- <-. split; [exact Hs|]. intros v E.
    unfold arg2, expect_integer, type_err, err in E. peel E. peel_ctx. inv_args. cbn in *.
    match goal with
    | Hn : nth_error (vectors st) ?a = Some ?cells, Hk : nth_error ?cells _ = Some ?x |- _ =>
        destruct Hs as [_ HV]; rewrite Forall_forall in HV; specialize (HV cells (nth_error_In _ _ Hn));
        rewrite Forall_forall in HV; apply HV; eapply nth_error_In; exact Hk
    end.
  - (* vector-set! *)
    destruct (arg3 args) as [[[v0 kv] obj]|k l|x|] eqn:EA;
      try (injection H as <- <-; split; [exact Hs|intros v E; discriminate]).
    assert (Hobj : vlok obj).
    { unfold arg3 in EA. destruct args as [|a1 [|a2 [|a3 rest]]]; try discriminate. injection EA as <- <- <-. inv_args. tauto. }
    destruct v0; try (injection H as <- <-; split; [exact Hs|intros v E; discriminate]).
    destruct (expect_integer kv) as [k|k l|x|];
      try (injection H as <- <-; split; [exact Hs|intros v E; discriminate]).
    destruct (negb mutable); [injection H as <- <-; split; [exact Hs|intros v E; discriminate]|].
    destruct (nth_error (vectors st) addr) as [cells|] eqn:EN;
      [|injection H as <- <-; split; [exact Hs|intros v E; discriminate]].
    destruct ((k <? 0)%Z || (Z.of_nat (length cells) <=? k)%Z);
      [injection H as <- <-; split; [exact Hs|intros v E; discriminate]|].
    injection H as <- <-. split; [|intros v E; injection E as <-; exact I].
    destruct Hs as [H1 H2]. split; cbn; [exact H1|]. apply Forall_update_list; [exact H2|].
    apply Forall_update_list; [|exact Hobj]. rewrite Forall_forall in H2. exact (H2 cells (nth_error_In _ _ EN)).
  - (* tick *)
    destruct (arg2 args) as [[v1 v2]|k l|x|] eqn:EA;
      try (injection H as <- <-; split; [exact Hs|intros v E; discriminate]).
    assert (Hv2 : vlok v2).
    { unfold arg2 in EA. destruct args as [|a1 [|a2 rest]]; try discriminate. injection EA as <- <-. inv_args. tauto. }
    destruct v1 as [n| | | | | | | | | | |];
      try (injection H as <- <-; split; [exact Hs|intros v E; discriminate]).
    destruct n; try (injection H as <- <-; split; [exact Hs|intros v E; discriminate]).
    injection H as <- <-. split; [now apply (slok_same_store st)|]. intros v E. injection E as <-. exact Hv2.
Qed.

(** ** the evaluation judgements *)

Definition Q_val (r : res value) (st' : state) : Prop :=
  slok st' /\ (forall v, r = Ok v -> vlok v) /\ errloc r.

Definition Q_ev (st : state) (env : nat) (e : expr) (r : res value) (st' : state) : Prop :=
  slok st -> eok e -> Q_val r st'.
Definition Q_evs (st : state) (env : nat) (es : list expr) (r : res (list value)) (st' : state) : Prop :=
  slok st -> Forall eok es -> slok st' /\ (forall vs, r = Ok vs -> Forall vlok vs) /\ errloc r.
Definition Q_app (st : state) (p : value) (args : list value) (r : res value) (st' : state) : Prop :=
  slok st -> vlok p -> Forall vlok args -> Q_val r st'.
Definition Q_evproc (st : state) (fm : formals) (defs : list (str * expr * loc)) (body : list expr) (closure : nat)
  (args : list value) (r : res value) (st' : state) : Prop :=
  slok st -> Forall (fun d => eok (snd (fst d))) defs -> Forall eok body -> Forall vlok args -> Q_val r st'.
Definition Q_evdefs (st : state) (env : nat) (defs : list (str * expr * loc)) (r : res unit) (st' : state) : Prop :=
  slok st -> Forall (fun d => eok (snd (fst d))) defs -> slok st' /\ errloc r.
Definition Q_evbody (st : state) (env : nat) (body : list expr) (r : res value) (st' : state) : Prop :=
  slok st -> Forall eok body -> Q_val r st'.

Lemma refail_Ok_False : forall {A B} (r : res A) (v : B), failed r -> refail r = Ok v -> False.
Proof. intros A B [a|k l|x|] v F E; cbn in *; try contradiction; discriminate. Qed.

Ltac failcase S E :=
  split; [exact S|]; split; [intros w Ew; exfalso; eapply refail_Ok_False; eassumption|apply errloc_refail; exact E].

Theorem locations_all :
  (forall st env e r st', ev st env e r st' -> Q_ev st env e r st') /\
  (forall st env es r st', evs st env es r st' -> Q_evs st env es r st') /\
  (forall st p args r st', app st p args r st' -> Q_app st p args r st') /\
  (forall st fm defs body closure args r st',
      evproc st fm defs body closure args r st' -> Q_evproc st fm defs body closure args r st') /\
  (forall st env defs r st', evdefs st env defs r st' -> Q_evdefs st env defs r st') /\
  (forall st env body r st', evbody st env body r st' -> Q_evbody st env body r st').
Proof.
  apply ev_mutind.
  - (* ev_prim *)
    intros st env p l Hs He. split; [exact Hs|]. split.
    + intros v E. destruct p as [x|c|b|z|n1 n2|lit]; cbn in E; try (injection E as <-; exact I).
      destruct (eval_real_literal lit) as [n| | |]; cbn in E; try discriminate. injection E as <-. exact I.
    + intros k l0 E. destruct p as [x|c|b|z|n1 n2|lit]; cbn in E; try discriminate.
      unfold eval_real_literal in E. destruct (real_parts lit) as [[[[? ?] ?] ?]|]; cbn in E; discriminate.
  - (* ev_datum *) intros st env d l r st' H Hs He. exact (read_literal_lok d st r st' Hs H).
  - (* ev_quote *) intros st env d l r st' H Hs He. exact (read_literal_lok d st r st' Hs H).
  - (* ev_sym *)
    intros st env x l v H Hs He. split; [exact Hs|]. split; [|intros k l0 E; discriminate].
    intros w E. injection E as <-. eapply env_get_fuel_lok; eassumption.
  - (* ev_sym_unbound *)
    intros st env x l H Hs He. split; [exact Hs|]. split; [intros w E; discriminate|].
    intros k l0 E. injection E as _ <-. now inversion He.
  - (* ev_lambda *)
    intros st env fm defs body l Hs He. split; [exact Hs|]. split; [|intros k l0 E; discriminate].
    intros w E. injection E as <-. inversion He; subst. cbn. now split.
  - (* ev_set *)
    intros st env x e l v st1 st2 _ IH Hset Hs He. inversion He; subst.
    destruct (IH Hs ltac:(assumption)) as [S1 [R1 E1]].
    split; [eapply env_set_lok; [exact S1|exact (R1 v eq_refl)|exact Hset]|].
    split; [intros w E; injection E as <-; exact I|intros k l0 E; discriminate].
  - (* ev_set_unbound *)
    intros st env x e l v st1 _ IH Hset Hs He. inversion He; subst.
    destruct (IH Hs ltac:(assumption)) as [S1 [R1 E1]].
    split; [exact S1|]. split; [intros w E; discriminate|intros k l0 E; injection E as _ <-; exact L_none].
  - (* ev_set_fail *)
    intros st env x e l r st1 _ IH Fr Hs He. inversion He; subst.
    destruct (IH Hs ltac:(assumption)) as [S1 [R1 E1]]. failcase S1 E1.
  - (* ev_if_true *)
    intros st env c t alt l cv st1 r st2 _ IHc Ht _ IHt Hs He. inversion He; subst.
    destruct (IHc Hs ltac:(assumption)) as [S1 _]. exact (IHt S1 ltac:(assumption)).
  - (* ev_if_false *)
    intros st env c t a l cv st1 r st2 _ IHc Ht _ IHt Hs He. inversion He; subst.
    destruct (IHc Hs ltac:(assumption)) as [S1 _]. apply (IHt S1). auto.
  - (* ev_if_false_none *)
    intros st env c t l cv st1 _ IHc Ht Hs He. inversion He; subst.
    destruct (IHc Hs ltac:(assumption)) as [S1 _].
    split; [exact S1|]. split; [intros w E; injection E as <-; exact I|intros k l0 E; discriminate].
  - (* ev_if_fail *)
    intros st env c t alt l r st1 _ IH Fr Hs He. inversion He; subst.
    destruct (IH Hs ltac:(assumption)) as [S1 [R1 E1]]. failcase S1 E1.
  - (* ev_call *)
    intros st env fe args l fv st1 vs st2 r st3 _ IHf _ IHa Hp _ IHapp Hs He. inversion He; subst.
    destruct (IHf Hs ltac:(assumption)) as [S1 [R1 _]].
    destruct (IHa S1 ltac:(assumption)) as [S2 [R2 _]].
    exact (IHapp S2 (R1 fv eq_refl) (R2 vs eq_refl)).
  - (* ev_call_fail_operator *)
    intros st env fe args l r st1 _ IH Fr Hs He. inversion He; subst.
    destruct (IH Hs ltac:(assumption)) as [S1 [R1 E1]]. failcase S1 E1.
  - (* ev_call_fail_operand *)
    intros st env fe args l fv st1 r st2 _ IHf _ IHa Fr Hs He. inversion He; subst.
    destruct (IHf Hs ltac:(assumption)) as [S1 _].
    destruct (IHa S1 ltac:(assumption)) as [S2 [R2 E2]]. failcase S2 E2.
  - (* ev_call_not_procedure *)
    intros st env fe args l fv st1 r st2 l' _ IHf _ IHa Nr Hp Hl Hs He. inversion He; subst.
    destruct (IHf Hs ltac:(assumption)) as [S1 _].
    destruct (IHa S1 ltac:(assumption)) as [S2 _].
    split; [exact S2|]. split; [intros w E; discriminate|].
    intros k l0 E. injection E as _ <-. destruct Hl as [->| ->]; [assumption|exact L_none].
  - (* evs_nil *)
    intros st env Hs He. split; [exact Hs|]. split; [intros vs E; injection E as <-; constructor|intros k l E; discriminate].
  - (* evs_cons *)
    intros st env e es v st1 vs st2 _ IHe _ IHes Hs He. inversion He; subst.
    destruct (IHe Hs ltac:(assumption)) as [S1 [R1 _]].
    destruct (IHes S1 ltac:(assumption)) as [S2 [R2 _]].
    split; [exact S2|]. split; [|intros k l E; discriminate].
    intros ws E. injection E as <-. constructor; [now apply R1|now apply R2].
  - (* evs_fail_head *)
    intros st env e es r st1 _ IH Fr Hs He. inversion He; subst.
    destruct (IH Hs ltac:(assumption)) as [S1 [R1 E1]]. failcase S1 E1.
  - (* evs_fail_tail *)
    intros st env e es v st1 r st2 _ IHe _ IHes Fr Hs He. inversion He; subst.
    destruct (IHe Hs ltac:(assumption)) as [S1 _].
    destruct (IHes S1 ltac:(assumption)) as [S2 [R2 E2]]. failcase S2 E2.
  - (* app_unknown_builtin *)
    intros st name args Ha Hs Hp Hargs. split; [exact Hs|]. split; [intros w E; discriminate|intros k l E; discriminate].
  - (* app_arity *)
    intros st p args fixed variadic Ha Hok Hs Hp Hargs. split; [exact Hs|]. split; [intros w E; discriminate|].
    intros k l E. injection E as _ <-. exact L_none.
  - (* app_builtin *)
    intros st name args fixed variadic r st' Ha Hok Hn Hb Hs Hp Hargs.
    destruct (builtin_call_lok name args st r st' Hs Hargs Hb) as [S R]. split; [exact S|]. split; [exact R|].
    intros k l E. rewrite (builtin_errors_unlocated _ _ _ _ _ Hb k l E). exact L_none.
  - (* app_apply_nil *)
    intros st p r st' Hp _ IH Hs Hpv Hargs. inversion Hargs; subst. apply IH; auto.
  - (* app_apply *)
    intros st p init last r st' Hp Hl _ IH Hs Hpv Hargs. inversion Hargs as [|? ? Hpok Hrest]; subst.
    apply Forall_app in Hrest. destruct Hrest as [Hinit Hlast]. inversion Hlast; subst.
    apply IH; auto. apply Forall_app. split; [exact Hinit|]. now apply vlok_vitems.
  - (* app_apply_not_list *)
    intros st p init last Hp Hl Hs Hpv Hargs. split; [exact Hs|]. split; [intros w E; discriminate|].
    intros k l E. injection E as _ <-. exact L_none.
  - (* app_apply_not_procedure *)
    intros st p rest Hp Hs Hpv Hargs. split; [exact Hs|]. split; [intros w E; discriminate|].
    intros k l E. injection E as _ <-. exact L_none.
  - (* app_user *)
    intros st fm defs body closure args r st' Hok _ IH Hs Hpv Hargs. destruct Hpv as [Hd Hb]. apply IH; auto.
  - (* evproc_body *)
    intros st fm defs body closure args surplus st1 st2 u st3 r st4 Hb Hst2 _ IHd _ IHb Hs Hdefs Hbody Hargs.
    destruct (bind_fixed_lok _ _ _ _ _ _ (alloc_frame_lok st (Some closure) Hs) Hargs Hb) as [S1 Hsur].
    assert (S2 : slok st2).
    { subst st2. destruct (f_rest fm); [|exact S1]. apply env_define_lok; [exact S1|now apply vlok_vlist]. }
    destruct (IHd S2 Hdefs) as [S3 _]. exact (IHb S3 Hbody).
  - (* evproc_defs_fail *)
    intros st fm defs body closure args surplus st1 st2 rd st3 Hb Hst2 _ IHd Fd Hs Hdefs Hbody Hargs.
    destruct (bind_fixed_lok _ _ _ _ _ _ (alloc_frame_lok st (Some closure) Hs) Hargs Hb) as [S1 Hsur].
    assert (S2 : slok st2).
    { subst st2. destruct (f_rest fm); [|exact S1]. apply env_define_lok; [exact S1|now apply vlok_vlist]. }
    destruct (IHd S2 Hdefs) as [S3 E3]. failcase S3 E3.
  - (* evproc_bind_fail *)
    intros st fm defs body closure args rb Hb Fb Hs Hdefs Hbody Hargs.
    split; [exact (alloc_frame_lok st (Some closure) Hs)|].
    split; [intros w E; exfalso; eapply refail_Ok_False; eassumption|].
    intros k l E. exfalso. destruct rb as [a|k0 l0|x|]; cbn in E; try discriminate.
    exact (bind_fixed_no_err _ _ _ _ _ _ Hb).
  - (* evdefs_nil *)
    intros st env Hs Hd. split; [exact Hs|intros k l E; discriminate].
  - (* evdefs_cons *)
    intros st env x e l ds v st1 r st2 _ IHe _ IHd Hs Hdefs. inversion Hdefs as [|? ? He Hrest]; subst. cbn in He.
    destruct (IHe Hs He) as [S1 [R1 _]].
    apply IHd; [apply env_define_lok; [exact S1|exact (R1 v eq_refl)]|exact Hrest].
  - (* evdefs_fail *)
    intros st env x e l ds r st1 _ IH Fr Hs Hdefs. inversion Hdefs as [|? ? He Hrest]; subst. cbn in He.
    destruct (IH Hs He) as [S1 [R1 E1]]. split; [exact S1|apply errloc_refail; exact E1].
  - (* evbody_empty *)
    intros st env Hs Hb. split; [exact Hs|]. split; [intros w E; discriminate|intros k l E; discriminate].
  - (* evbody_last *)
    intros st env e r st' _ IH Hs Hb. inversion Hb; subst. now apply IH.
  - (* evbody_cons *)
    intros st env e e2 es v st1 r st2 _ IHe _ IHb Hs Hb. inversion Hb; subst.
    destruct (IHe Hs ltac:(assumption)) as [S1 _]. now apply IHb.
  - (* evbody_fail *)
    intros st env e e2 es r st1 _ IH Fr Hs Hb. inversion Hb; subst.
    destruct (IH Hs ltac:(assumption)) as [S1 [R1 E1]]. failcase S1 E1.
Qed.
End Loc.

(** * the statement for users *)

(** for any set [L] of locations that contains "no location", all the locations written in the
    expression, and all the locations written in the procedure bodies stored in the state: a located
    error of the evaluation carries a location of [L]; the final state still has only such bodies, and
    so has a value that is returned *)
Theorem error_location_has_a_source : forall (L : loc -> Prop) st env e k l st',
  L None -> ev st env e (Err k l) st' -> slok L st -> eok L e -> L l.
Proof.
  intros L st env e k l st' L0 D Hs He.
  destruct (proj1 (locations_all L L0) _ _ _ _ _ D Hs He) as [_ [_ E]]. exact (E k l eq_refl).
Qed.

Theorem evaluator_error_location_has_a_source : forall (L : loc -> Prop) fuel e env st k l st',
  L None -> eval_expr fuel e env st = (Err k l, st') -> slok L st -> eok L e -> L l.
Proof.
  intros L fuel e env st k l st' L0 H Hs He. eapply error_location_has_a_source; [exact L0| |exact Hs|exact He].
  exact (s_expr fuel (sound_all fuel) _ _ _ _ _ H ltac:(discriminate)).
Qed.

Theorem closures_keep_their_locations : forall (L : loc -> Prop) st env e r st',
  L None -> ev st env e r st' -> slok L st -> eok L e -> slok L st' /\ forall v, r = Ok v -> vlok L v.
Proof.
  intros L st env e r st' L0 D Hs He.
  destruct (proj1 (locations_all L L0) _ _ _ _ _ D Hs He) as [S [R _]]. now split.
Qed.

Theorem native_errors_are_unlocated : forall name args st k l st',
  builtin_call name args st = (Err k l, st') -> l = None.
Proof. intros name args st k l st' H. exact (builtin_errors_unlocated name args st _ st' H k l eq_refl). Qed.
