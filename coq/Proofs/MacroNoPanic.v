(** C07 / C04: the macro expander never reaches `substitutions.get_mut(&var).unwrap()` with a missing
    key (macros.rs; [PSubstGetMut] in the model), for any rule set, any use and any fuel. The variables a
    pattern binds are a function of the pattern alone ([PV]): a match inserts only such keys (also when it
    fails), a successful match inserts all of them, keys are never removed. The repetition of a
    sub-pattern under an ellipsis is matched into a fresh table and pushed onto the keys that the first
    match of the same sub-pattern created - which therefore exist. *)
From Coq Require Import ZArith NArith List Bool Lia.
From RV Require Import Model.Common Model.Datum Model.Macro Proofs.Basics Proofs.MacroProofs.
Import ListNotations.

(** the variables of a pattern *)
Fixpoint PV (lits : list str) (p : pattern) (x : str) : Prop :=
  match p with
  | PIdent y _ => str_in y lits = false /\ x = y
  | PCons a b _ => PV lits a x \/ PV lits b x
  | PVec v _ => (fix go (v : list pattern) : Prop := match v with [] => False | q :: r => PV lits q x \/ go r end) v
  | _ => False
  end.
Definition PVL (lits : list str) (ps : list pattern) (x : str) : Prop := exists q, In q ps /\ PV lits q x.

Lemma PV_vec : forall lits v l x, PV lits (PVec v l) x <-> PVL lits v x.
Proof.
  intros lits v l x. cbn. induction v as [|q r IH].
  - split; [intros []|intros [q [[] _]]].
  - split.
    + intros [H|H]; [exists q; split; [now left|exact H]|].
      apply IH in H. destruct H as [q0 [Hin Hq]]. exists q0. split; [now right|exact Hq].
    + intros [q0 [[<-|Hin] Hq]]; [now left|]. right. apply IH. exists q0. now split.
Qed.

Lemma PVL_cons : forall lits q r x, PVL lits (q :: r) x <-> PV lits q x \/ PVL lits r x.
Proof.
  intros. split.
  - intros [q0 [[<-|Hin] Hq]]; [now left|right; exists q0; now split].
  - intros [H|[q0 [Hin Hq]]]; [exists q; split; [now left|exact H]|exists q0; split; [now right|exact Hq]].
Qed.

Lemma PVL_nil : forall lits x, ~ PVL lits [] x.
Proof. intros lits x [q [[] _]]. Qed.

(** a list pattern: the elements of the spine and the pattern after the last pair *)
Definition PVtail (lits : list str) (p : pattern) (x : str) : Prop :=
  match pat_last_cdr p with Some lp => PV lits lp x | None => False end.

Lemma PV_spine : forall lits p x, is_pair_pattern p = true ->
  (PV lits p x <-> PVL lits (pat_iter p) x \/ PVtail lits p x).
Proof.
  intros lits p x. pose proof (PVL_nil lits x) as Hn.
  induction p as [l|l|l|a _ b IHb l|v l|s l|q l]; intros Hp; try discriminate.
  - cbn. tauto.
  - cbn [pat_iter]. unfold PVtail. cbn [pat_last_cdr PV]. rewrite PVL_cons.
    destruct b as [l0|l0|l0|a0 b0 l0|v0 l0|s0 l0|q0 l0]; cbn [pat_iter] in *; try tauto.
    all: specialize (IHb eq_refl); unfold PVtail in IHb; rewrite IHb; tauto.
Qed.

(** the keys of a substitution table *)
Definition K (s : subst) (x : str) : Prop := exists v, subst_get s x = Some v.

Lemma K_nil : forall x, ~ K [] x.
Proof. intros x [v E]. discriminate. Qed.

Lemma K_insert : forall s x v y, K (subst_insert s x v) y <-> (y = x \/ K s y).
Proof.
  induction s as [|[z w] r IH]; intros x v y; cbn.
  - unfold K. cbn. destruct (str_eqb y x) eqn:E.
    + apply str_eqb_eq in E. split; [now left|intros _; eauto].
    + apply str_eqb_neq in E. split; [intros [? ?]; discriminate|intros [?|[? ?]]; [contradiction|discriminate]].
  - destruct (str_eqb x z) eqn:Exz.
    + apply str_eqb_eq in Exz. subst z. unfold K. cbn. destruct (str_eqb y x) eqn:E.
      * apply str_eqb_eq in E. split; [now left|intros _; eauto].
      * split; [intros H; now right|intros [H|H]; [apply str_eqb_neq in E; contradiction|exact H]].
    + unfold K in *. cbn. destruct (str_eqb y z) eqn:E.
      * split; [intros _; right; eauto|intros _; eauto].
      * apply IH.
Qed.

Lemma K_push : forall s x d s', subst_push s x d = Some s' -> forall y, K s' y <-> K s y.
Proof.
  intros s x d s' H y. unfold subst_push in H. destruct (subst_get s x) as [[a v]|] eqn:E; [|discriminate].
  injection H as <-. rewrite K_insert. split; [intros [->|H]; [exists (a, v); exact E|exact H]|now right].
Qed.

Lemma push_all_ok : forall fresh s, (forall x, K fresh x -> K s x) ->
  exists s2, subst_push_all s fresh = Ok s2 /\ forall y, K s2 y <-> K s y.
Proof.
  induction fresh as [|[x [d v]] r IH]; intros s H; cbn.
  - exists s. split; [reflexivity|tauto].
  - assert (Hx : K s x). { apply H. exists (d, v). cbn. now rewrite str_eqb_refl. }
    destruct Hx as [[a w] Ex]. unfold subst_push. rewrite Ex.
    assert (Hk : forall y, K (subst_insert s x (a, w ++ [d])) y <-> K s y).
    { intros y. rewrite K_insert. split; [intros [->|Hy]; [exists (a, w); exact Ex|exact Hy]|now right]. }
    destruct (IH (subst_insert s x (a, w ++ [d]))) as [s2 [E2 K2]].
    + intros y Hy. apply Hk. destruct Hy as [vy Ey].
      destruct (str_eqb y x) eqn:Eyx.
      * apply str_eqb_eq in Eyx. subst y. exists (a, w). exact Ex.
      * apply H. exists vy. cbn. now rewrite Eyx.
    + exists s2. split; [exact E2|]. intros y. rewrite K2. apply Hk.
Qed.

Lemma push_all_keys : forall fresh s s2, subst_push_all s fresh = Ok s2 -> forall y, K s2 y <-> K s y.
Proof.
  induction fresh as [|[x [d v]] r IH]; intros s s2 H y; cbn in H.
  - injection H as <-. tauto.
  - destruct (subst_push s x d) as [s1|] eqn:E; [|discriminate].
    rewrite (IH _ _ H y). exact (K_push _ _ _ _ E y).
Qed.

(** ** the matcher *)
Definition grows (s s' : subst) : Prop := forall x, K s x -> K s' x.

Record match_claims (f : nat) : Prop := {
  md_keys : forall lits p d s b s', match_datum f lits p d s = Ok (b, s') ->
      grows s s' /\ (forall x, K s' x -> K s x \/ PV lits p x) /\ (b = true -> forall x, PV lits p x -> K s' x);
  md_quiet : forall lits p d s x, match_datum f lits p d s <> Panic x;
  ms_keys : forall lits ps ds s multi b s', match_stream f lits ps ds s multi = Ok (b, s') ->
      grows s s' /\ (forall x, K s' x -> K s x \/ PVL lits ps x) /\ (b = true -> forall x, PVL lits ps x -> K s' x);
  ms_quiet : forall lits ps ds s multi x,
      (forall mmp, multi = Some mmp -> forall y, PV lits mmp y -> K s y) ->
      match_stream f lits ps ds s multi <> Panic x
}.

Lemma claims_0 : match_claims 0.
Proof. split; intros; cbn in *; discriminate. Qed.

Lemma grows_refl : forall s, grows s s.
Proof. intros s x H. exact H. Qed.
Lemma grows_trans : forall a b c, grows a b -> grows b c -> grows a c.
Proof. intros a b c H1 H2 x H. auto. Qed.

Lemma none_multi : forall lits s (mmp : pattern), @None pattern = Some mmp -> forall y, PV lits mmp y -> K s y.
Proof. intros lits s mmp E. discriminate E. Qed.

Lemma claims_step : forall f, match_claims f -> match_claims (S f).
Proof.
  intros f IH.
  assert (MD : forall lits p d s b s', match_datum (S f) lits p d s = Ok (b, s') ->
      grows s s' /\ (forall x, K s' x -> K s x \/ PV lits p x) /\ (b = true -> forall x, PV lits p x -> K s' x)).
  { intros lits p d s b s' H. cbn [match_datum] in H.
    destruct p as [l|l|l|a b0 l|v l|y l|q l].
    - injection H as <- <-. split; [apply grows_refl|]. split; [now left|intros _ x []].
    - injection H as <- <-. split; [apply grows_refl|]. split; [now left|intros _ x []].
    - (* PNil *)
      destruct (is_pair_datum d); [|injection H as <- <-; split; [apply grows_refl|split; [now left|discriminate]]].
      apply bind_Ok_inv in H. destruct H as [[b1 s1] [Hm H]].
      destruct (ms_keys f IH _ _ _ _ _ _ _ Hm) as [G1 [U1 A1]].
      destruct b1.
      + cbn [pat_last_cdr] in H. destruct (datum_last_cdr d); injection H as <- <-;
          (split; [exact G1|]; split; [intros x Hx; destruct (U1 x Hx) as [?|Hp]; [now left|now apply PVL_nil in Hp]|intros _ x []]).
      + injection H as <- <-. split; [exact G1|]. split; [|discriminate].
        intros x Hx; destruct (U1 x Hx) as [?|Hp]; [now left|now apply PVL_nil in Hp].
    - (* PCons *)
      destruct (is_pair_datum d); [|injection H as <- <-; split; [apply grows_refl|split; [now left|discriminate]]].
      apply bind_Ok_inv in H. destruct H as [[b1 s1] [Hm H]].
      destruct (ms_keys f IH _ _ _ _ _ _ _ Hm) as [G1 [U1 A1]].
      pose proof (PV_spine lits (PCons a b0 l)) as SP.
      destruct b1.
      + destruct (pat_last_cdr (PCons a b0 l)) as [lp|] eqn:ELP; destruct (datum_last_cdr d) as [ld|].
        * destruct (md_keys f IH _ _ _ _ _ _ H) as [G2 [U2 A2]].
          split; [eapply grows_trans; eassumption|]. split.
          -- intros x Hx. destruct (U2 x Hx) as [Hs|Hp].
             ++ destruct (U1 x Hs) as [?|Hp]; [now left|]. right. apply (SP x eq_refl). now left.
             ++ right. apply (SP x eq_refl). right. unfold PVtail. now rewrite ELP.
          -- intros -> x Hx. apply (SP x eq_refl) in Hx. destruct Hx as [Hx|Hx].
             ++ apply G2. now apply A1.
             ++ unfold PVtail in Hx. rewrite ELP in Hx. now apply A2.
        * injection H as <- <-. split; [exact G1|]. split; [|discriminate].
          intros x Hx. destruct (U1 x Hx) as [?|Hp]; [now left|]. right. apply (SP x eq_refl). now left.
        * injection H as <- <-. split; [exact G1|]. split; [|discriminate].
          intros x Hx. destruct (U1 x Hx) as [?|Hp]; [now left|]. right. apply (SP x eq_refl). now left.
        * injection H as <- <-. split; [exact G1|]. split.
          -- intros x Hx. destruct (U1 x Hx) as [?|Hp]; [now left|]. right. apply (SP x eq_refl). now left.
          -- intros _ x Hx. apply (SP x eq_refl) in Hx. destruct Hx as [Hx|Hx]; [now apply A1|].
             unfold PVtail in Hx. now rewrite ELP in Hx.
      + injection H as <- <-. split; [exact G1|]. split; [|discriminate].
        intros x Hx. destruct (U1 x Hx) as [?|Hp]; [now left|]. right. apply (SP x eq_refl). now left.
    - (* PVec *)
      destruct d as [q0 l0|y0 l0|l0|a0 b1 l0|v0 l0];
        try (injection H as <- <-; split; [apply grows_refl|split; [now left|discriminate]]).
      destruct (ms_keys f IH _ _ _ _ _ _ _ H) as [G1 [U1 A1]]. split; [exact G1|]. split.
      + intros x Hx. destruct (U1 x Hx) as [?|Hp]; [now left|right; now apply PV_vec].
      + intros Hb x Hx. apply A1; [exact Hb|now apply PV_vec in Hx].
    - (* PIdent *)
      destruct (str_in y lits) eqn:EL.
      + injection H as <- <-. split; [apply grows_refl|]. split; [now left|]. intros _ x [Hf _]. cbn in Hf. congruence.
      + injection H as <- <-. split; [intros x Hx; apply K_insert; now right|]. split.
        * intros x Hx. apply K_insert in Hx. destruct Hx as [->|Hx]; [right; cbn; auto|now left].
        * intros _ x [_ ->]. apply K_insert. now left.
    - (* PLit *)
      destruct d; injection H as <- <-; (split; [apply grows_refl|split; [now left|intros _ x []]]). }
  assert (MDQ : forall lits p d s x, match_datum (S f) lits p d s <> Panic x).
  { intros lits p d s x H. cbn [match_datum] in H.
    destruct p as [l|l|l|a b0 l|v l|y l|q l]; try discriminate.
    - destruct (is_pair_datum d); [|discriminate].
      destruct (match_stream f lits (pat_iter (PNil l)) (datum_iter d) s None) as [[b1 s1]|k ll|xx|] eqn:Hm; cbn [bind] in H; try discriminate.
      + destruct b1; [|discriminate]. cbn [pat_last_cdr] in H. destruct (datum_last_cdr d); discriminate.
      + injection H as ->. apply (ms_quiet f IH _ _ _ _ _ x (none_multi lits s) Hm).
    - destruct (is_pair_datum d); [|discriminate].
      destruct (match_stream f lits (pat_iter (PCons a b0 l)) (datum_iter d) s None) as [[b1 s1]|k ll|xx|] eqn:Hm; cbn [bind] in H; try discriminate.
      + destruct b1; [|discriminate].
        destruct (pat_last_cdr (PCons a b0 l)); destruct (datum_last_cdr d); try discriminate.
        exact (md_quiet f IH _ _ _ _ _ H).
      + injection H as ->. apply (ms_quiet f IH _ _ _ _ _ x (none_multi lits s) Hm).
    - destruct d; try discriminate. apply (ms_quiet f IH _ _ _ _ _ x (none_multi lits s) H).
    - destruct (str_in y lits); discriminate.
    - destruct d; discriminate. }
  split; [exact MD|exact MDQ| |].
  - (* match_stream: keys *)
    intros lits ps ds s multi b s' H. rewrite match_stream_S in H.
    destruct ps as [|sp ps']; destruct ds as [|sd ds'].
    + injection H as <- <-. split; [apply grows_refl|]. split; [now left|]. intros _ x Hx. now apply PVL_nil in Hx.
    + injection H as <- <-. split; [apply grows_refl|]. split; [now left|discriminate].
    + destruct sp as [l|l|l|a b0 l|v l|y l|q l]; try (injection H as <- <-; split; [apply grows_refl|split; [now left|discriminate]]).
      destruct multi as [mmp|]; [|injection H as <- <-; split; [apply grows_refl|split; [now left|discriminate]]].
      destruct (ms_keys f IH _ _ _ _ _ _ _ H) as [G1 [U1 A1]]. split; [exact G1|]. split.
      * intros x Hx. destruct (U1 x Hx) as [?|Hp]; [now left|]. right. apply PVL_cons. now right.
      * intros Hb x Hx. apply PVL_cons in Hx. destruct Hx as [[]|Hx]. now apply A1.
    + apply bind_Ok_inv in H. destruct H as [[b1 s1] [Hm H]].
      destruct (md_keys f IH _ _ _ _ _ _ Hm) as [G1 [U1 A1]].
      destruct b1; [|injection H as <- <-; split; [exact G1|]; split; [|discriminate];
                     intros x Hx; destruct (U1 x Hx) as [?|Hp]; [now left|right; apply PVL_cons; now left]].
      assert (REC : forall multi' b2 s2, match_stream f lits ps' ds' s1 multi' = Ok (b2, s2) ->
                grows s s2 /\ (forall x, K s2 x -> K s x \/ PVL lits (sp :: ps') x) /\
                (b2 = true -> forall x, PVL lits (sp :: ps') x -> K s2 x)).
      { intros multi' b2 s2 E. destruct (ms_keys f IH _ _ _ _ _ _ _ E) as [G2 [U2 A2]].
        split; [eapply grows_trans; eassumption|]. split.
        - intros x Hx. destruct (U2 x Hx) as [Hs|Hp].
          + destruct (U1 x Hs) as [?|Hp]; [now left|right; apply PVL_cons; now left].
          + right. apply PVL_cons. now right.
        - intros Hb x Hx. apply PVL_cons in Hx. destruct Hx as [Hx|Hx]; [apply G2; now apply A1|now apply A2]. }
      destruct sp as [l|l|l|a b0 l|v l|y l|q l]; try (eapply REC; exact H).
      * (* ellipsis *)
        destruct multi as [mmp|]; [|discriminate].
        apply bind_Ok_inv in H. destruct H as [[b2 fresh] [Hf H]].
        destruct b2; [|injection H as <- <-; split; [exact G1|]; split; [|discriminate];
                       intros x Hx; destruct (U1 x Hx) as [?|Hp]; [now left|right; apply PVL_cons; now left]].
        apply bind_Ok_inv in H. destruct H as [s2 [Hp H]].
        pose proof (push_all_keys _ _ _ Hp) as K2.
        apply bind_Ok_inv in H. destruct H as [[b3 s3] [Hr H]].
        destruct (ms_keys f IH _ _ _ _ _ _ _ Hr) as [G3 [U3 A3]].
        assert (G13 : grows s s3).
        { intros x Hx. apply G3. apply K2. now apply G1. }
        assert (U13 : forall x, K s3 x -> K s x \/ PVL lits (PEllipsis l :: ps') x).
        { intros x Hx. destruct (U3 x Hx) as [Hs|Hq]; [|now right].
          apply K2 in Hs. destruct (U1 x Hs) as [?|[]]. now left. }
        destruct b3.
        -- injection H as <- <-. split; [exact G13|]. split; [exact U13|]. intros _ x Hx. now apply A3.
        -- destruct (ms_keys f IH _ _ _ _ _ _ _ H) as [G4 [U4 A4]].
           split; [eapply grows_trans; eassumption|]. split.
           ++ intros x Hx. destruct (U4 x Hx) as [Hs|Hq]; [now apply U13|]. right. apply PVL_cons. now right.
           ++ intros Hb x Hx. apply PVL_cons in Hx. destruct Hx as [[]|Hx]. now apply A4.
      * (* identifier *)
        destruct (str_in y lits); eapply REC; exact H.
  - (* match_stream: no panic *)
    intros lits ps ds s multi x HM H. rewrite match_stream_S in H.
    destruct ps as [|sp ps']; destruct ds as [|sd ds']; try discriminate.
    + destruct sp as [l|l|l|a b0 l|v l|y l|q l]; try discriminate.
      destruct multi as [mmp|]; [|discriminate].
      exact (ms_quiet f IH _ _ _ _ _ x HM H).
    + destruct (match_datum f lits sp sd s) as [[b1 s1]|k ll|xx|] eqn:Hm; cbn in H; try discriminate;
        [|injection H as ->; exact (md_quiet f IH _ _ _ _ _ Hm)].
      destruct (md_keys f IH _ _ _ _ _ _ Hm) as [G1 [U1 A1]].
      destruct b1; [|discriminate].
      assert (REC : forall multi', (forall mmp, multi' = Some mmp -> forall y, PV lits mmp y -> K s1 y) ->
                match_stream f lits ps' ds' s1 multi' <> Panic x).
      { intros multi' HM'. exact (ms_quiet f IH _ _ _ _ _ x HM'). }
      assert (SELF : forall y, PV lits sp y -> K s1 y) by (intros y Hy; now apply A1).
      destruct sp as [l|l|l|a b0 l|v l|y l|q l];
        try (apply (REC (Some _)) in H; [exact H|intros mmp E y0 Hy; injection E as <-; now apply SELF]).
      * (* ellipsis *)
        destruct multi as [mmp|]; [|discriminate].
        destruct (match_datum f lits mmp sd []) as [[b2 fresh]|k ll|xx|] eqn:Hf; cbn in H; try discriminate;
          [|injection H as ->; exact (md_quiet f IH _ _ _ _ _ Hf)].
        destruct b2; [|discriminate].
        destruct (md_keys f IH _ _ _ _ _ _ Hf) as [_ [Uf _]].
        assert (HK : forall y, K fresh y -> K s1 y).
        { intros y Hy. destruct (Uf y Hy) as [Hn|Hp]; [now apply K_nil in Hn|]. apply G1. exact (HM mmp eq_refl y Hp). }
        destruct (push_all_ok fresh s1 HK) as [s2 [E2 K2]]. rewrite E2 in H. cbn [bind] in H.
        assert (HM2 : forall mmp0, Some mmp = Some mmp0 -> forall y, PV lits mmp0 y -> K s2 y).
        { intros mmp0 E y Hy. injection E as <-. apply K2. apply G1. exact (HM mmp eq_refl y Hy). }
        destruct (match_stream f lits (PEllipsis l :: ps') ds' s2 (Some mmp)) as [[b3 s3]|k ll|xx|] eqn:Hr; cbn in H; try discriminate;
          [|injection H as ->; exact (ms_quiet f IH _ _ _ _ _ x HM2 Hr)].
        destruct b3; [discriminate|].
        destruct (ms_keys f IH _ _ _ _ _ _ _ Hr) as [G3 _].
        apply (ms_quiet f IH _ _ _ _ _ x) in H; [exact H|].
        intros mmp0 E y Hy. apply G3. exact (HM2 mmp0 E y Hy).
      * (* identifier *)
        destruct (str_in y lits) eqn:EL.
        -- apply (REC None) in H; [exact H|intros mmp E; discriminate].
        -- apply (REC (Some (PIdent y l))) in H; [exact H|intros mmp E y0 Hy; injection E as <-; now apply SELF].
Qed.

Theorem match_claims_all : forall f, match_claims f.
Proof. induction f; [exact claims_0|now apply claims_step]. Qed.

(** the statements for users *)
Theorem matcher_never_misses_a_key : forall fuel lits p d s x, match_datum fuel lits p d s <> Panic x.
Proof. intros fuel. exact (md_quiet fuel (match_claims_all fuel)). Qed.

Theorem match_binds_the_pattern_variables : forall fuel lits p d s,
  match_datum fuel lits p d [] = Ok (true, s) -> forall x, K s x <-> PV lits p x.
Proof.
  intros fuel lits p d s H x. destruct (md_keys fuel (match_claims_all fuel) _ _ _ _ _ _ H) as [_ [U A]]. split.
  - intros Hx. destruct (U x Hx) as [Hn|Hp]; [now apply K_nil in Hn|exact Hp].
  - now apply A.
Qed.
