(** C05: expansion equations of the derived forms, proved about the syntax table computed (inside
    Coq) from the text of src/parser/grammar.sld as it is in /repo now (Gen/GrammarSld.v is
    regenerated on every run). Each equation holds for arbitrary sub-forms [e1], [e2], ... of any
    shape and with any locations; it mentions neither the names of the pattern variables nor the
    layout of grammar.sld, so re-indenting the file or renaming a pattern variable re-proves it,
    while a change of what a rule expands to breaks it. *)
From Coq Require Import ZArith NArith List Bool Lia.
From RV Require Import Model.Common Model.Datum Model.Lexer Model.Reader Model.Macro Model.Ast Model.Transform
  Model.Value Model.Interp Gen.GrammarSld Proofs.Basics.
Import ListNotations.

(** the syntax table every parser starts from *)
Definition G : sframe := Eval vm_compute in initial_syntax grammar_sld_text.

Definition sym (l : list Z) : str := map Z.to_N l.
Definition Y (l : list Z) : datum := DSym (sym l) None.     (* a symbol built by a template *)
Definition L (items : list datum) : datum := dlist items.   (* a list built by a template *)

Definition k_begin := [98;101;103;105;110]%Z.
Definition k_let := [108;101;116]%Z.
Definition k_letstar := [108;101;116;42]%Z.
Definition k_cond := [99;111;110;100]%Z.
Definition k_case := [99;97;115;101]%Z.
Definition k_and := [97;110;100]%Z.
Definition k_or := [111;114]%Z.
Definition k_when := [119;104;101;110]%Z.
Definition k_unless := [117;110;108;101;115;115]%Z.
Definition k_lambda := [108;97;109;98;100;97]%Z.
Definition k_if := [105;102]%Z.
Definition k_not := [110;111;116]%Z.
Definition k_else := [101;108;115;101]%Z.
Definition k_arrow := [61;62]%Z.
Definition k_temp := [116;101;109;112]%Z.
Definition k_x := [120]%Z.
Definition k_memv := [109;101;109;118]%Z.
Definition k_quote := [113;117;111;116;101]%Z.
Definition k_atom_key := [97;116;111;109;45;107;101;121]%Z.

(** the expansion of the use [(kw . args)] (what Parser::transform_to_statement hands to the
    transformer is the use without its keyword) *)
Definition expand (kw : list Z) (args : datum) : res datum :=
  match sframe_get G (sym kw) with
  | Some tr => transform_use tr args
  | None => err MacroMissMatch
  end.

(** a proper list of arguments as the reader builds it (locations arbitrary) *)
Fixpoint args_of (items : list (datum * loc)) : datum :=
  match items with
  | [] => DNil None
  | (x, l) :: r => DCons x (args_of r) l
  end.

Definition is_sym (k : list Z) (d : datum) : bool :=
  match d with DSym y _ => str_eqb y (sym k) | _ => false end.

Lemma fuel_expose : forall c X, 4 * (c + X) + 16 = (4 * c + 16) + 4 * X.
Proof. intros. lia. Qed.

Ltac expand_tac kw :=
  unfold expand, transform_use;
  let t := eval vm_compute in (sframe_get G (sym kw)) in change (sframe_get G (sym kw)) with t;
  cbn [t_rules t_literals apply_rules];
  unfold match_fuel, subst_fuel;
  cbn [pattern_size template_size datum_size fold_right fst snd Nat.add args_of];
  rewrite ?fuel_expose;
  cbn.

(** ** and, or *)
Lemma and_0 : expand k_and (DNil None) = Ok (DPrim (PBool true) None).
Proof. vm_compute. reflexivity. Qed.
Lemma and_1 : forall e l, expand k_and (args_of [(e, l)]) = Ok e.
Proof. intros. expand_tac k_and. reflexivity. Qed.
Lemma and_2 : forall e1 e2 l1 l2,
  expand k_and (args_of [(e1, l1); (e2, l2)]) =
  Ok (L [Y k_if; e1; L [Y k_and; e2]; DPrim (PBool false) None]).
Proof. intros. expand_tac k_and. reflexivity. Qed.
Lemma and_3 : forall e1 e2 e3 l1 l2 l3,
  expand k_and (args_of [(e1, l1); (e2, l2); (e3, l3)]) =
  Ok (L [Y k_if; e1; L [Y k_and; e2; e3]; DPrim (PBool false) None]).
Proof. intros. expand_tac k_and. reflexivity. Qed.

Lemma or_0 : expand k_or (DNil None) = Ok (DPrim (PBool false) None).
Proof. vm_compute. reflexivity. Qed.
Lemma or_1 : forall e l, expand k_or (args_of [(e, l)]) = Ok e.
Proof. intros. expand_tac k_or. reflexivity. Qed.
Lemma or_2 : forall e1 e2 l1 l2,
  expand k_or (args_of [(e1, l1); (e2, l2)]) =
  Ok (L [Y k_let; L [L [Y k_x; e1]]; L [Y k_if; Y k_x; Y k_x; L [Y k_or; e2]]]).
Proof. intros. expand_tac k_or. reflexivity. Qed.
Lemma or_3 : forall e1 e2 e3 l1 l2 l3,
  expand k_or (args_of [(e1, l1); (e2, l2); (e3, l3)]) =
  Ok (L [Y k_let; L [L [Y k_x; e1]]; L [Y k_if; Y k_x; Y k_x; L [Y k_or; e2; e3]]]).
Proof. intros. expand_tac k_or. reflexivity. Qed.

(** ** begin, when, unless *)
Lemma begin_2 : forall e1 e2 l1 l2,
  expand k_begin (args_of [(e1, l1); (e2, l2)]) = Ok (L [L [Y k_lambda; L []; e1; e2]]).
Proof. intros. expand_tac k_begin. reflexivity. Qed.
Lemma begin_1 : forall e1 l1,
  expand k_begin (args_of [(e1, l1)]) = Ok (L [L [Y k_lambda; L []; e1]]).
Proof. intros. expand_tac k_begin. reflexivity. Qed.
Lemma begin_3 : forall e1 e2 e3 l1 l2 l3,
  expand k_begin (args_of [(e1, l1); (e2, l2); (e3, l3)]) = Ok (L [L [Y k_lambda; L []; e1; e2; e3]]).
Proof. intros. expand_tac k_begin. reflexivity. Qed.

Lemma when_2 : forall t e1 e2 l0 l1 l2,
  expand k_when (args_of [(t, l0); (e1, l1); (e2, l2)]) = Ok (L [Y k_if; t; L [Y k_begin; e1; e2]]).
Proof. intros. expand_tac k_when. reflexivity. Qed.
Lemma unless_2 : forall t e1 e2 l0 l1 l2,
  expand k_unless (args_of [(t, l0); (e1, l1); (e2, l2)]) =
  Ok (L [Y k_if; L [Y k_not; t]; L [Y k_begin; e1; e2]]).
Proof. intros. expand_tac k_unless. reflexivity. Qed.

(** ** let, let* *)
Lemma let_1_1 : forall x v b lb l0 l1 l2 l3 l4,
  expand k_let (args_of [(DCons (DCons x (DCons v (DNil l4) l3) l2) (DNil l1) l0, lb); (b, None)]) =
  Ok (L [L [Y k_lambda; L [x]; b]; v]).
Proof. intros. expand_tac k_let. reflexivity. Qed.

Definition binding (x v : datum) (la lb lc : loc) : datum := DCons x (DCons v (DNil lc) lb) la.

Lemma let_2_2 : forall x v y w b1 b2 la lb lc ld le lf l0 l1 l2 l3 l4,
  expand k_let (args_of [(args_of [(binding x v la lb lc, l0); (binding y w ld le lf, l1)], l2); (b1, l3); (b2, l4)]) =
  Ok (L [L [Y k_lambda; L [x; y]; b1; b2]; v; w]).
Proof. intros. unfold binding. expand_tac k_let. reflexivity. Qed.

Lemma let_3_1 : forall x v y w z u b1 la lb lc ld le lf lg lh li l0 l1 l2 l3 l4,
  expand k_let (args_of [(args_of [(binding x v la lb lc, l0); (binding y w ld le lf, l1); (binding z u lg lh li, l2)], l3); (b1, l4)]) =
  Ok (L [L [Y k_lambda; L [x; y; z]; b1]; v; w; u]).
Proof. intros. unfold binding. expand_tac k_let. reflexivity. Qed.

Lemma letstar_1 : forall x v b la lb lc l0 l1 l2,
  expand k_letstar (args_of [(args_of [(binding x v la lb lc, l0)], l1); (b, l2)]) =
  Ok (L [Y k_let; L [L [x; v]]; b]).
Proof. intros. unfold binding. expand_tac k_letstar. reflexivity. Qed.

Lemma letstar_2 : forall x v y w b la lb lc ld le lf l0 l1 l2 l3,
  expand k_letstar (args_of [(args_of [(binding x v la lb lc, l0); (binding y w ld le lf, l1)], l2); (b, l3)]) =
  Ok (L [Y k_let; L [L [x; v]]; L [Y k_letstar; L [L [y; w]]; b]]).
Proof. intros. unfold binding. expand_tac k_letstar. reflexivity. Qed.

Lemma letstar_3 : forall x v y w z u b la lb lc ld le lf lg lh li l0 l1 l2 l3 l4,
  expand k_letstar (args_of [(args_of [(binding x v la lb lc, l0); (binding y w ld le lf, l1); (binding z u lg lh li, l2)], l3); (b, l4)]) =
  Ok (L [Y k_let; L [L [x; v]]; L [Y k_letstar; L [L [y; w]; L [z; u]]; b]]).
Proof. intros. unfold binding. expand_tac k_letstar. reflexivity. Qed.

(** ** cond. [else] and [=>] are literals: the equations for the other clause shapes need the
    test not to be the symbol else and the second element not to be => *)
Lemma if_same : forall {A} (b : bool) (x : A), (if b then x else x) = x.
Proof. intros A [|] x; reflexivity. Qed.

Ltac use_lits :=
  repeat match goal with
  | H : is_sym _ _ = false |- _ => unfold is_sym in H; cbn in H
  end;
  repeat match goal with
  | H : ?m = false |- context [if ?m' then _ else _] => change m' with m; rewrite H; cbn
  | |- _ => rewrite if_same; cbn
  end.

Lemma cond_else : forall e1 e2 l0 l1 l2 l3 l4,
  expand k_cond (args_of [(args_of [(DSym (sym k_else) l0, l1); (e1, l2); (e2, l3)], l4)]) =
  Ok (L [Y k_begin; e1; e2]).
Proof. intros. expand_tac k_cond. reflexivity. Qed.

Lemma cond_test_only : forall t l0 l1, is_sym k_else t = false ->
  expand k_cond (args_of [(args_of [(t, l0)], l1)]) = Ok t.
Proof. intros t l0 l1 H. expand_tac k_cond. use_lits. reflexivity. Qed.

Lemma cond_last_clause : forall t e l0 l1 l2, is_sym k_else t = false ->
  expand k_cond (args_of [(args_of [(t, l0); (e, l1)], l2)]) =
  Ok (L [Y k_if; t; L [Y k_begin; e]]).
Proof. intros t e l0 l1 l2 H. expand_tac k_cond. use_lits. reflexivity. Qed.

Lemma cond_last_clause_2 : forall t e1 e2 l0 l1 l2 l3, is_sym k_else t = false -> is_sym k_arrow e1 = false ->
  expand k_cond (args_of [(args_of [(t, l0); (e1, l1); (e2, l2)], l3)]) =
  Ok (L [Y k_if; t; L [Y k_begin; e1; e2]]).
Proof. intros t e1 e2 l0 l1 l2 l3 H H2. expand_tac k_cond. use_lits. reflexivity. Qed.

Lemma cond_last_arrow : forall t f l0 l1 l2 l3 l4, is_sym k_else t = false ->
  expand k_cond (args_of [(args_of [(t, l0); (DSym (sym k_arrow) l1, l2); (f, l3)], l4)]) =
  Ok (L [Y k_let; L [L [Y k_temp; t]]; L [Y k_if; Y k_temp; L [f; Y k_temp]]]).
Proof. intros t f l0 l1 l2 l3 l4 H. expand_tac k_cond. use_lits. reflexivity. Qed.

Lemma cond_clause_more : forall t e c l0 l1 l2 l3, is_sym k_else t = false ->
  expand k_cond (args_of [(args_of [(t, l0); (e, l1)], l2); (c, l3)]) =
  Ok (L [Y k_if; t; L [Y k_begin; e]; L [Y k_cond; c]]).
Proof. intros t e c l0 l1 l2 l3 H. expand_tac k_cond. use_lits. reflexivity. Qed.

Lemma cond_clause_more_2 : forall t e c1 c2 l0 l1 l2 l3 l4, is_sym k_else t = false ->
  expand k_cond (args_of [(args_of [(t, l0); (e, l1)], l2); (c1, l3); (c2, l4)]) =
  Ok (L [Y k_if; t; L [Y k_begin; e]; L [Y k_cond; c1; c2]]).
Proof. intros t e c1 c2 l0 l1 l2 l3 l4 H. expand_tac k_cond. use_lits. reflexivity. Qed.

Lemma cond_test_only_more : forall t c l0 l1 l2, is_sym k_else t = false ->
  expand k_cond (args_of [(args_of [(t, l0)], l1); (c, l2)]) =
  Ok (L [Y k_let; L [L [Y k_temp; t]]; L [Y k_if; Y k_temp; Y k_temp; L [Y k_cond; c]]]).
Proof. intros t c l0 l1 l2 H. expand_tac k_cond. use_lits. reflexivity. Qed.

Lemma cond_arrow_more : forall t f c l0 l1 l2 l3 l4 l5, is_sym k_else t = false ->
  expand k_cond (args_of [(args_of [(t, l0); (DSym (sym k_arrow) l1, l2); (f, l3)], l4); (c, l5)]) =
  Ok (L [Y k_let; L [L [Y k_temp; t]]; L [Y k_if; Y k_temp; L [f; Y k_temp]; L [Y k_cond; c]]]).
Proof. intros t f c l0 l1 l2 l3 l4 l5 H. expand_tac k_cond. use_lits. reflexivity. Qed.

(** ** case. A compound key is let-bound first; the equations for an atomic key [k] need that
    [k] is not a list *)
Ltac use_atom :=
  repeat match goal with
  | H : is_pair_datum _ = false |- _ => unfold is_pair_datum in H
  end; use_lits.

Definition quoted (d : datum) : datum := L [Y k_quote; d].

Lemma case_compound_key : forall k1 k2 c l0 l1 l2 l3,
  expand k_case (args_of [(args_of [(k1, l0); (k2, l1)], l2); (c, l3)]) =
  Ok (L [Y k_let; L [L [Y k_atom_key; L [k1; k2]]]; L [Y k_case; Y k_atom_key; c]]).
Proof. intros. expand_tac k_case. reflexivity. Qed.

Lemma case_else : forall k e1 e2 l0 l1 l2 l3 l4 l5, is_pair_datum k = false -> is_sym k_arrow e1 = false ->
  expand k_case (args_of [(k, l0); (args_of [(DSym (sym k_else) l1, l2); (e1, l3); (e2, l4)], l5)]) =
  Ok (L [Y k_begin; e1; e2]).
Proof. intros k e1 e2 l0 l1 l2 l3 l4 l5 H H2. expand_tac k_case. use_atom. reflexivity. Qed.

Lemma case_else_arrow : forall k f l0 l1 l2 l3 l4 l5 l6, is_pair_datum k = false ->
  expand k_case (args_of [(k, l0); (args_of [(DSym (sym k_else) l1, l2); (DSym (sym k_arrow) l3, l4); (f, l5)], l6)]) =
  Ok (L [f; k]).
Proof. intros k f l0 l1 l2 l3 l4 l5 l6 H. expand_tac k_case. use_atom. reflexivity. Qed.

Lemma case_last_clause : forall k a b e l0 l1 l2 l3 l4 l5, is_pair_datum k = false ->
  expand k_case (args_of [(k, l0); (args_of [(args_of [(a, l1); (b, l2)], l3); (e, l4)], l5)]) =
  Ok (L [Y k_if; L [Y k_memv; k; quoted (L [a; b])]; L [Y k_begin; e]]).
Proof. intros k a b e l0 l1 l2 l3 l4 l5 H. expand_tac k_case. use_atom. reflexivity. Qed.

Lemma case_last_clause_arrow : forall k a f l0 l1 l2 l3 l4 l5 l6, is_pair_datum k = false ->
  expand k_case (args_of [(k, l0); (args_of [(args_of [(a, l1)], l2); (DSym (sym k_arrow) l3, l4); (f, l5)], l6)]) =
  Ok (L [Y k_if; L [Y k_memv; k; quoted (L [a])]; L [f; k]]).
Proof. intros k a f l0 l1 l2 l3 l4 l5 l6 H. expand_tac k_case. use_atom. reflexivity. Qed.

Lemma case_clause_more : forall k a b e c l0 l1 l2 l3 l4 l5 l6, is_pair_datum k = false ->
  expand k_case (args_of [(k, l0); (args_of [(args_of [(a, l1); (b, l2)], l3); (e, l4)], l5); (c, l6)]) =
  Ok (L [Y k_if; L [Y k_memv; k; quoted (L [a; b])]; L [Y k_begin; e]; L [Y k_case; k; c]]).
Proof. intros k a b e c l0 l1 l2 l3 l4 l5 l6 H. expand_tac k_case. use_atom. reflexivity. Qed.

Lemma case_clause_arrow_more : forall k a f c l0 l1 l2 l3 l4 l5 l6 l7, is_pair_datum k = false ->
  expand k_case (args_of [(k, l0); (args_of [(args_of [(a, l1)], l2); (DSym (sym k_arrow) l3, l4); (f, l5)], l6); (c, l7)]) =
  Ok (L [Y k_if; L [Y k_memv; k; quoted (L [a])]; L [f; k]; L [Y k_case; k; c]]).
Proof. intros k a f c l0 l1 l2 l3 l4 l5 l6 l7 H. expand_tac k_case. use_atom. reflexivity. Qed.

(** ** the known class: an ellipsis never matches zero items, so these uses are rejected
    (a reported syntax error, never a mis-expansion) *)
Lemma when_single_body_rejected : forall t e l0 l1,
  expand k_when (args_of [(t, l0); (e, l1)]) = Err MacroMissMatch None.
Proof. intros. expand_tac k_when. reflexivity. Qed.
Lemma unless_single_body_rejected : forall t e l0 l1,
  expand k_unless (args_of [(t, l0); (e, l1)]) = Err MacroMissMatch None.
Proof. intros. expand_tac k_unless. reflexivity. Qed.
Lemma begin_empty_rejected : expand k_begin (DNil None) = Err MacroMissMatch None.
Proof. vm_compute. reflexivity. Qed.
Lemma let_no_bindings_rejected : forall b l0 l1,
  expand k_let (args_of [(DNil l0, l1); (b, None)]) = Err MacroMissMatch None.
Proof. intros. expand_tac k_let. reflexivity. Qed.
