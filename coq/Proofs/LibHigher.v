(** C11: map for-each fold-left fold-right of base.sld (see Proofs/LibBase.v) *)
From Coq Require Import ZArith NArith List Bool Lia PeanoNat.
From RV Require Import Model.Common Model.Real32 Model.Num Model.Datum Model.Lexer Model.Reader Model.Macro
  Model.Ast Model.Transform Model.Value Model.Equal Model.Print Model.Builtins Model.Eval Model.Interp
  Spec.EvalSpec Spec.ListSpec Gen.GrammarSld Gen.BaseSld Proofs.Basics Proofs.StoreProofs Proofs.EvalProofs Proofs.FuelProofs
  Proofs.DerivedProofs Proofs.ListProofs Proofs.LibBase Proofs.LibLists.
Import ListNotations.
Local Open Scope Z_scope.

(** procedures handed to the higher-order procedures: [p] computes the function [f] and touches nothing *)
Definition pure_fun1 (p : value) (f : value -> value) : Prop :=
  is_proc p = true /\ forall st x, exists st', app st p [x] (Ok (f x)) st' /\ keeps st st'.
Definition pure_fun2 (p : value) (f : value -> value -> value) : Prop :=
  is_proc p = true /\ forall st x y, exists st', app st p [x; y] (Ok (f x y)) st' /\ keeps st st'.

Definition n_map := [109;97;112].
(* the parameter names as they are in base.sld now (so that a renaming re-proves) *)
Definition p_map_0 : str := Eval vm_compute in par n_map 0.
Definition p_map_1 : str := Eval vm_compute in par n_map 1.

Lemma map_closure : forall c, code_of n_map = Some c ->
  forall p f, pure_fun1 p f ->
  forall l st lf, has_library st lf ->
  exists st', app st (closure c lf) [p; vlist l] (Ok (vlist (map f l))) st' /\ keeps st st'.
Proof.
  intros c Hc. vm_compute in Hc. injection Hc as <-. intros p f [Hp Hf].
  induction l as [|x r IH]; intros st lf HL; open_lib HL.
  - eexists. split.
    + enter_tac. eapply evbody_last. eapply ev_if_false; [ev_simple|reflexivity|ev_simple].
    + keeps_tac.
  - cbn [vlist map].
    start_proc st lf [(p_map_0, p); (p_map_1, VPair x (vlist r))].
    destruct (Hf (enter st lf [(p_map_0, p); (p_map_1, VPair x (vlist r))]) x) as [st2 [Hcall K2]].
    transport (enter st lf [(p_map_0, p); (p_map_1, VPair x (vlist r))]) st2 K2.
    assert (HL2 : has_library st2 lf) by (eapply has_library_keeps; [exact HL | keeps_tac]).
    destruct (IH st2 lf HL2) as [st3 [Hrec K3]].
    eexists. split.
    + enter_tac. eapply evbody_last. eapply ev_if_true; [ev_simple|reflexivity|].
      eapply ev_call; [ev_simple| |reflexivity|].
      * eapply evs_cons; [|eapply evs_cons; [|apply evs_nil]].
        -- eapply ev_call; [ev_simple|evs_simple|exact Hp|exact Hcall].
        -- ev_simple.
      * app_native.
    + keeps_tac.
Qed.

Theorem map_spec : forall p f l, pure_fun1 p f -> lib_call n_map [p; vlist l] (vlist (map f l)).
Proof.
  intros p f l H. eapply lib_call_intro; [vm_compute; reflexivity|].
  intros st lf HL. eapply map_closure; [reflexivity|exact H|exact HL].
Qed.



(** fold-left and fold-right (minischeme's: the procedure takes the element first, the accumulator second) *)
Definition n_fold_left := [102;111;108;100;45;108;101;102;116].
(* the parameter names as they are in base.sld now (so that a renaming re-proves) *)
Definition p_fold_left_0 : str := Eval vm_compute in par n_fold_left 0.
Definition p_fold_left_1 : str := Eval vm_compute in par n_fold_left 1.
Definition p_fold_left_2 : str := Eval vm_compute in par n_fold_left 2.
Definition n_fold_right := [102;111;108;100;45;114;105;103;104;116].

Lemma fold_left_closure : forall c, code_of n_fold_left = Some c ->
  forall p g, pure_fun2 p g ->
  forall l init st lf, has_library st lf ->
  exists st', app st (closure c lf) [p; init; vlist l] (Ok (fold_left (fun acc x => g x acc) l init)) st' /\ keeps st st'.
Proof.
  intros c Hc. vm_compute in Hc. injection Hc as <-. intros p g [Hp Hg].
  induction l as [|x r IH]; intros init st lf HL; open_lib HL.
  - start_proc st lf [(p_fold_left_0, p); (p_fold_left_1, init); (p_fold_left_2, VNil)].
    pose proof (null_spec VNil) as Hn. call_lib Hn (enter st lf [(p_fold_left_0, p); (p_fold_left_1, init); (p_fold_left_2, VNil)]) lf.
    eexists. split.
    + enter_tac. eapply evbody_last. eapply ev_if_true; [ev_simple|reflexivity|ev_simple].
    + keeps_tac.
  - cbn [vlist fold_left].
    start_proc st lf [(p_fold_left_0, p); (p_fold_left_1, init); (p_fold_left_2, VPair x (vlist r))].
    pose proof (null_spec (VPair x (vlist r))) as Hn.
    call_lib Hn (enter st lf [(p_fold_left_0, p); (p_fold_left_1, init); (p_fold_left_2, VPair x (vlist r))]) lf.
    match goal with K : keeps _ ?s2 |- _ =>
      destruct (Hg s2 x init) as [st3 [Hcall K3]]; transport s2 st3 K3
    end.
    assert (HL3 : has_library st3 lf) by (eapply has_library_keeps; [exact HL | keeps_tac]).
    destruct (IH (g x init) st3 lf HL3) as [st4 [Hrec K4]].
    eexists. split.
    + enter_tac. eapply evbody_last. eapply ev_if_false; [ev_simple|reflexivity|].
      eapply ev_call; [ev_simple| |reflexivity|exact Hrec].
      eapply evs_cons; [ev_simple|].
      eapply evs_cons; [eapply ev_call; [ev_simple|evs_simple|exact Hp|exact Hcall]|].
      eapply evs_cons; [ev_simple|apply evs_nil].
    + keeps_tac.
Qed.

Theorem fold_left_spec : forall p g l init, pure_fun2 p g ->
  lib_call n_fold_left [p; init; vlist l] (fold_left (fun acc x => g x acc) l init).
Proof.
  intros p g l init H. eapply lib_call_intro; [vm_compute; reflexivity|].
  intros st lf HL. eapply fold_left_closure; [reflexivity|exact H|exact HL].
Qed.

(* the parameter names as they are in base.sld now (so that a renaming re-proves) *)
Definition p_fold_right_0 : str := Eval vm_compute in par n_fold_right 0.
Definition p_fold_right_1 : str := Eval vm_compute in par n_fold_right 1.
Definition p_fold_right_2 : str := Eval vm_compute in par n_fold_right 2.
Lemma fold_right_closure : forall c, code_of n_fold_right = Some c ->
  forall p g, pure_fun2 p g ->
  forall l init st lf, has_library st lf ->
  exists st', app st (closure c lf) [p; init; vlist l] (Ok (fold_right g init l)) st' /\ keeps st st'.
Proof.
  intros c Hc. vm_compute in Hc. injection Hc as <-. intros p g [Hp Hg].
  induction l as [|x r IH]; intros init st lf HL; open_lib HL.
  - start_proc st lf [(p_fold_right_0, p); (p_fold_right_1, init); (p_fold_right_2, VNil)].
    pose proof (null_spec VNil) as Hn. call_lib Hn (enter st lf [(p_fold_right_0, p); (p_fold_right_1, init); (p_fold_right_2, VNil)]) lf.
    eexists. split.
    + enter_tac. eapply evbody_last. eapply ev_if_true; [ev_simple|reflexivity|ev_simple].
    + keeps_tac.
  - cbn [vlist fold_right].
    start_proc st lf [(p_fold_right_0, p); (p_fold_right_1, init); (p_fold_right_2, VPair x (vlist r))].
    pose proof (null_spec (VPair x (vlist r))) as Hn.
    call_lib Hn (enter st lf [(p_fold_right_0, p); (p_fold_right_1, init); (p_fold_right_2, VPair x (vlist r))]) lf.
    match goal with K : keeps _ ?s2 |- _ =>
      assert (HL2 : has_library s2 lf) by (eapply has_library_keeps; [exact HL | keeps_tac]);
      destruct (IH init s2 lf HL2) as [st3 [Hrec K3]]; transport s2 st3 K3
    end.
    destruct (Hg st3 x (fold_right g init r)) as [st4 [Hcall K4]].
    eexists. split.
    + enter_tac. eapply evbody_last. eapply ev_if_false; [ev_simple|reflexivity|].
      eapply ev_call; [ev_simple| |exact Hp|exact Hcall].
      eapply evs_cons; [ev_simple|]. eapply evs_cons; [|apply evs_nil].
      eapply ev_call; [ev_simple|evs_simple|reflexivity|exact Hrec].
    + keeps_tac.
Qed.

Theorem fold_right_spec : forall p g l init, pure_fun2 p g ->
  lib_call n_fold_right [p; init; vlist l] (fold_right g init l).
Proof.
  intros p g l init H. eapply lib_call_intro; [vm_compute; reflexivity|].
  intros st lf HL. eapply fold_right_closure; [reflexivity|exact H|exact HL].
Qed.

(** for-each: calls the procedure on every element, returns the unspecified value *)
Definition n_for_each := [102;111;114;45;101;97;99;104].
(* the parameter names as they are in base.sld now (so that a renaming re-proves) *)
Definition p_for_each_0 : str := Eval vm_compute in par n_for_each 0.
Definition p_for_each_1 : str := Eval vm_compute in par n_for_each 1.
Lemma for_each_closure : forall c, code_of n_for_each = Some c ->
  forall p f, pure_fun1 p f ->
  forall l st lf, has_library st lf ->
  exists st', app st (closure c lf) [p; vlist l] (Ok VVoid) st' /\ keeps st st'.
Proof.
  intros c Hc. vm_compute in Hc. injection Hc as <-. intros p f [Hp Hf].
  induction l as [|x r IH]; intros st lf HL; open_lib HL.
  - eexists. split.
    + enter_tac. eapply evbody_last. eapply ev_if_false_none; [ev_simple|reflexivity].
    + keeps_tac.
  - cbn [vlist].
    start_proc st lf [(p_for_each_0, p); (p_for_each_1, VPair x (vlist r))].
    start_proc (enter st lf [(p_for_each_0, p); (p_for_each_1, VPair x (vlist r))]) (length (frames st)) (@nil (str * value)).
    destruct (Hf (enter (enter st lf [(p_for_each_0, p); (p_for_each_1, VPair x (vlist r))]) (length (frames st)) []) x)
      as [st3 [Hcall K3]].
    transport (enter (enter st lf [(p_for_each_0, p); (p_for_each_1, VPair x (vlist r))]) (length (frames st)) []) st3 K3.
    assert (HL3 : has_library st3 lf) by (eapply has_library_keeps; [exact HL | keeps_tac]).
    destruct (IH st3 lf HL3) as [st4 [Hrec K4]].
    eexists. split.
    + enter_tac. eapply evbody_last. eapply ev_if_true; [ev_simple|reflexivity|].
      eapply ev_call; [eapply ev_lambda | eapply evs_nil | reflexivity | enter_tac].
      eapply evbody_cons.
      * eapply ev_call; [ev_simple|evs_simple|exact Hp|exact Hcall].
      * eapply evbody_last. eapply ev_call; [ev_simple|evs_simple|reflexivity|exact Hrec].
    + keeps_tac.
Qed.

Theorem for_each_spec : forall p f l, pure_fun1 p f -> lib_call n_for_each [p; vlist l] VVoid.
Proof.
  intros p f l H. eapply lib_call_intro; [vm_compute; reflexivity|].
  intros st lf HL. eapply for_each_closure; [reflexivity|exact H|exact HL].
Qed.

