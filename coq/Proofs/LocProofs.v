(** C15: how locations are produced and handed on. *)
From Coq Require Import ZArith NArith List Bool Lia.
From RV Require Import Model.Common Model.Datum Model.Lexer Model.Reader Model.Macro Model.Ast Model.Transform
  Model.Value Model.Eval Model.Interp Proofs.Basics Proofs.LexProofs.
Import ListNotations.
Local Open Scope N_scope.

(** positions are ordered by line, then column *)
Definition pos_le (p q : pos) : Prop := fst p < fst q \/ (fst p = fst q /\ snd p <= snd q).

Lemma pos_le_refl : forall p, pos_le p p.
Proof. intros. right. split; [reflexivity|lia]. Qed.
Lemma pos_le_trans : forall a b c, pos_le a b -> pos_le b c -> pos_le a c.
Proof. unfold pos_le. intros a b c [H1|[H1 H2]] [H3|[H3 H4]]; try (left; lia). right. split; lia. Qed.

(** the cursor only moves forward *)
Lemma adv_forward : forall c p, pos_le p (adv c p).
Proof. intros c [l k]. unfold adv, pos_le. cbn. destruct (c =? c_nl); cbn; [left; lia|right; split; lia]. Qed.

Lemma adv_all_forward : forall cs p, pos_le p (adv_all cs p).
Proof.
  induction cs as [|c cs IH]; intros p; cbn; [apply pos_le_refl|].
  eapply pos_le_trans; [apply adv_forward|apply IH].
Qed.

(** the location of an identifier token is the cursor position just after its last character,
    which is not before its first character: it lies in the token's extent *)
Theorem identifier_location_in_extent : forall f c cs rest p,
  plain_initial c = true -> forallb is_subsequent cs = true ->
  match rest with [] => True | d :: _ => is_delimiter d = true end ->
  exists q, lex_next (S f) (c :: cs ++ rest) p = Ok (Some (TIdent (c :: cs), q), rest, q) /\
            q = adv_all (c :: cs) p /\ pos_le p q.
Proof.
  intros f c cs rest p H1 H2 H3. exists (adv_all (c :: cs) p).
  split; [now apply lex_identifier|]. split; [reflexivity|apply adv_all_forward].
Qed.

(** white space and comments before a token only move the cursor forward *)
Theorem skipped_layout_moves_forward : forall ws p, pos_le p (adv_all ws p).
Proof. exact (fun ws p => adv_all_forward ws p). Qed.

(** an error that already carries a location keeps it; only an error without location receives
    the location of the statement being evaluated *)
Theorem relocate_keeps_location : forall {A} k p l, @relocate A (Err k (Some p)) l = Err k (Some p).
Proof. reflexivity. Qed.
Theorem relocate_fills_missing : forall {A} k l, @relocate A (Err k None) l = Err k l.
Proof. reflexivity. Qed.
Theorem relocate_ok : forall {A} (a : A) l, relocate (Ok a) l = Ok a.
Proof. reflexivity. Qed.

(** every error of a top-level form comes out of eval_ast with its own location if it has one,
    otherwise with the location of that form *)
Theorem eval_ast_location : forall fs cwd efuel stm env c k l c',
  eval_ast fs cwd efuel stm env c = (Err k l, c') ->
  exists l0, l = loc_or l0 (stmt_loc stm).
Proof.
  intros fs cwd efuel stm env c k l c' H. unfold eval_ast in H.
  match type of H with context [let '(_, _) := ?x in _] => destruct x as [r0 c0] end.
  destruct r0 as [a|k0 l0|x|]; cbn in H; try discriminate. injection H as Hk Hl Hc. exists l0. now rewrite <- Hl.
Qed.

(** data built from a template carry no location, so the expansion as a whole takes the
    location of the macro use (and the parts substituted from the use keep their own) *)
Theorem template_list_has_no_location : forall f els l s out,
  substitute (S f) (TList els l) s = Ok out -> exists items, out = [dlist items] /\ dloc (dlist items) = None.
Proof.
  intros f els l s out H. cbn [substitute] in H.
  match type of H with bind ?m _ = _ => destruct m as [items|k ll|x|] end; cbn in H; try discriminate.
  injection H as <-. exists items. split; [reflexivity|]. destruct items; reflexivity.
Qed.

Theorem expansion_takes_use_location : forall ex l, dloc ex = None ->
  dloc (set_dloc ex (loc_or (dloc ex) l)) = l.
Proof. intros ex l H. rewrite H. destruct ex; reflexivity. Qed.

Theorem expansion_keeps_own_location : forall ex l p, dloc ex = Some p ->
  dloc (set_dloc ex (loc_or (dloc ex) l)) = Some p.
Proof. intros ex l p H. rewrite H. destruct ex; reflexivity. Qed.
