(** C18: the REPL model (Model/Repl.v). *)
From Coq Require Import ZArith NArith List Bool Lia.
From RV Require Import Model.Common Model.Datum Model.Lexer Model.Value Model.Interp Model.Repl Proofs.Basics.
Import ListNotations.

(** the scan is a left fold: scanning accumulated text is scanning it piece by piece *)
Lemma bscan_from_app : forall a b sc, bscan_from sc (a ++ b) = bscan_from (bscan_from sc a) b.
Proof. intros. unfold bscan_from. apply fold_left_app. Qed.

(** parentheses inside a string literal, a character literal, a |quoted identifier| or a
    comment neither open nor close a list *)
Definition plain_str_char (c : char) : bool := negb (N.eqb c c_dquote) && negb (N.eqb c c_backslash).

Lemma bscan_in_string : forall body n, forallb plain_str_char body = true ->
  bscan_from (BStr, n) body = (BStr, n).
Proof.
  induction body as [|c body IH]; intros n H; [reflexivity|].
  cbn in H. apply andb_true_iff in H as [Hc H]. unfold plain_str_char in Hc.
  apply andb_true_iff in Hc as [H1 H2]. apply negb_true_iff in H1, H2.
  cbn [bscan_from fold_left bstep]. rewrite H1, H2. now apply IH.
Qed.

Theorem bscan_string_literal : forall body n, forallb plain_str_char body = true ->
  bscan_from (BCode, n) (c_dquote :: body ++ [c_dquote]) = (BCode, n).
Proof.
  intros body n H. change (c_dquote :: body ++ [c_dquote]) with ([c_dquote] ++ body ++ [c_dquote]).
  rewrite !bscan_from_app. cbn [bscan_from fold_left bstep].
  change (N.eqb c_dquote c_lparen) with false. change (N.eqb c_dquote c_rparen) with false.
  change (N.eqb c_dquote c_semi) with false. change (N.eqb c_dquote c_dquote) with true. cbv iota.
  fold (bscan_from (BStr, n) body). rewrite (bscan_in_string body n H). reflexivity.
Qed.

(** an escaped character inside a string (for instance an escaped quote or backslash) is skipped too *)
Theorem bscan_string_escape : forall c n, bscan_from (BStr, n) [c_backslash; c] = (BStr, n).
Proof. intros. reflexivity. Qed.

Theorem bscan_character_literal : forall c n, bscan_from (BCode, n) [c_hash; c_backslash; c] = (BCode, n).
Proof. intros. reflexivity. Qed.

Lemma bscan_in_bar : forall body n, forallb (fun c => negb (N.eqb c c_bar)) body = true ->
  bscan_from (BBar, n) body = (BBar, n).
Proof.
  induction body as [|c body IH]; intros n H; [reflexivity|].
  cbn in H. apply andb_true_iff in H as [Hc H]. apply negb_true_iff in Hc.
  cbn [bscan_from fold_left bstep]. rewrite Hc. now apply IH.
Qed.

Theorem bscan_quoted_identifier : forall body n, forallb (fun c => negb (N.eqb c c_bar)) body = true ->
  bscan_from (BCode, n) (c_bar :: body ++ [c_bar]) = (BCode, n).
Proof.
  intros body n H. change (c_bar :: body ++ [c_bar]) with ([c_bar] ++ body ++ [c_bar]).
  rewrite !bscan_from_app. cbn [bscan_from fold_left bstep].
  change (N.eqb c_bar c_lparen) with false. change (N.eqb c_bar c_rparen) with false.
  change (N.eqb c_bar c_semi) with false. change (N.eqb c_bar c_dquote) with false.
  change (N.eqb c_bar c_bar) with true. cbv iota.
  fold (bscan_from (BBar, n) body). rewrite (bscan_in_bar body n H). reflexivity.
Qed.

Lemma bscan_in_comment : forall body n, forallb not_eol body = true ->
  bscan_from (BComment, n) body = (BComment, n).
Proof.
  induction body as [|c body IH]; intros n H; [reflexivity|].
  cbn in H. apply andb_true_iff in H as [Hc H]. unfold not_eol in Hc. apply negb_true_iff in Hc.
  cbn [bscan_from fold_left bstep]. rewrite Hc. now apply IH.
Qed.

Theorem bscan_comment : forall body n, forallb not_eol body = true ->
  bscan_from (BCode, n) (c_semi :: body ++ [c_nl]) = (BCode, n).
Proof.
  intros body n H. change (c_semi :: body ++ [c_nl]) with ([c_semi] ++ body ++ [c_nl]).
  rewrite !bscan_from_app. cbn [bscan_from fold_left bstep].
  change (N.eqb c_semi c_lparen) with false. change (N.eqb c_semi c_rparen) with false.
  change (N.eqb c_semi c_semi) with true. cbv iota.
  fold (bscan_from (BComment, n) body). rewrite (bscan_in_comment body n H). reflexivity.
Qed.

(** in code, a parenthesis counts one up or down and every other plain character leaves the count *)
Theorem bscan_parens : forall n,
  bscan_from (BCode, n) [c_lparen] = (BCode, (n + 1)%Z) /\ bscan_from (BCode, n) [c_rparen] = (BCode, (n - 1)%Z).
Proof. intros. split; reflexivity. Qed.

(** ** the loop: a session is the sequence of its submissions *)

(** the text the loop has accumulated after the lines [g] (each followed by a newline) *)
Fixpoint pending_of (g : list (list char)) : list char :=
  match g with [] => [] | l :: r => l ++ [10%N] ++ pending_of r end.

(** the lines [g ++ [last]] form one submission: no line is empty, the bracket test fails after
    every proper prefix and holds at the end *)
Fixpoint one_submission (before : list char) (g : list (list char)) (last : list char) : Prop :=
  match g with
  | [] => last <> [] /\ check_bracket_closed (before ++ last) = true
  | l :: r => l <> [] /\ check_bracket_closed (before ++ l) = false /\
              one_submission (before ++ l ++ [10%N]) r last
  end.

Section Session.
Variable fs : filesys.
Variable cwd : str.
Variable efuel : nat.

Definition submit (rs : repl_state) (text : list char) : repl_state :=
  let '((r, c), _) := eval_text fs cwd efuel text (r_ctx rs) in
  let '(o, c') := drain c in
  match r with
  | Ok v => {| r_pending := []; r_ctx := c'; r_out := r_out rs ++ o ++ value_line (c_st c') v; r_errors := r_errors rs |}
  | Err k _ => {| r_pending := []; r_ctx := c'; r_out := r_out rs ++ o; r_errors := r_errors rs ++ [k] |}
  | Panic _ => {| r_pending := []; r_ctx := c'; r_out := r_out rs ++ o; r_errors := r_errors rs ++ [LogicExtension] |}
  | OutOfFuel => {| r_pending := []; r_ctx := c'; r_out := r_out rs ++ o; r_errors := r_errors rs ++ [SyntaxExtension] |}
  end.

Lemma repl_line_pending : forall rs line, line <> [] ->
  check_bracket_closed (r_pending rs ++ line) = false ->
  repl_line fs cwd efuel rs line =
  {| r_pending := (r_pending rs ++ line) ++ [10%N]; r_ctx := r_ctx rs; r_out := r_out rs; r_errors := r_errors rs |}.
Proof. intros rs [|c l] Hne H; [congruence|]. unfold repl_line. now rewrite H. Qed.

Lemma repl_line_submit : forall rs line, line <> [] ->
  check_bracket_closed (r_pending rs ++ line) = true ->
  repl_line fs cwd efuel rs line = submit rs (r_pending rs ++ line).
Proof. intros rs [|c l] Hne H; [congruence|]. unfold repl_line, submit. now rewrite H. Qed.

(** nothing is evaluated before the lists are closed; when they are, exactly the accumulated
    text is evaluated, on the same interpreter, and the buffer is cleared *)
Lemma one_submission_runs : forall g last rs,
  one_submission (r_pending rs) g last ->
  fold_left (repl_line fs cwd efuel) (g ++ [last]) rs = submit rs (r_pending rs ++ pending_of g ++ last).
Proof.
  induction g as [|l r IH]; intros last rs H; cbn [one_submission] in H.
  - destruct H as [Hne Hc]. cbn [app fold_left pending_of]. now apply repl_line_submit.
  - destruct H as [Hne [Hc Hr]]. cbn [app fold_left].
    rewrite (repl_line_pending rs l Hne Hc).
    rewrite IH; cbn [r_pending r_ctx r_out r_errors].
    + unfold submit. cbn [r_ctx r_out r_errors pending_of]. now rewrite <- !app_assoc.
    + now rewrite <- app_assoc.
Qed.

(** a session made of submissions is the sequence of their evaluations on one interpreter *)
Fixpoint session_lines (subs : list (list (list char) * list char)) : list (list char) :=
  match subs with [] => [] | (g, last) :: r => (g ++ [last]) ++ session_lines r end.

Lemma submit_clears : forall rs t, r_pending (submit rs t) = [].
Proof.
  intros rs t. unfold submit. destruct (eval_text fs cwd efuel t (r_ctx rs)) as [[r c] tr].
  destruct (drain c) as [o c']. destruct r; reflexivity.
Qed.

Theorem session_is_sequence : forall subs rs, r_pending rs = [] ->
  Forall (fun s => one_submission [] (fst s) (snd s)) subs ->
  fold_left (repl_line fs cwd efuel) (session_lines subs) rs =
  fold_left (fun rs s => submit rs (pending_of (fst s) ++ snd s)) subs rs.
Proof.
  induction subs as [|[g last] subs IH]; intros rs Hp HF; [reflexivity|].
  inversion HF as [|? ? H1 H2]; subst. cbn [session_lines fold_left fst snd].
  rewrite fold_left_app. rewrite one_submission_runs by (rewrite Hp; exact H1).
  rewrite Hp. cbn [app]. apply IH; [apply submit_clears|exact H2].
Qed.
End Session.
