(** C07: the transformer (datum -> AST, with macro expansion) never panics: for every datum, syntax
    environment and fuel the result is a statement, a reported error or the model's timeout. The only
    panic site in its reach is the macro expander's get_mut().unwrap(), excluded by Proofs/MacroNoPanic.v. *)
From Coq Require Import ZArith NArith List Bool Lia.
From RV Require Import Model.Common Model.Datum Model.Macro Model.Ast Model.Transform Proofs.Basics Proofs.MacroProofs Proofs.StoreProofs
  Proofs.NoPanicProofs.
From RV Require Import Proofs.MacroNoPanic.
Import ListNotations.

Lemma clean_oof : forall {A}, clean (@OutOfFuel A).
Proof. intros A x. discriminate. Qed.

Ltac cl :=
  repeat first
    [ apply clean_ok | apply clean_err | apply clean_oof | assumption
    | progress unfold err, lerr
    | match goal with
      | |- clean (bind _ _) => apply clean_bind; [|intros]
      | |- clean (let '(_, _) := ?x in _) => destruct x
      | |- clean (if ?b then _ else _) => destruct b
      | |- clean (match ?x with _ => _ end) => destruct x
      end ].

Lemma clean_mapM : forall {A B} (f : A -> res B) l, (forall a, clean (f a)) -> clean (mapM f l).
Proof. intros A B f l H. induction l as [|a r IH]; cbn; cl. apply H. Qed.

Lemma clean_next_or_end : forall {A} (l : list A), clean (next_or_end l).
Proof. intros A l. unfold next_or_end. cl. Qed.
Lemma clean_expect_list : forall d, clean (expect_list d).
Proof. intros d. unfold expect_list. cl. Qed.
Lemma clean_transform_identifier : forall d, clean (transform_identifier d).
Proof. intros d. unfold transform_identifier. cl. Qed.

Lemma clean_formals_leaves : forall d, clean (formals_leaves d).
Proof.
  induction d as [p l|s l|l|a b l IHa IHb|v l IHv] using datum_rect'; cbn [formals_leaves].
  - apply clean_bind; [apply clean_transform_identifier|intros; cl].
  - apply clean_bind; [apply clean_transform_identifier|intros; cl].
  - cl.
  - apply clean_bind.
    + destruct a; try exact IHa; (apply clean_bind; [apply clean_transform_identifier|intros; cl]).
    + intros _. destruct b; try exact IHb; (apply clean_bind; [apply clean_transform_identifier|intros; cl]).
  - apply clean_bind; [apply clean_transform_identifier|intros; cl].
Qed.

Lemma clean_formals_spine : forall d, clean (formals_spine d).
Proof.
  induction d as [p l|s l|l|a b l IHa IHb|v l IHv] using datum_rect'; cbn [formals_spine]; cl.
Qed.

Lemma clean_transform_formals : forall d, clean (transform_formals d).
Proof.
  intros d. unfold transform_formals. apply clean_bind; [apply clean_formals_leaves|intros _].
  apply clean_bind; [apply clean_formals_spine|intros [fx rs]; cl].
Qed.

Lemma clean_collect_elements : forall ts last, clean (collect_elements ts last).
Proof.
  induction ts as [|[d t] r IH]; intros last; cbn [collect_elements]; [cl|].
  destruct d; try (apply clean_bind; [apply IH|intros; cl]).
  destruct (str_eqb s s_ellipsis).
  - destruct last; [apply clean_bind; [apply IH|intros; cl]|cl].
  - apply clean_bind; [apply IH|intros; cl].
Qed.

Lemma clean_transform_template : forall fuel d, clean (transform_template fuel d).
Proof.
  induction fuel as [|f IH]; intros d; cbn [transform_template]; [cl|].
  assert (E : forall items, clean (do ts <- mapM (fun x =>
                         match x with
                         | DSym s l => if str_eqb s s_ellipsis then Ok (x, TId s l)
                                       else do t <- transform_template f x ;; Ok (x, t)
                         | _ => do t <- transform_template f x ;; Ok (x, t)
                         end) items ;;
        collect_elements ts None)).
  { intros items. apply clean_bind; [|intros; apply clean_collect_elements].
    apply clean_mapM. intros x. destruct x; try (apply clean_bind; [apply IH|intros; cl]).
    destruct (str_eqb s s_ellipsis); [cl|apply clean_bind; [apply IH|intros; cl]]. }
  destruct d; try (cl; fail); (apply clean_bind; [apply E|intros; cl]).
Qed.

Lemma clean_transform_pattern_root : forall kw d, clean (transform_pattern_root kw d).
Proof. intros kw d. unfold transform_pattern_root. cl. Qed.

Lemma clean_transform_syntax_rule : forall kw d, clean (transform_syntax_rule kw d).
Proof.
  intros kw d. unfold transform_syntax_rule.
  apply clean_bind; [apply clean_expect_list|intros l].
  apply clean_bind; [apply clean_next_or_end|intros [pd r]].
  apply clean_bind; [apply clean_expect_list|intros pl].
  apply clean_bind; [apply clean_transform_pattern_root|intros p].
  apply clean_bind; [apply clean_next_or_end|intros [td r2]].
  apply clean_bind; [apply clean_transform_template|intros t]. cl.
Qed.

Lemma clean_transform_transformer : forall kw d, clean (transform_transformer kw d).
Proof.
  intros kw d. unfold transform_transformer.
  apply clean_bind; [apply clean_expect_list|intros l]. cbv zeta.
  apply clean_bind; [apply clean_next_or_end|intros [first r]].
  apply clean_bind.
  - destruct first; try (cl; fail).
    all: try (apply clean_bind; [apply clean_mapM; apply clean_transform_identifier|intros; cl]; fail).
    apply clean_bind; [apply clean_next_or_end|intros [ld r']].
    apply clean_bind; [apply clean_expect_list|intros ll].
    apply clean_bind; [apply clean_mapM; apply clean_transform_identifier|intros; cl].
  - intros [[ell lits] rules_d].
    apply clean_bind; [apply clean_mapM; apply clean_transform_syntax_rule|intros; cl].
Qed.

Lemma clean_transform_library_name_part : forall d, clean (transform_library_name_part d).
Proof. intros d. unfold transform_library_name_part. cl. Qed.

Lemma clean_transform_identifier_pair : forall d, clean (transform_identifier_pair d).
Proof.
  intros d. unfold transform_identifier_pair.
  apply clean_bind; [apply clean_expect_list|intros l].
  apply clean_bind; [apply clean_next_or_end|intros [a r]].
  apply clean_bind; [apply clean_transform_identifier|intros a'].
  apply clean_bind; [apply clean_next_or_end|intros [b r2]].
  apply clean_bind; [apply clean_transform_identifier|intros b']. cl.
Qed.

Lemma clean_transform_import_set : forall fuel d, clean (transform_import_set fuel d).
Proof.
  induction fuel as [|f IH]; intros d; cbn [transform_import_set]; [cl|].
  repeat first
    [ apply clean_ok | apply clean_err | apply clean_oof | apply IH | apply clean_next_or_end | apply clean_expect_list
    | apply clean_transform_identifier | apply clean_transform_identifier_pair | apply clean_transform_library_name_part
    | apply clean_mapM; intros
    | progress unfold err, lerr
    | match goal with
      | |- clean (bind _ _) => apply clean_bind; [|intros]
      | |- clean (let '(_, _) := ?x in _) => destruct x
      | |- clean (if ?b then _ else _) => destruct b
      | |- clean (match ?x with _ => _ end) => destruct x
      end ].
Qed.

Lemma clean_transform_import_decl : forall ds, clean (transform_import_decl ds).
Proof. intros ds. unfold transform_import_decl. apply clean_mapM. intros d. apply clean_transform_import_set. Qed.

Lemma clean_transform_export_spec : forall d, clean (transform_export_spec d).
Proof.
  intros d. unfold transform_export_spec.
  repeat first
    [ apply clean_ok | apply clean_err | apply clean_next_or_end | apply clean_transform_identifier
    | progress unfold err, lerr
    | match goal with
      | |- clean (bind _ _) => apply clean_bind; [|intros]
      | |- clean (let '(_, _) := ?x in _) => destruct x
      | |- clean (if ?b then _ else _) => destruct b
      | |- clean (match ?x with _ => _ end) => destruct x
      end ].
Qed.

(** ** macro use: matching cannot panic (MacroNoPanic.v), substitution has no panic site *)
Lemma clean_subst_item : forall fuel t s idx, clean (subst_item fuel t s idx).
Proof.
  induction fuel as [|f IH]; intros t s idx; cbn [subst_item]; [cl|].
  assert (G : forall els, clean ((fix go (els : list (template * bool)) : res (option (list datum)) :=
        match els with
        | [] => Ok (Some [])
        | (t', _) :: r =>
            do o <- subst_item f t' s idx ;;
            match o with
            | None => Ok None
            | Some d => do os <- go r ;;
                        Ok (match os with Some l => Some (d :: l) | None => None end)
            end
        end) els)).
  { induction els as [|[t' b] r IHr]; [cl|]. apply clean_bind; [apply IH|intros [d|]; [|cl]].
    apply clean_bind; [exact IHr|intros; cl]. }
  destruct t; try (apply clean_bind; [apply G|intros; cl]); cl.
Qed.

Lemma clean_subst_items_from : forall fuel t s idx, clean (subst_items_from fuel t s idx).
Proof.
  induction fuel as [|f IH]; intros t s idx; cbn [subst_items_from]; [cl|].
  apply clean_bind; [apply clean_subst_item|intros [d|]; [|cl]].
  apply clean_bind; [apply IH|intros; cl].
Qed.

Lemma clean_substitute : forall fuel t s, clean (substitute fuel t s).
Proof.
  induction fuel as [|f IH]; intros t s; cbn [substitute]; [cl|].
  assert (G : forall els, clean ((fix go (els : list (template * bool)) : res (list datum) :=
        match els with
        | [] => Ok []
        | (t', ell) :: r =>
            do first <- substitute f t' s ;;
            do more <- (if ell then subst_items_from f t' s 0 else Ok []) ;;
            do rest <- go r ;;
            Ok (first ++ more ++ rest)
        end) els)).
  { induction els as [|[t' b] r IHr]; [cl|]. apply clean_bind; [apply IH|intros first].
    apply clean_bind; [destruct b; [apply clean_subst_items_from|cl]|intros more].
    apply clean_bind; [exact IHr|intros; cl]. }
  destruct t; try (apply clean_bind; [apply G|intros; cl]); cl.
Qed.

Lemma clean_apply_rules : forall rules lits d, clean (apply_rules rules lits d).
Proof.
  induction rules as [|[p t] r IH]; intros lits d; cbn [apply_rules]; [cl|].
  apply clean_bind; [intros x; apply matcher_never_misses_a_key|intros [b s]].
  destruct b; [|apply IH]. apply clean_bind; [apply clean_substitute|intros out]. cl.
Qed.

Lemma clean_transform_use : forall tr d, clean (transform_use tr d).
Proof. intros tr d. apply clean_apply_rules. Qed.

(** ** the monad over the syntax environment *)
Definition cleanM {A} (m : M A) : Prop := forall e x e', m e <> (Panic x, e').

Lemma cleanM_ret : forall {A} (a : A), cleanM (ret a).
Proof. intros A a e x e' H. discriminate. Qed.
Lemma cleanM_lift : forall {A} (r : res A), clean r -> cleanM (lift r).
Proof. intros A r H e x e' E. unfold lift in E. injection E as E _. exact (H x E). Qed.
Lemma cleanM_bind : forall {A B} (m : M A) (k : A -> M B), cleanM m -> (forall a, cleanM (k a)) -> cleanM (bindM m k).
Proof.
  intros A B m k Hm Hk e x e' E. unfold bindM in E. destruct (m e) as [[a|kk l|y|] e1] eqn:Em; try discriminate.
  - exact (Hk a e1 x e' E).
  - injection E as -> ->. exact (Hm e x e' Em).
Qed.
Lemma cleanM_in_child : forall {A} (m : M A), cleanM m -> cleanM (in_child m).
Proof.
  intros A m H e x e' E. unfold in_child in E. destruct (m ([] :: e)) as [r e1] eqn:Em. injection E as -> _.
  exact (H _ _ _ Em).
Qed.
Lemma cleanM_mapMM : forall {A B} (f : A -> M B) l, (forall a, cleanM (f a)) -> cleanM (mapMM f l).
Proof.
  intros A B f l H. induction l as [|a r IH]; cbn; [apply cleanM_ret|].
  apply cleanM_bind; [apply H|intros y]. apply cleanM_bind; [exact IH|intros; apply cleanM_ret].
Qed.

Section Step.
Variable rec : datum -> M stmt.
Hypothesis Hrec : forall d, cleanM (rec d).

Lemma cleanM_to_expr : forall x, cleanM (to_expr_with rec x).
Proof.
  intros x. unfold to_expr_with. apply cleanM_bind; [apply Hrec|intros s].
  destruct s; try apply cleanM_ret; apply cleanM_lift; cl.
Qed.

Lemma cleanM_body_go : forall ds defs exprs, cleanM (body_go rec ds defs exprs).
Proof.
  induction ds as [|x r IH]; intros defs exprs; cbn [body_go].
  - destruct exprs; [apply cleanM_lift; cl|apply cleanM_ret].
  - apply cleanM_bind; [apply Hrec|intros s]. destruct s; try (apply cleanM_lift; cl); try apply IH.
    destruct exprs; [apply IH|apply cleanM_lift; cl].
Qed.

Ltac clm :=
  repeat first
    [ apply cleanM_ret | apply cleanM_to_expr | apply cleanM_body_go | apply Hrec
    | apply cleanM_in_child
    | apply cleanM_mapMM; intros
    | apply cleanM_lift;
      first [ apply clean_next_or_end | apply clean_expect_list | apply clean_transform_identifier | apply clean_transform_formals
            | apply clean_transform_import_decl | apply clean_transform_transformer | apply clean_transform_use
            | apply clean_mapM; intros; first [apply clean_transform_library_name_part | apply clean_transform_export_spec]
            | solve [cl] ]
    | match goal with
      | |- cleanM (bindM _ _) => apply cleanM_bind; [|intros]
      | |- cleanM (let '(_, _) := ?x in _) => destruct x
      | |- cleanM (if ?b then _ else _) => destruct b
      | |- cleanM (match ?x with _ => _ end) => destruct x
      end ].

Lemma cleanM_step : forall d, cleanM (transform_step rec d).
Proof.
  intros d. unfold transform_step, body_with. cbv zeta.
  destruct d as [p l|x l|l|first rest l|v l]; try (clm; fail).
  destruct (negb (is_pair_datum rest)); [clm|].
  destruct first; try (clm; fail).
  repeat match goal with |- cleanM (if ?b then _ else _) => destruct b end; try (clm; fail).
  - (* define-syntax *)
    apply cleanM_bind; [clm|intros [kd r]]. apply cleanM_bind; [clm|intros keyword].
    apply cleanM_bind; [clm|intros [td r2]]. apply cleanM_bind; [clm|intros tr].
    intros e x e' E. discriminate.
  - (* macro use or call *)
    intros e x e' E. destruct (senv_get e s) as [tr|].
    + revert E. generalize e x e'. match goal with |- forall e x e', ?m e = _ -> False => change (cleanM m) end. apply cleanM_bind; [clm|intros ex; apply Hrec].
    + revert E. generalize e x e'. change (cleanM (dom fe <- to_expr_with rec (DSym s l0);; dom args <- mapMM (to_expr_with rec) (datum_items rest);; ret (SExpr (ECall fe args (dloc (DCons (DSym s l0) rest l)))))). clm.
Qed.
End Step.

Theorem transformer_never_panics : forall fuel d e x e', transform_stmt fuel d e <> (Panic x, e').
Proof.
  induction fuel as [|f IH]; intros d; [intros e x e' E; discriminate|].
  cbn [transform_stmt]. apply cleanM_step. exact IH.
Qed.
